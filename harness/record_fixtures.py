"""Record the BER encodings the repository's own tests decode (binding B inputs of C04).

Runs tests/test_ber.py of $VERIF_REPO with the public API wrapped from outside (no source hooks):
asn1tools.compile_files / compile_string / compile_dict remember how each Specification was built,
Specification.decode records (recipe, type name, octets) of every call that returned a value.

  record_fixtures.py --out <dir> [--max N]
writes  <dir>/fx_cases.ndjson   {cid, raw:[octets]}                    (read by TLC: TlvRewrite)
        <dir>/fx_meta.ndjson    {cid, raw, type, codec, recipe, source} (read by drive_rewrite.py)
        <dir>/recipe-<h>.pkl    the dictionary handed to compile_dict
No encoding rules here.
"""
import argparse
import copy
import hashlib
import json
import os
import pickle
import sys
import unittest

REPO = os.environ.get('VERIF_REPO', '/repo')


def main():
    ap = argparse.ArgumentParser()
    ap.add_argument('--out', required=True)
    ap.add_argument('--max', type=int, default=100000)
    ap.add_argument('--maxlen', type=int, default=2500)
    ap.add_argument('--tests', default='tests.test_ber')
    a = ap.parse_args()
    os.makedirs(a.out, exist_ok=True)
    os.chdir(REPO)
    sys.path.insert(0, REPO)
    import asn1tools
    from asn1tools import compiler as acomp

    records = []
    current = {'test': ''}

    def codec_of(args, kw, pos):
        if 'codec' in kw:
            return kw['codec']
        return args[pos] if len(args) > pos else 'ber'

    def clean_kw(args, kw):
        k = {x: kw[x] for x in ('numeric_enums', 'any_defined_by_choices', 'encoding') if x in kw}
        return k

    orig_files, orig_string, orig_dict = asn1tools.compile_files, asn1tools.compile_string, asn1tools.compile_dict

    def tag(spec, recipe):
        try:
            spec._verif_recipe = recipe
        except Exception:
            pass
        return spec

    def compile_files(filenames, *args, **kw):
        spec = orig_files(filenames, *args, **kw)
        names = [filenames] if isinstance(filenames, str) else list(filenames)
        return tag(spec, {'kind': 'files', 'files': [os.path.relpath(os.path.abspath(f), REPO) for f in names],
                          'codec': codec_of(args, kw, 0), 'kw': clean_kw(args, kw)})

    def compile_string(string, *args, **kw):
        spec = orig_string(string, *args, **kw)
        return tag(spec, {'kind': 'string', 'text': string, 'codec': codec_of(args, kw, 0), 'kw': clean_kw(args, kw)})

    def compile_dict(specification, *args, **kw):
        saved = copy.deepcopy(specification)
        spec = orig_dict(specification, *args, **kw)
        blob = pickle.dumps(saved)
        path = os.path.join(a.out, 'recipe-%s.pkl' % hashlib.sha1(blob).hexdigest()[:12])
        if not os.path.exists(path):
            with open(path, 'wb') as f:
                f.write(blob)
        return tag(spec, {'kind': 'dict', 'pickle': path, 'codec': codec_of(args, kw, 0), 'kw': clean_kw(args, kw)})

    asn1tools.compile_files, asn1tools.compile_string, asn1tools.compile_dict = compile_files, compile_string, compile_dict
    orig_decode = acomp.Specification.decode

    def decode(self, name, data, *args, **kw):
        value = orig_decode(self, name, data, *args, **kw)
        recipe = getattr(self, '_verif_recipe', None)
        if recipe is not None and recipe['codec'] == 'ber' and isinstance(data, (bytes, bytearray)) \
                and 2 <= len(data) <= a.maxlen:
            records.append((recipe, name, bytes(data), current['test']))
        return value

    acomp.Specification.decode = decode

    class Result(unittest.TestResult):
        def startTest(self, test):
            current['test'] = test.id()
            super().startTest(test)

    suite = unittest.defaultTestLoader.loadTestsFromName(a.tests)
    res = Result()
    suite.run(res)
    seen = set()
    n = 0
    with open(os.path.join(a.out, 'fx_cases.ndjson'), 'w') as fc, open(os.path.join(a.out, 'fx_meta.ndjson'), 'w') as fm:
        for recipe, name, data, test in records:
            try:
                rkey = json.dumps(recipe, sort_keys=True, default=repr)
                json.dumps(recipe)
            except (TypeError, ValueError):
                continue
            key = hashlib.sha1((rkey + '|' + name + '|' + data.hex()).encode()).hexdigest()[:12]
            if key in seen:
                continue
            seen.add(key)
            if n >= a.max:
                break
            n += 1
            cid = 'fx-' + key
            fc.write(json.dumps({'cid': cid, 'raw': list(data)}) + '\n')
            fm.write(json.dumps({'cid': cid, 'raw': list(data), 'type': name, 'codec': 'ber', 'recipe': recipe,
                                 'source': test}) + '\n')
    print('recorded %d distinct decode calls (%d calls, %d tests run, %d errors, %d failures)' % (
        n, len(records), res.testsRun, len(res.errors), len(res.failures)))


if __name__ == '__main__':
    main()
