"""C17: replay TLC-generated cache histories on a REAL cache directory (real asn1tools.compile_files
from $VERIF_REPO, real diskcache) and record what happened.  One output line per replayed history:

  {"cid", "world", "mode", "case": <the input case>, "chunks": {id: text},
   "ev": [ {"t":"call"|"kill"|"corrupt", ...} ]}

call / kill events carry the abstract arguments (fl, codec, ne, adbc), the chunk sequences of the
files at that moment ("texts"), what the cached call did ("cached"), what an uncached compile of the
same files/options does ("fresh"), and the diskcache wrapper events of the call ("wr").
An outcome is {"st":"ok","map":<behaviour-map id>} | {"st":"exc","cls","mro","msg","site"} |
{"st":"timeout"} | {"st":"died","sig":n}.  The behaviour map of a Specification is what it does on a
fixed probe set (encode with constraint checks, decode of the result, decode of fixed octets).

Every cached call runs in a forked child (a separate process, like a separate program run); a
killed call runs in a child that is SIGKILLed at a chosen instant:
  {"kind":"sys","sys":"pwrite64","n":17}   strace -p <child> -e inject=pwrite64:signal=KILL:when=17
  {"kind":"marker","m":"parse_end"}        the child kills itself when the wrapper marker is reached
  {"kind":"delay","ms":120}                 SIGKILL after a delay (also the fallback without strace)
A case may contain one *sweep* step whose concrete points are enumerated here from observed facts
(syscall counts of the populating call in that very state, sizes of the cache files): the steps
before it are executed once, the directory is snapshotted, and for every point the snapshot is
restored, the step is executed with that point, and the remaining steps follow.

No judgement is made here (spec/Trace_Cache.tla does that).  Run with /venv/bin/python.
"""
import hashlib
import json
import os
import random
import resource
import shutil
import signal
import subprocess
import sys
import time
import traceback

HERE = os.path.dirname(os.path.abspath(__file__))
sys.path.insert(0, HERE)
REPO = os.environ.get('VERIF_REPO', '/repo')
sys.path.insert(0, REPO)

CALL_TIMEOUT = int(os.environ.get('VERIF_CALL_TIMEOUT', '60'))
KILL_SYSCALLS = ['write', 'pwrite64', 'fsync', 'fdatasync', 'rename', 'unlink']

# ----------------------------------------------------------------------------------------
# chunk texts: the concrete meaning of the abstract contents of spec/Cache.tla (Content)

MOD_A1 = '''A DEFINITIONS AUTOMATIC TAGS ::= BEGIN
  T ::= SEQUENCE { x INTEGER (0..255), e E DEFAULT green }
  E ::= ENUMERATED { red(0), green(1), blue(5) }
  Q ::= SEQUENCE { id INTEGER, val ANY DEFINED BY id }
  L ::= SET OF INTEGER (0..255)
END
'''
MOD_A2 = '''A DEFINITIONS AUTOMATIC TAGS ::= BEGIN
  T ::= SEQUENCE { x INTEGER (0..65535), e E DEFAULT red, y BOOLEAN OPTIONAL }
  E ::= ENUMERATED { red(0), green(1), blue(7) }
  Q ::= SEQUENCE { id INTEGER, val ANY DEFINED BY id }
  L ::= SET OF INTEGER (0..65535)
END
'''
MOD_B1 = '''B DEFINITIONS AUTOMATIC TAGS ::= BEGIN
  U ::= SEQUENCE { n INTEGER (1..16), c C }
  C ::= ENUMERATED { low(0), high(1) }
  R ::= SEQUENCE { id INTEGER, val ANY DEFINED BY id }
END
'''
MOD_B2 = '''B DEFINITIONS AUTOMATIC TAGS ::= BEGIN
  U ::= SEQUENCE { n INTEGER (1..4096), c C, d BOOLEAN DEFAULT TRUE }
  C ::= ENUMERATED { low(0), high(3) }
  R ::= SEQUENCE { id INTEGER, val ANY DEFINED BY id }
END
'''
# split world: chunk 2 is a one-line module that ends by opening a comment; chunk 3 is a one-line
# module.  parse_files joins files with a newline, so  [1] + [2,3]  comments module B out while
# [1,2] + [3]  does not -- the concatenated bytes are the same.
MOD_X = ('X DEFINITIONS AUTOMATIC TAGS ::= BEGIN V ::= INTEGER (0..7) '
         'XQ ::= SEQUENCE { id INTEGER, val ANY DEFINED BY id } END -- ')
MOD_B_LINE = ' '.join(MOD_B1.split()) + '\n'
MOD_BROKEN = 'A DEFINITIONS AUTOMATIC TAGS ::= BEGIN\n  T ::= SEQUENCE { x INTEGER (0..255), e E DEFAULT\nEND\n'

CHUNKS = {
    'plain': {1: (MOD_A1, ['A']), 2: (MOD_A2, ['A']), 3: (MOD_B1, ['B']), 4: (MOD_B2, ['B'])},
    'split': {1: (MOD_A1, ['A']), 2: (MOD_X, ['X']), 3: (MOD_B_LINE, ['B'])},
    'broken': {1: (MOD_A1, ['A']), 9: (MOD_BROKEN, []), 3: (MOD_B1, ['B']), 4: (MOD_B2, ['B'])},
    'dup': {1: (MOD_A1, ['A']), 2: (MOD_A2, ['A'])},       # one module name in both files: the later file wins
}
# Content of spec/Cache.tla: path -> version -> chunk sequence
CONTENT = {
    'plain': {'a': {1: [1], 2: [2]}, 'b': {1: [3], 2: [4]}},
    'split': {'a': {1: [1], 2: [1, 2]}, 'b': {1: [2, 3], 2: [3]}},
    'broken': {'a': {1: [1], 2: [9]}, 'b': {1: [3], 2: [4]}},
    'dup': {'a': {1: [1], 2: [1]}, 'b': {1: [2], 2: [2]}},
}
ADB_LOCATION = {'A': ('A', 'Q', 'val'), 'B': ('B', 'R', 'val'), 'X': ('X', 'XQ', 'val')}
ADB_VARIANT = {1: {1: 'INTEGER', 2: 'BOOLEAN'}, 2: {1: 'BOOLEAN', 2: 'OCTET STRING'}}


def live_modules(world, chunks_per_file):
    """Modules that exist in the parsed text (in the split world module B directly after chunk 2 in
    the same file is inside the comment that chunk 2 opens)."""
    mods = []
    for seq in chunks_per_file:
        for i, ch in enumerate(seq):
            if world == 'split' and ch == 3 and i > 0 and seq[i - 1] == 2:
                continue
            mods += CHUNKS[world][ch][1]
    return mods


def adbc_dict(world, chunks_per_file, variant):
    if not variant:
        return None
    d = {}
    for m in live_modules(world, chunks_per_file):
        d[ADB_LOCATION[m]] = dict(ADB_VARIANT[variant])
    return d or {('A', 'Q', 'val'): dict(ADB_VARIANT[variant])}


# ----------------------------------------------------------------------------------------
# behaviour map

PROBES = [
    ('T', {'x': 1, 'e': 'red'}), ('T', {'x': 1, 'e': 0}), ('T', {'x': 300, 'e': 'blue'}),
    ('T', {'x': 300, 'e': 5}), ('T', {'x': 7}), ('T', {'x': 2, 'e': 'green', 'y': True}),
    ('E', 'blue'), ('E', 5), ('E', 7),
    ('Q', {'id': 1, 'val': 5}), ('Q', {'id': 1, 'val': b'\x02\x01\x05'}), ('Q', {'id': 2, 'val': True}),
    ('Q', {'id': 2, 'val': b'\x01\x01\xff'}), ('Q', {'id': 1, 'val': True}),
    ('L', [2, 1]), ('L', [300]),
    ('U', {'n': 3, 'c': 'high'}), ('U', {'n': 3, 'c': 1}), ('U', {'n': 1000, 'c': 'low'}), ('U', {'n': 2, 'c': 3}),
    ('C', 'high'), ('C', 3),
    ('R', {'id': 1, 'val': 5}), ('R', {'id': 2, 'val': b'\x01\x01\xff'}), ('R', {'id': 1, 'val': True}),
    ('V', 5), ('V', 9),
    ('XQ', {'id': 1, 'val': 5}), ('XQ', {'id': 1, 'val': True}),
]
DECODE_PROBES = [
    ('T', '3006800101810100'), ('T', '3006800101810101'), ('T', '300780020100810105'), ('T', '0100'), ('T', '012c'),
    ('E', '0a0105'), ('E', '80'), ('Q', '3006800101020105'), ('Q', '30068001020101ff'),
    ('U', '3006800103810101'), ('U', '21'), ('U', '2000'), ('R', '3006800101020105'), ('L', '3106020101020102'),
    ('V', '020105'), ('V', 'a0'),
]


def show(v):
    if isinstance(v, (bytes, bytearray)):
        return 'h:' + bytes(v).hex()
    if isinstance(v, dict):
        return '{' + ','.join('%s=%s' % (k, show(v[k])) for k in v) + '}'
    if isinstance(v, (list, tuple)):
        return '[' + ','.join(show(x) for x in v) + ']'
    return repr(v)


def attempt(fn):
    try:
        return fn()
    except BaseException as e:  # noqa: the class and text of the error is the behaviour
        if isinstance(e, (KeyboardInterrupt, SystemExit)) or type(e).__name__ == 'CpuTimeout':
            raise
        return 'E:%s:%s' % (type(e).__name__, str(e)[:120])


def behaviour_map(spec):
    m = {}
    for i, (name, value) in enumerate(PROBES):
        enc = attempt(lambda: spec.encode(name, value, check_constraints=True))
        if isinstance(enc, (bytes, bytearray)):
            m['e%d' % i] = bytes(enc).hex()
            m['d%d' % i] = attempt(lambda: show(spec.decode(name, bytes(enc), check_constraints=True)))
        else:
            m['e%d' % i] = enc
    for i, (name, hx) in enumerate(DECODE_PROBES):
        m['x%d' % i] = attempt(lambda: show(spec.decode(name, bytes.fromhex(hx))))
    m['types'] = attempt(lambda: ','.join(sorted(spec.types)))
    m['modules'] = attempt(lambda: ','.join(sorted(spec.modules)))
    return m


def map_id(m):
    return hashlib.sha1(json.dumps(m, sort_keys=True).encode()).hexdigest()[:16]


def site_of(tb):
    """innermost asn1tools frame (module.function), followed by the innermost frame of all when
    that lies outside asn1tools (diskcache, pickle, sqlite3)."""
    site, last, last_in = '', '', False
    for fs in traceback.extract_tb(tb):
        mod = os.path.basename(fs.filename)
        mod = mod[:-3] if mod.endswith('.py') else mod
        last = '%s.%s' % (mod, fs.name)
        last_in = '/asn1tools/' in fs.filename
        if last_in:
            site = fs.filename.split('/asn1tools/')[-1][:-3].replace('/', '.') + '.' + fs.name
    if site and not last_in:
        return site + '>' + last
    return site or last


def exc_outcome(e, tb):
    return {'st': 'exc', 'cls': type(e).__name__,
            'mro': [c.__module__ + '.' + c.__name__ for c in type(e).__mro__
                    if c.__name__ not in ('object', 'BaseException')],
            'msg': str(e)[:200], 'site': site_of(tb)}


# ----------------------------------------------------------------------------------------
# one real call (runs in the forked child for cached calls, in the driver itself for fresh ones)

def compile_outcome(paths, codec, adbc, ne, cache_dir):
    """Returns (outcome, full behaviour map or None)."""
    import asn1tools
    try:
        spec = asn1tools.compile_files(paths, codec, any_defined_by_choices=adbc,
                                       cache_dir=cache_dir, numeric_enums=ne)
    except BaseException as e:  # noqa
        if isinstance(e, (KeyboardInterrupt, SystemExit)) or type(e).__name__ == 'CpuTimeout':
            raise
        return exc_outcome(e, sys.exc_info()[2]), None
    try:
        m = behaviour_map(spec)
    except BaseException as e:  # noqa
        if type(e).__name__ == 'CpuTimeout':
            raise
        return {'st': 'exc', 'cls': 'ProbeFailure:' + type(e).__name__, 'mro': [], 'msg': str(e)[:200], 'site': 'probe'}, None
    return {'st': 'ok', 'map': map_id(m)}, m


OPENED = []     # diskcache.Cache objects created in this (child) process


class EventLog(object):
    """Append-only event file written with writev (a syscall outside the injected set), one JSON
    object per line, so that everything logged before a SIGKILL survives."""

    def __init__(self, path):
        self.fd = os.open(path, os.O_WRONLY | os.O_CREAT | os.O_APPEND, 0o644)

    def put(self, ev):
        os.writev(self.fd, [(json.dumps(ev) + '\n').encode()])


def install_wrappers(log, kill_marker):
    """Wrap diskcache.Cache.__init__/__getitem__/get/__setitem__/set and the names
    asn1tools.compiler.parse_files / compile_dict from outside.  Tolerant: what does not exist is
    not wrapped."""
    def mark(name):
        log.put({'op': 'mark', 'm': name})
        if kill_marker == name:
            os.kill(os.getpid(), signal.SIGKILL)

    def kh(key):
        b = key if isinstance(key, (bytes, bytearray)) else repr(key).encode()
        return hashlib.sha1(bytes(b)).hexdigest()[:16]

    try:
        import diskcache
        C = diskcache.Cache
    except Exception:  # noqa
        C = None
    depth = {'get': 0, 'set': 0}
    if C is not None:
        if hasattr(C, '__init__'):
            o_init = C.__init__

            def w_init(self, *a, **k):
                mark('open_begin')
                r = o_init(self, *a, **k)
                OPENED.append(self)
                mark('open_end')
                return r
            C.__init__ = w_init

        def wrap_get(name, by_default):
            orig = getattr(C, name)

            def w(self, key, *a, **k):
                if depth['get'] or depth['set']:
                    return orig(self, key, *a, **k)
                depth['get'] += 1
                try:
                    mark('get_begin')
                    try:
                        v = orig(self, key, *a, **k)
                    except KeyError:
                        log.put({'op': 'get', 'kh': kh(key), 'r': 'miss'})
                        mark('get_miss')
                        raise
                    except BaseException as e:  # noqa
                        log.put({'op': 'get', 'kh': kh(key), 'r': 'err', 'cls': type(e).__name__})
                        raise
                    if by_default:
                        default = a[0] if a else k.get('default')
                        hit = v is not default
                    else:
                        hit = True
                    log.put({'op': 'get', 'kh': kh(key), 'r': 'hit' if hit else 'miss'})
                    mark('get_hit' if hit else 'get_miss')
                    return v
                finally:
                    depth['get'] -= 1
            setattr(C, name, w)

        def wrap_set(name):
            orig = getattr(C, name)

            def w(self, key, value, *a, **k):
                if depth['set'] or depth['get']:
                    return orig(self, key, value, *a, **k)
                depth['set'] += 1
                try:
                    log.put({'op': 'set', 'kh': kh(key), 'r': 'begun'})
                    mark('set_begin')
                    try:
                        r = orig(self, key, value, *a, **k)
                    except BaseException as e:  # noqa
                        log.put({'op': 'set', 'kh': kh(key), 'r': 'err', 'cls': type(e).__name__})
                        raise
                    log.put({'op': 'set', 'kh': kh(key), 'r': 'ok'})
                    mark('set_end')
                    return r
                finally:
                    depth['set'] -= 1
            setattr(C, name, w)

        for n, d in (('__getitem__', False), ('get', True)):
            if hasattr(C, n):
                wrap_get(n, d)
        for n in ('__setitem__', 'set'):
            if hasattr(C, n):
                wrap_set(n)
    try:
        import asn1tools.compiler as ac
        for n, m_in, m_out in (('parse_files', 'parse_begin', 'parse_end'), ('compile_dict', 'compile_begin', 'compile_end')):
            if hasattr(ac, n):
                def mk(orig, m_in, m_out):
                    def w(*a, **k):
                        mark(m_in)
                        r = orig(*a, **k)
                        mark(m_out)
                        return r
                    return w
                setattr(ac, n, mk(getattr(ac, n), m_in, m_out))
    except Exception:  # noqa
        pass
    return mark


def child_body(paths, codec, adbc, ne, cache_dir, evpath, kill_marker, gate, normal_exit=True):
    """Never returns.  normal_exit: do what interpreter finalisation does to the cache before leaving
    (collect the diskcache object: its sqlite connection closes and the WAL is checkpointed into
    cache.db); otherwise leave abruptly, as os._exit / a crash after the call would."""
    try:
        import gc
        gc.freeze()       # do not let collections walk (and copy) the heap inherited from the driver
        try:
            resource.setrlimit(resource.RLIMIT_AS, (4 << 30, 4 << 30))
            # a call that spins is cut by its CPU time (SIGXCPU), one that sleeps by the wall clock
            # of the parent -- so that an overloaded machine does not look like a hang
            resource.setrlimit(resource.RLIMIT_CPU, (CALL_TIMEOUT, CALL_TIMEOUT + 5))
            resource.setrlimit(resource.RLIMIT_CORE, (0, 0))
        except Exception:  # noqa
            pass
        log = EventLog(evpath)
        mark = install_wrappers(log, kill_marker)
        if gate is not None:
            os.read(gate, 1)
        mark('begin')
        out, m = compile_outcome(paths, codec, adbc, ne, cache_dir)
        mark('return')
        log.put({'op': 'result', 'out': out, 'map': m or {}})
        if normal_exit:
            for c in OPENED:          # what interpreter finalisation does: the sqlite connections close
                try:
                    c.close()
                except BaseException:  # noqa
                    pass
    except BaseException as e:  # noqa
        try:
            EventLog(evpath).put({'op': 'result', 'out': {'st': 'exc', 'cls': 'DriverChild:' + type(e).__name__,
                                                          'mro': [], 'msg': str(e)[:200], 'site': 'driver'}, 'map': {}})
        except BaseException:  # noqa
            pass
    finally:
        os._exit(0)


def read_events(evpath):
    evs = []
    if os.path.exists(evpath):
        with open(evpath, 'rb') as f:
            for line in f.read().split(b'\n'):
                if line.strip():
                    try:
                        evs.append(json.loads(line))
                    except ValueError:
                        pass
    return evs


STRACE = shutil.which('strace')
_strace_ok = None


def run_child(paths, codec, adbc, ne, cache_dir, evpath, kill=None, trace_to=None, normal_exit=True):
    """Run the cached call in a forked child.  kill: None | {"kind":"sys"|"marker"|"delay", ...}.
    trace_to: path -> only count syscalls with strace (profiling), no injection.
    Returns (wait status, events, how) where how tells how a kill was realised."""
    global _strace_ok
    if os.path.exists(evpath):
        os.unlink(evpath)
    use_strace = (trace_to is not None or (kill and kill['kind'] == 'sys')) and STRACE and _strace_ok is not False
    how = 'none'
    gate_r = gate_w = None
    if use_strace:
        gate_r, gate_w = os.pipe()
    marker = kill['m'] if kill and kill['kind'] == 'marker' else None
    sys.stdout.flush()
    pid = os.fork()
    if pid == 0:
        if gate_w is not None:
            os.close(gate_w)
        child_body(paths, codec, adbc, ne, cache_dir, evpath, marker, gate_r, normal_exit)
    st = None
    sp = None
    try:
        if use_strace:
            os.close(gate_r)
            if trace_to is not None:
                cmd = [STRACE, '-f', '-p', str(pid), '-o', trace_to, '-s', '60', '-e',
                       'trace=' + ','.join(KILL_SYSCALLS + ['writev'])]
            else:
                cmd = [STRACE, '-f', '-p', str(pid), '-o', '/dev/null', '-e', 'trace=' + kill['sys'],
                       '-e', 'inject=%s:signal=KILL:when=%d' % (kill['sys'], kill['n'])]
            sp = subprocess.Popen(cmd, stderr=subprocess.PIPE, stdout=subprocess.DEVNULL)
            attached = False
            t0 = time.time()
            os.set_blocking(sp.stderr.fileno(), False)
            buf = b''
            while time.time() - t0 < 20:
                try:
                    chunk = sp.stderr.read()
                except Exception:  # noqa
                    chunk = None
                if chunk:
                    buf += chunk
                    if b'attached' in buf:
                        attached = True
                        break
                if sp.poll() is not None:
                    break
                time.sleep(0.005)
            _strace_ok = attached if _strace_ok is None else _strace_ok
            how = 'strace' if attached else 'strace-failed'
            os.write(gate_w, b'x')
            os.close(gate_w)
            if not attached and kill and kill['kind'] == 'sys':
                # fallback: SIGKILL after a delay derived from the point number
                time.sleep(0.02 + 0.002 * kill['n'])
                try:
                    os.kill(pid, signal.SIGKILL)
                except OSError:
                    pass
                how = 'delay-fallback'
        elif kill and kill['kind'] in ('delay', 'sys'):
            time.sleep(kill.get('ms', 2 * kill.get('n', 50)) / 1000.0)
            try:
                os.kill(pid, signal.SIGKILL)
            except OSError:
                pass
            how = 'delay' if kill['kind'] == 'delay' else 'delay-fallback'
        elif marker:
            how = 'marker'
        t0 = time.time()
        while True:
            r, s = os.waitpid(pid, os.WNOHANG)
            if r == pid:
                st = s
                break
            if time.time() - t0 > 10 * CALL_TIMEOUT:
                os.kill(pid, signal.SIGKILL)
                os.waitpid(pid, 0)
                st = 'timeout'
                break
            time.sleep(0.002)
    finally:
        if sp is not None:
            try:
                sp.wait(timeout=10)
            except Exception:  # noqa
                sp.kill()
                sp.wait()
    return st, read_events(evpath), how


# ----------------------------------------------------------------------------------------
# replaying one history

class Replayer(object):
    def __init__(self, root, seed):
        import asn1tools  # noqa: imported once here, so that the forked children do not pay for it
        try:
            import diskcache  # noqa
        except ImportError:
            pass
        self.root = root
        self.rng = random.Random(seed)
        self.fresh_memo = {}
        self.maps = {}
        self.recheck = 0
        self.machinery = []

    # -- files -----------------------------------------------------------------------
    def write_sources(self, src, world, files):
        os.makedirs(src, exist_ok=True)
        for p in ('a', 'b'):
            text = ''.join(CHUNKS[world][ch][0] for ch in CONTENT[world][p][files[p]])
            path = os.path.join(src, p + '.asn')
            old = None
            if os.path.exists(path):
                with open(path, 'rb') as f:
                    old = f.read()
            if old != text.encode():
                with open(path, 'wb') as f:
                    f.write(text.encode())

    def fresh(self, world, src, fl, texts, codec, ne, adbcv):
        """Uncached compile (cache_dir=None) of the files as they are now.  The result for byte-identical
        inputs is memoised per driver process; one in eight memo hits is recomputed and compared."""
        key = (world, tuple(tuple(t) for t in texts), codec, ne, adbcv)
        paths = [os.path.join(src, p + '.asn') for p in fl]
        adbc = adbc_dict(world, texts, adbcv)
        if key in self.fresh_memo:
            self.recheck += 1
            if self.recheck % 8:
                return self.fresh_memo[key]
        signal.setitimer(signal.ITIMER_PROF, CALL_TIMEOUT)     # CPU time of this process
        try:
            out, m = compile_outcome(paths, codec, adbc, ne, None)
        except CpuTimeout:
            out, m = {'st': 'timeout'}, None
        finally:
            signal.setitimer(signal.ITIMER_PROF, 0)
        if m is not None:
            self.maps.setdefault(out['map'], m)
        if key in self.fresh_memo and strip_msg(self.fresh_memo[key]) != strip_msg(out):
            self.machinery.append('uncached compile is not deterministic for %r' % (key,))
        self.fresh_memo[key] = out
        return out

    # -- steps -----------------------------------------------------------------------
    def do_call(self, case, step, src, cdir, kill=None):
        world = case['world']
        self.write_sources(src, world, step['files'])
        fl = step['fl']
        texts = [CONTENT[world][p][step['files'][p]] for p in fl]
        ne = step['ne'] == 'T'
        adbc = adbc_dict(world, texts, step['adbc'])
        paths = [os.path.join(src, p + '.asn') for p in fl]
        ev = {'t': 'kill' if kill else 'call', 'fl': fl, 'codec': step['codec'], 'ne': step['ne'], 'adbc': step['adbc'],
              'texts': texts, 'exp': step.get('exp', '-'), 'why': step.get('why', [])}
        evpath = os.path.join(os.path.dirname(cdir), 'events.ndjson')
        st, evs, how = run_child(paths, step['codec'], adbc, ne, cdir, evpath, kill=kill,
                                 normal_exit=case.get('exit', 'normal') == 'normal')
        res = [e for e in evs if e.get('op') == 'result']
        ev['wr'] = [{'op': e['op'], 'kh': e['kh'], 'r': e['r']} for e in evs if e.get('op') in ('get', 'set')]
        # a set that was begun and finished appears twice (begun, ok): keep the final state per set
        ev['wr'] = fold_sets(ev['wr'])
        marks = [e['m'] for e in evs if e.get('op') == 'mark']
        ev['last'] = marks[-1] if marks else '-'
        if st == 'timeout' or (isinstance(st, int) and not res and (st & 0x7f) == signal.SIGXCPU):
            ev['cached'] = {'st': 'timeout'}
            ev['died'] = False
        elif res:
            ev['cached'] = res[0]['out']
            if res[0]['map']:
                self.maps.setdefault(res[0]['out']['map'], res[0]['map'])
            ev['died'] = False
        else:
            sig = st & 0x7f if isinstance(st, int) else 0
            ev['cached'] = {'st': 'died', 'sig': sig}
            ev['died'] = True
        if kill:
            ev['k'] = dict(kill)
            ev['how'] = how
        ev['fresh'] = self.fresh(world, src, fl, texts, step['codec'], ne, step['adbc'])
        return ev

    def cache_files(self, cdir):
        out = []
        for r, _, fs in os.walk(cdir):
            for f in fs:
                out.append(os.path.relpath(os.path.join(r, f), cdir))
        return sorted(out)

    def do_corrupt(self, step, cdir, point):
        """point: {"fsel": int, "pos_pm": 0..999 | "pos": int, "mask": 1..255, "len": n}"""
        files = self.cache_files(cdir)
        vals = [f for f in files if f.endswith('.val')]
        dbs = [f for f in files if os.path.basename(f).startswith('cache.db')]
        want = point.get('file')
        if want:
            cands = [f for f in files if f == want or (want == '*.val' and f.endswith('.val'))]
        else:
            cands = (vals or dbs) if step['tgt'] == 'entry' else dbs
        ev = {'t': 'corrupt', 'how': step['how'], 'tgt': step['tgt'], 'changed': False, 'file': '-', 'size': 0, 'pos': 0}
        cands = [f for f in cands if os.path.getsize(os.path.join(cdir, f)) > 0]
        if not cands:
            return ev
        f = cands[point.get('fsel', 0) % len(cands)]
        path = os.path.join(cdir, f)
        size = os.path.getsize(path)
        pos = point['pos'] if 'pos' in point else (size * point.get('pos_pm', 500)) // 1000
        pos = min(pos, size - 1)
        ev.update({'file': f if not f.endswith('.val') else 'value-file', 'size': size, 'pos': pos})
        if step['how'] == 'trunc':
            with open(path, 'r+b') as fh:
                fh.truncate(pos)
            ev['changed'] = True
        else:
            n = max(1, point.get('len', 1))
            with open(path, 'r+b') as fh:
                fh.seek(pos)
                old = fh.read(n)
                new = bytes(b ^ point.get('mask', 0x01) for b in old)
                fh.seek(pos)
                fh.write(new)
            ev['changed'] = new != old
            ev['mask'] = point.get('mask', 0x01)
        return ev

    # -- sweeps ----------------------------------------------------------------------
    def profile_points(self, case, step, src, cdir, snap):
        """Syscalls of the write class made by this very call in this very state, with the wrapper
        marker that preceded each (strace -p on a forked child, no injection)."""
        world = case['world']
        self.write_sources(src, world, step['files'])
        fl = step['fl']
        texts = [CONTENT[world][p][step['files'][p]] for p in fl]
        paths = [os.path.join(src, p + '.asn') for p in fl]
        log = os.path.join(os.path.dirname(cdir), 'strace.log')
        evpath = os.path.join(os.path.dirname(cdir), 'events.ndjson')
        run_child(paths, step['codec'], adbc_dict(world, texts, step['adbc']), step['ne'] == 'T', cdir, evpath, trace_to=log)
        pts = parse_strace(log)
        restore(snap, cdir)
        return pts

    def expand(self, case, j, src, cdir, snap):
        sw = case['sweep']
        step = case['hist'][j]
        k, n = sw.get('part', [0, 1])
        if sw['kind'] in ('kill-all', 'kill-sample'):
            pts = self.profile_points(case, step, src, cdir, snap)
            phases = sw.get('phases')
            if phases:
                pts = [p for p in pts if p['phase'] in phases]
            points = [{'kind': 'sys', 'sys': p['sys'], 'n': p['n'], 'phase': p['phase']} for p in pts]
            if not points:      # no strace (or nothing traced): delays instead
                points = [{'kind': 'delay', 'ms': 10 * i} for i in range(1, 41)]
            if sw['kind'] == 'kill-sample':
                r = random.Random(sw.get('seed', 0))
                r.shuffle(points)
                points = points[:sw.get('count', 16)]
            points = [p for i, p in enumerate(points) if i % n == k]
            return points
        if sw['kind'] in ('flip-dense', 'trunc-dense'):
            files = [f for f in self.cache_files(cdir) if os.path.getsize(os.path.join(cdir, f)) > 0]
            sel = sw.get('files')
            points = []
            for f in files:
                base = 'value-file' if f.endswith('.val') else os.path.basename(f)
                if sel and base not in sel:
                    continue
                size = os.path.getsize(os.path.join(cdir, f))
                stride = max(1, sw.get('stride', 1), size // max(1, sw.get('max', 400)))
                off = sw.get('offset', 0) % stride
                for pos in range(off, size, stride):
                    points.append({'file': f, 'pos': pos, 'mask': sw.get('mask', 0x01), 'len': 1})
            points = [p for i, p in enumerate(points) if i % n == k]
            return points
        return sw['points']

    def replay(self, case, out):
        cid = case['cid']
        base = os.path.join(self.root, cid.replace('/', '_'))
        shutil.rmtree(base, ignore_errors=True)
        src, cdir, snap = os.path.join(base, 'src'), os.path.join(base, 'cache'), os.path.join(base, 'snap')
        os.makedirs(base)
        try:
            if case.get('mode') == 'file':
                # a directory whose stored settings put every value into its own file (the path that
                # real, large specifications take: values above 32 KiB)
                import diskcache
                diskcache.Cache(cdir, disk_min_file_size=0).close()
            hist = case['hist']
            sweep_at = case['sweep']['step'] if case.get('sweep') else None
            prefix = []
            for j, step in enumerate(hist):
                if j == sweep_at:
                    break
                prefix.append(self.exec_step(case, step, src, cdir, step.get('p')))
            if sweep_at is None:
                self.emit(case, cid, prefix, out)
                return
            snapshot(cdir, snap)
            points = self.expand(case, sweep_at, src, cdir, snap)
            for pi, pt in enumerate(points):
                restore(snap, cdir)
                evs = list(prefix)
                evs.append(self.exec_step(case, hist[sweep_at], src, cdir, pt))
                for step in hist[sweep_at + 1:]:
                    evs.append(self.exec_step(case, step, src, cdir, step.get('p')))
                label = pt.get('phase', '') + ':' + (('%s%d' % (pt.get('sys', pt.get('m', 'd')), pt.get('n', pt.get('ms', 0))))
                                                    if 'kind' in pt else '%s@%d' % (os.path.basename(pt.get('file', 'f')), pt.get('pos', 0)))
                self.emit(case, '%s#%d:%s' % (cid, pi, label), evs, out, point=pt)
        finally:
            shutil.rmtree(base, ignore_errors=True)

    def exec_step(self, case, step, src, cdir, p):
        if step['op'] == 'call':
            return self.do_call(case, step, src, cdir)
        if step['op'] == 'kill':
            return self.do_call(case, step, src, cdir, kill=p or default_kill(step))
        return self.do_corrupt(step, cdir, p or {'fsel': 0, 'pos_pm': 500, 'mask': 1})

    def emit(self, case, cid, evs, out, point=None):
        line = {'cid': cid, 'world': case['world'], 'mode': case.get('mode', 'db'), 'exit': case.get('exit', 'normal'), 'ev': evs,
                'case': {k: v for k, v in case.items() if k != 'cid'},
                'chunks': {str(k): v[0] for k, v in CHUNKS[case['world']].items()}}
        if point is not None:
            line['point'] = {k: v for k, v in point.items()}
        if self.machinery:
            line['machinery'] = '; '.join(self.machinery)
            self.machinery = []
        out.write(json.dumps(line) + '\n')
        out.flush()


MARKER_FOR = {'called': 'begin', 'keyed': 'get_begin', 'missed': 'get_miss', 'parsed': 'parse_end',
              'compiled': 'compile_end', 'storing1': 'set_begin', 'storing2': 'set_end', 'storing3': 'set_end'}


def default_kill(step):
    return {'kind': 'marker', 'm': MARKER_FOR.get(step.get('at', 'compiled'), 'compile_end')}


def strip_msg(o):
    return {k: v for k, v in o.items() if k not in ('msg',)}


def fold_sets(wr):
    out = []
    for e in wr:
        if e['op'] == 'set' and e['r'] != 'begun' and out and out[-1]['op'] == 'set' and out[-1]['r'] == 'begun' \
                and out[-1]['kh'] == e['kh']:
            out[-1] = e
        else:
            out.append(e)
    return out


def snapshot(cdir, snap):
    shutil.rmtree(snap, ignore_errors=True)
    if os.path.exists(cdir):
        shutil.copytree(cdir, snap)


def restore(snap, cdir):
    shutil.rmtree(cdir, ignore_errors=True)
    if os.path.exists(snap):
        shutil.copytree(snap, cdir)


def parse_strace(path):
    """-> [{'sys','n','phase'}]: n-th call of that syscall since the call began, phase = last marker."""
    pts = []
    counts = {}
    phase = 'start'
    if not os.path.exists(path):
        return pts
    with open(path, errors='replace') as f:
        for line in f:
            parts = line.split(None, 1)
            if len(parts) < 2:
                continue
            rest = parts[1] if parts[0].isdigit() else line
            name = rest.split('(', 1)[0].strip()
            if name == 'writev':
                pat = '\\"m\\": \\"'
                i = rest.find(pat)
                if i >= 0:
                    phase = rest[i + len(pat):].split('\\"', 1)[0]
                continue
            if name in KILL_SYSCALLS:
                counts[name] = counts.get(name, 0) + 1
                pts.append({'sys': name, 'n': counts[name], 'phase': phase})
    return pts


class CpuTimeout(BaseException):
    pass


def _alarm(signum, frame):
    raise CpuTimeout()


def main():
    import argparse
    ap = argparse.ArgumentParser()
    ap.add_argument('--cases', required=True)
    ap.add_argument('--out', required=True)
    ap.add_argument('--shard', default='0/1')
    ap.add_argument('--root', default=None)
    ap.add_argument('--seed', type=int, default=0)
    ap.add_argument('--deadline', type=float, default=0.0, help='unix time after which remaining cases are skipped')
    a = ap.parse_args()
    k, n = [int(x) for x in a.shard.split('/')]
    root = a.root or os.path.join(os.path.dirname(os.path.abspath(a.out)), 'dirs')
    root = os.path.join(root, 'shard%d' % k)
    os.makedirs(root, exist_ok=True)
    signal.signal(signal.SIGPROF, _alarm)
    rp = Replayer(root, a.seed * 1000 + k)
    skipped = 0
    with open(a.cases) as f, open(a.out, 'w') as out:
        for idx, line in enumerate(f):
            if not line.strip() or idx % n != k:
                continue
            case = json.loads(line)
            case.setdefault('cid', 'h%d' % idx)
            if a.deadline and time.time() > a.deadline:
                skipped += 1
                continue
            rp.replay(case, out)
    with open(a.out + '.maps', 'w') as mf:
        json.dump({'maps': rp.maps, 'skipped': skipped}, mf)
    shutil.rmtree(root, ignore_errors=True)


if __name__ == '__main__':
    main()
