"""C19 -- encodings do not depend on how the specification text is organised.

TLC (spec/Arrange.tla) enumerates / simulates re-organisations of seed specifications and checks on
the model that none of them changes the Meaning of the probe type; every transition
(arrangement -> action -> arrangement) is emitted, both arrangements are rendered, compiled and run
through all codecs by harness/drive_arrange.py, and TLC (spec/Trace_Arrange.tla) judges every
transition: same behaviour before and after the action, DER bytes = DerEnc(Meaning)."""
import hashlib
import json
import os
import random
from concurrent.futures import ThreadPoolExecutor

import pipeline as pl

ALL_SEEDS = [int(x) for x in os.environ.get('VERIF_C19_SEEDS', '1,2,3,4,5,6,7,8,9,10').split(',')]   # development aid
CODECS = ['ber', 'der', 'per', 'uper', 'oer', 'jer', 'xer', 'gser']
MODEL_MUTANTS = ['InlineIgnoresAutomaticTagging', 'ExtractIgnoresAutomaticTagging',
                 'InlineCopiesTextAcrossTagDefaults', 'InlineIntoAutomaticModule']


def arrange_cfg(max_steps, emit_below, seeds, tds, invariants, max_mods=3, mutation='', view=True):
    return ('SPECIFICATION Spec\nCONSTANTS\n  MaxSteps = %d\n  EmitBelow = %d\n  SeedIds = {%s}\n'
            '  SeedTagDefs = {%s}\n  MaxMods = %d\n  Mutation = "%s"\n%s%sCHECK_DEADLOCK FALSE\n' % (
                max_steps, emit_below, ', '.join(str(s) for s in seeds),
                ', '.join('"%s"' % t for t in tds), max_mods, mutation,
                'VIEW View\n' if view else '',
                ''.join('INVARIANT %s\n' % i for i in invariants)))


def aid_of(arr):
    return hashlib.sha1(json.dumps(arr, sort_keys=True).encode()).hexdigest()[:12]


def read_edges(path, edges, seeds, stats):
    """Collect emitted transitions (dedup) and the seeds' value tables.  Lines longer than one write
    buffer can be torn when several TLC workers append at once: such lines are dropped and counted."""
    with open(path) as f:
        for line in f:
            line = line.strip()
            if not line:
                continue
            stats['lines'] += 1
            try:
                r = json.loads(line)
                r['act']['a'], r['prev']['mods'], r['arr']['mods'], r['sched'], r['steps']
            except (ValueError, KeyError, TypeError):
                stats['torn'] += 1
                continue
            if r['act']['a'] == 'Seed':
                seeds.setdefault(r['seed'], {'venv': r['venv'], 'vals': r['vals']})
            pa, ca = aid_of(r['prev']), aid_of(r['arr'])
            key = (r['seed'], pa, ca, json.dumps(r['act'], sort_keys=True))
            if key not in edges or len(r['sched']) < len(edges[key]['sched']):
                edges[key] = {'seed': r['seed'], 'act': r['act'], 'sched': r['sched'], 'steps': r['steps'],
                              'paid': pa, 'aid': ca, 'prev': r['prev'], 'arr': r['arr']}


def corrupted_trace(run, shard):
    """Anti-vacuity: the first transition of a shard with one octet flipped in what the ber and der
    encoders returned for one value; Trace_Arrange must reject both (STEP and DER checks)."""
    lines = []
    with open(shard) as f:
        for line in f:
            r = json.loads(line)
            lines.append(r)
            if r['kind'] == 'edge':
                break
    edge = lines[-1]
    for l in lines:
        l['cid'] = 'selftest-' + l['cid']
    done = set()
    for o in edge['obs']:
        e = o.get('enc', {})
        if o.get('way') == 's' and o['codec'] in ('ber', 'der') and o['codec'] not in done and e.get('st') == 'ok' and e['b']:
            e['b'][-1] ^= 1
            done.add(o['codec'])
    path = run.path('trace.selftest.ndjson')
    with open(path, 'w') as f:
        for l in lines:
            f.write(json.dumps(l) + '\n')
    return path


def c19(tier, seed):
    run = pl.Run('C19', tier, seed)
    try:
        if tier == 'dev':
            model = [(1, ALL_SEEDS, ['MeaningPreserved', 'ArrangementWellFormed'], 4)]
            emit_bfs = (1, ALL_SEEDS)
            emit_workers = 1
            sim = ('num=2', 3)
            budget = 300
            files_codecs = ['ber']
        elif tier == 'quick':
            model = [(2, ALL_SEEDS, ['MeaningPreserved', 'ArrangementWellFormed'], 8)]
            emit_bfs = (1, ALL_SEEDS)          # all transitions one step from every seed
            emit_workers = 1
            sim = ('num=10', 5)
            budget = 1700
            files_codecs = ['ber']
        else:
            model = [(3, ALL_SEEDS, ['MeaningPreserved', 'ArrangementWellFormed'], 8),
                     (2, ALL_SEEDS, ['MeaningPreservedStep', 'EncodingPreserved'], 8)]
            emit_bfs = (2, ALL_SEEDS)
            emit_workers = 4
            sim = ('num=150', 8)
            budget = 10000
            files_codecs = ['ber', 'uper', 'oer', 'xer']
        tds = os.environ.get('VERIF_C19_TDS', 'E,I,A').split(',')
        # --- M: the invariants on the model (no emission); A: transitions for the harness, exhaustive
        # near the seeds and simulated further out.  The TLC runs are independent: run them side by side.
        cap = int(os.environ.get('VERIF_TLC_WORKERS', '8'))      # throttle on a shared machine

        def model_run(spec):
            steps, seeds_, invs, workers = spec
            workers = min(workers, cap)
            return pl.tlc_generate(run, 'Arrange', arrange_cfg(steps, 0, seeds_, tds, invs),
                                   'none%d.ndjson' % steps, workers=workers, timeout=3000,
                                   what='Arrange BFS <=%d actions, invariants %s' % (steps, '+'.join(invs)))

        def bfs_run(_):
            return pl.tlc_generate(run, 'Arrange', arrange_cfg(emit_bfs[0], 99, emit_bfs[1], tds, ['Emit']),
                                   'bfs.ndjson', workers=min(emit_workers, cap), timeout=3000,
                                   what='Arrange BFS <=%d actions, every transition emitted' % emit_bfs[0])

        def sim_run(_):
            return pl.tlc_generate(run, 'Arrange',
                                   arrange_cfg(sim[1], 99, ALL_SEEDS, tds, ['Emit', 'MeaningPreserved'], view=False),
                                   'sim.ndjson', workers=1, simulate=sim[0], depth=sim[1] + 1, timeout=3000,
                                   what='Arrange simulate %s, <=%d actions' % sim)

        def mutant_run(name):
            # anti-vacuity: with a side condition of Inline / Extract removed the invariant must fail
            out, res = pl.tlc_generate(run, 'Arrange', arrange_cfg(1, 0, [2, 3, 5], ['E', 'A'], ['MeaningPreserved'], mutation=name),
                                       'mut-%s.ndjson' % name, workers=1, timeout=1200, check_ok=False,
                                       what='Arrange with mutation %s (must violate MeaningPreserved)' % name)
            return name, ('MeaningPreserved is violated' in res['error'])

        jobs = [(bfs_run, None), (sim_run, None)] + [(model_run, m) for m in model] + [(mutant_run, m) for m in MODEL_MUTANTS]
        with ThreadPoolExecutor(max_workers=len(jobs) if cap >= 8 else 1) as ex:
            futs = [ex.submit(f, a) for f, a in jobs]
            results = [f.result() for f in futs]
        killed = dict(results[2 + len(model):])
        run.notes['model_mutants_killed'] = killed
        if not all(killed.values()):
            raise pl.Machinery('model mutants not detected by MeaningPreserved: %s' % killed)
        edges, seeds, stats = {}, {}, {'lines': 0, 'torn': 0}
        read_edges(results[0][0], edges, seeds, stats)
        n_bfs = len(edges)
        read_edges(results[1][0], edges, seeds, stats)
        run.notes['emitted_lines'] = stats
        if stats['torn'] * 50 > stats['lines']:
            raise pl.Machinery('too many torn lines in the generated transitions: %s' % stats)
        edges = {k: e for k, e in edges.items() if e['seed'] in seeds}
        # which transitions are replayed: all of the exhaustive part, a seeded sample of the rest
        keys = sorted(edges)
        near = [k for k in keys if edges[k]['steps'] <= emit_bfs[0]]
        far = [k for k in keys if edges[k]['steps'] > emit_bfs[0]]
        rnd = random.Random(seed)
        rnd.shuffle(far)
        chosen = near + far[:max(0, budget - len(near))]
        run.notes['transitions_emitted'] = len(edges)
        run.notes['transitions_exhaustive'] = n_bfs
        run.notes['transitions_replayed'] = len(chosen)
        # distinct arrangements to compile
        arrs = {}
        for k in chosen:
            e = edges[k]
            arrs.setdefault((e['seed'], e['paid']), e['prev'])
            arrs.setdefault((e['seed'], e['aid']), e['arr'])
        cpath = run.path('cases.ndjson')
        with open(cpath, 'w') as f:
            for (sd, aid) in sorted(arrs):
                f.write(json.dumps({'aid': aid, 'seed': sd, 'arr': arrs[(sd, aid)],
                                    'venv': seeds[sd]['venv'], 'vals': seeds[sd]['vals']}) + '\n')
        run.notes['arrangements_compiled'] = len(arrs)
        oshards = pl.drive(run, 'drive_arrange.py', cpath, 'obs',
                           ['--codecs', ','.join(CODECS), '--files-codecs', ','.join(files_codecs)]
                           + (['--api'] if tier != 'quick' and os.environ.get('VERIF_C19_API') else []))
        obs = {}
        for s in oshards:
            with open(s) as f:
                for line in f:
                    if line.strip():
                        r = json.loads(line)
                        obs[(r['seed'], r['aid'])] = r
        if len(obs) != len(arrs):
            raise pl.Machinery('driver recorded %d arrangements of %d' % (len(obs), len(arrs)))
        # --- B: the trace: per shard  seed line, then parent line + its edges
        groups = {}
        for k in chosen:
            e = edges[k]
            groups.setdefault((e['seed'], e['paid']), []).append(e)
        gkeys = sorted(groups)
        nsh = max(1, min(pl.NPROC, len(gkeys)))
        shards, idx = [], {}
        for sh in range(nsh):
            path = run.path('trace.%d.ndjson' % sh)
            mine = [g for n, g in enumerate(gkeys) if n % nsh == sh]
            if not mine:
                continue
            with open(path, 'w') as f:
                last_seed = None
                for (sd, paid) in mine:
                    if sd != last_seed:
                        f.write(json.dumps({'kind': 'seed', 'cid': 'seed-%s-%d' % (sd, sh), 'seed': sd,
                                            'venv': seeds[sd]['venv'], 'vals': seeds[sd]['vals']}) + '\n')
                        last_seed = sd
                    po = obs[(sd, paid)]
                    f.write(json.dumps({'kind': 'parent', 'cid': 'par-%s-%s' % (sd, paid), 'seed': sd, 'aid': paid,
                                        'arr': arrs[(sd, paid)], 'obs': po['obs']}) + '\n')
                    for e in groups[(sd, paid)]:
                        co = obs[(sd, e['aid'])]
                        cid = 'e-%s-%s-%s-%s' % (sd, paid, e['aid'],
                                                 hashlib.sha1(json.dumps(e['act'], sort_keys=True).encode()).hexdigest()[:6])
                        f.write(json.dumps({'kind': 'edge', 'cid': cid, 'seed': sd, 'act': e['act'], 'sched': e['sched'],
                                            'steps': e['steps'], 'aid': e['aid'], 'arr': e['arr'], 'obs': co['obs']}) + '\n')
                        idx[cid] = {'cid': cid, 'seed': sd, 'action': e['act'], 'schedule_from_seed': e['sched'],
                                    'vals': seeds[sd]['vals'], 'venv': seeds[sd]['venv'],
                                    'prev_arr': arrs[(sd, paid)], 'arr': e['arr'],
                                    'before': {'texts': po['texts'], 'obs': po['obs']},
                                    'after': {'texts': co['texts']}, 'obs': co['obs']}
            shards.append(path)
        cfg = 'SPECIFICATION Spec\nPOSTCONDITION TraceAccepted\nCHECK_DEADLOCK FALSE\n'
        selftest = corrupted_trace(run, shards[0])
        reports = pl.validate(run, 'Trace_Arrange', cfg, shards + [selftest], what='Trace_Arrange', heap='4g')
        st = [r for r in reports if r['cid'].startswith('selftest-')]
        reports = [r for r in reports if not r['cid'].startswith('selftest-')]
        run.traces -= sum(1 for l in open(selftest) if l.strip())
        bad = [o['check'] for r in st for o in r['other'] if o['verdict'] == 'reject']
        run.notes['corrupted_trace_rejected'] = sorted(set(bad))
        if not any(c.startswith('STEP') for c in bad) or 'DER' not in bad:
            raise pl.Machinery('self-test: a trace with one flipped octet was accepted (%s)' % bad)
        pl.classify(run, reports, idx, 'C19')
        # accounting
        for (sd, aid), r in obs.items():
            for o in r['obs']:
                e = o.get('enc', {})
                if e.get('st') == 'ok' and len(e['b']) >= 1:
                    run.signatures.add((sd, aid, o['vi'], o['codec'], o['way']))
        kinds = {}
        for k in chosen:
            kinds[edges[k]['act']['a']] = kinds.get(edges[k]['act']['a'], 0) + 1
        run.notes['transitions_by_action'] = kinds
        run.notes['max_schedule_length'] = max(len(edges[k]['sched']) for k in chosen)
        for k in chosen:
            e = edges[k]
            if len(run.samples) < 3 and len(e['sched']) >= 2:
                run.samples.append({'seed': e['seed'], 'schedule': e['sched'],
                                    'texts_after': obs[(e['seed'], e['aid'])]['texts']})
        run.assumptions = [
            'TLC and SANY are correct; spec/ArrangeSem.tla states X.680 name resolution, COMPONENTS OF, automatic '
            'tagging and tagging faithfully; spec/X690.tla states DER faithfully',
            'harness/render.py renders an arrangement to the ASN.1 text it denotes; harness/values.py converts shapes only',
            'way "s" calls compile_dict(parse_string(text)) (the body of compile_string) with one parse shared by the '
            'eight codecs; way "f" calls the public compile_files',
        ]
        return pl.finish(run, rule=(
            'cases are transitions of spec/Arrange.tla (all within %d actions of the 24 seed arrangements, plus a '
            'seeded sample of simulated schedules up to %d actions, seed %d); an observation is one (arrangement, '
            'value, codec, way of compiling) tuple; it counts as distinct non-trivial when the tuple is new and the '
            'encoder produced at least one octet' % (emit_bfs[0], sim[1], seed)))
    except pl.Machinery as e:
        print('MACHINERY FAILURE C19: %s' % e)
        return 2


def replay(rp, seed):
    """Re-execute one recorded transition (a replay file written by pl.finish): both arrangements are
    rendered, compiled and run again and the three-line trace is judged by Trace_Arrange."""
    case = rp['case']
    run = pl.Run('C19', 'replay', seed)
    try:
        sd = case['seed']
        arrs = {'p': case['prev_arr'], 'c': case['arr']}
        cpath = run.path('cases.ndjson')
        with open(cpath, 'w') as f:
            for k in ('p', 'c'):
                f.write(json.dumps({'aid': k, 'seed': sd, 'arr': arrs[k], 'venv': case['venv'], 'vals': case['vals']}) + '\n')
        oshards = pl.drive(run, 'drive_arrange.py', cpath, 'obs', ['--codecs', ','.join(CODECS), '--files-codecs', 'ber'],
                           nshards=1)
        obs = {}
        with open(oshards[0]) as f:
            for line in f:
                r = json.loads(line)
                obs[r['aid']] = r
        path = run.path('trace.0.ndjson')
        cid = case.get('cid', 'replayed')
        with open(path, 'w') as f:
            f.write(json.dumps({'kind': 'seed', 'cid': 'seed-' + sd, 'seed': sd, 'venv': case['venv'], 'vals': case['vals']}) + '\n')
            f.write(json.dumps({'kind': 'parent', 'cid': 'par-' + sd, 'seed': sd, 'aid': 'p', 'arr': arrs['p'],
                                'obs': obs['p']['obs']}) + '\n')
            f.write(json.dumps({'kind': 'edge', 'cid': cid, 'seed': sd, 'act': case['action'],
                                'sched': case['schedule_from_seed'], 'steps': len(case['schedule_from_seed']),
                                'aid': 'c', 'arr': arrs['c'], 'obs': obs['c']['obs']}) + '\n')
        cfg = 'SPECIFICATION Spec\nPOSTCONDITION TraceAccepted\nCHECK_DEADLOCK FALSE\n'
        reports = pl.validate(run, 'Trace_Arrange', cfg, [path], what='Trace_Arrange (replay)')
        idx = {cid: dict(case, before={'texts': obs['p']['texts'], 'obs': obs['p']['obs']},
                         after={'texts': obs['c']['texts']}, obs=obs['c']['obs'])}
        pl.classify(run, reports, idx, 'C19')
        for n, t in obs['p']['texts']:
            print('--- before: module %s\n%s' % (n, t))
        for n, t in obs['c']['texts']:
            print('--- after %s: module %s\n%s' % (json.dumps(case['action']), n, t))
        return pl.finish(run, rule='replay of one recorded transition')
    except pl.Machinery as e:
        print('MACHINERY FAILURE C19: %s' % e)
        return 2
