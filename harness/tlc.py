"""Run TLC / SANY on modules of /verif/spec and parse what they report."""
import os
import re
import shutil
import subprocess
import tempfile
import time

VERIF = os.path.dirname(os.path.dirname(os.path.abspath(__file__)))
SPEC = os.path.join(VERIF, 'spec')
JARS = '/opt/veriftools/tla/tla2tools.jar:/opt/veriftools/tla/CommunityModules-deps.jar'


class TlcError(Exception):
    pass


def run_tlc(module, cfg, env=None, workers=1, timeout=1800, heap='3g', simulate=None,
            depth=None, seed=None, extra=None, coverage=False, deque=False, cwd=SPEC):
    """Run TLC on spec/<module>.tla with config file `cfg` (path or text).

    Returns dict(ok, out, generated, distinct, depth, error, wall).  ok is False when TLC
    reports an error (invariant violated, evaluation error, ...); the text is in `error`.
    """
    meta = tempfile.mkdtemp(prefix='tlcmeta.')
    cfg_path = cfg
    tmp_cfg = None
    if '\n' in cfg or not os.path.exists(cfg):
        fd, tmp_cfg = tempfile.mkstemp(suffix='.cfg', prefix='mc_')
        os.write(fd, cfg.encode())
        os.close(fd)
        cfg_path = tmp_cfg
    cmd = ['java', '-XX:+UseParallelGC', '-XX:ParallelGCThreads=2', '-XX:CICompilerCount=2', '-Xmx' + heap, '-Xss64m']
    if deque:
        cmd.append('-Dtlc2.tool.queue.IStateQueue=StateDeque')
    cmd += ['-cp', JARS, 'tlc2.TLC', '-metadir', meta, '-noGenerateSpecTE', '-deadlock',
            '-workers', str(workers), '-config', cfg_path]
    if simulate:
        cmd += ['-simulate', simulate]
    if depth:
        cmd += ['-depth', str(depth)]
    if seed is not None:
        cmd += ['-seed', str(seed)]
    if coverage:
        cmd += ['-coverage', '1']
    if extra:
        cmd += extra
    cmd.append(module if module.endswith('.tla') else module + '.tla')
    e = dict(os.environ)
    if env:
        e.update({k: str(v) for k, v in env.items()})
    t0 = time.time()
    try:
        p = subprocess.run(cmd, cwd=cwd, env=e, stdout=subprocess.PIPE, stderr=subprocess.STDOUT,
                           timeout=timeout, text=True, errors='replace')
        out = p.stdout
        rc = p.returncode
        timed_out = False
    except subprocess.TimeoutExpired as ex:
        out = (ex.stdout or b'').decode(errors='replace') if isinstance(ex.stdout, bytes) else (ex.stdout or '')
        rc = -1
        timed_out = True
    finally:
        shutil.rmtree(meta, ignore_errors=True)
        if tmp_cfg:
            os.unlink(tmp_cfg)
    res = {'out': out, 'rc': rc, 'wall': time.time() - t0, 'timed_out': timed_out,
           'generated': 0, 'distinct': 0, 'depth': 0, 'error': ''}
    m = re.findall(r'(\d+) states generated, (\d+) distinct states found', out)
    if m:
        res['generated'], res['distinct'] = int(m[-1][0]), int(m[-1][1])
    m = re.findall(r'The depth of the complete state graph search is (\d+)', out)
    if m:
        res['depth'] = int(m[-1])
    m = re.findall(r'generated (\d+) states', out)   # simulation mode
    errs = [l for l in out.splitlines() if l.startswith('Error:') or 'is violated' in l]
    res['error'] = '\n'.join(errs)
    res['ok'] = (not errs) and not timed_out and rc == 0
    return res


def error_context(out, n=40):
    lines = out.splitlines()
    for i, l in enumerate(lines):
        if l.startswith('Error:'):
            return '\n'.join(lines[i:i + n])
    return '\n'.join(lines[-n:])


def sany(module, cwd=SPEC):
    p = subprocess.run(['java', '-cp', JARS, 'tla2sany.SANY', module if module.endswith('.tla') else module + '.tla'],
                       cwd=cwd, stdout=subprocess.PIPE, stderr=subprocess.STDOUT, text=True)
    bad = ('*** Errors' in p.stdout) or ('Fatal' in p.stdout) or ('Parse Error' in p.stdout) or p.returncode != 0
    return (not bad), p.stdout
