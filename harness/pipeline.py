"""Common machinery of the checks: work dirs, case generation with TLC, parallel driving of
the real code, parallel trace validation with TLC, findings, evidence."""
import hashlib
import json
import os
import shutil
import subprocess
import sys
import time
from concurrent.futures import ThreadPoolExecutor

HERE = os.path.dirname(os.path.abspath(__file__))
sys.path.insert(0, HERE)
import tlc  # noqa: E402

VERIF = tlc.VERIF
SPEC = tlc.SPEC
PY = '/venv/bin/python'
NPROC = int(os.environ.get('VERIF_NPROC', '16'))
REPO = os.environ.get('VERIF_REPO', '/repo')


class Machinery(Exception):
    """The machinery itself failed (exit 2) -- never used to hide a violation."""


class Run(object):
    """State of one invocation of one check."""

    def __init__(self, prop, tier, seed):
        self.prop, self.tier, self.seed = prop, tier, seed
        self.t0 = time.time()
        self.work = os.path.join(VERIF, '.work', '%s-%s-%d' % (prop, tier, os.getpid()))
        shutil.rmtree(self.work, ignore_errors=True)
        os.makedirs(self.work)
        self.replays = os.path.join(VERIF, '.work', 'replays')
        os.makedirs(self.replays, exist_ok=True)
        self.states = 0          # distinct states over all TLC runs
        self.transitions = 0     # generated states (= transitions examined)
        self.traces = 0          # recorded executions (trace lines) consumed by trace specs
        self.observations = 0    # individual judged observations
        self.evaluations = 0
        self.signatures = set()  # distinct non-trivial case signatures
        self.samples = []
        self.violations = []     # dicts
        self.known_seen = {}     # finding id -> count
        self.notes = {}
        self.tlc_runs = []
        self.assumptions = []

    def path(self, name):
        return os.path.join(self.work, name)

    def account(self, res, what):
        self.states += res['distinct']
        self.transitions += res['generated']
        self.tlc_runs.append({'what': what, 'distinct': res['distinct'], 'generated': res['generated'],
                              'wall_s': round(res['wall'], 1)})

    def cleanup(self):
        shutil.rmtree(self.work, ignore_errors=True)


# ----------------------------------------------------------------------------------------
# known findings

def load_findings(prop=None):
    with open(os.path.join(VERIF, 'known_findings.json')) as f:
        data = json.load(f)
    extra = os.environ.get('VERIF_EXTRA_FINDINGS')   # development only: proposed entries not yet listed by the lead
    if extra and os.path.exists(extra):
        with open(extra) as f:
            data['findings'] = data['findings'] + json.load(f)['findings']
    out = [e for e in data['findings'] if prop is None or e['property'] == prop]
    return out


def open_keys(prop):
    """key -> finding, for the open findings of a property."""
    return {e['key']: e for e in load_findings(prop) if e['status'] == 'open'}


# ----------------------------------------------------------------------------------------
# behaviour generation (binding A): TLC enumerates / simulates, one JSON line per behaviour

def spec_digest(mods):
    h = hashlib.sha256()
    for m in sorted(mods):
        with open(os.path.join(SPEC, m), 'rb') as f:
            h.update(f.read())
    return h


def tlc_generate(run, module, cfg, out_name, workers=8, simulate=None, depth=None, timeout=1200,
                 what='generate', env=None, check_ok=True, heap='6g'):
    """Run a generator spec; behaviours are appended by the spec to OUT_FILE."""
    out = run.path(out_name)
    if os.path.exists(out):
        os.unlink(out)
    e = {'OUT_FILE': out}
    if env:
        e.update(env)
    res = tlc.run_tlc(module, cfg, env=e, workers=workers, simulate=simulate, depth=depth,
                      seed=run.seed if simulate else None, timeout=timeout, heap=heap)
    if check_ok and not res['ok']:
        raise Machinery('TLC failed on %s (%s):\n%s' % (module, what, tlc.error_context(res['out'])))
    run.account(res, what)
    if not os.path.exists(out):
        open(out, 'w').close()
    return out, res


def dedup_cases(path, prefix):
    """Assign stable case ids; drop exact duplicates (simulation revisits states)."""
    seen = set()
    out = []
    with open(path) as f:
        for line in f:
            line = line.strip()
            if not line:
                continue
            h = hashlib.sha1(line.encode()).hexdigest()[:12]
            if h in seen:
                continue
            seen.add(h)
            c = json.loads(line)
            c['cid'] = '%s-%s' % (prefix, h)
            out.append(c)
    return out


def write_cases(cases, path):
    with open(path, 'w') as f:
        for c in cases:
            f.write(json.dumps(c) + '\n')


# ----------------------------------------------------------------------------------------
# driving the implementation

def drive(run, driver, cases_path, out_prefix, args, nshards=NPROC, timeout=3600):
    """Run harness/<driver> on nshards shards in parallel; returns list of trace shard paths."""
    outs = []
    procs = []
    env = dict(os.environ)
    env['VERIF_REPO'] = REPO
    env['PYTHONHASHSEED'] = '0'
    env['ASN1TOOLS_VERIF'] = '1'
    for k in range(nshards):
        out = run.path('%s.%d.ndjson' % (out_prefix, k))
        outs.append(out)
        cmd = [PY, os.path.join(HERE, driver), '--cases', cases_path, '--out', out,
               '--shard', '%d/%d' % (k, nshards)] + args
        if os.environ.get('VERIF_COVERAGE'):      # development: which lines of asn1tools do the generated behaviours reach?
            cmd = [PY, '-m', 'coverage', 'run', '-p', '--data-file', os.path.join(os.environ['VERIF_COVERAGE'], '.coverage'),
                   '--source', os.path.join(REPO, 'asn1tools')] + cmd[1:]
        procs.append(subprocess.Popen(cmd, env=env, stdout=subprocess.PIPE, stderr=subprocess.STDOUT, text=True))
    deadline = time.time() + timeout
    for p in procs:
        try:
            o, _ = p.communicate(timeout=max(1, deadline - time.time()))
        except subprocess.TimeoutExpired:
            p.kill()
            raise Machinery('driver %s timed out' % driver)
        if p.returncode != 0:
            raise Machinery('driver %s failed:\n%s' % (driver, o[-3000:]))
    return [o for o in outs if os.path.exists(o) and os.path.getsize(o) > 0]


def observe_tests(run, test_files, kexpr=None, nshards=8, timeout=3000):
    """Binding B on the repository's own tests: run them under harness/observe_plugin.py (installed from
    outside, guard ASN1TOOLS_VERIF=1) and return the recorded encode calls as trace shards."""
    out = run.path('fixtures.ndjson')
    env = dict(os.environ)
    env.update({'ASN1TOOLS_VERIF': '1', 'VERIF_OBSERVE_OUT': out, 'PYTHONPATH': HERE, 'PYTHONHASHSEED': '0'})
    cmd = [PY, '-m', 'pytest', '-q', '-p', 'no:cacheprovider', '-p', 'observe_plugin', '--timeout=900'] + list(test_files)
    if kexpr:
        cmd += ['-k', kexpr]
    try:
        p = subprocess.run(cmd, cwd=REPO, env=env, stdout=subprocess.PIPE, stderr=subprocess.STDOUT, text=True, timeout=timeout)
    except subprocess.TimeoutExpired:
        raise Machinery('observed test run timed out')
    if not os.path.exists(out):
        raise Machinery('observed test run produced no trace:\n' + p.stdout[-2000:])
    run.notes['fixture_tests'] = p.stdout.strip().splitlines()[-1][:200] if p.stdout.strip() else ''
    try:
        run.notes['fixture_skipped'] = json.load(open(out + '.skipped'))
    except Exception:
        pass
    lines = [l for l in open(out) if l.strip()]
    lines.sort(key=len, reverse=True)
    shards = []
    for k in range(nshards):
        part = lines[k::nshards]
        if part:
            sp = run.path('fixtures.%d.ndjson' % k)
            with open(sp, 'w') as f:
                f.writelines(part)
            shards.append(sp)
    run.notes['fixture_lines'] = len(lines)
    return shards


# ----------------------------------------------------------------------------------------
# trace validation (binding B)

def validate(run, module, cfg, shards, what='validate', timeout=3600, heap='3g', extra_env=None):
    """One TLC per trace shard (in parallel); returns the verdict records of all shards.
    Every trace line must have produced exactly one report (TraceAccepted + count check)."""
    def one(path):
        vf = path + '.verdicts'
        if os.path.exists(vf):
            os.unlink(vf)
        e = {'TRACE_FILE': path, 'VERDICT_FILE': vf}
        if extra_env:
            e.update(extra_env)
        res = tlc.run_tlc(module, cfg, env=e, workers=1, timeout=timeout, heap=heap)
        # A recorded line that no action of the trace specification can consume (TLC stops there: the
        # post-condition TraceAccepted fails) is a rejected line, not a failure of the machinery: report it
        # as such and validate the rest of the shard, so that the remaining lines are still examined.
        tries = 0
        while (not res['ok'] and 'TraceAccepted' in res['out'] and 'is false' in res['out'] and tries < 5):
            tries += 1
            lines = [l for l in open(path) if l.strip()]
            recs = [l for l in open(vf)] if os.path.exists(vf) else []
            k = len(recs)
            if k >= len(lines):
                break
            try:
                cid = json.loads(lines[k]).get('cid', '?')
            except Exception:
                cid = '?'
            stuck = {'cid': cid, 'n': 1, 'ok': 0, 'other': [
                {'vi': 0, 'codec': '', 'ne': False, 'check': 'ANY', 'verdict': 'reject',
                 'detail': 'the trace specification %s cannot consume this recorded line (an observation of a shape no '
                           'action accepts) applicable:{}' % module}]}
            rest = path + '.rest%d' % tries
            with open(rest, 'w') as f:
                f.writelines(lines[k + 1:])
            done = recs + [json.dumps(stuck) + '\n']
            if lines[k + 1:]:
                e2 = dict(e)
                e2['TRACE_FILE'] = rest
                e2['VERDICT_FILE'] = rest + '.verdicts'
                if os.path.exists(e2['VERDICT_FILE']):
                    os.unlink(e2['VERDICT_FILE'])
                res2 = tlc.run_tlc(module, cfg, env=e2, workers=1, timeout=timeout, heap=heap)
                more = [l for l in open(e2['VERDICT_FILE'])] if os.path.exists(e2['VERDICT_FILE']) else []
                done += more
                res2['distinct'] += res['distinct']
                res2['generated'] += res['generated']
                res = res2
            else:
                res = dict(res)
                res['ok'] = True
            with open(vf, 'w') as f:
                f.writelines(done)
            if not res['ok'] and 'TraceAccepted' in res['out']:
                # stuck again further down: make path/vf describe the consumed part and loop on the rest
                path_lines = lines[:k + 1] + [l for l in open(rest) if l.strip()]
                with open(path, 'w') as f:
                    f.writelines(path_lines)
        return path, vf, res
    reports = []
    with ThreadPoolExecutor(max_workers=NPROC) as ex:
        for path, vf, res in ex.map(one, shards):
            if not res['ok']:
                raise Machinery('TLC failed validating %s:\n%s' % (path, tlc.error_context(res['out'])))
            run.account(res, what)
            nlines = sum(1 for l in open(path) if l.strip())
            recs = [json.loads(l) for l in open(vf)] if os.path.exists(vf) else []
            if len(recs) != nlines:
                raise Machinery('trace %s: %d lines but %d reports' % (path, nlines, len(recs)))
            run.traces += nlines
            reports += recs
    return reports


def rebalance(run, shards, prefix='bal', nshards=None):
    """Re-distribute recorded lines over shards so that the TLC validations take about equally long
    (cost of a line ~ its length: big payloads are what is slow); greedy, longest first."""
    nshards = nshards or NPROC
    lines = []
    for s in shards:
        with open(s) as f:
            lines += [l for l in f if l.strip()]
    if len(lines) <= 1:
        return shards
    lines.sort(key=len, reverse=True)
    bins = [[0, []] for _ in range(min(nshards, len(lines)))]
    for l in lines:
        b = min(bins, key=lambda x: x[0])
        b[0] += len(l) + 2000          # a constant per line: small lines are not free
        b[1].append(l)
    out = []
    for k, (_, ls) in enumerate(bins):
        path = run.path('%s.%d.ndjson' % (prefix, k))
        with open(path, 'w') as f:
            f.writelines(ls)
        out.append(path)
    return out


def load_trace_index(shards):
    idx = {}
    for s in shards:
        with open(s) as f:
            for line in f:
                if line.strip():
                    r = json.loads(line)
                    idx[r['cid']] = r
    return idx


# ----------------------------------------------------------------------------------------
# verdict classification

def classify(run, reports, trace_index, prop, checks=None):
    """Split non-ok verdicts into known findings and violations.

    verdict 'dev'    : detail = TLC set of deviation names that explains the observation
    verdict 'reject' : detail may end in 'applicable:{...}' naming input classes; the text before
                       it (exception key) may itself be a listed call-site key
    """
    keys = open_keys(prop)
    for rep in reports:
        run.observations += rep['n']
        for o in rep['other']:
            if checks and o['check'] not in checks and o['check'] != 'ANY':
                continue
            v = o['verdict']
            if v == 'skip':
                run.notes['skipped'] = run.notes.get('skipped', 0) + 1
                why = run.notes.setdefault('skipped_reasons', {})
                k = o['detail'][:90]
                why[k] = why.get(k, 0) + 1
                continue
            if v == 'machinery':
                raise Machinery('driver machinery error in %s: %s' % (rep['cid'], o['detail']))
            names = []
            if v == 'dev':
                names = parse_tla_set(o['detail'])
                matched = [n for n in names if n in keys]
                is_known = len(matched) == len(names) and names
            else:
                detail = o['detail']
                head, _, app = detail.partition(' applicable:')
                cands = parse_tla_set(app) if app else []
                matched = [n for n in cands if n in keys]
                if head in keys:
                    matched.append(head)
                is_known = bool(matched)
            if is_known:
                for n in matched:
                    run.known_seen[n] = run.known_seen.get(n, 0) + 1
            else:
                run.violations.append({'cid': rep['cid'], 'obs': o, 'case': trace_index.get(rep['cid'])})


def parse_tla_set(text):
    text = text.strip()
    if text.startswith('{') and text.endswith('}'):
        inner = text[1:-1].strip()
        if not inner:
            return []
        return [x.strip().strip('"') for x in inner.split(',')]
    return [text] if text else []


# ----------------------------------------------------------------------------------------
# reporting

def finish(run, level='model_checking', rule='', exhaustive=False, extra_cov=None):
    """Print KNOWN-FINDING / VIOLATION lines, write evidence, return exit code."""
    keys = open_keys(run.prop)
    for k in sorted(run.known_seen):
        e = keys[k]
        print('KNOWN-FINDING: property=%s %s [%s; seen %d times in this run]' % (
            run.prop, e['description'], e['id'], run.known_seen[k]))
    rc = 0
    seen_sig = set()
    nrep = 0

    def sig_of(v):
        d = v['obs'].get('detail', '')
        head, _, app = d.partition(' applicable:')
        return (v['obs'].get('check'), v['obs'].get('codec'), head.split(';')[0][:60], app)
    # one representative of every distinct kind of violation first, so that none is hidden by the print limit
    first, rest, seen0 = [], [], set()
    for v in run.violations:
        (rest if sig_of(v) in seen0 else first).append(v)
        seen0.add(sig_of(v))
    if len(seen0) > 1 or len(run.violations) > 40:
        counts = {}
        for v in run.violations:
            counts[sig_of(v)] = counts.get(sig_of(v), 0) + 1
        for sg, n in sorted(counts.items(), key=lambda kv: -kv[1])[:60]:
            print('violation kind x%d: %s' % (n, ' | '.join(str(x) for x in sg)))
    for v in first + rest:
        sig = (v['obs'].get('check'), v['obs'].get('codec'), v['obs'].get('detail', '')[:80])
        nrep += 1
        path = os.path.join(run.replays, '%s-%s-%d.json' % (run.prop, run.tier, nrep))
        if sig in seen_sig and nrep > 40:
            continue
        seen_sig.add(sig)
        if nrep <= 200:
            with open(path, 'w') as f:
                json.dump({'property': run.prop, 'seed': run.seed, 'tier': run.tier,
                           'verdict': v['obs'], 'case': slim_case(v.get('case'), v['obs'])}, f, indent=1)
            print('VIOLATION property=%s replay=%s  # %s' % (run.prop, path, summary(v['obs'])))
        rc = 1
    cov = {
        'states': run.states, 'transitions': run.transitions,
        'traces_validated_against_impl': run.traces,
        'samples': small_samples(run.samples),
        'evaluations': max(run.evaluations, run.observations),
        'distinct_nontrivial': len(run.signatures),
        'rule': rule,
        'observations_judged': run.observations,
        'known_findings_seen': run.known_seen,
        'tlc_runs': run.tlc_runs[:40],
        'exhaustive': exhaustive,
    }
    cov.update(run.notes)
    if extra_cov:
        cov.update(extra_cov)
    ev = {'property_id': run.prop, 'tier': run.tier, 'seed': run.seed, 'level': level,
          'coverage': cov, 'assumptions': run.assumptions,
          'wall_s': round(time.time() - run.t0, 1), 'violations': len(run.violations)}
    evdir = os.environ.get('VERIF_EVIDENCE_DIR') or os.path.join(VERIF, 'evidence')   # (sensitivity runs against scratch copies write elsewhere)
    os.makedirs(evdir, exist_ok=True)
    with open(os.path.join(evdir, run.prop + '.json'), 'w') as f:
        json.dump(ev, f, indent=1, sort_keys=True)
    if rc == 0 or not os.environ.get('VERIF_KEEP'):     # the replay files are self-contained; keep the work dir only on request
        run.cleanup()
    print('%s %s: %d observations judged, %d trace lines, %d TLC states; %d violations, %d known-finding hits; %.0fs' % (
        run.prop, run.tier, run.observations, run.traces, run.states, len(run.violations),
        sum(run.known_seen.values()), time.time() - run.t0))
    return rc


def shrink(x, budget=40):
    """a sample written out for a reader: long lists / strings are cut (the evidence file stays small)"""
    if isinstance(x, dict):
        return {k: shrink(v, budget) for k, v in list(x.items())[:60]}
    if isinstance(x, (list, tuple)):
        out = [shrink(v, budget) for v in x[:budget]]
        if len(x) > budget:
            out.append('... %d more' % (len(x) - budget))
        return out
    if isinstance(x, str) and len(x) > 400:
        return x[:400] + '... (%d characters)' % len(x)
    return x


def small_samples(samples):
    out = []
    for smp in samples:
        smp = shrink(smp)
        if len(json.dumps(smp)) <= 20000:
            out.append(smp)
        if len(out) >= 6:
            break
    return out or ['(none)']


def summary(o):
    return ('%s %s vi=%s: %s' % (o.get('check'), o.get('codec'), o.get('vi'), o.get('detail', '')))[:240]


def slim_case(case, obs):
    if not case:
        return None
    c = dict(case)
    if 'obs' in c and 'vi' in obs and c['obs'] and 'vi' in c['obs'][0]:
        c['obs'] = [x for x in c['obs'] if x.get('vi') == obs['vi'] and x.get('codec') == obs.get('codec')
                    and x.get('ne') == obs.get('ne') and x.get('dir') == obs.get('dir')]
    elif 'obs' in c and isinstance(obs.get('vi'), int) and 0 < obs['vi'] <= len(c['obs']):
        c['obs'] = [c['obs'][obs['vi'] - 1]]
    return c
