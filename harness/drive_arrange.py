"""C19: render arrangements (spec/ArrangeSem.tla), compile them with the real asn1tools (from
$VERIF_REPO, default /repo) and record what every codec does with the seed's value table.

Input  (--cases): one arrangement per line  {"aid", "seed", "arr", "venv", "vals"}
Output (--out):   one line per arrangement  {"aid", "seed", "texts": [[module, text]..], "obs": [..]}

  obs entry: {"vi", "codec", "way", "enc": outcome, "dec": outcome}   or
             {"vi": 0, "codec", "way", "compile": outcome}            (not compilable this way)
  way "s": compile_string semantics on the concatenation of the module texts in the arrangement's
           order -- compile_dict(parse_string(text), codec) with one parse shared by the codecs
           (that *is* the body of asn1tools.compile_string); with --api the public
           asn1tools.compile_string is called once per codec instead
  way "f": asn1tools.compile_files on one file per module, in the arrangement's order
  outcome: {"st":"ok","b":[octets]} | {"st":"ok","same":true} (decoded value identical to the
           input value, a size optimisation) | {"st":"ok","v":absvalue} |
           {"st":"exc","cls","mro","msg","site"} | {"st":"bad","msg"} | {"st":"timeout","site"}

Records facts only; every comparison is made by spec/Trace_Arrange.tla.  Run with /venv/bin/python.
"""
import copy
import json
import os
import shutil
import sys
import tempfile

HERE = os.path.dirname(os.path.abspath(__file__))
sys.path.insert(0, HERE)
REPO = os.environ.get('VERIF_REPO', '/repo')
sys.path.insert(0, REPO)

import render  # noqa: E402
import values  # noqa: E402
import drive_codec  # noqa: E402
from drive_codec import guarded, enc_outcome, dec_outcome  # noqa: E402

# parsing a few modules takes 0.1 s on an idle machine; leave room for a loaded one
drive_codec.CALL_TIMEOUT = int(os.environ.get('VERIF_CALL_TIMEOUT', '60'))

PROBE = 'Top'


def strip(o):
    o.pop('r', None)
    return o


def run_values(spec, codec, way, venv, T, vals, obs):
    for vi, v in enumerate(vals, 1):
        rec = {'vi': vi, 'codec': codec, 'way': way}
        try:
            pv = values.to_py(venv, T, v, False)
        except Exception as e:  # machinery
            rec['machinery'] = repr(e)
            obs.append(rec)
            continue
        rec['enc'] = enc_outcome(guarded(lambda: spec.encode(PROBE, pv, check_types=True, check_constraints=True)))
        if rec['enc']['st'] == 'ok':
            data = bytes(rec['enc']['b'])
            d = dec_outcome(guarded(lambda: spec.decode(PROBE, data)), venv, T, False)
            if d['st'] == 'ok' and d['v'] == v:
                d = {'st': 'ok', 'same': True}
            rec['dec'] = d
        obs.append(rec)


def observe(case, codecs, files_codecs, api, tmp):
    import asn1tools
    arr, venv, vals = case['arr'], case['venv'], case['vals']
    T = venv['types'][PROBE]
    mods = render.render_arrangement(arr)
    text = ''.join(t for _, t in mods)
    obs = []
    parsed = None
    if not api:
        parsed = guarded(lambda: asn1tools.parse_string(text))
    for codec in codecs:
        if api:
            o = guarded(lambda: asn1tools.compile_string(text, codec))
        elif parsed['st'] != 'ok':
            o = dict(parsed)
        else:
            o = guarded(lambda: asn1tools.compile_dict(copy.deepcopy(parsed['r']), codec))
        if o['st'] != 'ok':
            obs.append({'vi': 0, 'codec': codec, 'way': 's', 'compile': strip(dict(o))})
            continue
        run_values(o['r'], codec, 's', venv, T, vals, obs)
    if files_codecs:
        paths = []
        for k, (name, t) in enumerate(mods):
            p = os.path.join(tmp, '%02d-%s.asn' % (k, name))
            with open(p, 'w') as f:
                f.write(t)
            paths.append(p)
        for codec in files_codecs:
            o = guarded(lambda: asn1tools.compile_files(paths, codec))
            if o['st'] != 'ok':
                obs.append({'vi': 0, 'codec': codec, 'way': 'f', 'compile': strip(dict(o))})
                continue
            run_values(o['r'], codec, 'f', venv, T, vals, obs)
        for p in paths:
            os.unlink(p)
    return {'aid': case['aid'], 'seed': case['seed'], 'texts': [[n, t] for n, t in mods], 'obs': obs}


def main():
    import argparse
    ap = argparse.ArgumentParser()
    ap.add_argument('--cases', required=True)
    ap.add_argument('--out', required=True)
    ap.add_argument('--codecs', default='ber,der,per,uper,oer,jer,xer,gser')
    ap.add_argument('--files-codecs', default='ber')
    ap.add_argument('--api', action='store_true')
    ap.add_argument('--shard', default='0/1')
    a = ap.parse_args()
    k, n = [int(x) for x in a.shard.split('/')]
    codecs = [c for c in a.codecs.split(',') if c]
    files_codecs = [c for c in a.files_codecs.split(',') if c]
    sys.setrecursionlimit(3000)
    tmp = tempfile.mkdtemp(prefix='c19files.')
    try:
        with open(a.cases) as f, open(a.out, 'w') as out:
            for idx, line in enumerate(f):
                if idx % n != k or not line.strip():
                    continue
                out.write(json.dumps(observe(json.loads(line), codecs, files_codecs, a.api, tmp)) + '\n')
    finally:
        shutil.rmtree(tmp, ignore_errors=True)


if __name__ == '__main__':
    main()
