"""Drive the real GSER encoder of asn1tools (from $VERIF_REPO, default /repo) along generated
cases and record the text it writes.  One output line per case:

  {"cid", "env", "top", "tn", "vals",
   "obs": [ {vi, codec: "gser", ne, ind, enc, reals?} ]}

  ind   the `indent` argument: -1 stands for None (compact layout), else 0 / 2 / 4
  tn    the name the type carries in the compiled module (what the text must say before ::=)
  enc   {"st":"ok","t":[code points]}   the bytes decoded as UTF-8
        {"st":"bad","msg":..}           not bytes / not UTF-8
        {"st":"exc","cls","mro","msg","site"} / {"st":"timeout","site"}
  reals for every maximal run of the characters 0-9 . e E + - (at most 40 of them, containing a
        digit) starting at code point s (1-based): the prefixes [s, e) Python's float() accepts,
        with the double it returns as an abstract REAL -- the "independent decimal reader" of
        DESIGN 2.2; the trace specification decides which lexeme it needs.

No GSER rules in here: the text is judged by spec/Trace_Gser.tla.  Run with /venv/bin/python.
"""
import json
import os
import sys

HERE = os.path.dirname(os.path.abspath(__file__))
sys.path.insert(0, HERE)

import drive_codec as dc  # noqa: E402  (guarded(), REPO on sys.path)
import render  # noqa: E402
import values  # noqa: E402

NUMCHARS = set('0123456789.eE+-')
INDENTS = {'-1': None, '0': 0, '2': 2, '4': 4}


def text_outcome(o):
    if o['st'] == 'ok':
        r = o.pop('r')
        if not isinstance(r, (bytes, bytearray)):
            return {'st': 'bad', 'msg': 'encode returned %s' % type(r).__name__}
        try:
            s = bytes(r).decode('utf-8')
        except UnicodeDecodeError as e:
            return {'st': 'bad', 'msg': 'output is not UTF-8: %s' % e}
        o['t'] = [ord(c) for c in s]
    return o


def float_table(cps):
    """float() of the prefixes of every maximal numeric-character run (see module docstring)."""
    out = []
    n = len(cps)
    i = 0
    while i < n:
        if cps[i] < 128 and chr(cps[i]) in NUMCHARS:
            j = i
            while j < n and cps[j] < 128 and chr(cps[j]) in NUMCHARS:
                j += 1
            run = ''.join(chr(c) for c in cps[i:j])
            if len(run) <= 40 and any(ch.isdigit() for ch in run):
                pre = []
                for e in range(1, len(run) + 1):
                    try:
                        f = float(run[:e])
                    except ValueError:
                        continue
                    pre.append({'e': i + 1 + e, 'v': values.real_from_py(f)})
                if pre:
                    out.append({'s': i + 1, 'pre': pre})
            i = j
        else:
            i += 1
    return out


def has_kind(env, T, kind, seen=None):
    """Does the type contain a component of the given kind (REAL, ENUM)?"""
    seen = seen or set()
    k = T['k']
    if k == 'REF':
        if T['name'] in seen:
            return False
        return has_kind(env, env['types'][T['name']], kind, seen | {T['name']})
    if k == kind:
        return True
    if k in ('SEQ', 'SET'):
        return any(has_kind(env, m['t'], kind, seen) for m in values.all_members(T))
    if k == 'CHOICE':
        return any(has_kind(env, a['t'], kind, seen) for a in values.all_alts(T))
    if k in ('SEQOF', 'SETOF'):
        return has_kind(env, T['e'], kind, seen)
    return False


def run_batch(batch, indents, numerics, out):
    """batch: list of cases sharing (tagdef, extimp); compiled as one module."""
    import asn1tools
    env0 = batch[0]['env']
    types = {}
    for c in batch:
        mapping = {n: 'C%dx%s' % (c['bi'], n) for n in c['env']['types']}
        c['map'] = mapping
        for n, T in c['env']['types'].items():
            types[mapping[n]] = render.rename(T, mapping)
    menv = {'tagdef': env0['tagdef'], 'extimp': env0.get('extimp', False), 'types': types}
    text = render.render_module('M', menv)
    specs, compile_err = {}, {}
    saved = dc.CALL_TIMEOUT
    dc.CALL_TIMEOUT = max(saved, 300)        # compiling is not what is judged here
    for ne in numerics:
        o = dc.guarded(lambda: asn1tools.compile_string(text, 'gser', numeric_enums=ne))
        if o['st'] == 'ok':
            specs[ne] = o['r']
        else:
            o.pop('r', None)
            compile_err[ne] = o
    dc.CALL_TIMEOUT = saved
    if compile_err and len(batch) > 1:
        for c in batch:                      # isolate: compile each case on its own
            run_batch([c], indents, numerics, out)
        return
    for c in batch:
        env, top = c['env'], c['env']['types'][c['top']]
        name = c['map'][c['top']]
        want_reals = has_kind(env, top, 'REAL')
        has_enum = has_kind(env, top, 'ENUM')
        obs = []
        for ne in numerics:
            if ne and not has_enum:
                continue                     # numeric_enums only changes how ENUMERATED values are passed
            if ne in compile_err:
                obs.append({'vi': 0, 'codec': 'gser', 'ne': ne, 'ind': -1, 'compile': compile_err[ne]})
                continue
            spec = specs[ne]
            for vi, v in enumerate(c['vals'], 1):
                try:
                    pv = values.to_py(env, top, v, ne)
                except Exception as e:  # machinery
                    obs.append({'vi': vi, 'codec': 'gser', 'ne': ne, 'ind': -1, 'machinery': repr(e)})
                    continue
                for key in indents:
                    rec = {'vi': vi, 'codec': 'gser', 'ne': ne, 'ind': int(key)}
                    rec['enc'] = text_outcome(dc.guarded(lambda: spec.encode(name, pv, indent=INDENTS[key])))
                    if want_reals and rec['enc']['st'] == 'ok':
                        rec['reals'] = float_table(rec['enc']['t'])
                    obs.append(rec)
        out.write(json.dumps({'cid': c['cid'], 'env': env, 'top': c['top'], 'tn': name,
                              'vals': c['vals'], 'obs': obs}) + '\n')


def main():
    import argparse
    ap = argparse.ArgumentParser()
    ap.add_argument('--cases', required=True)
    ap.add_argument('--out', required=True)
    ap.add_argument('--indents', default='-1,0,2,4')
    ap.add_argument('--numerics', default='0')
    ap.add_argument('--batch', type=int, default=40)
    ap.add_argument('--shard', default='0/1')
    a = ap.parse_args()
    k, n = [int(x) for x in a.shard.split('/')]
    indents = a.indents.split(',')
    numerics = [x == '1' for x in a.numerics.split(',')]
    groups = {}
    with open(a.cases) as f:
        for idx, line in enumerate(f):
            if not line.strip():
                continue
            c = json.loads(line)
            c.setdefault('cid', 'c%d' % idx)
            key = (c['env']['tagdef'], c['env'].get('extimp', False))
            groups.setdefault(key, []).append(c)
    batches = []
    for key in sorted(groups):
        g = groups[key]
        for i in range(0, len(g), a.batch):
            batches.append(g[i:i + a.batch])
    sys.setrecursionlimit(3000)
    with open(a.out, 'w') as out:
        for bi, b in enumerate(batches):
            if bi % n != k:
                continue
            for j, c in enumerate(b):
                c['bi'] = j
            run_batch(b, indents, numerics, out)


if __name__ == '__main__':
    main()
