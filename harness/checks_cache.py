"""C17 -- the compile cache is transparent.

  M   TLC checks spec/Cache.tla: the required mechanism (Devs = {}) satisfies Transparent for all
      histories within the bound; the mechanism of compiler.py (Devs = CodeDevs) violates it in the
      named ways only (TransparentUpToDevs, KillHarmless); deliberately wrong mechanisms (Mut*) and
      every single deviation violate Transparent (the invariant is not vacuous).
  A   the same runs emit one history per distinct model state (EmitWhen = "all"), simulation emits
      long ones; harness/drive_cache.py replays them on a real cache directory (real diskcache,
      strace-injected SIGKILL at enumerated write-class syscalls, truncation / byte flips of the
      cache files at enumerated positions).
  B   spec/Trace_Cache.tla judges every recorded call (RET: the requirement, MECH: the wrapper
      events against the mechanism model).
"""
import hashlib
import json
import os
import random
import time
from concurrent.futures import ThreadPoolExecutor

import pipeline as pl
import tlc

KEYDEVS = ['DevCacheKeyOmitsNumericEnums', 'DevCacheKeyOmitsAnyDefinedByChoices', 'DevCacheKeyConcatAmbiguity']
ALLDEVS = KEYDEVS + ['DevCacheEntryNotVerified']
MUTANTS = ['MutKeyOmitsCodec', 'MutKeyFirstFileOnly', 'MutSwallowDamage']


def cfg(world='plain', devs='CodeDevs', steps=3, faults=('kill', 'trunc', 'flip'), grain='big', focus=False,
        emit='none', inv=('TypeOK',), fl='FL3', adbcs=(0, 1), codecs=('ber', 'uper'), edc=False, spec='Spec'):
    if isinstance(devs, (list, tuple, set)):
        d = '= {%s}' % ', '.join('"%s"' % x for x in sorted(devs))
    else:
        d = '<- ' + devs
    return ('SPECIFICATION %s\nCONSTANTS\n  World = "%s"\n  Codecs = {%s}\n  NumEnums = {"F", "T"}\n  Adbcs = {%s}\n'
            '  FileLists <- %s\n  Devs %s\n  MaxSteps = %d\n  Faults = {%s}\n  Grain = "%s"\n  EditDuringCall = %s\n'
            '  Focus = %s\n  EmitWhen = "%s"\nVIEW view\n%sCHECK_DEADLOCK FALSE\n' % (
                spec, world, ', '.join('"%s"' % c for c in codecs), ', '.join(str(a) for a in adbcs), fl, d, steps,
                ', '.join('"%s"' % f for f in faults), grain, 'TRUE' if edc else 'FALSE', 'TRUE' if focus else 'FALSE',
                emit, ''.join('INVARIANT %s\n' % i for i in inv)))


TRACE_CFG = cfg(steps=0, faults=(), spec='TSpec').replace('VIEW view\n', '') + 'POSTCONDITION TraceAccepted\n'


# ----------------------------------------------------------------------------------------
# M: model checking, and A: generation

def model_jobs(tier):
    """(name, cfg kwargs, expectation, emit file or None, workers, simulate)"""
    q = tier == 'quick'
    deep = 5 if q else 7
    jobs = []
    jobs.append(('required mechanism, one key, <=%d steps' % deep,
                 dict(world='split', devs=[], steps=deep, focus=True, inv=('Transparent', 'TypeOK')), 'holds', None, 1, None))
    for w in ('plain', 'split'):
        jobs.append(('mechanism of compiler.py, %s, one key, <=%d steps' % (w, deep),
                     dict(world=w, steps=deep, focus=True, emit='all', inv=('TransparentUpToDevs', 'KillHarmless', 'TypeOK', 'Emit')),
                     'holds', 'gen-focus-%s.ndjson' % w, 1, None))
    jobs.append(('required mechanism, all keys interleaved, <=2 steps',
                 dict(world='split', devs=[], steps=2, inv=('Transparent', 'TypeOK')), 'holds', None, 1, None))
    jobs.append(('mechanism of compiler.py, all keys interleaved, <=2 steps',
                 dict(world='plain', steps=2, emit='all',
                      inv=('TransparentUpToDevs', 'KillHarmless', 'TypeOK', 'Emit')), 'holds', 'gen-full.ndjson', 1, None))
    # the order of the file list matters (both files define module A): [a, b] and [b, a] are different keys
    jobs.append(('mechanism of compiler.py, file order with one module name in both files, <=2 steps',
                 dict(world='dup', steps=2, emit='all', fl='FL4', faults=(), codecs=('uper',), adbcs=(0,),
                      inv=('TransparentUpToDevs', 'TypeOK', 'Emit')), 'holds', 'gen-dup.ndjson', 1, None))
    if not q:
        jobs.append(('required mechanism, all keys interleaved, no faults, <=3 steps',
                     dict(world='split', devs=[], steps=3, faults=(), inv=('Transparent', 'TypeOK')), 'holds', None, 1, None))
        jobs.append(('mechanism of compiler.py, all keys interleaved, no faults, <=3 steps',
                     dict(world='split', steps=3, faults=(), emit='all',
                          inv=('TransparentUpToDevs', 'KillHarmless', 'TypeOK', 'Emit')), 'holds', 'gen-full3.ndjson', 1, None))
    jobs.append(('mechanism of compiler.py, program steps (Kill at every pc), one key, <=%d steps' % (3 if q else 4),
                 dict(world='split', steps=3 if q else 4, focus=True, grain='small',
                      inv=('TransparentUpToDevs', 'KillHarmless', 'TypeOK')), 'holds', None, 1, None))
    jobs.append(('required mechanism, program steps, one key, <=%d steps' % (3 if q else 4),
                 dict(world='split', devs=[], steps=3 if q else 4, focus=True, grain='small',
                      inv=('Transparent', 'TypeOK')), 'holds', None, 1, None))
    if not q:
        # (the 'broken' world - version 2 of file a does not parse - is not explored: its model labels a read from a
        # damaged data base "ReturnedWhereCompileRaises", which TransparentUpToDevs does not know; see DESIGN 7.6)
        jobs.append(('mechanism of compiler.py, 3 codecs x 3 adbc x 4 file lists, one key, <=5 steps',
                     dict(world='split', steps=5, focus=True, emit='all', fl='FL4', adbcs=(0, 1, 2), codecs=('ber', 'der', 'uper'),
                          inv=('TransparentUpToDevs', 'KillHarmless', 'TypeOK', 'Emit')), 'holds', 'gen-focus-wide.ndjson', 1, None))
    # long unfocused histories by simulation
    n, d = (50, 8) if q else (1500, 12)
    for w in (('split',) if q else ('plain', 'split', 'dup')):
        jobs.append(('simulation of %d histories of %d steps, %s' % (n, d, w),
                     dict(world=w, steps=d, emit='final', fl='FL4', adbcs=(0, 1, 2), grain='sim',
                          inv=('TransparentUpToDevs', 'KillHarmless', 'Emit')), 'holds', 'gen-sim-%s.ndjson' % w, 1,
                     ('num=%d' % n, d + 1)))
    # sensitivity of the invariant: every deviation and every mutant mechanism must violate it
    for dv in (ALLDEVS if not q else ALLDEVS[:1] + ALLDEVS[3:]):
        jobs.append(('only ' + dv, dict(world='split', devs=[dv], steps=3, focus=True, inv=('Transparent',)), 'violated', None, 1, None))
    for m in MUTANTS:
        jobs.append(('mutant mechanism ' + m, dict(world='plain', devs=ALLDEVS + [m], steps=3, focus=True,
                                                   inv=('TransparentUpToDevs',)), 'violated', None, 1, None))
    jobs.append(('mechanism of compiler.py against the plain requirement', dict(world='split', steps=3, focus=True, inv=('Transparent',)),
                 'violated', None, 1, None))
    if not q:
        jobs.append(('files edited while a call runs (outside the property: model only)',
                     dict(world='plain', devs=[], steps=2, focus=True, grain='small', edc=True, inv=('Transparent',)),
                     'violated', None, 1, None))
    return jobs


def run_models(run, tier):
    jobs = model_jobs(tier)

    def one(job):
        name, kw, expect, emit, workers, sim = job
        env = {}
        out = None
        if emit:
            out = run.path(emit)
            if os.path.exists(out):
                os.unlink(out)
            env['OUT_FILE'] = out
        res = tlc.run_tlc('Cache', cfg(**kw), env=env, workers=workers, timeout=2400, heap='3g',
                          simulate=sim[0] if sim else None, depth=sim[1] if sim else None,
                          seed=run.seed if sim else None)
        return job, res, out
    results = []
    with ThreadPoolExecutor(max_workers=int(os.environ.get('VERIF_TLC_PARALLEL', '6'))) as ex:
        for job, res, out in ex.map(one, jobs):
            name, kw, expect, emit, workers, sim = job
            violated = 'is violated' in res['error']
            if expect == 'holds' and not res['ok']:
                raise pl.Machinery('model check "%s" failed:\n%s' % (name, tlc.error_context(res['out'])))
            if expect == 'violated' and not violated:
                raise pl.Machinery('model check "%s": expected a counterexample, TLC found none (vacuous invariant?)\n%s'
                                   % (name, tlc.error_context(res['out'])))
            run.account(res, 'Cache: ' + name + (' -> counterexample, as required' if expect == 'violated' else ' -> holds'))
            results.append((name, expect, res['distinct'], res['generated'], round(res['wall'], 1)))
            if emit and not os.path.exists(out):
                open(out, 'w').close()
    return results


# ----------------------------------------------------------------------------------------
# selection of histories and concrete fault parameters (no verdicts here)

def load_histories(run, names):
    out = []
    for n in names:
        p = run.path(n)
        if not os.path.exists(p):
            continue
        for c in pl.dedup_cases(p, n.split('.')[0].replace('gen-', '')):
            out.append(c)
    return out


def shape(c):
    return (c['world'], tuple((s['op'], s['at'], s['tgt'], s['how'], s['exp'], tuple(sorted(s['why']))) for s in c['hist']))


def slim(c):
    hist = []
    for s in c['hist']:
        t = {k: s[k] for k in ('op', 'files', 'fl', 'codec', 'ne', 'adbc', 'at', 'tgt', 'how', 'exp', 'why')}
        hist.append(t)
    return {'cid': c['cid'], 'world': c['world'], 'hist': hist, 'pred': c.get('pred', '-'), 'why': c.get('why', [])}


EARLY = ('open_begin', 'open_end', 'get_begin', 'begin', 'start')
SETPH = ('set_begin',)
MARKER_AT = {'called': 'begin', 'missed': 'get_miss', 'parsed': 'parse_end', 'compiled': 'compile_end'}


def concretise(c, rng, tier):
    """Give every fault step of a history concrete parameters; at most one step becomes a sweep whose
    points the driver enumerates from what it observes (syscall counts, file sizes)."""
    c = slim(c)
    h = int(hashlib.sha1(c['cid'].encode()).hexdigest(), 16)
    c['mode'] = 'file' if h % 2 else 'db'
    c['exit'] = 'abrupt' if (h // 2) % 4 == 0 else 'normal'     # how the calling processes end (drive_cache.child_body)
    sweep = None
    for j, s in enumerate(c['hist']):
        if s['op'] == 'kill':
            first = j == 0 and c['mode'] == 'db'      # the call that creates the data base makes ~150 more writes
            if s['at'] in MARKER_AT and s['at'] != 'called':
                s['p'] = {'kind': 'marker', 'm': MARKER_AT[s['at']]}
            elif s['at'] == 'called':
                # killed before anything was stored: every earlier instant is equivalent for the model
                m = rng.choice(['begin', 'get_begin', 'get_miss', 'parse_end', 'compile_end', 'sys', 'sys', 'delay'])
                if m == 'sys':
                    s['p'] = {'kind': 'sys', 'sys': rng.choice(['pwrite64'] * 5 + ['fdatasync', 'unlink']),
                              'n': rng.randrange(1, 130) if first else rng.randrange(1, 4)}
                    if s['p']['sys'] != 'pwrite64':
                        s['p']['n'] = 1 + s['p']['n'] % (14 if first else 2)
                elif m == 'delay':
                    s['p'] = {'kind': 'delay', 'ms': rng.randrange(1, 250)}
                else:
                    s['p'] = {'kind': 'marker', 'm': m}
            else:
                # during the store: the n-th write-class syscall of the call, not profiled -- if the call
                # makes fewer, it completes and is judged as a call
                n = rng.randrange(130, 175) if first else rng.randrange(1, 24)
                s['p'] = {'kind': 'sys', 'sys': rng.choice(['pwrite64'] * 6 + ['fdatasync', 'unlink']), 'n': n}
                if s['p']['sys'] != 'pwrite64':
                    s['p']['n'] = 1 + n % (16 if first else 4)
        elif s['op'] == 'corrupt':
            s['p'] = {'fsel': rng.randrange(8), 'pos_pm': rng.choice([0, 1, 3, 10, 30, 100, 250, 500, 750, 900, 990, 999]),
                      'mask': rng.choice([1, 2, 4, 8, 16, 32, 64, 128, 255]), 'len': rng.choice([1, 1, 1, 4])}
    if sweep:
        c['sweep'] = sweep
    return c


def select(cases, rng, budget):
    """Order: one history per distinct predicted-wrong shape, one per distinct shape with a fault, then the
    rest in random order; cut at the budget."""
    by_shape = {}
    for c in cases:
        by_shape.setdefault(shape(c), []).append(c)
    shapes = sorted(by_shape, key=lambda s: repr(s))
    rng.shuffle(shapes)
    first, second, rest = [], [], []
    for sh in shapes:
        group = by_shape[sh]
        rng.shuffle(group)
        wrong = any(st[4] == 'wrong' for st in sh[1])
        fault = any(st[0] != 'call' for st in sh[1])
        (first if wrong else second if fault else rest).append(group[0])
        rest += group[1:3]
    rng.shuffle(rest)
    return (first + second + rest)[:budget]


def sweep_cases(cases, rng, tier, others=()):
    """Fault sweeps on TLC-generated histories with exactly one fault step: all crash points / dense
    byte positions (thorough), samples (quick)."""
    q = tier == 'quick'
    out = []

    def pick(pred, n, pool=None):
        cand = [c for c in (cases if pool is None else pool) if pred(c)]
        # shortest first; among them calls with numeric_enums and a codec other than ber, so that a wrongly
        # defaulted specification cannot coincide with the right one
        cand.sort(key=lambda c: (len(c['hist']), c['hist'][-1]['ne'] != 'T', c['hist'][-1]['codec'] == 'ber', c['cid']))
        seen, res = set(), []
        for c in cand:
            sh = shape(c)
            if sh in seen:
                continue
            seen.add(sh)
            res.append(c)
            if len(res) >= n:
                break
        return res

    def ops(c):
        return [st['op'] for st in c['hist']]

    def stored_before(c, j):
        """some earlier step left an entry behind (a call, or a call killed after the commit)"""
        return any(st['op'] == 'call' or (st['op'] == 'kill' and st['at'] in ('storing2', 'storing3')) for st in c['hist'][:j])

    def kill_base(c, later):
        o = ops(c)
        if 'corrupt' in o or o[-1] != 'call' or len(o) > (9 if later else 4) or 'kill' not in o:
            return False
        j = max(k for k, x in enumerate(o) if x == 'kill')          # the swept step: the last kill
        if later:    # a populating call killed in a directory that already holds entries (of other keys)
            return j > 0 and stored_before(c, j) and c['hist'][j]['at'].startswith('storing')
        return j == 0

    def settle(sc, j, as_call=False):
        """steps before the swept one must reliably leave their entry behind: a call killed after its
        commit is killed at the marker that follows the set -- or (damage sweeps) replaced by the
        completed call, which leaves the same model state (TLC emits one history per state and finds
        the killed variant first) but the directory as a normally ending process leaves it: the
        WAL checkpointed into cache.db."""
        for st in sc['hist'][:j]:
            if st['op'] == 'kill' and st['at'] in ('storing2', 'storing3'):
                if as_call:
                    st['op'], st['at'] = 'call', '-'
                    st.pop('p', None)
                else:
                    st['p'] = {'kind': 'marker', 'm': 'set_end'}

    def damage_base(c, how):
        o = ops(c)
        if o.count('corrupt') != 1 or o[-1] != 'call' or len(o) > 4:
            return False
        j = o.index('corrupt')
        return c['hist'][j]['how'] == how and stored_before(c, j)

    # SIGKILL sweeps
    kills_first = pick(lambda c: kill_base(c, False), 1 if q else 2)
    kills_later = pick(lambda c: kill_base(c, True), 1 if q else 2, pool=list(others))
    for c in kills_first + kills_later:
        for mode in ('db', 'file'):
            parts = 1 if q else 12
            for part in range(parts):
                s = concretise(c, rng, tier)
                j = max(k for k, st in enumerate(s['hist']) if st['op'] == 'kill')
                s['hist'][j].pop('p', None)
                settle(s, j)
                s['mode'] = mode
                s['exit'] = 'normal'
                s['cid'] = '%s-k%s%d' % (c['cid'], mode, part)
                s['sweep'] = ({'step': j, 'kind': 'kill-sample', 'count': 9 if mode == 'db' else 7, 'seed': rng.randrange(1 << 30)}
                              if q else {'step': j, 'kind': 'kill-all', 'part': [part, parts]})
                out.append(s)
    # damage sweeps
    for how in ('flip', 'trunc'):
        bases = pick(lambda c: damage_base(c, how), 2)
        for bi, c in enumerate(bases):
            for mode in ('db', 'file'):
                masks = [0x01] if q else [0x01, 0xff]
                if how == 'trunc':
                    masks = [0]
                for mask in masks:
                    parts = 1 if q else 8
                    for part in range(parts):
                        s = concretise(c, rng, tier)
                        j = [k for k, st in enumerate(s['hist']) if st['op'] == 'corrupt'][0]
                        s['hist'][j].pop('p', None)
                        settle(s, j, as_call=(bi == 0))
                        s['mode'] = mode
                        s['exit'] = 'normal'
                        s['cid'] = '%s-%s%s%02x-%d' % (c['cid'], how[0], mode, mask, part)
                        if how == 'flip':
                            s['sweep'] = {'step': j, 'kind': 'flip-dense', 'max': 24 if q else 1200, 'mask': mask,
                                          'offset': rng.randrange(1 << 20), 'part': [part, parts]}
                        else:
                            s['sweep'] = {'step': j, 'kind': 'trunc-dense', 'max': 8 if q else 160,
                                          'offset': rng.randrange(1 << 20), 'part': [part, parts]}
                        out.append(s)
    return out


# ----------------------------------------------------------------------------------------

def witness_cases():
    out = []
    for e in pl.load_findings('C17'):
        w = e.get('witness')
        if isinstance(w, dict) and 'hist' in w:
            c = dict(w)
            c['cid'] = 'w-' + e['id']
            c.setdefault('mode', 'db')
            out.append(c)
    return out


def judge(run, cases_path, deadline, what='Trace_Cache'):
    shards = pl.drive(run, 'drive_cache.py', cases_path, 'trace',
                      ['--seed', str(run.seed), '--deadline', '%d' % deadline], timeout=7200)
    reports = pl.validate(run, 'Trace_Cache', TRACE_CFG, shards, what=what)
    idx = pl.load_trace_index(shards)
    pl.classify(run, reports, idx, 'C17')
    return shards, reports, idx


def account(run, reports, idx, shards):
    pw = sum(r.get('pw', 0) for r in reports)
    cf = sum(r.get('cf', 0) for r in reports)
    run.notes['model_predicted_wrong_returns_replayed'] = pw
    run.notes['model_predicted_wrong_returns_confirmed_on_the_code'] = cf
    stats = {'calls': 0, 'hits': 0, 'misses': 0, 'killed_children': 0, 'kills_by_strace': 0, 'kills_by_marker': 0,
             'kills_by_delay': 0, 'corruptions': 0, 'raised_after_damage': 0, 'cpu_budget_exceeded_after_damage': 0, 'kill_points': set(), 'damage_points': set()}
    for cid, line in idx.items():
        sig = []
        dmg = False
        for e in line['ev']:
            if e['t'] == 'corrupt':
                stats['corruptions'] += e['changed']
                dmg = dmg or e['changed']
                stats['damage_points'].add((line['mode'], e['file'], e['how'], e['pos'], e.get('mask', 0)))
                sig.append(('c', e['how'], e['file'], e['pos'], e.get('mask', 0)))
                continue
            if e['t'] == 'kill':
                if e['died']:
                    stats['killed_children'] += 1
                    stats['kills_by_' + ('strace' if e.get('how') == 'strace' else 'marker' if e.get('how') == 'marker' else 'delay')] += 1
                    k = e.get('k', {})
                    stats['kill_points'].add((line['mode'], k.get('kind'), k.get('sys', k.get('m')), k.get('n', k.get('ms', 0)), e.get('last')))
            else:
                stats['calls'] += 1
            for w in e['wr']:
                if w['op'] == 'get':
                    stats['hits' if w['r'] == 'hit' else 'misses'] += 1
            if e['cached']['st'] == 'exc' and dmg and e['fresh']['st'] == 'ok':
                stats['raised_after_damage'] += 1
            if e['cached']['st'] == 'timeout' and dmg:
                stats['cpu_budget_exceeded_after_damage'] += 1
            k = e.get('k', {})
            sig.append((e['t'], tuple(e['fl']), e['codec'], e['ne'], e['adbc'], repr(e['texts']),
                        k.get('kind'), k.get('sys', k.get('m')), k.get('n')))
        khs = [w['kh'] for e in line['ev'] if e['t'] != 'corrupt' for w in e['wr'] if w['op'] == 'get']
        if len(khs) != len(set(khs)) or any(e['t'] != 'call' for e in line['ev']):
            run.signatures.add((line['world'], line['mode'], tuple(sig)))
        if len(run.samples) < 5 and any(e['t'] != 'call' for e in line['ev']) and len(line['ev']) >= 2:
            run.samples.append({'cid': cid, 'world': line['world'], 'mode': line['mode'], 'events': [brief(e) for e in line['ev']]})
    stats['distinct_kill_points'] = len(stats.pop('kill_points'))
    stats['distinct_damage_points'] = len(stats.pop('damage_points'))
    skipped = 0
    for k in range(pl.NPROC):
        mp = run.path('trace.%d.ndjson.maps' % k)
        if os.path.exists(mp):
            with open(mp) as f:
                skipped += json.load(f).get('skipped', 0)
    stats['histories_not_replayed_for_lack_of_time'] = skipped
    run.notes['replay'] = stats
    run.evaluations = stats['calls'] + stats['killed_children']


def brief(e):
    if e['t'] == 'corrupt':
        return 'corrupt %s %s@%d/%d' % (e['how'], e['file'], e['pos'], e['size'])
    o = e['cached']
    r = o.get('map') or o.get('cls') or o['st']
    f = e['fresh'].get('map') or e['fresh'].get('cls')
    k = e.get('k')
    return '%s%s %s %s ne=%s adbc=%d files=%s -> cached %s, uncached %s, cache events %s' % (
        e['t'], (' @%s' % (k.get('sys', k.get('m', 'delay')) + str(k.get('n', ''))) if k else ''), '+'.join(e['fl']), e['codec'],
        e['ne'], e['adbc'], e['texts'], r, f, [(w['op'], w['r']) for w in e['wr']])


def c17(tier, seed):
    run = pl.Run('C17', tier, seed)
    q = tier == 'quick'
    try:
        rng = random.Random(seed)
        reuse = os.environ.get('VERIF_C17_REUSE')     # development only: take the generated histories of an earlier run
        if reuse:
            import shutil
            for n in os.listdir(reuse):
                if n.startswith('gen-'):
                    shutil.copy(os.path.join(reuse, n), run.path(n))
            models = []
        else:
            models = run_models(run, tier)
        run.notes['model_checks'] = [{'what': m[0], 'expected': m[1], 'distinct_states': m[2], 'states_generated': m[3], 'wall_s': m[4]}
                                     for m in models]
        names = [n for n in os.listdir(run.work) if n.startswith('gen-') and n.endswith('.ndjson')]
        focus = load_histories(run, sorted(n for n in names if 'focus' in n))
        others = load_histories(run, sorted(n for n in names if 'focus' not in n and 'dup' not in n))
        # file order: two calls whose lists hold the same files in another order (always replayed, first)
        dup = [c for c in load_histories(run, sorted(n for n in names if 'dup' in n))
               if len(c['hist']) == 2 and all(h['op'] == 'call' for h in c['hist'])
               and sorted(c['hist'][0]['fl']) == sorted(c['hist'][1]['fl']) and c['hist'][0]['fl'] != c['hist'][1]['fl']]
        run.notes['histories_generated_by_tlc'] = len(focus) + len(others) + len(dup)
        budget = (600, 600) if q else (4000, 4000)
        if os.environ.get('VERIF_C17_BUDGET'):      # development only
            budget = tuple(int(x) for x in os.environ['VERIF_C17_BUDGET'].split(','))
        sel_f = [concretise(c, rng, tier) for c in select(focus, rng, budget[0])]
        sel_o = [concretise(c, rng, tier) for c in select(others, rng, budget[1])]
        sweeps = [] if os.environ.get('VERIF_C17_NOSWEEP') else sweep_cases(focus, rng, tier, others)     # switch: development only
        # one order for all shards: witnesses first, then sweeps / one-key histories / interleaved-key
        # histories in turn, so that a deadline cuts all three kinds alike
        order = witness_cases() + [concretise(c, rng, tier) for c in dup[:40]]
        run.notes['file_order_histories'] = len(dup[:40])
        qs = [sweeps, sel_f, sel_o]
        step = [max(1, len(x)) for x in qs]
        total = max(step)
        pos = [0, 0, 0]
        for t in range(total):
            for k in range(3):
                upto = (t + 1) * len(qs[k]) // total
                order += qs[k][pos[k]:upto]
                pos[k] = upto
        heavy = sweeps
        cpath = run.path('cases.ndjson')
        pl.write_cases(order, cpath)
        run.notes['histories_selected'] = len(order)
        run.notes['sweeps'] = len(heavy)
        deadline = time.time() + int(os.environ.get('VERIF_C17_DRIVE_S', '100' if q else '1300'))
        shards, reports, idx = judge(run, cpath, deadline)
        account(run, reports, idx, shards)
        run.assumptions = [
            'TLC and SANY are correct',
            'key independence (Cache.tla): steps that do not touch a key do not change what calls with that key return; it is '
            'what reduces "all histories of <= N steps" to histories over one key; the unfocused system is explored exhaustively '
            'to a smaller depth and by simulation',
            'the behaviour of a Specification is observed on a fixed probe set (29 encodes with constraint checks, their decodes, '
            '16 fixed decodes, type and module names)',
            'the uncached compile of byte-identical files and options is computed once per driver process (1 in 8 re-uses is '
            'recomputed and compared)',
            'sweeps restore a snapshot (copy) of the cache directory instead of re-executing the steps before the fault',
            'strace -p with inject=<syscall>:signal=KILL:when=N kills the child on entering the N-th such syscall',
        ]
        return pl.finish(run, rule=(
            'histories are states of spec/Cache.tla (BFS with VIEW, one history per distinct state; simulation for long ones, seed %d), '
            'made concrete by seeded choices of kill instants / damaged bytes and by sweeps over all (thorough) or sampled (quick) crash '
            'points and byte positions; a replayed history counts as distinct non-trivial when its (world, directory mode, step arguments, '
            'fault point) tuple is new and either two of its calls used the same cache key or it contains a kill or a corruption' % seed))
    except pl.Machinery as e:
        print('MACHINERY FAILURE C17: %s' % e)
        return 2


def replay_c17(rp, seed):
    """./check C17 --replay <file>: re-execute exactly the recorded history (same fault point) and judge it again."""
    run = pl.Run('C17', 'replay', seed)
    try:
        case = rp.get('case') or {}
        c = dict(case.get('case') or {})
        if not c:
            raise pl.Machinery('replay file has no case')
        c['cid'] = 'replay'
        if 'point' in case and 'sweep' in c:
            c['sweep'] = {'step': c['sweep']['step'], 'kind': 'points', 'points': [case['point']]}
        cpath = run.path('cases.ndjson')
        pl.write_cases([c], cpath)
        shards, reports, idx = judge(run, cpath, time.time() + 3600)
        for cid, line in idx.items():
            for e in line['ev']:
                print('  ' + brief(e))
        return pl.finish(run, rule='replay of one recorded history')
    except pl.Machinery as e:
        print('MACHINERY FAILURE C17: %s' % e)
        return 2
