"""C20: GSER output is well-formed RFC 3641 value notation that determines the value.

  M   spec/MC_Gser.tla: TLC walks TypeGen's universe plus the GSER table and checks, for every
      value and layout, GserRead(GserText(v)) = v (read completely) and that no two different
      values of a case have the same text; the same run emits the cases.
  A/B harness/drive_gser.py runs the real encoder on every (case, value, indent in None/0/2/4),
      records the text as code points; spec/Trace_Gser.tla runs the reader of Gser.tla on each
      text (verdicts ok / dev / reject) and compares the texts of different values pairwise.
  Python only renders, drives, records and counts.
"""
import hashlib
import json
import math
import os
import random

import pipeline as pl
import values

MC_INVS = ['MEmit', 'RoundTrip', 'Injective']


def mc_cfg(max_depth, rich, tagdefs, extras, indents='IndentsAll', invs=MC_INVS, mut=()):
    return ('SPECIFICATION MSpec\nCONSTANTS\n  Big = FALSE\n  MaxDepth = %d\n  Rich = %s\n  TagDefs = {%s}\n'
            '  Extras = %s\n  Mut = {%s}\n  Indents <- %s\n%sCHECK_DEADLOCK FALSE\n' % (
                max_depth, 'TRUE' if rich else 'FALSE', ', '.join('"%s"' % t for t in tagdefs),
                'TRUE' if extras else 'FALSE', ', '.join('"%s"' % m for m in mut), indents,
                ''.join('INVARIANT %s\n' % i for i in invs)))


TIERS = {
    # bfs: (MaxDepth, Rich, TagDefs, Extras);  sim: (num, depth, TagDefs)
    # simcap: at most this many simulated cases are kept (seeded sample)
    'dev': {'bfs': [(0, False, [], True)], 'sim': None, 'simcap': 0, 'rand': 4, 'numerics': '0'},
    'quick': {'bfs': [(1, False, ['E'], True)], 'sim': ('num=8', 3, ['A']), 'simcap': 150, 'rand': 30, 'numerics': '0'},
    'thorough': {'bfs': [(2, False, ['E'], True), (1, True, ['A'], False)], 'sim': ('num=120', 6, ['E', 'A']),
                 'simcap': 2500, 'rand': 400, 'numerics': '0,1'},
}


def generate_cases(run, tier):
    """TLC generates the universe and checks C20 on the model in the same run."""
    t = TIERS[tier]
    cases = []
    for n, (d, rich, tds, extras) in enumerate(t['bfs']):
        out, res = pl.tlc_generate(run, 'MC_Gser', mc_cfg(d, rich, tds, extras), 'gen%d.ndjson' % n, workers=max(1, min(8, pl.NPROC // 2)),
                                   timeout=3000,
                                   what='MC_Gser BFS depth<=%d rich=%s tagdefs=%s extras=%s: RoundTrip, Injective' % (
                                       d, rich, tds, extras))
        cases += pl.dedup_cases(out, 'g%d' % n)
    if t['sim']:
        num, depth, tds = t['sim']
        # deep nestings: simulation only emits (every successor of every visited state); the model-level
        # invariants are checked on the BFS universe, the implementation is checked on both
        out, res = pl.tlc_generate(run, 'MC_Gser', mc_cfg(depth, True, tds, False, invs=['MEmit']),
                                   'gensim.ndjson', workers=1, simulate=num, depth=depth + 1, timeout=3000,
                                   what='MC_Gser simulate %s depth %d (emit only)' % (num, depth))
        sim = sorted(pl.dedup_cases(out, 's'), key=lambda c: c['cid'])
        if len(sim) > t['simcap']:
            sim = random.Random(run.seed).sample(sim, t['simcap'])
        cases += sim
    seen, uniq = set(), []
    for c in cases:
        h = hashlib.sha1(json.dumps([c['env']['types'], c['vals']], sort_keys=True).encode()).hexdigest()
        if h not in seen:
            seen.add(h)
            uniq.append(c)
    return uniq


# ----------------------------------------------------------------------------------------
# inputs beyond TLC's universe (binding B): seeded ordinary doubles and strings

def _t(k, **kw):
    d = {'k': k, 'tags': []}
    d.update(kw)
    return d


NOSZ = {'f': 'N'}
T_REAL = _t('REAL')
T_UTF8 = _t('STR', st='UTF8', sz=NOSZ, al={'has': False, 'set': []})
T_IA5 = _t('STR', st='IA5', sz=NOSZ, al={'has': False, 'set': []})


def t_of(e):
    return _t('SEQOF', e=e, sz=NOSZ)


def t_seq(members):
    return _t('SEQ', root=[{'n': n, 't': t, 'q': q, 'd': 'NULL'} for n, t, q in members], ext=False, adds=[])


def random_cases(seed, n):
    rnd = random.Random(seed)
    doubles = [0.1, 1.1, 1234.5678, 0.625, 8.0, 1e15, 1e16, 1e-4, 1e-5, 123456789012345680.0, 2.5e-8, 1e22, 1e23,
               5e-324, 2.2250738585072014e-308, 1.7976931348623157e308, 0.30000000000000004, 9007199254740993.0,
               100.0, 1000000.0, 0.001]
    while len(doubles) < 21 + n:
        kind = rnd.randrange(4)
        if kind == 0:
            doubles.append(rnd.uniform(-1000, 1000))
        elif kind == 1:
            doubles.append(rnd.choice([-1, 1]) * rnd.random() * 10.0 ** rnd.randint(-30, 30))
        elif kind == 2:
            doubles.append(float(rnd.randint(-10 ** 6, 10 ** 6)))
        else:
            doubles.append(math.ldexp(rnd.randint(1, 2 ** 53 - 1), rnd.randint(-1074, 971 - 53)))
    alphabet = [34, 34, 44, 123, 125, 32, 10, 39, 58, 97, 98, 0x41, 0xe4, 0x20ac]
    strings = []
    for _ in range(n):
        strings.append([rnd.choice(alphabet) for _ in range(rnd.randint(0, 24))])
    cases = []

    def case(T, vals, tag):
        env = {'tagdef': 'A', 'extimp': False, 'types': {'Top': T}}
        body = json.dumps([T, vals], sort_keys=True)
        cases.append({'env': env, 'top': 'Top', 'depth': 0, 'vals': vals,
                      'cid': 'r%s-%s' % (tag, hashlib.sha1(body.encode()).hexdigest()[:10])})
    for i in range(0, len(doubles), 12):
        case(T_REAL, [values.real_from_py(f) for f in doubles[i:i + 12]], 'real')
    for i in range(0, len(doubles), 24):
        chunk = doubles[i:i + 24]
        case(t_of(T_REAL), [[values.real_from_py(f) for f in chunk[j:j + 4]] for j in range(0, len(chunk), 4)], 'reals')
    for i in range(0, len(strings), 12):
        case(T_UTF8, strings[i:i + 12], 'str')
    for i in range(0, len(strings), 24):
        chunk = strings[i:i + 24]
        lists = [chunk[j:j + 3] for j in range(0, len(chunk), 3)]
        # the same characters split differently: the classic collision shape
        joined = [[s for s in lst if 34 not in s] for lst in lists]
        joined = [lst for lst in joined if len(lst) > 1]
        case(t_of(T_UTF8), lists + joined + [[sum(([34, 44, 32, 34] + s for s in lst[1:]), list(lst[0]))] for lst in joined],
             'strs')
        case(t_seq([('s', T_UTF8, 'M'), ('t', T_IA5, 'O')]),
             [{'s': {'p': True, 'v': s}, 't': {'p': bool(k % 2), 'v': [c for c in s if c < 128] if k % 2 else 'NULL'}}
              for k, s in enumerate(chunk[:12])], 'sseq')
    return cases


def witness_cases(prop):
    out = []
    for e in pl.load_findings(prop):
        w = e.get('witness')
        if isinstance(w, dict) and 'env' in w:
            c = dict(w)
            c['cid'] = 'w-' + e['id']
            out.append(c)
    return out


# ----------------------------------------------------------------------------------------

TRACE_CFG = 'SPECIFICATION Spec\nPOSTCONDITION TraceAccepted\nCHECK_DEADLOCK FALSE\n'


def c20(tier, seed, replay_cases=None):
    run = pl.Run('C20', tier, seed)
    try:
        t = TIERS[tier]
        if replay_cases is not None:
            cases = replay_cases
        else:
            cases = generate_cases(run, tier) + random_cases(seed, t['rand']) + witness_cases('C20')
        cpath = run.path('cases.ndjson')
        pl.write_cases(cases, cpath)
        batch = max(2, min(40, len(cases) // (2 * pl.NPROC) or 2))
        shards = pl.drive(run, 'drive_gser.py', cpath, 'trace', ['--numerics', t['numerics'], '--batch', str(batch)])
        reports = pl.validate(run, 'Trace_Gser', TRACE_CFG, shards, what='Trace_Gser')
        idx = pl.load_trace_index(shards)
        pl.classify(run, reports, idx, 'C20')
        texts = 0
        for cid, line in idx.items():
            th = hashlib.sha1(json.dumps(line['env']['types'], sort_keys=True).encode()).hexdigest()[:10]
            for o in line['obs']:
                enc = o.get('enc', {})
                if enc.get('st') == 'ok':
                    texts += 1
                    run.signatures.add((th, o['vi'], o['ne'], hashlib.sha1(bytes(str(enc['t']), 'ascii')).hexdigest()[:12]))
            if len(run.samples) < 5 and len(line['obs']) > 2:
                o = line['obs'][min(len(line['obs']) - 1, 6)]
                enc = o.get('enc', {})
                run.samples.append({'cid': cid, 'asn1_top': line['env']['types'][line['top']],
                                    'value': line['vals'][o['vi'] - 1] if o.get('vi') else None,
                                    'indent': None if o.get('ind', -1) < 0 else o['ind'],
                                    'text': ''.join(chr(c) for c in enc['t']) if enc.get('st') == 'ok' else enc})
        run.notes['cases'] = len(cases)
        run.notes['texts_read_by_the_reader_machine'] = texts
        run.notes['indents'] = [None, 0, 2, 4]
        run.assumptions = [
            'TLC and SANY are correct; spec/Gser.tla is a faithful transcription of RFC 3641 section 3 (the RFC is not '
            'available offline; the productions accepted are listed in the module header)',
            'LINE FEED is admitted as white-space (only where the grammar has sp/msp) in the indented layouts, which '
            'RFC 3641 itself (sp = *%x20) does not have; the compact layout is read with the strict class',
            'decimal text -> double is delegated to Python float() (recorded next to the text); exact when dyadic',
            'harness/render.py renders descriptors to the ASN.1 notation they denote; harness/values.py converts shapes only',
        ]
        return pl.finish(run, rule=(
            'cases are MC_Gser states (TypeGen BFS + simulation + the GSER table, seed %d) and seeded random REAL / string '
            'cases; an observation is one (type, value, numeric_enums, indent) encode call; it counts as distinct '
            'non-trivial when the encoder produced text and (type, value, numeric_enums, text) is new, so layouts of a '
            'value count separately only when their texts differ' % seed))
    except pl.Machinery as e:
        print('MACHINERY FAILURE C20: %s' % e)
        return 2


def c20_replay(path, seed):
    """Re-execute exactly the case of a replay file written by pipeline.finish (all its values, all layouts)."""
    with open(path) as f:
        rp = json.load(f)
    c = rp['case']
    case = {'cid': c['cid'], 'env': c['env'], 'top': c['top'], 'vals': c['vals'], 'depth': 0}
    return c20('dev', seed, replay_cases=[case])
