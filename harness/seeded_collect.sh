#!/bin/sh
# harness/seeded_collect.sh <seeded id>: confirm a sub-agent's seeded change in its scratch worktree /tmp/wt/<id>
# (demo passes on /repo, fails on the worktree; the repository's tests give 486 passed / 7 failed), copy
# patch.diff, demo.py, meta.json to /verif/seeded/<id>/ and remove the worktree.
id=$1; wt=/tmp/wt/$id
[ -f $wt/patch.diff ] && [ -f $wt/demo.py ] && [ -f $wt/meta.json ] || { echo "$id: files missing"; exit 2; }
VERIF_REPO=/repo timeout 600 /venv/bin/python $wt/demo.py > /tmp/wt/$id.demo0 2>&1; r0=$?
VERIF_REPO=$wt timeout 600 /venv/bin/python $wt/demo.py > /tmp/wt/$id.demo1 2>&1; r1=$?
echo "$id demo: unchanged exit=$r0 changed exit=$r1"
[ $r0 -eq 0 ] && [ $r1 -ne 0 ] || { echo "$id: demo does not discriminate"; tail -5 /tmp/wt/$id.demo0 /tmp/wt/$id.demo1; exit 1; }
git -C /repo diff --quiet HEAD -- . || { echo "/repo dirty"; exit 2; }
res=$(cd $wt && /venv/bin/python -m pytest -q -p no:cacheprovider --timeout=900 2>&1 | tail -1)
echo "$id tests: $res"
case "$res" in *"7 failed, 486 passed"*) ;; *) echo "$id: test suite differs"; exit 1;; esac
mkdir -p /verif/seeded/$id && cp $wt/patch.diff $wt/demo.py $wt/meta.json /verif/seeded/$id/
git -C /repo worktree remove --force $wt
echo "$id collected"
