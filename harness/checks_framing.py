"""Checks of the BER framing family.

C04  TlvRewrite (TLA+) rewrites the distinguished TLV tree of TypeGen values -- and of the encodings
     the repository's own tests decode -- into the other forms X.690 BER allows; TLC checks on the
     model that every variant reads back as the distinguished tree; the real BER decoder is run on
     every variant; Trace_Rewrite (TLC) requires the decoded value to be the encoded one.
C15  LengthProbe (TLA+) specifies the length probe on streams fed octet by octet (model-checked:
     unknown until the header is complete, the message length from then on); the real
     decode_length / decode_with_length are run on every prefix / with every tail; Trace_Probe
     (TLC) compares.
"""
import hashlib
import json
import os
import subprocess

import pipeline as pl
import checks_codec as cc

# VERIF_FRAMING_REUSE=<kept work dir of an earlier run>: skip behaviour generation and replay the
# generated behaviours of that run (used by the sensitivity demonstrations on mutated copies of the repository)
REUSE = os.environ.get('VERIF_FRAMING_REUSE', '')

# TLC workers of the generator runs (trace validation always runs one worker per shard)
TLC_WORKERS = min(pl.NPROC, int(os.environ.get('VERIF_TLC_WORKERS', str(pl.NPROC))))

ASSUMPTIONS = [
    'TLC and SANY are correct; the transcription of X.690 8.1 (identifier, length, end-of-contents), 8.6.4, '
    '8.7.3, 8.23.6 (constructed strings) and 8.11/8.12 (SET order) in spec/X690.tla, spec/TlvRewrite.tla and '
    'spec/LengthProbe.tla is faithful',
    'harness/render.py renders descriptors to the ASN.1 notation they denote; harness/values.py converts shapes only',
]


def unique_cases(cases):
    seen, uniq = set(), []
    for c in cases:
        h = hashlib.sha1(json.dumps([c['env'], c['vals']], sort_keys=True).encode()).hexdigest()
        if h not in seen:
            seen.add(h)
            uniq.append(c)
    return uniq


def typegen(run, specs, prefix):
    """specs: list of (max_depth, rich, tagdefs, simulate or None)."""
    cases = []
    for n, (d, rich, tds, sim) in enumerate(specs):
        if sim:
            out, _ = pl.tlc_generate(run, 'TypeGen', cc.typegen_cfg(d, rich, tds), '%s_tg%d.ndjson' % (prefix, n),
                                     workers=1, simulate=sim, depth=d + 1,
                                     what='TypeGen simulate %s depth %d' % (sim, d))
        else:
            out, _ = pl.tlc_generate(run, 'TypeGen', cc.typegen_cfg(d, rich, tds), '%s_tg%d.ndjson' % (prefix, n),
                                     workers=8, what='TypeGen BFS depth<=%d rich=%s tagdefs=%s' % (d, rich, tds))
        cases += pl.dedup_cases(out, '%s%d' % (prefix, n))
    return unique_cases(cases)


def merge_lines(paths, dest):
    """concatenate ndjson files dropping identical lines (BFS and simulation revisit variants)"""
    seen = set()
    n = 0
    with open(dest, 'w') as out:
        for p in paths:
            with open(p) as f:
                for line in f:
                    if not line.strip():
                        continue
                    h = hashlib.sha1(line.encode()).digest()[:10]
                    if h in seen:
                        continue
                    seen.add(h)
                    out.write(line)
                    n += 1
    return n


# ----------------------------------------------------------------------------------------
# C04

def rewrite_cfg(steps, all_cuts, max_vals, mut='', values=False):
    """values: also check VariantReadsBack (the BER value reader of X690ValueReader on every variant) - only in the
    BFS plans with one or two rewrite steps; under -simulate TLC evaluates invariants on every successor"""
    return ('SPECIFICATION Spec\nCONSTANTS\n  MaxSteps = %d\n  AllCuts = %s\n  MaxNest = 3\n  MaxVals = %d\n'
            '  Mut = "%s"\nINVARIANT StartIsDer\n%sINVARIANT CheckAndEmit\nCHECK_DEADLOCK FALSE\n'
            % (steps, 'TRUE' if all_cuts else 'FALSE', max_vals, mut, 'INVARIANT VariantReadsBack\n' if values else ''))


def record_fixtures(run, max_n, max_len):
    """Binding B inputs: the BER encodings tests/test_ber.py decodes, recorded by wrapping the public API
    from outside (harness/record_fixtures.py).  Returns (cases file for TLC, meta file for the driver, count)."""
    fx_dir = run.path('fx')
    env = dict(os.environ)
    env['VERIF_REPO'] = pl.REPO
    p = subprocess.run([pl.PY, os.path.join(pl.HERE, 'record_fixtures.py'), '--out', fx_dir, '--max', str(max_n),
                        '--maxlen', str(max_len)], env=env, stdout=subprocess.PIPE, stderr=subprocess.STDOUT,
                       text=True, timeout=1800)
    cases = os.path.join(fx_dir, 'fx_cases.ndjson')
    if p.returncode != 0 or not os.path.exists(cases):
        raise pl.Machinery('record_fixtures failed:\n%s' % p.stdout[-2000:])
    n = sum(1 for l in open(cases) if l.strip())
    return cases, os.path.join(fx_dir, 'fx_meta.ndjson'), n


def small(cases, cap):
    """cases whose descriptor + values are small (bounds the size of the TLV trees; selection only)"""
    return [c for c in cases if len(json.dumps([c['env'], c['vals']])) <= cap]


def new_run(prop, tier, seed):
    run = pl.Run(prop, tier, seed)
    if os.environ.get('VERIF_KEEP'):          # keep the generated behaviours (see REUSE)
        run.cleanup = lambda: None
    return run


def c04(tier, seed):
    run = new_run('C04', tier, seed)
    try:
        # plans: (name, cases, R, all cut points, values per case, simulate, depth)
        if REUSE:
            shallow, deep, plans = [], [], []
        elif tier == 'smoke':       # a small universe for sensitivity demonstrations
            shallow = typegen(run, [(1, False, ['E'], None)], 'g')[::4]
            deep = []
            plans = [('bfs1', shallow, 1, False, 3, None, None)]
            fx_max, fx_len = 60, 120
            fx_plans = [('fxbfs1', rewrite_cfg(1, False, 1), None, None)]
        elif tier == 'quick':
            shallow = typegen(run, [(1, False, ['E', 'A'], None)], 'g')
            deep = small(typegen(run, [(3, True, ['I', 'E'], 'num=10')], 's'), 2500)[:120]
            plans = [('bfs1', shallow + deep, 1, False, 4, None, None),
                     ('bfs2', small(shallow, 900)[::3], 2, False, 1, None, None),
                     ('bfs3', small([c for c in shallow if c['depth'] == 0], 420)[::4], 3, False, 1, None, None),
                     ('sim', shallow + deep, 10, True, 8, 'num=60', 11)]
            fx_max, fx_len = 150, 600
            fx_plans = [('fxbfs1', rewrite_cfg(1, False, 1), None, None),
                        ('fxsim', rewrite_cfg(8, True, 1), 'num=15', 9)]
        else:
            shallow = typegen(run, [(1, True, ['E', 'A'], None), (1, False, ['I'], None)], 'g')
            deep = small(typegen(run, [(2, False, ['E', 'I', 'A'], None), (5, True, ['E', 'I', 'A'], 'num=300')], 's'), 4000)
            plans = [('bfs1', shallow + deep, 1, True, 14, None, None),
                     ('bfs2', shallow, 2, False, 3, None, None),
                     ('bfs3', [c for c in shallow if c['depth'] == 0], 3, False, 3, None, None),
                     ('sim', shallow + deep, 12, True, 14, 'num=3000', 13)]
            fx_max, fx_len = 100000, 2500
            fx_plans = [('fxbfs1', rewrite_cfg(1, False, 1), None, None),
                        ('fxsim', rewrite_cfg(12, True, 1), 'num=200', 13)]
        cases = unique_cases(shallow + deep)
        cpath = run.path('cases.ndjson')
        pl.write_cases(cases, cpath)
        outs = []
        for name, sub, steps, cuts, mv, sim, depth in ([] if REUSE else plans):
            sub = unique_cases(sub)
            spath = run.path('cases_%s.ndjson' % name)
            pl.write_cases(sub, spath)
            out, res = pl.tlc_generate(run, 'TlvRewrite', rewrite_cfg(steps, cuts, mv, values=(name == 'bfs2')), 'var_%s.ndjson' % name,
                                       workers=TLC_WORKERS, simulate=sim, depth=depth, env={'CASES_FILE': spath},
                                       timeout=6000, what='TlvRewrite %s: %d cases, R=%d (ModelOk on every variant)'
                                       % (name, len(sub), steps))
            outs.append(out)
        if REUSE:    # generated behaviours of an earlier run of the same tier and seed (they do not depend on /repo)
            cpath, vpath = os.path.join(REUSE, 'cases.ndjson'), os.path.join(REUSE, 'variants.ndjson')
            nvar = sum(1 for l in open(vpath))
        else:
            vpath = run.path('variants.ndjson')
            nvar = merge_lines(outs, vpath)
        shards = pl.drive(run, 'drive_rewrite.py', cpath, 'trace', ['--variants', vpath])
        # binding B: encodings the repository's tests decode, rewritten type-agnostically by TLC
        fshards = []
        if REUSE:
            fx_meta = os.path.join(REUSE, 'fx', 'fx_meta.ndjson')
            nfx = sum(1 for l in open(fx_meta))
            fshards = pl.drive(run, 'drive_rewrite.py', fx_meta, 'fxtrace',
                               ['--variants', os.path.join(REUSE, 'fxvariants.ndjson')])
        else:
            fx_cases, fx_meta, nfx = record_fixtures(run, fx_max, fx_len)
        if nfx and not REUSE:
            fouts = []
            for name, cfg, sim, depth in fx_plans:
                out, res = pl.tlc_generate(run, 'TlvRewrite', cfg, 'var_%s.ndjson' % name, workers=TLC_WORKERS,
                                           simulate=sim, depth=depth, env={'CASES_FILE': fx_cases}, timeout=6000,
                                           what='TlvRewrite %s on %d encodings decoded by tests/test_ber.py' % (name, nfx))
                fouts.append(out)
            nvar += merge_lines(fouts, run.path('fxvariants.ndjson'))
            fshards = pl.drive(run, 'drive_rewrite.py', fx_meta, 'fxtrace', ['--variants', run.path('fxvariants.ndjson')])
        cfg = 'SPECIFICATION Spec\nPOSTCONDITION TraceAccepted\nCHECK_DEADLOCK FALSE\n'
        reports = pl.validate(run, 'Trace_Rewrite', cfg, shards + fshards, what='Trace_Rewrite')
        idx = pl.load_trace_index(shards + fshards)
        pl.classify(run, reports, idx, 'C04')
        shapes = {}
        for cid, line in idx.items():
            for o in line['obs']:
                for sh, n in o.get('shapes', {}).items():
                    shapes[sh] = shapes.get(sh, 0) + n
                    run.signatures.add((cid, o['vi'], sh))
                if len(run.samples) < 5 and o.get('shapes') and 'env' in line and len(line['env']['types']) == 1 \
                        and line['top'] in line['env']['types'] and line['env']['types'][line['top']]['k'] not in ('INT', 'BOOL'):
                    run.samples.append({'cid': cid, 'asn1_top': line['env']['types'][line['top']],
                                        'value': line['vals'][o['vi'] - 1], 'variants_decoded': o['same'] + len(o['diff']),
                                        'rewrite_shapes': sorted(o['shapes'])[:6]})
        run.notes['cases'] = len(cases)
        run.notes['fixture_encodings'] = nfx
        run.notes['variant_lines_generated'] = nvar
        run.notes['distinct_rewrite_shapes'] = len(shapes)
        run.notes['top_shapes'] = dict(sorted(shapes.items(), key=lambda kv: -kv[1])[:25])
        run.assumptions = ASSUMPTIONS
        return pl.finish(run, rule=(
            'start trees: DER trees of TypeGen values (BFS + simulation, seed %d) and the encodings tests/test_ber.py decodes; '
            'variants: every tree reachable by <= R rewrite steps (BFS) plus random mixtures (simulation) of '
            'SetLength / SegmentNest / SegmentFlat / SegmentNone / PermuteSet on any node; an observation is one '
            'distinct rewritten encoding decoded by the BER decoder; distinct non-trivial = distinct (type, value, '
            'rewrite shape) where the shape is the multiset of (node kind, length form, segmentation depth, permuted)'
            % seed))
    except pl.Machinery as e:
        print('MACHINERY FAILURE C04: %s' % e)
        return 2


# ----------------------------------------------------------------------------------------
# C15

def probe_cfg(mode, classes, seed, max_vals, max_len=70000):
    return ('SPECIFICATION Spec\nCONSTANTS\n  Mode = "%s"\n  Classes = {%s}\n  Seed = %d\n  MaxLen = %d\n  Dense = 300\n'
            '  MaxVals = %d\nINVARIANT ProbeOk\nINVARIANT Emit\nPROPERTY Monotone\nCHECK_DEADLOCK FALSE\n'
            % (mode, ', '.join('"%s"' % c for c in classes), seed % 1000000, max_len, max_vals))


def c15(tier, seed):
    run = new_run('C15', tier, seed)
    try:
        if REUSE:
            classes, max_vals, max_len, cases = [], 0, 0, []
        elif tier == 'smoke':       # a small universe for sensitivity demonstrations
            classes, max_vals, max_len = ['C'], 2, 256
            cases = typegen(run, [(1, False, ['E'], None)], 'g')[::6]
        elif tier == 'quick':
            classes, max_vals, max_len = ['C'], 3, 70000
            cases = typegen(run, [(1, False, ['E', 'A'], None)], 'g')
        else:
            # (depth-2 BFS over three tag defaults with 14 values each did not finish in an hour and 6 GB)
            # and rich depth 1 over three tag defaults + 200 simulated deep types (11 434 cases x 8 values) ran for an hour in the
            # typed LengthProbe run (PROPERTY Monotone is checked on the whole state graph)
            classes, max_vals, max_len = ['A', 'C', 'P'], 6, 70000
            cases = typegen(run, [(1, True, ['E'], None), (1, False, ['I', 'A'], None), (4, True, ['E', 'I', 'A'], 'num=25')], 'g')
        cpath = run.path('cases.ndjson')
        pl.write_cases(cases, cpath)
        empty = run.path('empty.ndjson')
        open(empty, 'w').close()
        if REUSE:
            cpath, mpath = os.path.join(REUSE, 'cases.ndjson'), os.path.join(REUSE, 'msgs.ndjson')
            nmsg = sum(1 for l in open(mpath))
        else:
            mpath = run.path('msgs.ndjson')
            out_a, _ = pl.tlc_generate(run, 'LengthProbe', probe_cfg('abs', classes, seed, max_vals, max_len), 'msgs_abs.ndjson',
                                       workers=TLC_WORKERS, env={'CASES_FILE': empty}, timeout=3000,
                                       what='LengthProbe abstract messages (ProbeOk, Monotone on every prefix state)')
            out_t, _ = pl.tlc_generate(run, 'LengthProbe', probe_cfg('typed', classes, seed, max_vals, max_len), 'msgs_typed.ndjson',
                                       workers=TLC_WORKERS, env={'CASES_FILE': cpath}, timeout=3000,
                                       what='LengthProbe typed messages (ProbeOk, Monotone on every prefix state)')
            nmsg = merge_lines([out_a, out_t], mpath)
        shards = pl.drive(run, 'drive_probe.py', cpath, 'trace', ['--msgs', mpath])
        cfg = ('SPECIFICATION TraceSpec\nCONSTANTS\n  Mode = "trace"\n  Classes = {}\n  Seed = %d\n  MaxLen = 0\n  Dense = 300\n'
               '  MaxVals = 0\nPOSTCONDITION TraceAccepted\nCHECK_DEADLOCK FALSE\n' % (seed % 1000000))
        reports = pl.validate(run, 'Trace_Probe', cfg, shards, what='Trace_Probe')
        idx = pl.load_trace_index(shards)
        pl.classify(run, reports, idx, 'C15')
        nprefix = 0
        for cid, line in idx.items():
            for o in line['obs']:
                for t in o.get('tails', []):
                    run.signatures.add((cid, o['codec'], len(t['t']), tuple(t['t'][:2])))
                    nprefix += t['runs'][-1]['hi'] + 1 if t['runs'] else 0
            if line['kind'] == 'abs' and len(run.samples) < 4 and line['n'] in (128, 65536) and line['d']['num'] > 30:
                o = line['obs'][0]
                run.samples.append({'cid': cid, 'message': line['d'], 'header_octets': bytes(line['h']).hex(),
                                    'codec': o['codec'],
                                    'decode_length_runs': [[r['lo'], r['hi'], r['a']] for r in o['tails'][-1]['runs']],
                                    'decode_with_length': o['tails'][-1]['dwl']})
        run.notes['messages'] = nmsg
        run.notes['typed_cases'] = len(cases)
        run.notes['prefixes_probed'] = nprefix
        run.assumptions = ASSUMPTIONS
        return pl.finish(run, rule=(
            'messages: every (class, tag number, length form, contents length) of the LengthProbe tables whose form '
            'holds the length (abstract zero contents) and the DER encodings of TypeGen values (seed %d); each with '
            'the tails {empty, 00, 00 00, 30 80, seeded random octets}; every prefix length of message + tail is '
            'probed with decode_length, decode_with_length is called on message + tail; distinct non-trivial = '
            'distinct (message, codec, tail); observations weigh one per probed prefix and one per '
            'decode_with_length call' % seed))
    except pl.Machinery as e:
        print('MACHINERY FAILURE C15: %s' % e)
        return 2
