"""C02 -- text codecs (JER, XER) round-trip every value and emit well-formed documents.

  M   spec/TextModel.tla: over TypeGen's universe  Read(T, Tree(T, v))  is AbsEq to v  (Jer.tla, Xer.tla),
      under the mapping and under the benign deviations; the same TLC run emits the cases (binding A)
  A/B harness/drive_text.py runs encode(v, indent in {None,0,1,4}) / decode of the real codecs on the
      cases + the string / REAL / BIT STRING tables below, parses every document with an independent
      reader and records the trees; spec/Trace_Text.tla judges every recorded document.

The tables below are *inputs* (abstract values in the JSON form of spec/Asn1Value.tla); nothing here
says what a codec should do with them.
"""
import copy
import hashlib
import json
import random

import pipeline as pl
import checks_codec as cc
import values

TRACE_CFG = 'SPECIFICATION Spec\nPOSTCONDITION TraceAccepted\nCHECK_DEADLOCK FALSE\n'


def model_cfg(max_depth, rich, tagdefs, model_devs='{}'):
    return (cc.typegen_cfg(max_depth, rich, tagdefs)
            + 'CONSTANT ModelDevs = %s\nINVARIANT TextRoundTrip\n' % model_devs)


# ----------------------------------------------------------------------------------------
# descriptor constructors (JSON form of spec/Asn1Type.tla)

NOSZ = {'f': 'N'}
NOAL = {'has': False, 'set': []}


def sz(lb, ub, ext=False):
    return {'f': 'R', 'lb': lb, 'ub': ub, 'ubinf': False, 'ext': ext}


def prim(k, **kw):
    d = {'k': k, 'tags': []}
    d.update(kw)
    return d


def tstr(st, size=NOSZ):
    return prim('STR', st=st, sz=size, al=NOAL)


def tint():
    return prim('INT', con={'f': 'N'}, nn=[])


def tenum(names, ext=False, adds=()):
    return prim('ENUM', root=[{'n': n, 'v': i} for i, n in enumerate(names)], ext=ext,
                adds=[{'n': n, 'v': len(names) + i} for i, n in enumerate(adds)])


def mem(n, t, q='M', d='NULL'):
    return {'n': n, 't': t, 'q': q, 'd': d}


def tseq(members, k='SEQ'):
    return prim(k, root=members, ext=False, adds=[])


def tchoice(alts):
    return prim('CHOICE', root=[{'n': n, 't': t} for n, t in alts], ext=False, adds=[])


def tof(e, k='SEQOF'):
    return prim(k, e=e, sz=NOSZ)


def ref(name):
    return prim('REF', name=name)


def present(v):
    return {'p': True, 'v': v}


ABSENT = {'p': False, 'v': 'NULL'}


def case(cid, types, vals, top='Top'):
    return {'cid': cid, 'env': {'tagdef': 'A', 'extimp': False, 'types': types}, 'top': top, 'vals': vals}


def cps(s):
    return [ord(c) for c in s]


# ----------------------------------------------------------------------------------------
# input tables

XML_STRINGS = [
    '<', '&', '"', "'", '>', ']]>', 'a<b&c>d', '&amp;', '&#13;', '&lt;', '<![CDATA[x]]>', '<!--c-->', '<?pi?>', '</Top>',
    ' ', '  ', ' a ', 'a  b', '\t', '\n', 'a\nb', '\ta\t', ' \n ', '\n\n', ' a', 'a ',
    '\r', 'a\rb', 'a\r\nb', '\r\n', '\n\r',
    '\U0001F600', 'a\U00010000b', '\U0010FFFF', '\U0001F600\U0001F601',
    '\x7f', '\x80', '\x85', '\xa0', '\u2028', '\u2029', '\ud7ff', '\ue000', '\ufffd', '\xe4\u20ac', 'f \u2192 \u221d',
]
JSON_ONLY_STRINGS = [
    '\x00', '\x01', '\x08', '\x0b', '\x0c', '\x0e', '\x1f', 'a\x00b', '\\', '/', '\\u0041', 'a"b\\c', '</script>', '\\"',
    '\ufffe', '\uffff', '\x1b[0m', '{"a":1}', '[1]', 'null', 'NaN',
]
REAL_TABLE = [
    0.0, -0.0, 5e-324, -5e-324, 2.2250738585072014e-308, 1e-300, 1e-100, 1e-7, 1e-5, 9.999999999999999e-05, 0.0001,
    0.00012345, 0.1, -0.1, 0.5, 1.0, -1.0, 1.5, 2.0, 9.99, 9.999999999999998, 10.0, -10.0, 12.5, 99.9, 100.0, 1024.0,
    123456.789, 1e15, 9007199254740993.0, 1e16, 1e17, 1e21, 1e22, 1e23, -1e23, 1.2345678901234567e+30, 1e100, 1e300,
    -1e300, 8.98846567431158e+307, 1.7976931348623157e+308, -1.7976931348623157e+308,
    float('inf'), float('-inf'), float('nan'),
]


def chunks(xs, n):
    return [xs[i:i + n] for i in range(0, len(xs), n)]


def random_strings(rng, n, xml_legal):
    """Strings of random code points over the whole range the target syntax can represent."""
    ranges = ([(9, 10), (13, 13), (32, 126), (127, 0xD7FF), (0xE000, 0xFFFD), (0x10000, 0x10FFFF)] if xml_legal
              else [(0, 31), (32, 126), (127, 0xD7FF), (0xE000, 0xFFFF), (0x10000, 0x10FFFF)])
    out = []
    for _ in range(n):
        ln = rng.choice([1, 1, 2, 3, 5, 9])
        s = []
        for _ in range(ln):
            lo, hi = rng.choice(ranges)
            s.append(rng.randint(lo, hi))
        out.append(s)
    return out


def random_reals(rng, n):
    out = []
    for _ in range(n):
        kind = rng.randrange(4)
        if kind == 0:
            f = rng.uniform(-20, 20)
        elif kind == 1:
            f = rng.uniform(1, 10) * 10.0 ** rng.randint(-320, 308)
        elif kind == 2:
            f = float(rng.randint(-10 ** 6, 10 ** 6)) / rng.choice([1, 2, 4, 8, 10, 1000])
        else:
            import struct
            bits = rng.getrandbits(64)
            f = struct.unpack('>d', struct.pack('>Q', bits))[0]
        if f != f or f in (float('inf'), float('-inf')):
            f = 1.0
        out.append(f)
    return out


def extra_cases(tier, seed):
    rng = random.Random(seed)
    cases = []
    nrs, nrr = (40, 40) if tier == 'quick' else (1500, 1500)
    xml_vals = [cps(s) for s in XML_STRINGS] + random_strings(rng, nrs, True)
    jer_vals = [cps(s) for s in JSON_ONLY_STRINGS] + random_strings(rng, nrs, False)
    allstr = xml_vals + jer_vals
    utf8 = tstr('UTF8')
    # strings: alone, as a SEQUENCE member (also OPTIONAL / beside another leaf), as list items, as a CHOICE alternative
    for n, ch in enumerate(chunks(allstr, 16)):
        cases.append(case('x-str-top-%d' % n, {'Top': utf8}, ch))
        cases.append(case('x-str-univ-%d' % n, {'Top': tstr('Universal')}, ch))
        cases.append(case('x-str-seq-%d' % n,
                          {'Top': tseq([mem('s', utf8), mem('t', tstr('General'), 'O'), mem('b', prim('BOOL'))])},
                          [{'s': present(s), 't': present(s) if i % 2 else ABSENT, 'b': present(True)} for i, s in enumerate(ch)]))
        cases.append(case('x-str-list-%d' % n, {'Top': tof(utf8)}, [[s, [], s] for s in ch[:8]] + [ch[:6]]))
        cases.append(case('x-str-choice-%d' % n, {'Top': tchoice([('i', tint()), ('s', utf8)])}, [{'a': 's', 'v': s} for s in ch]))
    cases.append(case('x-str-bmp', {'Top': tstr('BMP')}, [cps(s) for s in XML_STRINGS if all(ord(c) < 65536 for c in s)][:40]))
    cases.append(case('x-str-ia5', {'Top': tstr('IA5')}, [cps(s) for s in XML_STRINGS + JSON_ONLY_STRINGS if all(ord(c) < 128 for c in s)]))
    # REAL: alone, as a member, as list items
    reals = [values.real_from_py(f) for f in REAL_TABLE + random_reals(rng, nrr)]
    treal = prim('REAL')
    for n, ch in enumerate(chunks(reals, 16)):
        cases.append(case('x-real-top-%d' % n, {'Top': treal}, ch))
        cases.append(case('x-real-seq-%d' % n, {'Top': tseq([mem('r', treal), mem('i', tint())])},
                          [{'r': present(r), 'i': present({'neg': False, 'mag': [7]})} for r in ch]))
        cases.append(case('x-real-list-%d' % n, {'Top': tof(treal)}, [[r] for r in ch[:8]] + [ch[:5], ch[5:10]]))
    # BIT STRING whose size constraint is a single value but extensible; ranges; empty
    bits = [{'n': 4, 'b': [0xA0]}, {'n': 5, 'b': [0xA8]}, {'n': 3, 'b': [0xA0]}, {'n': 0, 'b': []}, {'n': 12, 'b': [0xFF, 0xF0]}]
    for nm, szc in (('fixext', sz(4, 4, True)), ('rngext', sz(1, 4, True)), ('fix', sz(4, 4)), ('zero', sz(0, 0, True))):
        T = prim('BITS', sz=szc, nb=[])
        cases.append(case('x-bits-%s' % nm, {'Top': T}, bits))
        cases.append(case('x-bits-%s-in' % nm, {'Top': tseq([mem('b', T), mem('l', tof(T), 'O')])},
                          [{'b': present(b), 'l': present([b, b])} for b in bits]))
    # list items of referenced / recursive BOOLEAN, ENUMERATED, CHOICE types
    en = tenum(['a', 'b'], True, ['c'])
    types = {'Bo': prim('BOOL'), 'En': en, 'Ch': tchoice([('x', tint()), ('b', ref('Bo')), ('e', ref('En')), ('n', prim('NULL'))]),
             'Top': tseq([mem('lb', tof(ref('Bo'))), mem('le', tof(ref('En'), 'SETOF')), mem('lc', tof(ref('Ch'))),
                          mem('ln', tof(prim('NULL'))), mem('ll', tof(tof(ref('Bo')))), mem('lr', tof(ref('Rc')), 'O')]),
             'Rc': tchoice([('leaf', ref('En')), ('node', tof(ref('Rc'))), ('pair', tseq([mem('l', ref('Rc')), mem('r', ref('Rc'), 'O')]))])}
    leaf = {'a': 'leaf', 'v': 'c'}
    node = {'a': 'node', 'v': [leaf, {'a': 'node', 'v': []}, {'a': 'pair', 'v': {'l': present(leaf), 'r': ABSENT}}]}
    cases.append(case('x-items', types, [
        {'lb': present([True, False]), 'le': present(['a', 'c', 'a']), 'lc': present([{'a': 'x', 'v': {'neg': True, 'mag': [5]}}, {'a': 'b', 'v': False}, {'a': 'e', 'v': 'b'}, {'a': 'n', 'v': 'NULL'}]),
         'ln': present(['NULL', 'NULL']), 'll': present([[True], []]), 'lr': present([leaf, node])},
        {'lb': present([]), 'le': present([]), 'lc': present([]), 'ln': present([]), 'll': present([]), 'lr': ABSENT}]))
    cases.append(case('x-rec-top', types, [leaf, node, {'a': 'pair', 'v': {'l': present(node), 'r': present(leaf)}}], top='Rc'))
    return cases


# ----------------------------------------------------------------------------------------
# sensitivity of the trace specification: corrupted recordings must be rejected (DESIGN 2.10)

def _first_node(node, pred):
    if pred(node):
        return node
    for k in node.get('kids', []) + node.get('vs', []):
        r = _first_node(k, pred)
        if r is not None:
            return r
    return None


def _corruptions(line):
    """(label, check that must reject, corrupted copy) for the observations of one recorded line."""
    topk = line['env']['types'][line['top']]['k']
    for oi, o in enumerate(line['obs']):
        docs = o.get('docs')
        if not docs or len(docs) < 4 or docs[0]['enc']['st'] != 'ok' or not docs[0].get('wf', {}).get('ok'):
            continue
        if 'tree' not in docs[0] or docs[0].get('dec', {}).get('st') != 'ok':
            continue

        def variant(label, check, fn):
            l2 = copy.deepcopy(line)
            l2['cid'] = '%s#%s-%s' % (line['cid'], label, o['codec'])
            l2['obs'] = [l2['obs'][oi]]
            return None if fn(l2['obs'][0]['docs']) is False else (label, check, l2)

        def c_text(docs):       # one character of a string / text leaf changed
            leaf = _first_node(docs[0]['tree'], lambda n: (n.get('f') == 't' and n['text']) or (n.get('j') == 'str' and n['s']))
            if leaf is None:
                return False
            key = 'text' if 'text' in leaf else 's'
            leaf[key][0] += 1

        def c_wf(docs):         # the independent reader refused the indent=0 document
            docs[1]['wf'] = {'ok': False, 'msg': 'corrupted'}

        def c_dec(docs):        # the library's decoder failed
            docs[0]['dec'] = {'st': 'exc', 'cls': 'DecodeError', 'mro': [], 'msg': 'corrupted', 'site': 'nowhere'}

        def c_indent(docs):     # indent=4 put white space into a text leaf
            t = copy.deepcopy(docs[0]['tree'])
            leaf = _first_node(t, lambda n: n.get('f') == 't')
            if leaf is None:
                return False
            leaf['text'] = [10, 32, 32] + leaf['text']
            docs[3].pop('same', None)
            docs[3]['tree'] = t

        def c_real(docs):       # the emitted digits denote a neighbouring double
            if topk != 'REAL':
                return False
            leaf = _first_node(docs[0]['tree'], lambda n: n.get('fl', {}).get('c') == 'F')
            if leaf is None:
                return False
            leaf['fl']['m'][-1] ^= 2

        muts = [('text', 'TREE@none', c_text), ('wf', 'WF@0', c_wf), ('dec', 'RT@none', c_dec), ('real', 'REAL@none', c_real)]
        if o['codec'] == 'xer':
            muts.append(('indent', 'TREE@4', c_indent))
        for label, check, fn in muts:
            v = variant(label, check, fn)
            if v:
                yield v


SELFTEST_KINDS = 9     # text, wf, dec, real for jer and xer; indent for xer


def make_corrupted(run, shards):
    """Write a shard of corrupted copies of recorded lines; returns (path, {cid: check that must not be ok})."""
    want, seen = {}, set()
    path = run.path('corrupted.ndjson')
    with open(path, 'w') as f:
        for sh in shards:
            for l in open(sh):
                if len(seen) >= SELFTEST_KINDS:
                    break
                line = json.loads(l)
                for label, check, l2 in _corruptions(line):
                    k = (label, l2['obs'][0]['codec'])
                    if k in seen:
                        continue
                    seen.add(k)
                    want[l2['cid']] = check
                    f.write(json.dumps(l2) + '\n')
    return path, want


def check_corrupted(run, reports, want):
    """Every corrupted line must have drawn a reject of the expected check."""
    mine = {r['cid']: r for r in reports if '#' in r['cid']}
    missed = []
    for cid, check in want.items():
        r = mine.get(cid)
        if not r or not [o for o in r['other'] if o['check'] == check and o['verdict'] in ('reject', 'dev')]:
            missed.append('%s (%s)' % (cid, check))
    if missed:
        raise pl.Machinery('Trace_Text accepted corrupted recordings: %s' % ', '.join(missed))
    run.traces -= len(mine)
    run.notes['trace_spec_selftest'] = '%d corrupted recordings (%s), all rejected' % (
        len(want), ', '.join(sorted({c.split('#')[1] for c in want})))
    return [r for r in reports if '#' not in r['cid']]


# ----------------------------------------------------------------------------------------

def generate(run, tier):
    """TextModel = TypeGen + the model-level invariant; emits the cases."""
    if tier == 'quick':
        bfs = [(1, False, ['A'])]
        sim = None          # nesting / references / recursion come from extra_cases(); BFS depth 2 is the thorough tier
    else:
        bfs = [(2, False, ['A']), (1, True, ['I'])]
        sim = ('num=60', 5, ['E', 'A'], True)
    cases = []
    for n, (d, rich, tds) in enumerate(bfs):
        out, res = pl.tlc_generate(run, 'TextModel', model_cfg(d, rich, tds), 'gen%d.ndjson' % n, workers=8,
                                   what='TextModel BFS depth<=%d rich=%s: Read(Tree(T,v)) = v' % (d, rich))
        cases += pl.dedup_cases(out, 'g%d' % n)
    if sim:
        out, res = pl.tlc_generate(run, 'TextModel', model_cfg(sim[1], sim[3], sim[2]), 'gensim.ndjson', workers=1,
                                   simulate=sim[0], depth=sim[1] + 1,
                                   what='TextModel simulate %s depth %d' % (sim[0], sim[1]))
        cases += pl.dedup_cases(out, 's')
    seen, uniq = set(), []
    for c in cases:
        h = hashlib.sha1(json.dumps([c['env'], c['vals']], sort_keys=True).encode()).hexdigest()
        if h not in seen:
            seen.add(h)
            uniq.append(c)
    return uniq


def shape(T, env, depth=0):
    """Shape signature of a type (kinds only), for counting distinct non-trivial cases."""
    k = T['k']
    if k == 'REF':
        return 'R(%s)' % (shape(env['types'][T['name']], env, depth + 1) if depth < 4 else '..')
    if k in ('SEQ', 'SET'):
        ms = list(T['root'])
        for a in T['adds']:
            ms += a['ms'] if a['g'] else [a['m']]
        return '%s{%s}' % (k, ','.join(m['q'] + shape(m['t'], env, depth + 1) for m in ms))
    if k == 'CHOICE':
        return 'CH{%s}' % ','.join(shape(a['t'], env, depth + 1) for a in T['root'] + T['adds'])
    if k in ('SEQOF', 'SETOF'):
        return '%s[%s]' % (k, shape(T['e'], env, depth + 1))
    if k == 'STR':
        return T['st']
    if k == 'BITS':
        return 'BITS' + ('f' if T['sz']['f'] == 'R' and T['sz']['lb'] == T['sz']['ub'] else 'v')
    return k


def c02(tier, seed):
    run = pl.Run('C02', tier, seed)
    try:
        cases = generate(run, tier) + extra_cases(tier, seed) + cc.witness_cases('C02')
        cpath = run.path('cases.ndjson')
        pl.write_cases(cases, cpath)
        shards = pl.drive(run, 'drive_text.py', cpath, 'trace', ['--codecs', 'jer,xer', '--numerics', '0,1'])
        bad_path, want = make_corrupted(run, shards)
        reports = pl.validate(run, 'Trace_Text', TRACE_CFG, shards + [bad_path], what='Trace_Text')
        reports = check_corrupted(run, reports, want)
        idx = pl.load_trace_index(shards)
        pl.classify(run, reports, idx, 'C02')
        benign = {}
        for rep in reports:
            for b in rep.get('benign', []):
                benign[b] = benign.get(b, 0) + 1
        docs = 0
        for cid, line in idx.items():
            sh = shape(line['env']['types'][line['top']], line['env'])
            for o in line['obs']:
                for d in o.get('docs', []):
                    if d['enc']['st'] == 'ok' and len(d['enc']['b']) > 0:
                        docs += 1
                        run.signatures.add((sh, hashlib.sha1(json.dumps(line['vals'][o['vi'] - 1], sort_keys=True).encode()).hexdigest()[:10],
                                            o['codec'], o['ne'], d['ind']))
            if len(run.samples) < 5 and line['obs'] and line['obs'][-1].get('docs'):
                o = line['obs'][-1]
                d = o['docs'][-1]
                run.samples.append({'cid': cid, 'type': line['env']['types'][line['top']], 'value': line['vals'][o['vi'] - 1],
                                    'codec': o['codec'], 'numeric_enums': o['ne'], 'indent': d['ind'],
                                    'document': bytes(d['enc']['b']).decode('utf-8', 'replace') if d['enc']['st'] == 'ok' else d['enc']})
        run.notes['cases'] = len(cases)
        run.notes['documents_recorded'] = docs
        run.notes['benign_deviations_seen_in_cases'] = benign
        run.assumptions = [
            'TLC and SANY are correct; spec/Jer.tla and spec/Xer.tla transcribe the JER / BASIC-XER mapping faithfully '
            '(validated against the documents of tests/test_jer.py and tests/test_xer.py in spec/tests/TestJerXer.tla)',
            'json.loads (strict, no NaN/Infinity literals) and expat are correct readers of JSON / XML 1.0; '
            'float() is a correctly rounded decimal -> double conversion; int() converts integer tokens',
            'harness/render.py renders descriptors to the ASN.1 notation they denote; harness/values.py and '
            'harness/drive_text.py convert shapes only',
        ]
        return pl.finish(run, rule=(
            'cases are TextModel (= TypeGen) states (BFS + simulation, seed %d) plus the string / REAL / BIT STRING / list-item '
            'tables of harness/checks_text.py; a document is one (type, value, codec, numeric_enums, indent) tuple; it counts as '
            'distinct non-trivial when (type shape, value, codec, numeric_enums, indent) is new and the encoder returned a '
            'non-empty document' % seed))
    except pl.Machinery as e:
        print('MACHINERY FAILURE C02: %s' % e)
        return 2
