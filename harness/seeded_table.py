"""Merge seeded/RESULTS*.tsv into seeded/RESULTS.tsv, stamp each meta.json with detected_by, and print the
markdown table for DESIGN.md section 7.7."""
import glob
import json
import os

V = os.path.dirname(os.path.dirname(os.path.abspath(__file__)))
rows = {}
for f in sorted(glob.glob(os.path.join(V, 'seeded', 'RESULTS*.tsv')), key=os.path.getmtime):
    for l in open(f):
        p = l.rstrip('\n').split('\t')
        if len(p) >= 4:
            rows[p[0]] = p
with open(os.path.join(V, 'seeded', 'RESULTS.tsv'), 'w') as out:
    for k in sorted(rows):
        out.write('\t'.join(rows[k]) + '\n')
print('| seeded change | property | what it is (one line) | quick check | ')
print('|---|---|---|---|')
for d in sorted(os.listdir(os.path.join(V, 'seeded'))):
    mp = os.path.join(V, 'seeded', d, 'meta.json')
    if not os.path.exists(mp):
        continue
    m = json.load(open(mp))
    r = rows.get(d)
    res = 'not run'
    if r:
        res = {'1': 'detected (exit 1)', '0': '**missed** (exit 0)', '2': 'machinery failure (exit 2)'}.get(r[2], 'exit ' + r[2])
        m['detected_by'] = {'check': './check %s --tier quick' % r[1], 'exit': int(r[2])}
        json.dump(m, open(mp, 'w'), indent=1)
    summ = (m.get('summary') or '').replace('|', '/').replace('\n', ' ')
    print('| %s | %s | %s | %s |' % (d, m['property'], summ[:150] + ('...' if len(summ) > 150 else ''), res))
