"""C14 driver: run the real asn1tools parser (from $VERIF_REPO, default /repo) on inputs chosen by
the TLA+ models spec/Comments.tla and spec/Layout.tla and record what it did.  No verdicts here:
every recorded line is judged by spec/Trace_Comments.tla.

  --mode masks     cases: {"cid","k":"mask","p":prefix,"items":[{"x":extension,...}]}   (strings enumerated by TLC)
                   records for every string what parser.ignore_comments(s) returned / raised
  --mode texts     cases: {"tid","name","text"}                     (whole specification texts)
                   records parser.ignore_comments(text), cut at the lines of the original
  --mode tokenize  cases: the same texts; --blank: comment-free texts computed by the model
                   writes the token windows for Layout.tla (--tokens), the parse of each original
                   (--origdir) and nothing to judge
  --mode layout    cases: {"cid","wid","scheds":[{"id","ch":[[boundary,filler]..],"ik","ikind"}]} (schedules chosen by TLC)
                   re-lays the window out, parses, records equal / different / exception;
                   with ik > 0 injects a syntax error at token ik and records the reported position

The tokenizer below is X.680 clause 12 on *comment-free* text (the model removes the comments); it is
cross-checked by TLC (XLex of Comments.tla must give the same items) and by the parser itself
(the single-space re-join must parse to the same dictionary: schedule kind "allsp").
"""
import argparse
import json
import os
import pickle
import random
import re
import signal
import string
import sys

HERE = os.path.dirname(os.path.abspath(__file__))
sys.path.insert(0, HERE)
REPO = os.environ.get('VERIF_REPO', '/repo')
sys.path.insert(0, REPO)

from drive_codec import CallTimeout, _alarm, innermost_site  # noqa: E402

FILLERS = ["", " ", "  ", "\t", "\n", "--c\n", "--c--", "/*c*/", "/*a/*b*/c*/", "/*c\nd*/", "\r\n",
           "/*\f\"*/", "--\"\f\n"]   # = Layout!Fillers
PARSE_TIMEOUT = int(os.environ.get('VERIF_PARSE_TIMEOUT', '600'))


def guarded(fn, timeout=PARSE_TIMEOUT):
    signal.signal(signal.SIGALRM, _alarm)
    signal.alarm(timeout)
    try:
        return {'st': 'ok', 'r': fn()}
    except CallTimeout:
        return {'st': 'timeout', 'site': innermost_site(sys.exc_info()[2])}
    except RecursionError:
        return {'st': 'exc', 'cls': 'RecursionError', 'msg': '', 'site': ''}
    except BaseException as e:  # noqa
        return {'st': 'exc', 'cls': type(e).__name__, 'msg': str(e)[:300], 'site': innermost_site(sys.exc_info()[2]),
                'loc': getattr(e, 'loc', -1) if isinstance(getattr(e, 'loc', -1), int) else -1}
    finally:
        signal.alarm(0)


# ------------------------------------------------------------------------------------------
# lexical items of comment-free text (mirror of Comments!XLexItems; checked against it by TLC)

LETTERS = set(string.ascii_letters)
DIGITS = set(string.digits)
NAMECH = LETTERS | DIGITS | {'-'}
NAMESTART = NAMECH | {'&'}
WS = set(' \t\n\r')
PUNCTSTART = set(':.[]')
PUNCTITEMS = {'::', '::=', '..', '...', '[[', ']]'}


def xlex(text):
    """[(item, first offset, offset after it)] of a text without comments."""
    out = []
    m, tok, a, num = 'none', '', 0, False

    def flush(z):
        nonlocal m, tok, num
        if tok:
            out.append((tok, a, z))
        m, tok, num = 'none', '', False

    def fresh(c, p):
        nonlocal m, tok, a, num
        if c in WS:
            return
        if c == '"':
            m, tok, a = 'cstr', c, p
        elif c == "'":
            m, tok, a = 'qstr', c, p
        elif c in NAMESTART:
            m, tok, a, num = 'name', c, p, (c in DIGITS or c == '-')
        elif c in PUNCTSTART:
            m, tok, a = 'punct', c, p
        else:
            out.append((c, p, p + 1))

    for p, c in enumerate(text):
        if m == 'none':
            fresh(c, p)
        elif m == 'cstr':
            tok += c
            if c == '"':
                m = 'cstrq'
        elif m == 'cstrq':
            if c == '"':
                tok += c
                m = 'cstr'
            else:
                flush(p)
                fresh(c, p)
        elif m == 'qstr':
            tok += c
            if c == "'":
                m = 'qend'
        elif m == 'qend':
            if c in 'BH':
                tok += c
                flush(p + 1)
            else:
                flush(p)
                fresh(c, p)
        elif m == 'name':
            if c in NAMECH:
                tok += c
                num = num and c in DIGITS
            elif c == '.' and num:
                m = 'numdot'
            else:
                flush(p)
                fresh(c, p)
        elif m == 'numdot':
            if c in DIGITS:
                tok += '.' + c
                m, num = 'name', False
            else:
                flush(p - 1)
                m, tok, a = 'punct', '.', p - 1
                if c == '.':
                    tok = '..'
                else:
                    flush(p)
                    fresh(c, p)
        elif m == 'punct':
            if tok + c in PUNCTITEMS:
                tok += c
            else:
                flush(p)
                fresh(c, p)
    n = len(text)
    if m == 'numdot':
        flush(n - 1)
        out.append(('.', n - 1, n))
    else:
        flush(n)
    return out


# ------------------------------------------------------------------------------------------

def parse_outcome(asn1tools, text):
    """Outcome of asn1tools.parse_string(text): ({'st':..}, parsed dictionary or None)."""
    o = guarded(lambda: asn1tools.parse_string(text))
    r = o.pop('r', None)
    if o['st'] == 'exc':
        m = re.search(r'at line (\d+), column (\d+)', o['msg'])
        o['line'], o['col'] = (int(m.group(1)), int(m.group(2))) if m else (0, 0)
    return o, r


def read_cases(path, shard):
    k, n = [int(x) for x in shard.split('/')]
    with open(path) as f:
        for idx, line in enumerate(f):
            if line.strip() and idx % n == k:
                yield json.loads(line)


def mode_masks(a):
    from asn1tools import parser
    with open(a.out, 'w') as out:
        for c in read_cases(a.cases, a.shard):
            for it in c['items']:
                o = guarded(lambda: parser.ignore_comments(c['p'] + it['x']), 20)
                if o['st'] == 'ok':
                    r = o.pop('r')
                    if isinstance(r, str):
                        o['t'] = r
                    else:
                        o = {'st': 'bad', 'msg': 'returned %s' % type(r).__name__}
                it['o'] = o
            out.write(json.dumps(c) + '\n')


def lines_of(s):
    """A text as the list of its lines, each with its new-line (TLC handles long texts line by line)."""
    return re.findall(r'[^\n]*\n|[^\n]+', s)


def cut_like(lines, s):
    """Cut s into pieces of the lengths of `lines` (s has the length of their concatenation)."""
    out, p = [], 0
    for ln in lines:
        out.append(s[p:p + len(ln)])
        p += len(ln)
    return out


def mode_texts(a):
    from asn1tools import parser
    with open(a.out, 'w') as out:
        for c in read_cases(a.cases, a.shard):
            text = c['text']
            lines = lines_of(text)
            o = guarded(lambda: parser.ignore_comments(text), 120)
            if o['st'] == 'ok':
                r = o.pop('r')
                if not isinstance(r, str) or len(r) != len(text):
                    o = {'st': 'bad', 'msg': 'result of other length or type'}
                else:
                    o['lines'] = cut_like(lines, r)
            out.write(json.dumps({'cid': 't-%s' % c['tid'], 'k': 'text', 'tid': c['tid'], 'lines': lines, 'o': o}) + '\n')


def load_blank(path):
    blank = {}
    for p in path.split(','):
        if os.path.exists(p):
            with open(p) as f:
                for line in f:
                    if line.strip():
                        r = json.loads(line)
                        blank[r['tid']] = ''.join(r['blank'])
    return blank


def tokenize_text(text, blank):
    items = xlex(blank)
    toks = [t for t, _, _ in items]
    fill = [text[items[j][2]:items[j + 1][1]] for j in range(len(items) - 1)]
    fillb = [blank[items[j][2]:items[j + 1][1]] for j in range(len(items) - 1)]
    return items, toks, fill, fillb


def mode_tokenize(a):
    import asn1tools
    blank = load_blank(a.blank)
    rnd = random.Random(a.seed)
    os.makedirs(a.origdir, exist_ok=True)
    with open(a.out, 'w') as out:
        for c in read_cases(a.cases, a.shard):
            tid, text = c['tid'], c['text']
            if tid not in blank or len(blank[tid]) != len(text):
                out.write(json.dumps({'tid': tid, 'skip': 'no comment-free text from the model'}) + '\n')
                continue
            items, toks, fill, fillb = tokenize_text(text, blank[tid])
            if len(toks) < 2:
                out.write(json.dumps({'tid': tid, 'skip': 'fewer than two tokens'}) + '\n')
                continue
            o0, d0 = parse_outcome(asn1tools, text)
            with open(os.path.join(a.origdir, '%s.pickle' % tid), 'wb') as f:
                pickle.dump({'o0': o0, 'd0': d0, 'items': items, 'blank': blank[tid]}, f)
            n = len(toks)
            W = a.window
            offs = [0]
            if n > W and c.get('bfs'):            # tile: every boundary lies in exactly one window
                offs = list(range(0, n - 1, W - 1))
            elif n > W:
                nwin = min(a.windows, max(1, n // W))
                offs = sorted(set([0, n - W] + [rnd.randrange(0, n - W + 1) for _ in range(max(0, nwin - 2))]))
            for off in offs:
                hi = min(n, off + W)
                whole = (off == 0 and hi == n)
                out.write(json.dumps({
                    'wid': '%s@%d' % (tid, off), 'tid': tid, 'off': off,
                    'toks': toks[off:hi], 'fill0': fill[off:hi - 1],
                    'bfs': bool(c.get('bfs')),
                    'inj': off == 0 and items[0][1] <= a.injmax and len(text) <= 40000 and o0['st'] == 'ok',
                    'ntok': n, 'parse0': o0['st']}) + '\n')


def render(toks, fill):
    parts = [toks[0]]
    for j in range(1, len(toks)):
        parts.append(fill[j - 1])
        parts.append(toks[j])
    return ''.join(parts)


def mode_layout(a):
    import asn1tools
    texts = {}
    with open(a.texts) as f:
        for line in f:
            if line.strip():
                r = json.loads(line)
                texts[r['tid']] = r['text']
    wins = {}
    for p in a.tokens.split(','):
        with open(p) as f:
            for line in f:
                if line.strip():
                    r = json.loads(line)
                    if 'wid' in r:
                        wins[r['wid']] = r
    cache = {}

    def orig(tid):
        if tid not in cache:
            cache.clear()
            with open(os.path.join(a.origdir, '%s.pickle' % tid), 'rb') as f:
                cache[tid] = pickle.load(f)
        return cache[tid]

    with open(a.out, 'w') as out:
        for c in read_cases(a.cases, a.shard):
            w = wins[c['wid']]
            tid, off = w['tid'], w['off']
            text = texts[tid]
            og = orig(tid)
            items = og['items']
            toks = list(w['toks'])
            lo, hi = items[off][1], items[off + len(toks) - 1][2]
            lead, trail = text[:lo], text[hi:]
            line = {'cid': c['cid'], 'k': 'layout', 'wid': c['wid'], 'toks': toks, 'worig': lines_of(text[lo:hi]), 'o0': og['o0'],
                    'cases': []}
            for sc in c['scheds']:
                fill = list(w['fill0'])
                for b, fi in sc['ch']:
                    fill[b - 1] = FILLERS[fi - 1]
                if sc['ik'] == 0:
                    wnew = render(toks, fill)
                    o1, d1 = parse_outcome(asn1tools, lead + wnew + trail)
                    line['cases'].append({'id': sc['id'], 'ch': sc['ch'], 'wnew': lines_of(wnew), 'o1': o1,
                                          'same': bool(og['o0']['st'] == 'ok' and o1['st'] == 'ok' and d1 == og['d0'])})
                    continue
                # syntax error at token ik: L0 = the original with its comments blanked by the model,
                # L1 = the layout chosen by TLC; both with the same erroneous token list
                blank = og['blank']
                fb = [blank[items[j][2]:items[j + 1][1]] for j in range(off, off + len(toks) - 1)]
                k = sc['ik'] - 1
                t2, f0, f1 = list(toks), list(fb), list(fill)
                if sc['ikind'] == 'bad':
                    t2[k] = '?!'
                elif 0 < k < len(toks) - 1:
                    del t2[k]
                    f0[k - 1:k + 1] = [f0[k - 1] + ' ' + f0[k]]
                    f1[k - 1:k + 1] = [f1[k - 1] + ' ' + f1[k]]
                else:
                    continue
                lead0, trail0 = blank[:lo], blank[hi:]
                t0 = lead0 + render(t2, f0) + trail0
                t1 = lead + render(t2, f1) + trail
                l0, _ = parse_outcome(asn1tools, t0)
                l1, _ = parse_outcome(asn1tools, t1)
                out.write(json.dumps({
                    'cid': '%s-e%s' % (c['cid'], sc['id']), 'k': 'errline', 'wid': c['wid'], 'toks': t2, 'ik': sc['ik'],
                    'ikind': sc['ikind'], 'lead0': lines_of(lead0), 'f0': [lines_of(x) for x in f0], 'trail0': lines_of(trail0),
                    'lead1': lines_of(lead), 'f1': [lines_of(x) for x in f1], 'trail1': lines_of(trail),
                    't0': lines_of(t0), 't1': lines_of(t1), 'l0': l0, 'l1': l1, 'ch': sc['ch'],
                    'attail': off + len(toks) == len(items)}) + '\n')
            if line['cases']:
                out.write(json.dumps(line) + '\n')
            out.flush()


def main():
    ap = argparse.ArgumentParser()
    ap.add_argument('--mode', required=True)
    ap.add_argument('--cases', required=True)
    ap.add_argument('--out', required=True)
    ap.add_argument('--shard', default='0/1')
    ap.add_argument('--blank', default='')
    ap.add_argument('--texts', default='')
    ap.add_argument('--tokens', default='')
    ap.add_argument('--origdir', default='')
    ap.add_argument('--seed', type=int, default=1)
    ap.add_argument('--window', type=int, default=120)
    ap.add_argument('--windows', type=int, default=3)
    ap.add_argument('--injmax', type=int, default=3000)
    a = ap.parse_args()
    sys.setrecursionlimit(10000)
    {'masks': mode_masks, 'texts': mode_texts, 'tokenize': mode_tokenize, 'layout': mode_layout}[a.mode](a)


if __name__ == '__main__':
    main()
