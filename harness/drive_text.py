"""Drive the text codecs (JER, XER) of the real asn1tools (from $VERIF_REPO, default /repo) along
generated cases and record what they did.  One output line per case:

  {"cid", "env", "top", "vals", "obs": [ {"vi", "codec", "ne", "docs": [doc, ...]} ]}

`env` is the environment *as compiled* (cases are batched into one module, so the type names carry the
batch prefix: XER writes type names into the document).  One doc per indent option, in the order
none, 0, 1, 4:

  {"ind": "none"|"0"|"1"|"4",
   "enc":  outcome of encode(name, value, indent=...)   ({"st":"ok","b":[octets]} | exc | timeout | bad),
   "wf":   {"ok": bool, "msg": parser message}           verdict of the INDEPENDENT reader
                                                         (json.loads strict / expat), recorded as a fact,
   "same": true  |  "tree": document tree                 tree in the JSON form of the nodes of
                                                         spec/Jer.tla / spec/Xer.tla; "same": true means
                                                         byte-for-byte the same recorded tree as the first doc,
   "dsame": true |  "dec": outcome of the library's decode(name, bytes) ({"st":"ok","v":abstract value} ...)}

Every library call runs under guarded(): drive_codec.guarded() (alarm-based, classifies exceptions and
hangs, names the innermost asn1tools frame) plus a budget of CPU seconds of this process, so that a hang
(XER REAL encode of infinity) is an outcome and machine load is not.

No encoding rule lives here: the trees are what the independent readers return, number tokens are
converted with int() / float() and written as BigInt limbs / IEEE-754 [c, s, m, e] records
(values.real_from_py), text as code points.  Run with /venv/bin/python.
"""
import json
import os
import sys
import xml.parsers.expat

HERE = os.path.dirname(os.path.abspath(__file__))
sys.path.insert(0, HERE)

import drive_codec as dc  # noqa: E402  (puts $VERIF_REPO on sys.path)
import render  # noqa: E402
import values  # noqa: E402

import signal  # noqa: E402

# A call is cut after CALL_CPU seconds of *CPU time of this process* (ITIMER_VIRTUAL): a hang in the
# library is a busy loop (xer.Real.encode on infinity), and CPU time does not run while the machine is
# overloaded, so a slow machine cannot turn into a recorded "timeout".  The wall-clock alarm of
# drive_codec.guarded() stays armed as a backstop for a call that blocks without using the CPU.
CALL_CPU = float(os.environ.get('VERIF_TEXT_CPU', '1.0'))
CALL_WALL = int(os.environ.get('VERIF_TEXT_WALL', '120'))
COMPILE_CPU = float(os.environ.get('VERIF_COMPILE_CPU', '300'))
COMPILE_WALL = int(os.environ.get('VERIF_COMPILE_WALL', '3600'))


def guarded(fn, cpu=None, wall=None):
    """drive_codec.guarded() (alarm-based, classifies the outcome) under an additional CPU-time budget."""
    dc.CALL_TIMEOUT = wall or CALL_WALL
    signal.signal(signal.SIGVTALRM, dc._alarm)
    r = {'st': 'timeout', 'site': ''}
    for attempt in (1, 2, 3):
        # a real hang (a busy loop) exceeds any budget; a call that was merely cut short on an overloaded machine does not:
        # a "timeout" under the small budget is confirmed under a budget four times as large before it is recorded
        signal.setitimer(signal.ITIMER_VIRTUAL, (cpu or CALL_CPU) * (1 if attempt == 1 else 4))
        try:
            try:
                r = dc.guarded(fn)
            finally:
                signal.setitimer(signal.ITIMER_VIRTUAL, 0)
            if r['st'] != 'timeout' or attempt >= 2:
                return r
        except dc.CallTimeout:
            # the budget expired between the return of the call and the disarming of the timer: run again
            if attempt == 3:
                return {'st': 'timeout', 'site': ''}
    return r

INDENTS = [('none', None), ('0', 0), ('1', 1), ('4', 4)]
NOFL = {'c': 'NA', 's': 0, 'm': [], 'e': 0}
ERRFL = {'c': 'ERR', 's': 0, 'm': [], 'e': 0}
ZERO = {'neg': False, 'mag': []}
XML_WS = ' \t\r\n'


def cps(s):
    return [ord(c) for c in s]


def float_pattern(text):
    """IEEE-754 double float() gives for the text, as [c, s, m, e]; ERR when it gives none."""
    if len(text) > 400:
        return ERRFL
    try:
        return values.real_from_py(float(text))
    except (ValueError, OverflowError):
        return ERRFL


# ----------------------------------------------------------------------------------------
# independent JSON reader: json.loads, strict

class _Tok(object):
    def __init__(self, kind, text):
        self.kind, self.text = kind, text


def _reject_constant(name):
    raise ValueError('not JSON: %s' % name)


def json_tree(data):
    """bytes -> (wf, tree).  RFC 8259: UTF-8, no NaN/Infinity literals; duplicate names are kept."""
    try:
        text = data.decode('utf-8')
        doc = json.loads(text, parse_float=lambda t: _Tok('f', t), parse_int=lambda t: _Tok('i', t),
                         parse_constant=_reject_constant, object_pairs_hook=lambda ps: ('obj', ps))
    except (ValueError, RecursionError) as e:
        return {'ok': False, 'msg': ('%s: %s' % (type(e).__name__, e))[:200]}, None
    return {'ok': True, 'msg': ''}, _jnode(doc)


def _jnode(x):
    if isinstance(x, tuple) and len(x) == 2 and x[0] == 'obj':
        return {'j': 'obj', 'ks': [k for k, _ in x[1]], 'vs': [_jnode(v) for _, v in x[1]]}
    if isinstance(x, list):
        return {'j': 'arr', 'vs': [_jnode(v) for v in x]}
    if isinstance(x, str):
        return {'j': 'str', 's': cps(x)}
    if x is True or x is False:
        return {'j': 'bool', 'b': x}
    if x is None:
        return {'j': 'null'}
    if isinstance(x, _Tok):
        if x.kind == 'i':
            return {'j': 'num', 'k': 'i', 'int': render.unbig(int(x.text)), 'fl': NOFL}
        return {'j': 'num', 'k': 'f', 'int': ZERO, 'fl': float_pattern(x.text)}
    raise ValueError('unexpected JSON value %r' % (x,))


# ----------------------------------------------------------------------------------------
# independent XML reader: expat (namespace-unaware, as BASIC-XER has none)

def xml_tree(data):
    """bytes -> (wf, tree).  White space between child elements (element-only content) is dropped;
    character data of leaf elements is kept exactly as the parser reports it."""
    root = []
    stack = []

    def start(tag, attrs):
        node = {'tag': tag, 'attrs': bool(attrs), 'kids': [], 'chunks': []}
        if stack:
            stack[-1]['kids'].append(node)
            stack[-1]['chunks'].append(None)       # position marker: a child element here
        else:
            root.append(node)
        stack.append(node)

    def end(tag):
        stack.pop()

    def chars(s):
        if stack:
            stack[-1]['chunks'].append(s)

    p = xml.parsers.expat.ParserCreate()
    p.buffer_text = True
    p.StartElementHandler = start
    p.EndElementHandler = end
    p.CharacterDataHandler = chars
    try:
        p.Parse(data, True)
    except xml.parsers.expat.ExpatError as e:
        return {'ok': False, 'msg': str(e)[:200]}, None
    except RecursionError as e:
        return {'ok': False, 'msg': 'RecursionError'}, None
    return {'ok': True, 'msg': ''}, _xnode(root[0])


def _xnode(n):
    text = ''.join(c for c in n['chunks'] if c is not None)
    if n['attrs']:
        return {'tag': n['tag'], 'f': 'm', 'kids': [], 'text': cps(text), 'fl': NOFL}
    if n['kids']:
        if text.strip(XML_WS):
            return {'tag': n['tag'], 'f': 'm', 'kids': [_xnode(k) for k in n['kids']], 'text': cps(text), 'fl': NOFL}
        return {'tag': n['tag'], 'f': 'e', 'kids': [_xnode(k) for k in n['kids']], 'text': [], 'fl': NOFL}
    if text == '':
        return {'tag': n['tag'], 'f': 'e', 'kids': [], 'text': [], 'fl': NOFL}
    return {'tag': n['tag'], 'f': 't', 'kids': [], 'text': cps(text), 'fl': float_pattern(text)}


READERS = {'jer': json_tree, 'xer': xml_tree}


# ----------------------------------------------------------------------------------------

def observe(spec, codec, name, pv, env, top, ne):
    docs = []
    first_tree = first_dec = None
    for label, ind in INDENTS:
        d = {'ind': label}
        if ind is None:
            d['enc'] = dc.enc_outcome(guarded(lambda: spec.encode(name, pv)))
        else:
            d['enc'] = dc.enc_outcome(guarded(lambda: spec.encode(name, pv, indent=ind)))
        if d['enc']['st'] != 'ok':
            docs.append(d)
            if label == 'none':
                break          # the value cannot be encoded at all: the indent variants add nothing
            continue
        data = bytes(d['enc']['b'])
        wf, tree = READERS[codec](data)
        d['wf'] = wf
        if wf['ok']:
            ser = json.dumps(tree, sort_keys=True)
            if first_tree is not None and ser == first_tree:
                d['same'] = True
            else:
                d['tree'] = tree
                if first_tree is None and label == 'none':
                    first_tree = ser
        dec = dc.dec_outcome(guarded(lambda: spec.decode(name, data)), env, top, ne)
        ser = json.dumps(dec, sort_keys=True)
        if first_dec is not None and ser == first_dec:
            d['dsame'] = True
        else:
            d['dec'] = dec
            if first_dec is None and label == 'none':
                first_dec = ser
        docs.append(d)
    return docs


def run_batch(batch, codecs, numerics, out):
    """batch: list of cases sharing (tagdef, extimp); compiled as one module."""
    import asn1tools
    env0 = batch[0]['env']
    types = {}
    for c in batch:
        mapping = {n: 'C%dx%s' % (c['bi'], n) for n in c['env']['types']}
        c['map'] = mapping
        for n, T in c['env']['types'].items():
            types[mapping[n]] = render.rename(T, mapping)
    menv = {'tagdef': env0['tagdef'], 'extimp': env0.get('extimp', False), 'types': types}
    text = render.render_module('M', menv)
    specs = {}
    compile_err = {}
    for codec in codecs:
        for ne in numerics:
            o = guarded(lambda: asn1tools.compile_string(text, codec, numeric_enums=ne), COMPILE_CPU, COMPILE_WALL)
            if o['st'] == 'ok':
                specs[(codec, ne)] = o['r']
            else:
                o.pop('r', None)
                compile_err[(codec, ne)] = o
    if compile_err and len(batch) > 1:
        for c in batch:          # isolate: compile each case on its own
            run_batch([c], codecs, numerics, out)
        return
    for c in batch:
        cenv = {'tagdef': env0['tagdef'], 'extimp': env0.get('extimp', False),
                'types': {c['map'][n]: types[c['map'][n]] for n in c['env']['types']}}
        name = c['map'][c['top']]
        top = cenv['types'][name]
        obs = []
        for (codec, ne) in [(cd, n) for cd in codecs for n in numerics]:
            if (codec, ne) in compile_err:
                obs.append({'vi': 0, 'codec': codec, 'ne': ne, 'compile': compile_err[(codec, ne)]})
                continue
            spec = specs[(codec, ne)]
            for vi, v in enumerate(c['vals'], 1):
                rec = {'vi': vi, 'codec': codec, 'ne': ne}
                try:
                    pv = values.to_py(cenv, top, v, ne)
                except Exception as e:  # machinery
                    rec['machinery'] = repr(e)
                    obs.append(rec)
                    continue
                rec['docs'] = observe(spec, codec, name, pv, cenv, top, ne)
                obs.append(rec)
        line = {'cid': c['cid'], 'env': cenv, 'top': name, 'vals': c['vals'], 'obs': obs}
        out.write(json.dumps(line) + '\n')


def main():
    import argparse
    ap = argparse.ArgumentParser()
    ap.add_argument('--cases', required=True)
    ap.add_argument('--out', required=True)
    ap.add_argument('--codecs', default='jer,xer')
    ap.add_argument('--numerics', default='0,1')
    ap.add_argument('--batch', type=int, default=30)
    ap.add_argument('--shard', default='0/1')
    a = ap.parse_args()
    k, n = [int(x) for x in a.shard.split('/')]
    codecs = a.codecs.split(',')
    numerics = [x == '1' for x in a.numerics.split(',')]
    groups = {}
    with open(a.cases) as f:
        for idx, line in enumerate(f):
            if not line.strip():
                continue
            c = json.loads(line)
            c.setdefault('cid', 'c%d' % idx)
            key = (c['env']['tagdef'], c['env'].get('extimp', False))
            groups.setdefault(key, []).append(c)
    batches = []
    for key in sorted(groups):
        g = groups[key]
        for i in range(0, len(g), a.batch):
            batches.append(g[i:i + a.batch])
    sys.setrecursionlimit(3000)
    with open(a.out, 'w') as out:
        for bi, b in enumerate(batches):
            if bi % n != k:
                continue
            for j, c in enumerate(b):
                c['bi'] = j
            run_batch(b, codecs, numerics, out)


if __name__ == '__main__':
    main()
