"""asn1tools parse dictionary -> descriptor environment (the inverse of render.py).

Used for binding B on the repository's own fixtures and test calls: the calls the test-suite makes
are recorded and judged by the same TLA+ operators as the generated universe.  Constructs outside
the model raise Unsupported (the type is skipped and counted).  No encoding rules here.
"""
from render import unbig

STR = {'IA5String': 'IA5', 'VisibleString': 'Visible', 'NumericString': 'Numeric', 'PrintableString': 'Printable',
       'UTF8String': 'UTF8', 'BMPString': 'BMP', 'UniversalString': 'Universal', 'GeneralString': 'General',
       'GraphicString': 'Graphic', 'TeletexString': 'Teletex', 'ISO646String': 'Visible', 'T61String': 'Teletex'}
CLS = {'UNIVERSAL': 'U', 'APPLICATION': 'A', 'PRIVATE': 'P', None: 'C'}
TAGDEF = {'EXPLICIT': 'E', 'IMPLICIT': 'I', 'AUTOMATIC': 'A'}
MARK = None   # asn1tools' EXTENSION_MARKER


class Unsupported(Exception):
    pass


class Projector(object):

    def __init__(self, spec):
        tagdefs = {m.get('tags', 'EXPLICIT') for m in spec.values()}
        extimps = {bool(m.get('extensibility-implied')) for m in spec.values()}
        if len(tagdefs) != 1 or len(extimps) != 1:
            raise Unsupported('modules with different tag defaults')
        self.tagdef = TAGDEF[tagdefs.pop()]
        self.extimp = extimps.pop()
        self.types, self.values = {}, {}
        dup = set()
        for m in spec.values():
            for n, t in m['types'].items():
                if n in self.types:
                    dup.add(n)
                self.types[n] = t
            for n, v in m.get('values', {}).items():
                self.values[n] = v
        self.dup = dup

    def env_for(self, name):
        """Environment containing `name` and everything it refers to."""
        out = {}
        todo = [name]
        while todo:
            n = todo.pop()
            if n in out:
                continue
            if n in self.dup or n not in self.types:
                raise Unsupported('unknown or duplicated type %s' % n)
            refs = []
            out[n] = self.desc(self.types[n], refs)
            todo += refs
        return {'tagdef': self.tagdef, 'extimp': self.extimp, 'types': out}

    # ------------------------------------------------------------------
    def bound(self, b, named=None):
        if isinstance(b, bool):
            raise Unsupported('bound %r' % (b,))
        if isinstance(b, int):
            return b
        if isinstance(b, str):
            if named and b in named:
                return int(named[b])
            v = self.values.get(b)
            if v and v.get('type') == 'INTEGER' and isinstance(v.get('value'), int):
                return v['value']
        raise Unsupported('bound %r' % (b,))

    def int_con(self, t):
        r = t.get('restricted-to')
        if r is None:
            return {'f': 'N'}
        ext = MARK in r
        root = r[:r.index(MARK)] if ext else r
        if len(root) != 1:
            raise Unsupported('value constraint with several parts')
        p = root[0]
        lb, ub = p if isinstance(p, tuple) else (p, p)
        named = t.get('named-numbers')
        lbinf, ubinf = lb == 'MIN', ub == 'MAX'
        return {'f': 'R', 'lbinf': lbinf, 'ubinf': ubinf, 'ext': ext,
                'lb': unbig(0 if lbinf else self.bound(lb, named)), 'ub': unbig(0 if ubinf else self.bound(ub, named))}

    def size(self, t):
        s = t.get('size')
        if s is None:
            return {'f': 'N'}
        ext = MARK in s
        root = s[:s.index(MARK)] if ext else s
        if len(root) != 1:
            raise Unsupported('size constraint with several parts')
        p = root[0]
        lb, ub = p if isinstance(p, tuple) else (p, p)
        ubinf = ub == 'MAX'
        lb = self.bound(lb)
        return {'f': 'R', 'lb': lb, 'ub': 0 if ubinf else self.bound(ub), 'ubinf': ubinf, 'ext': ext}

    def alphabet(self, t):
        f = t.get('from')
        if f is None:
            return {'has': False, 'set': []}
        if MARK in f:
            raise Unsupported('extensible permitted alphabet')
        cps = set()
        for p in f:
            lo, hi = p if isinstance(p, tuple) else (p, p)
            if not (isinstance(lo, str) and isinstance(hi, str) and len(lo) == 1 and len(hi) == 1):
                raise Unsupported('permitted alphabet %r' % (p,))
            if ord(hi) - ord(lo) > 2000:
                raise Unsupported('large permitted alphabet')
            cps |= set(range(ord(lo), ord(hi) + 1))
        return {'has': True, 'set': sorted(cps)}

    def tags(self, t):
        tg = t.get('tag')
        if not tg:
            return []
        if 'number' not in tg or not isinstance(tg['number'], int):
            raise Unsupported('tag %r' % (tg,))
        return [{'cls': CLS[tg.get('class')], 'num': tg['number'],
                 'mode': {'IMPLICIT': 'I', 'EXPLICIT': 'E', None: 'D'}[tg.get('kind')]}]

    def default(self, T, d, refs_types):
        k = T['k']
        if k == 'REF':
            target = self.types.get(T['name'])
            if target is None:
                raise Unsupported('default through unknown reference')
            return self.default(self.desc(target, []), d, refs_types)
        if k == 'BOOL' and isinstance(d, bool):
            return d
        if k == 'INT' and isinstance(d, int) and not isinstance(d, bool):
            return unbig(d)
        if k == 'INT' and isinstance(d, str):
            for x in T['nn']:
                if x['n'] == d:
                    return x['v']
        if k == 'ENUM' and isinstance(d, str):
            return d
        if k == 'NULL':
            return 'NULL'
        if k == 'BITS' and isinstance(d, str) and d.startswith('0b'):
            bits = d[2:]
            data = int(bits + '0' * (-len(bits) % 8), 2).to_bytes((len(bits) + 7) // 8, 'big') if bits else b''
            return {'n': len(bits), 'b': list(data)}
        if k == 'BITS' and isinstance(d, list):
            pos = {x['n']: x['v'] for x in T['nb']}
            n = max([pos[x] for x in d] or [-1]) + 1
            bits = ['0'] * n
            for x in d:
                bits[pos[x]] = '1'
            s = ''.join(bits)
            data = int(s + '0' * (-n % 8), 2).to_bytes((n + 7) // 8, 'big') if n else b''
            return {'n': n, 'b': list(data)}
        if k == 'OCTS' and isinstance(d, str) and d.startswith('0x') and len(d) % 2 == 0:
            return list(bytes.fromhex(d[2:]))
        if k == 'STR' and isinstance(d, str):
            return [ord(c) for c in d]
        raise Unsupported('default %r for %s' % (d, k))

    def members(self, ms, refs):
        root, adds, ext = [], [], False
        for m in ms:
            if m is MARK:
                if ext and adds:
                    raise Unsupported('second extension marker / second root')
                ext = True
                continue
            if isinstance(m, list):
                adds.append({'g': True, 'm': {'n': 'x', 't': {'k': 'NULL', 'tags': []}, 'q': 'M', 'd': 'NULL'},
                             'ms': [self.member(x, refs) for x in m]})
            elif ext:
                adds.append({'g': False, 'm': self.member(m, refs), 'ms': []})
            else:
                root.append(self.member(m, refs))
        return root, ext, adds

    def member(self, m, refs):
        if 'components-of' in m or 'name' not in m:
            raise Unsupported('COMPONENTS OF')
        T = self.desc(m, refs)
        q, d = 'M', 'NULL'
        if m.get('optional'):
            q = 'O'
        elif 'default' in m:
            q, d = 'D', self.default(T, m['default'], refs)
        return {'n': m['name'], 't': T, 'q': q, 'd': d}

    def desc(self, t, refs):
        for bad in ('with-components', 'parameters', 'actual-parameters', 'choices', 'table', 'contents'):
            if bad in t:
                raise Unsupported(bad)
        name = t['type']
        tags = self.tags(t)
        if name == 'BOOLEAN':
            return {'k': 'BOOL', 'tags': tags}
        if name == 'NULL':
            return {'k': 'NULL', 'tags': tags}
        if name == 'OBJECT IDENTIFIER':
            return {'k': 'OID', 'tags': tags}
        if name == 'REAL':
            return {'k': 'REAL', 'tags': tags}
        if name == 'INTEGER':
            nn = [{'n': k, 'v': unbig(int(v))} for k, v in (t.get('named-numbers') or {}).items()]
            return {'k': 'INT', 'tags': tags, 'con': self.int_con(t), 'nn': nn}
        if name == 'ENUMERATED':
            vals = t['values']
            ext = MARK in vals
            root = vals[:vals.index(MARK)] if ext else vals
            adds = [x for x in vals[vals.index(MARK) + 1:] if x is not MARK] if ext else []
            return {'k': 'ENUM', 'tags': tags, 'ext': ext,
                    'root': [{'n': n, 'v': int(v)} for n, v in root],
                    'adds': [{'n': n, 'v': int(v)} for n, v in adds]}
        if name == 'BIT STRING':
            nb = [{'n': n, 'v': int(v)} for n, v in (t.get('named-bits') or [])]
            return {'k': 'BITS', 'tags': tags, 'sz': self.size(t), 'nb': nb}
        if name == 'OCTET STRING':
            return {'k': 'OCTS', 'tags': tags, 'sz': self.size(t)}
        if name in STR:
            return {'k': 'STR', 'tags': tags, 'st': STR[name], 'sz': self.size(t), 'al': self.alphabet(t)}
        if name in ('SEQUENCE', 'SET'):
            root, ext, adds = self.members(t['members'], refs)
            return {'k': 'SEQ' if name == 'SEQUENCE' else 'SET', 'tags': tags, 'root': root, 'ext': ext, 'adds': adds}
        if name == 'CHOICE':
            root, ext, adds = self.members(t['members'], refs)
            flat = []
            for a in adds:
                flat += a['ms'] if a['g'] else [a['m']]
            return {'k': 'CHOICE', 'tags': tags, 'ext': ext,
                    'root': [{'n': m['n'], 't': m['t']} for m in root],
                    'adds': [{'n': m['n'], 't': m['t']} for m in flat]}
        if name in ('SEQUENCE OF', 'SET OF'):
            return {'k': 'SEQOF' if name == 'SEQUENCE OF' else 'SETOF', 'tags': tags,
                    'e': self.desc(t['element'], refs), 'sz': self.size(t)}
        if name in self.types and name[0].isupper():
            for extra in ('restricted-to', 'size', 'from'):
                if extra in t:
                    raise Unsupported('constraint on a type reference')
            refs.append(name)
            return {'k': 'REF', 'tags': tags, 'name': name}
        raise Unsupported('type %s' % name)
