#!/bin/sh
# harness/seeded_run.sh <seeded id> <property> <tier>: run a check against a seeded change applied to a
# scratch worktree of /repo's HEAD (never in /repo itself); the worktree is removed afterwards.
id=$1; prop=$2; tier=${3:-quick}
wt=/tmp/seedwt/$id
mkdir -p /tmp/seedwt
git -C /repo worktree remove --force $wt 2>/dev/null
git -C /repo worktree add -q --detach $wt HEAD || exit 2
git -C $wt apply /verif/seeded/$id/patch.diff || { echo "patch does not apply"; git -C /repo worktree remove --force $wt; exit 2; }
cd /verif && VERIF_EVIDENCE_DIR=/tmp/seedwt/evidence VERIF_REPO=$wt ./check $prop --tier $tier
rc=$?
git -C /repo worktree remove --force $wt
echo "SEEDED $id property=$prop tier=$tier exit=$rc"
exit $rc
