"""Summarise replay files of the last run: ./harness/triage.py C03 [n]"""
import glob, json, re, sys, os
sys.path.insert(0, os.path.dirname(__file__))
import render
prop = sys.argv[1]
show = int(sys.argv[2]) if len(sys.argv) > 2 else 1
groups = {}
for p in sorted(glob.glob('/verif/.work/replays/%s-*.json' % prop)):
    r = json.load(open(p))
    o = r['verdict']
    d = o['detail']
    key = (o['check'], o['codec'], re.sub(r'<<.*', '<<..>>', re.sub(r'\d+', 'N', d))[:100])
    groups.setdefault(key, []).append((p, r))
for key, items in sorted(groups.items(), key=lambda kv: -len(kv[1])):
    print('=== %d x %s' % (len(items), key))
    for p, r in items[:show]:
        c = r['case']
        print('  ', p)
        if c:
            print(render.render_module('M', c['env']))
            o = r['verdict']
            vi = o.get('vi')
            if vi:
                print('   value:', json.dumps(c['vals'][vi - 1])[:400])
            for ob in c.get('obs', [])[:1]:
                e = ob.get('enc', {})
                print('   enc:', bytes(e['b']).hex() if e.get('st') == 'ok' else e)
                if 'dec' in ob: print('   dec:', json.dumps(ob['dec'])[:400])
                if 're' in ob and ob['re'].get('st') != 'ok': print('   re:', json.dumps(ob['re'])[:300])
            print('   verdict:', o['detail'][:400])
