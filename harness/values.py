"""Abstract value (JSON form of spec/Asn1Value.tla) <-> the Python shapes asn1tools uses.

Type-directed shape conversion only; no encoding rules.
"""
import math

from render import big, unbig


class BadShape(Exception):
    pass


def base(env, T):
    while T['k'] == 'REF':
        T = env['types'][T['name']]
    return T


def all_members(T):
    ms = list(T['root'])
    for a in T['adds']:
        ms += a['ms'] if a['g'] else [a['m']]
    return ms


def all_alts(T):
    return list(T['root']) + list(T['adds'])


def real_to_py(v):
    c = v['c']
    if c == 'Z':
        return 0.0
    if c == 'NZ':
        return -0.0
    if c == 'PINF':
        return float('inf')
    if c == 'NINF':
        return float('-inf')
    if c == 'NAN':
        return float('nan')
    m = int.from_bytes(bytes(v['m']), 'big')
    f = math.ldexp(float(m), v['e'])
    return -f if v['s'] else f


def real_from_py(f):
    if isinstance(f, bool) or not isinstance(f, (float, int)):
        raise BadShape('REAL: %r' % (f,))
    f = float(f)
    z = {'s': 0, 'm': [], 'e': 0}
    if f != f:
        return dict(z, c='NAN')
    if f == float('inf'):
        return dict(z, c='PINF')
    if f == float('-inf'):
        return dict(z, c='NINF')
    if f == 0.0:
        return dict(z, c='NZ' if math.copysign(1.0, f) < 0 else 'Z')
    n, d = abs(f).as_integer_ratio()
    e = 0
    while n % 2 == 0:
        n //= 2
        e += 1
    e -= d.bit_length() - 1
    return {'c': 'F', 's': 1 if f < 0 else 0, 'e': e,
            'm': list(n.to_bytes((n.bit_length() + 7) // 8, 'big'))}


def to_py(env, T, v, numeric_enums=False):
    T = base(env, T)
    k = T['k']
    if k == 'BOOL':
        return bool(v)
    if k == 'NULL':
        return None
    if k == 'INT':
        return big(v)
    if k == 'ENUM':
        if numeric_enums:
            return next(x['v'] for x in all_alts(T) if x['n'] == v)
        return v
    if k == 'BITS':
        return (bytes(v['b']), v['n'])
    if k == 'OCTS':
        return bytes(v)
    if k == 'STR':
        return ''.join(chr(c) for c in v)
    if k == 'OID':
        return '.'.join(str(a) for a in v)
    if k == 'REAL':
        return real_to_py(v)
    if k in ('SEQ', 'SET'):
        out = {}
        for m in all_members(T):
            e = v[m['n']]
            if e['p']:
                out[m['n']] = to_py(env, m['t'], e['v'], numeric_enums)
        return out
    if k == 'CHOICE':
        alt = next(a for a in all_alts(T) if a['n'] == v['a'])
        return (v['a'], to_py(env, alt['t'], v['v'], numeric_enums))
    if k in ('SEQOF', 'SETOF'):
        return [to_py(env, T['e'], x, numeric_enums) for x in v]
    raise ValueError(k)


def from_py(env, T, p, numeric_enums=False, unk=False):
    """Python value returned by a decoder -> abstract value; BadShape if it is not
    a value of the type's Python shape at all."""
    T = base(env, T)
    k = T['k']
    if k == 'BOOL':
        if not isinstance(p, bool):
            raise BadShape('BOOLEAN: %r' % (p,))
        return p
    if k == 'NULL':
        if p is not None:
            raise BadShape('NULL: %r' % (p,))
        return 'NULL'
    if k == 'INT':
        if isinstance(p, bool) or not isinstance(p, int):
            raise BadShape('INTEGER: %r' % (p,))
        return unbig(p)
    if k == 'ENUM':
        if unk and p is None:
            return '?unknown'       # decoder's marker for an unknown (newer-version) item
        if numeric_enums:
            for x in all_alts(T):
                if x['v'] == p and not isinstance(p, bool):
                    return x['n']
            raise BadShape('ENUMERATED number: %r' % (p,))
        if not isinstance(p, str):
            raise BadShape('ENUMERATED: %r' % (p,))
        return p
    if k == 'BITS':
        if not (isinstance(p, tuple) and len(p) == 2 and isinstance(p[0], (bytes, bytearray))
                and isinstance(p[1], int) and not isinstance(p[1], bool)):
            raise BadShape('BIT STRING: %r' % (p,))
        data, n = bytes(p[0]), p[1]
        if n < 0 or len(data) != (n + 7) // 8:
            raise BadShape('BIT STRING length: %r' % (p,))
        out = list(data)
        if n % 8:
            out[-1] &= (0xff << (8 - n % 8)) & 0xff      # padding bits are not part of the abstract value
        return {'n': n, 'b': out}
    if k == 'OCTS':
        if not isinstance(p, (bytes, bytearray)):
            raise BadShape('OCTET STRING: %r' % (p,))
        return list(bytes(p))
    if k == 'STR':
        if not isinstance(p, str):
            raise BadShape('string: %r' % (p,))
        return [ord(c) for c in p]
    if k == 'OID':
        if not isinstance(p, str):
            raise BadShape('OID: %r' % (p,))
        try:
            return [int(a) for a in p.split('.')]
        except ValueError:
            raise BadShape('OID: %r' % (p,))
    if k == 'REAL':
        return real_from_py(p)
    if k in ('SEQ', 'SET'):
        if not isinstance(p, dict):
            raise BadShape('SEQUENCE: %r' % (p,))
        ms = all_members(T)
        names = {m['n'] for m in ms}
        extra = set(p) - names
        if extra:
            raise BadShape('SEQUENCE: unknown members %r' % (sorted(extra),))
        out = {}
        for m in ms:
            if m['n'] in p:
                out[m['n']] = {'p': True, 'v': from_py(env, m['t'], p[m['n']], numeric_enums, unk)}
            else:
                out[m['n']] = {'p': False, 'v': 'NULL'}
        return out
    if k == 'CHOICE':
        if unk and (p is None or (isinstance(p, tuple) and len(p) == 2 and p[0] is None)):
            return {'a': '?unknown', 'v': 'NULL'}   # unknown (newer-version) alternative
        if not (isinstance(p, tuple) and len(p) == 2 and isinstance(p[0], str)):
            raise BadShape('CHOICE: %r' % (p,))
        for a in all_alts(T):
            if a['n'] == p[0]:
                return {'a': p[0], 'v': from_py(env, a['t'], p[1], numeric_enums, unk)}
        raise BadShape('CHOICE: unknown alternative %r' % (p[0],))
    if k in ('SEQOF', 'SETOF'):
        if not isinstance(p, list):
            raise BadShape('SEQUENCE OF: %r' % (p,))
        return [from_py(env, T['e'], x, numeric_enums, unk) for x in p]
    raise ValueError(k)
