"""pytest plugin (loaded with -p observe_plugin, only when ASN1TOOLS_VERIF=1): records the encode
calls the repository's own tests make, in the trace format of drive_codec.py, so that the TLA+
specification judges the fixtures the repository ships (X.691 Annex A records, "Overview of OER",
RRC, ...).  Installed from outside: the repository is not modified.

Output file: $VERIF_OBSERVE_OUT (ndjson), one line per (specification, type).
"""
import copy
import json
import os
import sys

HERE = os.path.dirname(os.path.abspath(__file__))
sys.path.insert(0, HERE)

STATE = {'lines': {}, 'skipped': {}, 'n': 0}
MAX_VALUES = 60


def _skip(why):
    STATE['skipped'][why] = STATE['skipped'].get(why, 0) + 1


def install():
    import asn1tools
    import asn1tools.compiler as comp
    import project
    import values

    orig_compile_dict = comp.compile_dict
    orig_encode = comp.Specification.encode

    def compile_dict(specification, codec='ber', *args, **kwargs):
        snap = None
        try:
            snap = copy.deepcopy(specification)
        except Exception:
            pass
        spec = orig_compile_dict(specification, codec, *args, **kwargs)
        ne = kwargs.get('numeric_enums', False)
        if len(args) >= 2:
            ne = args[1]
        try:
            proj = project.Projector(snap) if snap is not None else None
        except project.Unsupported as e:
            proj = None
            _skip('spec: ' + str(e)[:60])
        except Exception as e:     # a projector bug must never break the observed test
            proj = None
            _skip('spec-error: ' + type(e).__name__)
        STATE['n'] += 1
        spec._verif = {'proj': proj, 'codec': codec, 'ne': bool(ne), 'id': STATE['n'], 'envs': {}}
        return spec

    def encode(self, name, data, *args, **kwargs):
        before = None
        try:
            before = copy.deepcopy(data)
        except Exception:
            pass
        out = orig_encode(self, name, data, *args, **kwargs)
        info = getattr(self, '_verif', None)
        if info is None or info['proj'] is None or before is None or kwargs.get('indent') is not None:
            return out
        if info['codec'] not in ('ber', 'der', 'per', 'uper', 'oer'):
            return out
        try:
            if name not in info['envs']:
                try:
                    info['envs'][name] = info['proj'].env_for(name)
                except project.Unsupported as e:
                    info['envs'][name] = None
                    _skip('type: ' + str(e)[:60])
            env = info['envs'][name]
            if env is None:
                return out
            v = values.from_py(env, env['types'][name], before, info['ne'])
            key = (info['id'], name)
            line = STATE['lines'].setdefault(key, {
                'cid': 'fx%d-%s' % (info['id'], name), 'env': env, 'top': name, 'vals': [], 'obs': [],
                'src': os.environ.get('PYTEST_CURRENT_TEST', '')[:120]})
            if len(line['vals']) < MAX_VALUES:
                line['vals'].append(v)
                line['obs'].append({'vi': len(line['vals']), 'codec': info['codec'], 'ne': info['ne'],
                                    'enc': {'st': 'ok', 'b': list(bytes(out))}})
        except values.BadShape as e:
            _skip('value: ' + str(e)[:40])
        except Exception as e:
            _skip('record-error: ' + type(e).__name__)
        return out

    comp.compile_dict = compile_dict
    asn1tools.compile_dict = compile_dict
    comp.Specification.encode = encode


def pytest_configure(config):
    if os.environ.get('ASN1TOOLS_VERIF') == '1':
        install()


def pytest_unconfigure(config):
    out = os.environ.get('VERIF_OBSERVE_OUT')
    if not out or os.environ.get('ASN1TOOLS_VERIF') != '1':
        return
    with open(out, 'w') as f:
        for line in STATE['lines'].values():
            try:
                f.write(json.dumps(line) + '\n')
            except (TypeError, ValueError):
                _skip('not-json')
    with open(out + '.skipped', 'w') as f:
        json.dump(STATE['skipped'], f, indent=1)
