"""Drive the real asn1tools (from $VERIF_REPO, default /repo) along generated cases and
record what it did.  One output line per case:

  {"cid", "env", "top", "vals", "obs": [ {vi, codec, ne, enc, dec, re, pre?, ...} ]}

Outcomes:  {"st":"ok","b":[octets]} / {"st":"ok","v":absvalue} /
           {"st":"exc","cls":..,"mro":[..],"msg":..,"site":..} / {"st":"bad","msg":..} /
           {"st":"timeout","site":..}

Run with /venv/bin/python.  No encoding rules in here.
"""
import json
import os
import signal
import sys
import traceback

HERE = os.path.dirname(os.path.abspath(__file__))
sys.path.insert(0, HERE)
REPO = os.environ.get('VERIF_REPO', '/repo')
sys.path.insert(0, REPO)

import render  # noqa: E402
import values  # noqa: E402

CALL_TIMEOUT = int(os.environ.get('VERIF_CALL_TIMEOUT', '10'))


class CallTimeout(BaseException):
    pass


def _alarm(signum, frame):
    raise CallTimeout()


def innermost_site(tb):
    """module.function of the innermost asn1tools frame of a traceback."""
    # (walks the frames itself: traceback.extract_tb would read the source files into linecache, a one-off
    # allocation of megabytes that the memory accounting of C08 would charge to whichever call raises first)
    site = ''
    while tb is not None:
        code = tb.tb_frame.f_code
        if '/asn1tools/' in code.co_filename:
            mod = code.co_filename.split('/asn1tools/')[-1][:-3].replace('/', '.')
            site = '%s.%s' % (mod, code.co_name)
        tb = tb.tb_next
    return site


def guarded(fn):
    """Run fn() under the per-call alarm; classify the outcome."""
    # the budget is CPU time of this process (ITIMER_PROF), so that a loaded machine is not mistaken for a hang;
    # a generous wall-clock alarm stays as the backstop for a call that blocks without using the CPU
    signal.signal(signal.SIGALRM, _alarm)
    signal.signal(signal.SIGPROF, _alarm)
    signal.setitimer(signal.ITIMER_PROF, CALL_TIMEOUT)
    signal.alarm(CALL_TIMEOUT * 20)
    try:
        try:
            r = fn()
        finally:
            # timers off before anything else happens: a timer that fires while an exception of the call is being
            # classified would escape from this function
            signal.setitimer(signal.ITIMER_PROF, 0)
            signal.alarm(0)
        return {'st': 'ok', 'r': r}
    except CallTimeout:
        tb = sys.exc_info()[2]
        return {'st': 'timeout', 'site': innermost_site(tb)}
    except RecursionError as e:
        return {'st': 'exc', 'cls': 'RecursionError', 'mro': ['RecursionError'], 'msg': '', 'site': ''}
    except BaseException as e:  # noqa
        tb = sys.exc_info()[2]
        return {'st': 'exc', 'cls': type(e).__name__,
                'mro': [c.__module__ + '.' + c.__name__ for c in type(e).__mro__
                        if c.__name__ not in ('object', 'BaseException')],
                'msg': str(e)[:300], 'site': innermost_site(tb)}
    finally:
        signal.setitimer(signal.ITIMER_PROF, 0)
        signal.alarm(0)


def enc_outcome(o):
    if o['st'] == 'ok':
        r = o.pop('r')
        if not isinstance(r, (bytes, bytearray)):
            return {'st': 'bad', 'msg': 'encode returned %r' % (type(r).__name__,)}
        o['b'] = list(bytes(r))
    return o


def dec_outcome(o, env, T, ne):
    if o['st'] == 'ok':
        r = o.pop('r')
        try:
            o['v'] = values.from_py(env, T, r, ne)
        except values.BadShape as e:
            return {'st': 'bad', 'msg': str(e)[:300]}
    return o


def prefix_points(n, full):
    if full or n <= 48:
        return list(range(n))
    pts = set(range(0, 8)) | set(range(n - 8, n))
    for b in (127, 128, 129, 255, 256, 16383, 16384, 16385, 32768, 65535, 65536):
        for d in (-1, 0, 1):
            if 0 <= b + d < n:
                pts.add(b + d)
    for b in range(16384, n + 4, 16384):          # the ends of 16K-multiple fragments (PER), with their header octets
        for d in range(-1, 5):
            if 0 <= b + d < n:
                pts.add(b + d)
    step = max(1, n // 8)
    pts |= set(range(0, n, step))
    return sorted(p for p in pts if 0 <= p < n)


def run_batch(batch, codecs, ops, numerics, out):
    """batch: list of cases sharing (tagdef, extimp)."""
    import asn1tools
    env0 = batch[0]['env']
    types = {}
    for c in batch:
        mapping = {n: 'C%dx%s' % (c['bi'], n) for n in c['env']['types']}
        c['map'] = mapping
        for n, T in c['env']['types'].items():
            types[mapping[n]] = render.rename(T, mapping)
    menv = {'tagdef': env0['tagdef'], 'extimp': env0.get('extimp', False), 'types': types}
    text = render.render_module('M', menv)
    specs = {}
    compile_err = {}
    for codec in codecs:
        for ne in numerics:
            o = guarded(lambda: asn1tools.compile_string(text, codec, numeric_enums=ne))
            if o['st'] == 'ok':
                specs[(codec, ne)] = o['r']
            else:
                o.pop('r', None)
                compile_err[(codec, ne)] = o
    if compile_err and len(batch) > 1:
        # isolate: compile each case on its own
        for c in batch:
            run_batch([c], codecs, ops, numerics, out)
        return
    for c in batch:
        env, top = c['env'], c['env']['types'][c['top']]
        name = c['map'][c['top']]
        obs = []
        for (codec, ne) in [(cd, n) for cd in codecs for n in numerics]:
            if (codec, ne) in compile_err:
                obs.append({'vi': 0, 'codec': codec, 'ne': ne, 'compile': compile_err[(codec, ne)]})
                continue
            spec = specs[(codec, ne)]
            for vi, v in enumerate(c['vals'], 1):
                rec = {'vi': vi, 'codec': codec, 'ne': ne}
                try:
                    pv = values.to_py(env, top, v, ne)
                except Exception as e:  # machinery
                    rec['machinery'] = repr(e)
                    obs.append(rec)
                    continue
                rec['enc'] = enc_outcome(guarded(
                    lambda: spec.encode(name, pv, check_types=True, check_constraints=True)))
                if rec['enc']['st'] == 'ok':
                    data = bytes(rec['enc']['b'])
                    if 'dec' in ops:
                        d = guarded(lambda: spec.decode(name, data))
                        praw = d.get('r')
                        rec['dec'] = dec_outcome(d, env, top, ne)
                        if rec['dec']['st'] == 'ok' and 're' in ops:
                            rec['re'] = enc_outcome(guarded(
                                lambda: spec.encode(name, praw, check_types=True, check_constraints=True)))
                    if 'pre' in ops:
                        pre = []
                        for k in prefix_points(len(data), len(data) <= 400):
                            d = dec_outcome(guarded(lambda: spec.decode(name, data[:k])), env, top, ne)
                            d.pop('v', None)
                            if d['st'] == 'bad':            # a value came back, of a shape the type does not have
                                d['msg'] = d.get('msg', '')[:80]
                            else:
                                d.pop('msg', None)
                            pre.append({'k': k, 'o': d})
                        rec['pre'] = pre
                obs.append(rec)
        line = {'cid': c['cid'], 'env': env, 'top': c['top'], 'vals': c['vals'], 'obs': obs}
        if 'text' in ops:
            line['asn1'] = render.render_module('M', env)
        out.write(json.dumps(line) + '\n')


def main():
    import argparse
    ap = argparse.ArgumentParser()
    ap.add_argument('--cases', required=True)
    ap.add_argument('--out', required=True)
    ap.add_argument('--codecs', default='ber,der')
    ap.add_argument('--ops', default='enc,dec,re')
    ap.add_argument('--numerics', default='0')
    ap.add_argument('--batch', type=int, default=40)
    ap.add_argument('--shard', default='0/1')
    a = ap.parse_args()
    k, n = [int(x) for x in a.shard.split('/')]
    codecs = a.codecs.split(',')
    ops = set(a.ops.split(','))
    numerics = [x == '1' for x in a.numerics.split(',')]
    # first pass: only where each case is and which batch it belongs to (every shard process reads the whole file;
    # keeping all parsed cases cost 4 GB per process on the thorough universes)
    groups = {}
    with open(a.cases, 'rb') as f:
        idx = 0
        while True:
            pos = f.tell()
            line = f.readline()
            if not line:
                break
            if line.strip():
                c = json.loads(line)
                key = (c['env']['tagdef'], c['env'].get('extimp', False))
                groups.setdefault(key, []).append((pos, idx, c.get('depth') == 100))
                del c
            idx += 1
    batches = []
    for key in sorted(groups):
        g = [x for x in groups[key] if not x[2]]
        for x in groups[key]:
            if x[2]:                       # big payloads: one case per batch, spread over the shards
                batches.append([x])
        for i in range(0, len(g), a.batch):
            batches.append(g[i:i + a.batch])
    sys.setrecursionlimit(3000)
    with open(a.out, 'w') as out, open(a.cases, 'rb') as f:
        for bi, b in enumerate(batches):
            if bi % n != k:
                continue
            cases = []
            for j, (pos, idx, _) in enumerate(b):
                f.seek(pos)
                c = json.loads(f.readline())
                c.setdefault('cid', 'c%d' % idx)
                c['bi'] = j
                cases.append(c)
            run_batch(cases, codecs, ops, numerics, out)


if __name__ == '__main__':
    main()
