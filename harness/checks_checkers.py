"""C11 (check_constraints accepts exactly what the constraints admit) and C12 (ill-typed /
out-of-constraint components are rejected with the exact path).

Both follow the same pipeline: a TLA+ generator (ConGen / Corrupt, the TypeGen grammar over
constraint-bearing leaf types) emits behaviours together with what the specification expects;
a driver replays them into the real asn1tools and records outcome classes; a trace
specification (Trace_Constraints / Trace_Corrupt) judges every recorded observation.
No verdict is computed in Python.
"""
import hashlib
import json
import os
import shutil
from concurrent.futures import ThreadPoolExecutor

import pipeline as pl

BFS_WORKERS = int(os.environ.get('VERIF_TLC_WORKERS', '6'))
GEN_TIMEOUT = int(os.environ.get('VERIF_GEN_TIMEOUT', '5400'))
GEN_PARALLEL = int(os.environ.get('VERIF_GEN_PARALLEL', '3'))     # TLC generator runs side by side

ALL_CODECS = ['ber', 'der', 'per', 'uper', 'oer', 'jer', 'xer', 'gser']

TRACE_CFG = 'SPECIFICATION Spec\nPOSTCONDITION TraceAccepted\nCHECK_DEADLOCK FALSE\n'


def gen_cfg(spec, inv, max_depth, rich, tagdefs, extra=''):
    return ('SPECIFICATION %s\nCONSTANTS\n  Big = FALSE\n  MaxDepth = %d\n  Rich = %s\n  TagDefs = {%s}\n%s'
            'INVARIANT %s\nCHECK_DEADLOCK FALSE\n' % (
                spec, max_depth, 'TRUE' if rich else 'FALSE', ', '.join('"%s"' % t for t in tagdefs), extra, inv))


GEN_MODULES = ['BigInt.tla', 'Bits.tla', 'Asn1Type.tla', 'Asn1Value.tla', 'TypeGen.tla', 'Constraints.tla',
               'ConGen.tla', 'CorruptRules.tla', 'Corrupt.tla']
CACHE = os.path.join(pl.VERIF, '.cache')


def cached_generate(run, module, cfg, out_name, what, **kw):
    """pl.tlc_generate, with the emitted behaviours cached under /verif/.cache keyed by the text of
    the generator modules, the cfg and the TLC mode/seed (DESIGN 2.9).  The generators do not depend
    on the code under test, so a hit is exact; VERIF_NO_CACHE=1 disables it.  A hit accounts the
    states of the TLC run that produced the file and is marked '(cached)' in the evidence."""
    h = pl.spec_digest(GEN_MODULES)
    h.update(json.dumps([module, cfg, kw.get('simulate'), kw.get('depth'), run.seed if kw.get('simulate') else 0]).encode())
    key = os.path.join(CACHE, 'gen-%s-%s' % (module, h.hexdigest()[:24]))
    out = run.path(out_name)
    if not os.environ.get('VERIF_NO_CACHE') and os.path.exists(key + '.ndjson') and os.path.exists(key + '.json'):
        shutil.copy(key + '.ndjson', out)
        with open(key + '.json') as f:
            res = json.load(f)
        run.account(res, what + ' (cached)')
        run.notes['generator_cache_hits'] = run.notes.get('generator_cache_hits', 0) + 1
        return out, res
    out, res = pl.tlc_generate(run, module, cfg, out_name, what=what, timeout=GEN_TIMEOUT, **kw)
    os.makedirs(CACHE, exist_ok=True)
    tmp = key + '.tmp%d' % os.getpid()
    shutil.copy(out, tmp)
    os.replace(tmp, key + '.ndjson')
    with open(key + '.json', 'w') as f:
        json.dump({'distinct': res['distinct'], 'generated': res['generated'], 'wall': res['wall']}, f)
    return out, res


def generate(run, module, spec, inv, plan, prefix, extra='', also=None):
    """plan: list of ('bfs', depth, rich, tagdefs) / ('sim', 'num=..', depth, rich, tagdefs).
    The TLC runs of a plan are independent and run side by side (GEN_PARALLEL of them);
    `also` = extra thunks run with them."""
    def one(n_step):
        n, step = n_step
        if step[0] == 'bfs':
            _, d, rich, tds = step
            out, _ = cached_generate(run, module, gen_cfg(spec, inv, d, rich, tds, extra), '%s%d.ndjson' % (prefix, n),
                                     what='%s BFS depth<=%d rich=%s tagdefs=%s' % (module, d, rich, tds), workers=BFS_WORKERS)
        else:
            _, num, d, rich, tds = step
            out, _ = cached_generate(run, module, gen_cfg(spec, inv, d, rich, tds, extra), '%s%d.ndjson' % (prefix, n),
                                     what='%s simulate %s depth %d' % (module, num, d), workers=1, simulate=num, depth=d + 1)
        return pl.dedup_cases(out, '%s%d' % (prefix, n))
    cases = []
    with ThreadPoolExecutor(max_workers=GEN_PARALLEL) as ex:
        extra_f = [ex.submit(f) for f in (also or [])]
        for part in ex.map(one, list(enumerate(plan))):
            cases += part
        for f in extra_f:
            f.result()
    seen, uniq = set(), []
    for c in cases:
        h = hashlib.sha1(json.dumps([c['env'], c['vals']], sort_keys=True).encode()).hexdigest()
        if h not in seen:
            seen.add(h)
            uniq.append(c)
    return uniq


def witness_cases(prop):
    out = []
    for e in pl.load_findings(prop):
        w = e.get('witness')
        if isinstance(w, dict) and 'env' in w and 'vals' in w:
            c = dict(w)
            c['cid'] = 'w-' + e['id']
            out.append(c)
    return out


def type_hash(line):
    return hashlib.sha1(json.dumps(line['env'], sort_keys=True).encode()).hexdigest()[:10]


# ----------------------------------------------------------------------------------------
# C11

def c11(tier, seed):
    run = pl.Run('C11', tier, seed)
    try:
        if tier.startswith('smoke'):       # smoke0 / smoke1: BFS to that depth only (sensitivity demonstrations)
            plan = [('bfs', int(tier[5:] or 0), False, ['A'])]
        elif tier == 'probe':              # deep random nestings only (triage aid)
            plan = [('sim', 'num=8', 5, True, ['E', 'I', 'A'])]
        elif tier == 'quick':
            plan = [('bfs', 1, False, ['A']), ('sim', 'num=4', 4, False, ['E'])]
        else:
            plan = [('bfs', 2, False, ['A']), ('bfs', 1, True, ['E', 'I']), ('sim', 'num=120', 3, True, ['E', 'I', 'A'])]
        # (random walks of depth 5 reach recursive types beyond their first unfolding, where ConGen's value tables do not
        # claim boundary completeness)
        cases = generate(run, 'ConGen', 'ConSpec', 'ConEmit', plan, 'g') + witness_cases('C11')
        for c in cases:
            c.pop('exp', None)      # the expectation is recomputed by the trace specification
        cpath = run.path('cases.ndjson')
        pl.write_cases(cases, cpath)
        shards = pl.drive(run, 'drive_constraints.py', cpath, 'trace', ['--codecs', ','.join(ALL_CODECS)])
        reports = pl.validate(run, 'Trace_Constraints', TRACE_CFG, shards, what='Trace_Constraints')
        idx = pl.load_trace_index(shards)
        pl.classify(run, reports, idx, 'C11')
        # what was exercised: (type, value, codec) with the outcome class the specification demanded
        by_cid = {r['cid']: r for r in reports}
        nviol = nadm = 0
        for cid, line in idx.items():
            th = type_hash(line)
            for o in line['obs']:
                if 'enc' not in o:
                    continue
                raised = o['enc'].get('st') == 'exc' and 'asn1tools.errors.ConstraintsError' in o['enc'].get('mro', [])
                for cd in o['codecs']:
                    run.signatures.add((th, o['vi'], cd, 'raised' if raised else 'passed'))
                if raised:
                    nviol += len(o['codecs'])
                else:
                    nadm += len(o['codecs'])
            if len(run.samples) < 5 and line['obs']:
                o = line['obs'][-1]
                run.samples.append({'cid': cid, 'asn1_top': line['env']['types'][line['top']],
                                    'value': line['vals'][o['vi'] - 1] if o.get('vi') else None,
                                    'codecs': o['codecs'], 'encode_with_checks': o.get('enc'),
                                    'decode_with_checks': o.get('dec1', '(not recorded)')})
        run.notes['cases'] = len(cases)
        run.notes['values'] = sum(len(c['vals']) for c in cases)
        run.notes['encode_calls_raising_ConstraintsError'] = nviol
        run.notes['encode_calls_not_raising'] = nadm
        run.notes['codecs'] = ALL_CODECS
        run.assumptions = [
            'TLC and SANY are correct; spec/Constraints.tla states X.680 constraint satisfaction for the forms the property names',
            'harness/render.py renders descriptors (incl. value-reference / named-number bounds and constraints on references) '
            'to the ASN.1 notation they denote; harness/values.py converts shapes only',
            'ConGen checks on every emitted table: boundary completeness (b-1, b, b+1 for every bound), locality of variants, '
            'agreement of ViolationPaths with Asn1Value!Admits',
        ]
        return pl.finish(run, rule=(
            'cases are ConGen states (TypeGen productions over constraint-bearing leaf types, BFS + simulation, seed %d) with '
            'boundary-complete value tables; an observation is one (type, value, codec) encode/decode with check_constraints=True; '
            'it counts as distinct non-trivial per (type, value, codec, raised|passed)' % seed))
    except pl.Machinery as e:
        print('MACHINERY FAILURE C11: %s' % e)
        return 2


# ----------------------------------------------------------------------------------------
# C12

KIND_NAMES = {'type': 'WrongPyType', 'alt': 'UnknownAlternative', 'enum': 'UnknownEnumName',
              'missing': 'MissingMandatory', 'con': 'ConstraintViolation'}


def c12(tier, seed):
    run = pl.Run('C12', tier, seed)
    try:
        all_taus = '{"None", "bool", "int", "float", "str", "bytes", "list", "dict", "tuple0", "tuple3", "tuple2s", "tuple2b"}'
        quick_taus = '{"None", "int", "float", "str", "bytes", "list", "dict", "tuple0", "tuple2b"}'
        if tier.startswith('smoke'):       # smoke0 / smoke1: BFS to that depth only, no model check
            plan = [('bfs', int(tier[5:] or 0), False, ['A'])]
            mc = None
            taus = quick_taus
        elif tier == 'probe':              # deep random nestings only (triage aid)
            plan = [('sim', 'num=8', 5, True, ['E', 'I', 'A'])]
            mc = None
            taus = quick_taus
        elif tier == 'quick':
            plan = [('bfs', 1, False, ['A']), ('sim', 'num=2', 3, False, ['E'])]
            mc = (0, False)
            taus = quick_taus
        else:
            # depth-2 BFS would give ~14k cases x up to 400 corruptions (GBs of trace): deeper nestings by simulation
            plan = [('bfs', 1, True, ['A', 'E', 'I']), ('sim', 'num=30', 5, True, ['E', 'I', 'A'])]
            mc = (0, True)
            taus = all_taus

        # (M) the transition system itself: every reachable corrupt state is applicable and its expected
        # path leads to the corrupted component (small constants, exhaustive)
        def model_check():
            if mc is None:
                return
            cfg = gen_cfg('CorSpec', 'CorruptStateOk', mc[0], mc[1], ['A'], '  Stages = TRUE\n  Taus = %s\n' % all_taus)
            _, res = cached_generate(run, 'Corrupt', cfg, 'mc.ndjson', workers=BFS_WORKERS,
                                     what='Corrupt model check (PickValue, CorruptAt) depth<=%d' % mc[0])
            run.notes['model_check_states'] = res['distinct']

        cases = generate(run, 'Corrupt', 'CorSpec', 'CorEmit', plan, 'k',
                         extra='  Stages = FALSE\n  Taus = %s\n' % taus, also=[model_check]) + witness_cases('C12')
        for c in cases:
            for k in c['cors']:
                k.pop('exp', None)      # the expectation is recomputed by the trace specification
        cpath = run.path('cases.ndjson')
        pl.write_cases(cases, cpath)
        shards = pl.drive(run, 'drive_corrupt.py', cpath, 'trace',
                          ['--codecs', ','.join(ALL_CODECS), '--numerics', '0,1'])
        reports = pl.validate(run, 'Trace_Corrupt', TRACE_CFG, shards, what='Trace_Corrupt')
        idx = pl.load_trace_index(shards)
        pl.classify(run, reports, idx, 'C12')
        kinds = {}
        for cid, line in idx.items():
            th = type_hash(line)
            for o in line['obs']:
                if 'enc' not in o:
                    continue
                k = line['cors'][o['ci'] - 1]
                kn = KIND_NAMES[k['kind']]
                kinds[kn] = kinds.get(kn, 0) + o['w']
                posk = '.'.join(s['n'] if s['s'] != 'i' else '*' for s in k['pos'])
                run.signatures.add((th, posk, k['kind'], k['tau'], k['member'], k['nb']))
            if len(run.samples) < 5 and line['obs']:
                o = line['obs'][len(line['obs']) // 2]
                k = line['cors'][o['ci'] - 1]
                run.samples.append({'cid': cid, 'asn1_top': line['env']['types'][line['top']],
                                    'value': line['vals'][k['vi'] - 1],
                                    'patch': {x: k[x] for x in ('kind', 'pos', 'tau', 'member', 'nb')},
                                    'codecs': o['codecs'], 'outcome': o['enc']})
        run.notes['cases'] = len(cases)
        run.notes['corruptions'] = sum(len(c['cors']) for c in cases)
        run.notes['encode_calls_per_kind'] = kinds
        run.notes['codecs'] = ALL_CODECS
        run.assumptions = [
            'TLC and SANY are correct; CorruptRules!Accepts is type_checker.py\'s isinstance table and Expected the path rule of the property',
            'harness/drive_corrupt.py applies a patch instruction literally (TAU table: one Python object per type tag)',
            'the message prefix recorded by the driver is str(e) up to the first ": "',
        ]
        return pl.finish(run, rule=(
            'cases are Corrupt states (TypeGen productions over leaf types of every kind, BFS + simulation, seed %d); per case '
            'every node of every well-formed boundary value x every applicable corruption kind / rejected Python type, '
            'de-duplicated per (type position, kind); an observation is one encode(check_types, check_constraints) per '
            '(corruption, codec, numeric_enums); distinct non-trivial = distinct (type, type position, kind, tau / member / bound)' % seed))
    except pl.Machinery as e:
        print('MACHINERY FAILURE C12: %s' % e)
        return 2


# ----------------------------------------------------------------------------------------
# replay (registry.REPLAYERS): re-execute exactly the recorded case through driver + trace specification

def _replay(prop, rp, seed, driver, trace_module, numerics, keep):
    case, verdict = rp['case'], rp['verdict']
    run = pl.Run(prop + 'r', 'replay', seed)
    try:
        c = {k: case[k] for k in keep if k in case}
        pl.write_cases([c], run.path('cases.ndjson'))
        shards = pl.drive(run, driver, run.path('cases.ndjson'), 'trace',
                          ['--codecs', ','.join(ALL_CODECS), '--numerics', numerics], nshards=1)
        reports = pl.validate(run, trace_module, TRACE_CFG, shards)
        bad = [o for r in reports for o in r['other']
               if o['vi'] == verdict['vi'] and o['verdict'] not in ('skip',)]
        for o in bad:
            print('REPLAY %s vi=%s %s: %s %s' % (o['codec'], o['vi'], o['check'], o['verdict'], o['detail'][:300]))
        if not bad:
            print('REPLAY: the recorded case is accepted now')
        run.cleanup()
        return 1 if bad else 0
    except pl.Machinery as e:
        print('MACHINERY FAILURE replay: %s' % e)
        return 2


def replay_c11(rp, seed):
    return _replay('C11', rp, seed, 'drive_constraints.py', 'Trace_Constraints', '0', ('cid', 'env', 'top', 'vals'))


def replay_c12(rp, seed):
    return _replay('C12', rp, seed, 'drive_corrupt.py', 'Trace_Corrupt', '0,1', ('cid', 'env', 'top', 'vals', 'cors'))
