#!/bin/sh
# harness/seeded_matrix.sh [ids...]: run every seeded change (default: all of /verif/seeded) against the quick check of the
# property it breaks, in scratch worktrees; writes /verif/$RES (id, property, exit code, seconds, summary line).
cd /verif; RES=${SEEDED_RESULTS:-seeded/RESULTS.tsv}
ids="$@"; [ -z "$ids" ] && ids=$(ls seeded | grep -v RESULTS)
for id in $ids; do
  prop=$(/venv/bin/python -c "import json;print(json.load(open('/verif/seeded/$id/meta.json'))['property'])")
  t0=$(date +%s)
  sh harness/seeded_run.sh $id $prop quick > /tmp/seedwt/$id.log 2>&1
  rc=$?
  t1=$(date +%s)
  line=$(grep " quick: " /tmp/seedwt/$id.log | tail -1 | cut -c1-160)
  grep -v "^$id	" $RES > $RES.tmp 2>/dev/null
  printf "%s\t%s\t%s\t%s\t%s\n" "$id" "$prop" "$rc" "$((t1-t0))" "$line" >> $RES.tmp
  sort $RES.tmp > $RES; rm -f $RES.tmp
done
