"""./check <id> --replay <file>: re-execute exactly the recorded case through the same pipeline."""
import json

import pipeline as pl

CODEC_PROPS = {
    'C01': (['RT'], ['enc', 'dec', 're']),
    'C03': (['DER'], ['enc']),
    'C05': (['PER'], ['enc', 'dec']),
    'C06': (['OER'], ['enc', 'dec']),
    'C16': (['PREFIX'], ['enc', 'pre']),
}


def replay(prop, rp, seed):
    if prop in CODEC_PROPS:
        return replay_codec(prop, rp, seed)
    import registry
    mod = registry.REPLAYERS.get(prop)
    if mod is None:
        print('no replayer for %s; the replay file is self-contained: %s' % (prop, list(rp)))
        return 2
    return mod(rp, seed)


def replay_codec(prop, rp, seed):
    checks, ops = CODEC_PROPS[prop]
    case, verdict = rp['case'], rp['verdict']
    run = pl.Run(prop + 'r', 'replay', seed)
    try:
        c = {'cid': case['cid'], 'env': case['env'], 'top': case['top'], 'vals': case['vals']}
        pl.write_cases([c], run.path('cases.ndjson'))
        shards = pl.drive(run, 'drive_codec.py', run.path('cases.ndjson'), 'trace',
                          ['--codecs', verdict['codec'], '--ops', ','.join(ops),
                           '--numerics', '1' if verdict.get('ne') else '0'], nshards=1)
        cfg = ('SPECIFICATION Spec\nCONSTANT Checks = {%s}\nPOSTCONDITION TraceAccepted\nCHECK_DEADLOCK FALSE\n'
               % ', '.join('"%s"' % x for x in checks))
        reports = pl.validate(run, 'Trace_Codec', cfg, shards)
        bad = [o for r in reports for o in r['other'] if o['vi'] == verdict['vi'] and o['verdict'] != 'skip']
        for o in bad:
            print('REPLAY %s vi=%s %s: %s %s' % (o['codec'], o['vi'], o['check'], o['verdict'], o['detail'][:300]))
        if not bad:
            print('REPLAY: the recorded case is accepted now')
        run.cleanup()
        return 1 if bad else 0
    except pl.Machinery as e:
        print('MACHINERY FAILURE replay: %s' % e)
        return 2
