"""C08 driver: decode adversarial inputs under a deterministic step budget and record outcomes.

Inputs per (case, codec): TLC-generated mutation scripts (spec/ByteMutate.tla) applied to valid
encodings produced by the library itself, the small-alphabet strings enumerated by the reader
model (spec/X690Reader.tla), and seeded random strings.  Work is measured in interpreter events
(function calls, C calls and backward jumps inside asn1tools) - deterministic, unlike time.

Output line per (case, codec): {cid, codec, env, top, obs: [{k, n, st, cls, site, ev}], sentinel}
"""
import json
import os
import random
import resource
import sys
import tracemalloc

HERE = os.path.dirname(os.path.abspath(__file__))
sys.path.insert(0, HERE)
import drive_codec as dc   # noqa: E402
import render  # noqa: E402
import values  # noqa: E402

HARD_A, HARD_B = 40000, 8000       # hard stop of the driver (well above the model's WorkBound)


class BudgetExceeded(BaseException):
    pass


class Budget(object):
    """Counts call / c_call events and backward jumps; raises BudgetExceeded past `cap`."""

    def __init__(self):
        self.n = 0
        self.cap = 0
        self.site = ''
        self.mon = getattr(sys, 'monitoring', None)

    def _site(self, frame):
        while frame is not None:
            fn = frame.f_code.co_filename
            if '/asn1tools/' in fn:
                return '%s.%s' % (fn.split('/asn1tools/')[-1][:-3].replace('/', '.'), frame.f_code.co_name)
            frame = frame.f_back
        return ''

    def _prof(self, frame, event, arg):
        if event in ('call', 'c_call'):
            self.n += 1
            if self.n > self.cap:
                self.site = self._site(frame)
                sys.setprofile(None)
                raise BudgetExceeded()

    def _jump(self, code, src, dst):
        if dst < src and '/asn1tools/' in code.co_filename:
            self.n += 1
            if self.n > self.cap:
                self.site = '%s.%s' % (code.co_filename.split('/asn1tools/')[-1][:-3].replace('/', '.'), code.co_name)
                raise BudgetExceeded()

    def run(self, fn, cap):
        self.n, self.cap, self.site = 0, cap, ''
        mon = self.mon
        if mon is not None:
            try:
                if mon.get_tool(3) is not None:      # left over from a run whose clean-up was interrupted by the alarm
                    mon.set_events(3, 0)
                    mon.free_tool_id(3)
                mon.use_tool_id(3, 'verif-budget')
                mon.register_callback(3, mon.events.JUMP, self._jump)
                mon.set_events(3, mon.events.JUMP)
            except Exception:
                mon = None
        sys.setprofile(self._prof)
        try:
            return fn()
        finally:
            sys.setprofile(None)
            if mon is not None:
                mon.set_events(3, 0)
                mon.free_tool_id(3)


def budget_off():
    """make sure no budget instrumentation is left switched on (the alarm of guarded() can interrupt Budget.run's clean-up)"""
    sys.setprofile(None)
    mon = getattr(sys, 'monitoring', None)
    if mon is not None:
        try:
            if mon.get_tool(3) is not None:
                mon.set_events(3, 0)
                mon.free_tool_id(3)
        except Exception:
            pass


def apply_op(op, s):
    n = len(s)
    pos = lambda p, m: 0 if m == 0 else min(m - 1, (p * m) // 1000)   # noqa: E731
    i = pos(op['p'], n)
    o = op['o']
    if o == 'flip':
        return s if n == 0 else s[:i] + bytes([s[i] ^ (1 << (7 - op['b']))]) + s[i + 1:]
    if o == 'trunc':
        return s[:pos(op['p'], n + 1)]
    if o == 'delete':
        return s if n == 0 else s[:i] + s[i + op['n']:]
    if o == 'insert':
        j = pos(op['p'], n + 1)
        return s[:j] + bytes([op['b']]) + s[j:]
    if o == 'set':
        return s if n == 0 else s[:i] + bytes([op['b']]) + s[i + 1:]
    if o == 'splice':
        if n == 0:
            return s
        j = pos(op['q'], n)
        piece = s[j:j + op['n']]
        return s[:i] + piece + s[i + len(piece):]
    if o == 'dup':
        return s if n == 0 else s[:i] + s[i:i + 2] * op['n'] + s[i:]
    raise ValueError(o)


def mutants(seed, scripts):
    for sc in scripts:
        ops = sc['script']
        if len(ops) == 1 and ops[0]['o'] == 'sweep':
            for i in range(min(len(seed), 64)):
                yield seed[:i] + bytes([ops[0]['b']]) + seed[i + 1:]
            continue
        s = seed
        for op in ops:
            if op['o'] == 'sweep':
                s = s if not s else bytes([op['b']]) + s[1:]
            else:
                s = apply_op(op, s)
        yield s


def type_depth(env, T, seen=()):
    k = T['k']
    if k == 'REF':
        if T['name'] in seen:
            return 8
        return type_depth(env, env['types'][T['name']], seen + (T['name'],))
    if k in ('SEQ', 'SET'):
        return 1 + max([type_depth(env, m['t'], seen) for m in values.all_members(T)] or [0])
    if k == 'CHOICE':
        return 1 + max([type_depth(env, a['t'], seen) for a in values.all_alts(T)] or [0])
    if k in ('SEQOF', 'SETOF'):
        return 1 + type_depth(env, T['e'], seen)
    return 0


def run_batch(batch, codecs, scripts, smalls, nrandom, rng, out):
    import asn1tools
    env0 = batch[0]['env']
    types = {}
    for c in batch:
        mapping = {n: 'C%dx%s' % (c['bi'], n) for n in c['env']['types']}
        c['map'] = mapping
        for n, T in c['env']['types'].items():
            types[mapping[n]] = render.rename(T, mapping)
    text = render.render_module('M', {'tagdef': env0['tagdef'], 'extimp': env0.get('extimp', False), 'types': types})
    budget = Budget()
    for codec in codecs:
        o = dc.guarded(lambda: asn1tools.compile_string(text, codec))
        if o['st'] != 'ok':
            if len(batch) > 1:
                for c in batch:
                    c['bi'] = 0
                    run_batch([c], [codec], scripts, smalls, nrandom, rng, out)
            continue
        spec = o['r']
        for c in batch:
            env, top = c['env'], c['env']['types'][c['top']]
            name = c['map'][c['top']]
            depth = type_depth(env, top)
            seeds = []
            for v in c['vals'][:3]:
                try:
                    seeds.append(bytes(spec.encode(name, values.to_py(env, top, v))))
                except Exception:
                    pass
            if not seeds:
                continue
            sentinel_in = seeds[0]
            try:
                sentinel_out = repr(spec.decode(name, sentinel_in))
            except Exception as e:
                sentinel_out = 'EXC ' + type(e).__name__
            inputs = []
            for s in seeds:
                inputs += [('m', m) for m in mutants(s, scripts)]
            inputs += [('s', bytes(x)) for x in smalls]
            for _ in range(nrandom):
                inputs.append(('r', bytes(rng.getrandbits(8) for _ in range(rng.choice([1, 2, 3, 5, 8, 16, 64, 512, 4096])))))
            seen = set()
            obs = []
            sentinel_bad = ''
            for kind, data in inputs:
                if data in seen:
                    continue
                seen.add(data)
                cap = HARD_A + HARD_B * (len(data) + 1) * (depth + 1)
                rec = {'k': kind, 'n': len(data), 'st': 'ok', 'cls': '', 'site': ''}

                peak = [None]

                def call():
                    try:
                        return budget.run(lambda: spec.decode(name, data), cap)
                    finally:                      # the peak of the call itself, not of classifying its outcome
                        peak[0] = tracemalloc.get_traced_memory()[1]
                tracemalloc.reset_peak()
                mem0 = tracemalloc.get_traced_memory()[0]
                try:
                    g = dc.guarded(call)
                    rec['st'] = g['st']
                    if g['st'] == 'exc' and g['cls'] == 'BudgetExceeded':
                        rec['st'] = 'budget'
                        rec['site'] = budget.site
                    elif g['st'] == 'exc':
                        rec['cls'] = g['cls']
                        rec['site'] = g.get('site', '')
                    elif g['st'] == 'timeout':
                        rec['site'] = g.get('site', '')
                except BudgetExceeded:
                    rec['st'] = 'budget'
                    rec['site'] = budget.site
                rec['ev'] = budget.n
                rec['mem'] = min((peak[0] if peak[0] is not None else tracemalloc.get_traced_memory()[1]) - mem0, 2000000000)
                if rec['mem'] > 300000 and rec['st'] not in ('budget', 'timeout'):
                    # one-off allocations (a module imported, a regular expression compiled, a cache filled on first use)
                    # are not proportional to anything: measure again and keep the smaller peak
                    budget_off()
                    tracemalloc.reset_peak()
                    m0 = tracemalloc.get_traced_memory()[0]
                    peak[0] = None
                    try:
                        dc.guarded(call)
                    except BaseException:  # noqa
                        pass
                    again = (peak[0] if peak[0] is not None else tracemalloc.get_traced_memory()[1]) - m0
                    rec['mem'] = max(0, min(rec['mem'], again))
                if rec['st'] in ('budget', 'timeout') or ((rec['ev'] > 5000 or rec['mem'] > 500000) and len(obs) < 4000):
                    rec['hex'] = data[:64].hex()
                obs.append(rec)
                # state-corruption sentinel: the same valid input must still decode to the same value
                budget_off()
                try:
                    now = repr(spec.decode(name, sentinel_in))
                except Exception as e:
                    now = 'EXC ' + type(e).__name__
                if now != sentinel_out and not sentinel_bad:
                    sentinel_bad = data[:64].hex()
            # compress: keep every non-trivial record, summarise the rest
            keep = [r for r in obs if r['st'] in ('budget', 'timeout') or 'hex' in r]
            evmax, memmax = {}, {}
            for r in obs:
                key = r['n']
                if key not in evmax or r['ev'] > evmax[key]['ev']:
                    evmax[key] = r
                if key not in memmax or r['mem'] > memmax[key]['mem']:
                    memmax[key] = r
            keep += [r for r in evmax.values() if r not in keep]
            keep += [r for r in memmax.values() if r not in keep]
            out.write(json.dumps({'cid': '%s-%s' % (c['cid'], codec), 'codec': codec, 'depth': depth, 'env': env, 'top': c['top'],
                                  'asn1': render.render_module('M', env), 'inputs': len(obs),
                                  'outcomes': {k: sum(1 for r in obs if r['st'] == k) for k in ('ok', 'exc', 'budget', 'timeout', 'bad')},
                                  'sentinel': sentinel_bad, 'obs': keep[:400]}) + '\n')


def main():
    import argparse
    ap = argparse.ArgumentParser()
    ap.add_argument('--cases', required=True)
    ap.add_argument('--out', required=True)
    ap.add_argument('--scripts', required=True)
    ap.add_argument('--smalls', default='')
    ap.add_argument('--codecs', default='ber,der,per,uper,oer,jer,xer')
    ap.add_argument('--random', type=int, default=20)
    ap.add_argument('--seed', type=int, default=1)
    ap.add_argument('--batch', type=int, default=25)
    ap.add_argument('--shard', default='0/1')
    a = ap.parse_args()
    k, n = [int(x) for x in a.shard.split('/')]
    scripts = [json.loads(l) for l in open(a.scripts) if l.strip()]
    smalls = [json.loads(l)['bytes'] for l in open(a.smalls) if l.strip()] if a.smalls else []
    groups = {}
    with open(a.cases) as f:
        for idx, line in enumerate(f):
            if line.strip():
                c = json.loads(line)
                c.setdefault('cid', 'c%d' % idx)
                groups.setdefault((c['env']['tagdef'], c['env'].get('extimp', False)), []).append(c)
    batches = []
    for key in sorted(groups):
        g = groups[key]
        for i in range(0, len(g), a.batch):
            batches.append(g[i:i + a.batch])
    sys.setrecursionlimit(3000)
    dc.CALL_TIMEOUT = 20
    # backstop only: an allocation beyond 6 GiB fails with MemoryError instead of taking the machine down
    try:
        resource.setrlimit(resource.RLIMIT_AS, (6 << 30, 6 << 30))
    except (ValueError, OSError):
        pass
    tracemalloc.start()
    with open(a.out, 'w') as out:
        for bi, b in enumerate(batches):
            if bi % n != k:
                continue
            for j, c in enumerate(b):
                c['bi'] = j
            run_batch(b, a.codecs.split(','), scripts, smalls, a.random, random.Random(a.seed * 1000 + bi), out)


if __name__ == '__main__':
    main()
