"""C09 / C10 driver: feed the cases emitted by spec/CGen.tla to the real C source generator
(asn1tools.source.c from $VERIF_REPO), compile what it emits, run it under ASan+UBSan and record what
happened.  One output line per case; spec/Trace_CGen.tla judges the lines.

Recorded per case (beyond the case itself):
  gen      outcome of compile_string + c.generate: {"st":"ok"} | {"st":"exc","cls","mro","msg","site"}
  emitted  (generator accepted a case flagged reject) the C struct it emitted for the type
  cc       {"gcc":{"rc","diags":[[severity,flag,count]..]}, "clang":{"rc","errs":[..]}}
  obs      per value: py (Python codec bytes), set (members the struct could not take), enc (return value
           of the C encoder for every destination size 0..len+1, bytes at len and len+1, and with a large
           buffer), dec (return value + the members listed by the case read back from a 0xA5-filled struct),
           re (re-encoding of the decoded struct)
  adv      adversarial inputs: number rejected, and for accepted ones decode/encode/decode/encode facts
  pairs    (OER) version-2 bytes from the Python encoder decoded by the version-1 C decoder
  crashes  sanitizer reports / abnormal exits / hangs: {"op","vi","kind","frame","input"}

No encoding rule and no expectation lives here: bytes come from the Python codec and from the C code,
expected members come from the case (CStruct, computed by TLC) and are only used as *addresses*.
"""
import hashlib
import json
import os
import random
import re
import shutil
import struct
import sys

HERE = os.path.dirname(os.path.abspath(__file__))
sys.path.insert(0, HERE)
REPO = os.environ.get('VERIF_REPO', '/repo')
sys.path.insert(0, REPO)

import cdriver  # noqa: E402
import render  # noqa: E402
import values  # noqa: E402
import drive_codec  # noqa: E402
from drive_codec import guarded  # noqa: E402

# compile / generate of a 30-type module takes seconds on a loaded machine: only a real hang is an outcome
drive_codec.CALL_TIMEOUT = int(os.environ.get('VERIF_CGEN_TIMEOUT', '300'))

NS = 'ns'
MOD = {'A': 'Ma', 'B': 'Mb'}
BIG = 4096


# ----------------------------------------------------------------------------------------
# rendering a batch of cases as two ASN.1 modules

def refs_of(T, acc):
    if isinstance(T, dict):
        if T.get('k') == 'REF':
            acc.add(T['name'])
        for key, val in T.items():
            if key != 'd':
                refs_of(val, acc)
    elif isinstance(T, list):
        for x in T:
            refs_of(x, acc)


def render_batch(cases, envkey):
    """-> ASN.1 text with module Ma (types of module "A") and Mb (types of module "B")."""
    per = {'A': {}, 'B': {}}
    imports = set()
    for c in cases:
        env = c[envkey]
        mapping = c['map']
        for n, T in env['types'].items():
            m = c['modof'].get(n, 'A')
            per[m][mapping[n]] = render.rename(T, mapping)
            if m == 'A':
                used = set()
                refs_of(T, used)
                imports |= {mapping[u] for u in used if c['modof'].get(u, 'A') == 'B'}
    out = []
    for m in ('A', 'B'):
        if not per[m]:
            continue
        env = {'tagdef': 'A', 'extimp': False, 'types': dict(per['A'], **per['B'])}   # value notation looks types up
        lines = ['%s DEFINITIONS AUTOMATIC TAGS ::= BEGIN' % MOD[m], '']
        if m == 'A' and imports:
            lines += ['IMPORTS %s FROM %s;' % (', '.join(sorted(imports)), MOD['B']), '']
        for n in sorted(per[m]):
            lines.append('%s ::= %s' % (n, render.render_type(env, per[m][n])))
            lines.append('')
        lines.append('END')
        out.append('\n'.join(lines))
    return '\n\n'.join(out) + '\n'


def assign_names(cases):
    for c in cases:
        c['map'] = {n: 'C%dx%s' % (c['bi'], n) for n in c['env']['types']}


# ----------------------------------------------------------------------------------------
# generation

def generate(cases, codec, envkey='env'):
    """compile_string + c.generate for one batch -> (outcome, spec, header, source)."""
    import asn1tools
    from asn1tools.source import c as csrc
    text = render_batch(cases, envkey)
    box = {}

    def run():
        box['spec'] = asn1tools.compile_string(text, codec)
        box['out'] = csrc.generate(box['spec'], codec, NS, 'gen.h', 'gen.c', 'gen_fuzzer.c')
        return True
    o = guarded(run)
    o.pop('r', None)
    if o['st'] == 'exc':
        o['phase'] = 'generate' if 'spec' in box else 'compile'
        if not o.get('site'):
            o['site'] = 'phase:' + o['phase']
        o['msg'] = re.sub(r'C\d+x', '', o['msg'])
    o['asn1'] = text
    if o['st'] == 'ok':
        return o, box['spec'], box['out'][0], box['out'][1]
    return o, box.get('spec'), None, None


def compile_py(cases, codec, envkey):
    import asn1tools
    text = render_batch(cases, envkey)
    o = guarded(lambda: asn1tools.compile_string(text, codec))
    return o.get('r') if o['st'] == 'ok' else None


# ----------------------------------------------------------------------------------------
# struct members: abstract field <-> raw bytes

def field_write(acc, f):
    """Request line that writes one expected member into the struct -> (line, None) | (None, error record)."""
    k = f['k']
    loc = acc.locate(f['p'], want_array=(k == 'bytes'))
    if loc is None:
        return None, {'p': f['p'], 'err': 'nofield'}
    lf, off, count = loc
    ct = lf.ctype
    raw = None
    if k == 'bool':
        if ct != 'bool':
            return None, {'p': f['p'], 'err': 'kind', 'ct': ct}
        raw = b'\x01' if f['v'] else b'\x00'
    elif k == 'int':
        if ct not in cdriver.INT_TYPES:
            return None, {'p': f['p'], 'err': 'kind', 'ct': ct}
        size, signed = cdriver.INT_TYPES[ct]
        try:
            raw = render.big(f['v']).to_bytes(size, 'little', signed=signed)
        except OverflowError:
            return None, {'p': f['p'], 'err': 'range', 'ct': ct}
    elif k in ('enum', 'choice'):
        if not ct.startswith('enum '):
            return None, {'p': f['p'], 'err': 'kind', 'ct': ct}
        names = acc.short_names(ct) or []
        hit = [num for short, num, _ in names if short == f['v']]
        if len(hit) != 1:
            return None, {'p': f['p'], 'err': 'noenum', 'ct': ct}
        try:
            raw = hit[0].to_bytes(lf.size, 'little', signed=True)
        except OverflowError:
            raw = hit[0].to_bytes(lf.size, 'little', signed=False)
    elif k == 'bytes':
        if ct != 'uint8_t' or len(f['v']) > count:
            return None, {'p': f['p'], 'err': 'kind' if ct != 'uint8_t' else 'range', 'ct': ct}
        raw = bytes(f['v'])
    elif k == 'real':
        if ct not in ('float', 'double'):
            return None, {'p': f['p'], 'err': 'kind', 'ct': ct}
        x = values.real_to_py(f['v'])
        try:
            raw = struct.pack('<f' if ct == 'float' else '<d', x)
        except OverflowError:
            return None, {'p': f['p'], 'err': 'range', 'ct': ct}
    else:
        return None, {'p': f['p'], 'err': 'kind?'}
    if not raw:
        return '', None
    return 'W %d %s' % (off, raw.hex()), None


def field_read(acc, f):
    """-> (request line | None, function from the response to the observed record (same p, k where possible))."""
    k = f['k']
    loc = acc.locate(f['p'], want_array=(k == 'bytes'))
    if loc is None:
        return None, lambda r: {'p': f['p'], 'k': 'missing'}
    lf, off, count = loc
    ct = lf.ctype
    p = f['p']
    if ct == 'bool':
        def dec(r):
            raw = bytes.fromhex(r)
            if raw in (b'\x00', b'\x01'):
                return {'p': p, 'k': 'bool', 'ct': ct, 'v': raw == b'\x01'}
            return {'p': p, 'k': 'badbool', 'ct': ct, 'raw': raw[0]}
        return 'R %d 1' % off, dec
    if ct in cdriver.INT_TYPES and k == 'bytes':
        if count == 0:
            return None, lambda r: {'p': p, 'k': 'bytes', 'ct': ct, 'v': []}
        return 'R %d %d' % (off, count), lambda r: {'p': p, 'k': 'bytes', 'ct': ct, 'v': list(bytes.fromhex(r))}
    if ct in cdriver.INT_TYPES:
        size, signed = cdriver.INT_TYPES[ct]
        return 'R %d %d' % (off, size), lambda r: {
            'p': p, 'k': 'int', 'ct': ct, 'v': render.unbig(int.from_bytes(bytes.fromhex(r), 'little', signed=signed))}
    if ct.startswith('enum '):
        names = acc.short_names(ct) or []

        def dec(r):
            num = int.from_bytes(bytes.fromhex(r), 'little', signed=True)
            hit = [short for short, n, _ in names if n == num]
            return {'p': p, 'k': k if k in ('enum', 'choice') else 'enum', 'ct': 'enum',
                    'v': hit[0] if len(hit) == 1 else '?', 'n': num}
        return 'R %d %d' % (off, lf.size), dec
    if ct in ('float', 'double'):
        return 'R %d %d' % (off, lf.size), lambda r: {
            'p': p, 'k': 'real', 'ct': ct,
            'v': values.real_from_py(struct.unpack('<f' if ct == 'float' else '<d', bytes.fromhex(r))[0])}
    return None, lambda r: {'p': p, 'k': 'other', 'ct': ct}


def read_unit(acc, fields):
    """Request lines that read the members of `fields`, and a function turning the responses into records."""
    reqs, decs = [], []
    for f in fields:
        line, dec = field_read(acc, f)
        reqs.append(line)
        decs.append(dec)

    def parse(resps):
        out, it = [], iter(resps)
        for line, dec in zip(reqs, decs):
            out.append(dec(next(it) if line is not None else None))
        return out
    return [r for r in reqs if r is not None], parse


# ----------------------------------------------------------------------------------------
# adversarial inputs

def mutations(rng, encodings, limit):
    seen, out = set(), []

    def add(b):
        b = bytes(b)
        if b not in seen and len(b) <= 2048:
            seen.add(b)
            out.append(b)
    add(b'')
    for enc in encodings:
        n = len(enc)
        for k in (range(n) if n <= 24 else sorted(set(list(range(12)) + list(range(n - 12, n))))):
            add(enc[:k])
        nbits = 8 * n
        bits = list(range(min(nbits, 48))) + [rng.randrange(nbits) for _ in range(16 if nbits > 48 else 0)]
        for bpos in bits:
            m = bytearray(enc)
            m[bpos // 8] ^= 0x80 >> (bpos % 8)
            add(m)
        for pos in range(min(n, 6)):
            for val in (0x00, 0xff, 0x80, 0x7f, 0x81, 0x82, 0x84, 0x3f):
                m = bytearray(enc)
                m[pos] = val
                add(m)
        add(enc + b'\x00')
        add(enc + b'\xff\xff')
        add(enc + bytes(rng.randrange(256) for _ in range(3)))
        add(b'\xff' * n)
        add(b'\x00' * n)
        add(b'\xff' * (n + 8))
        for _ in range(6):
            add(bytes(rng.randrange(256) for _ in range(rng.randrange(0, n + 5))))
    for ln in (1, 2, 3, 4, 8, 16):
        add(bytes(rng.randrange(256) for _ in range(ln)))
    if len(out) > limit:
        head = out[:limit // 2]
        tail = rng.sample(out[limit // 2:], limit - len(head))
        out = head + tail
    return out


# ----------------------------------------------------------------------------------------
# one case on a running driver

def crash_event(op, vi, exc, data=None, size=None):
    ev = {'op': op, 'vi': vi}
    if isinstance(exc, cdriver.Hang):
        ev.update({'kind': 'hang', 'frame': ''})
    else:
        ev.update({'kind': exc.kind, 'frame': exc.frame, 'report': exc.report[:700] + ' ... ' + exc.report[-300:]})
    if data is not None:
        ev['input'] = list(data)
    if size is not None:
        ev['size'] = size
    return ev


def parse_e(resp):
    r = resp.split()
    if r[1] == 'skipped':
        return None
    return int(r[1]), (list(bytes.fromhex(r[2])) if len(r) > 2 else [])


def run_case(c, spec, spec2, drv, acc, codec, seed, adv_limit):
    """Build the independent request units of one case, run them, turn the responses into records."""
    env, top = c['env'], c['env']['types'][c['top']]
    name = c['map'][c['top']]
    ti = acc.index
    obs, encodings = [], []
    units, handlers = [], []      # handlers[u](responses | None)
    meta = []                     # (op, vi, input) per unit, for crash events

    def add(unit, handler, op, vi, data=None):
        units.append(unit)
        handlers.append(handler)
        meta.append((op, vi, data))

    for vi, v in enumerate(c['vals'], 1):
        rec = {'vi': vi}
        obs.append(rec)
        fields = c['cs'][vi - 1]
        try:
            pv = values.to_py(env, top, v, False)
        except Exception as e:  # machinery
            rec['machinery'] = repr(e)
            continue
        o = guarded(lambda: spec.encode(name, pv))
        if o['st'] == 'ok':
            py = bytes(o.pop('r'))
            o['b'] = list(py)
        rec['py'] = o
        if o['st'] != 'ok':
            continue
        n = len(py)
        encodings.append(py)
        # --- encode: struct image built from the expected members, every destination size 0..n+1
        writes, errs = [], []
        for f in fields:
            line, err = field_write(acc, f)
            if err:
                errs.append(err)
            elif line:
                writes.append(line)
        rec['set'] = errs
        if not errs:
            unit = ['F a5'] + writes + ['E %d' % s for s in range(0, n + 2)] + ['E %d' % (n + BIG)]

            def h_enc(resps, rec=rec, n=n, nw=len(writes)):
                if resps is None:
                    rec['enc'] = {'crashed': True}
                    return
                es = [parse_e(r) for r in resps[1 + nw:]]
                rec['enc'] = {'rets': [e[0] for e in es[:n + 2]], 'b': es[n][1], 'b1': es[n + 1][1],
                              'big': {'ret': es[n + 2][0], 'b': es[n + 2][1]}}
            add(unit, h_enc, 'E', vi)
        # --- decode the python bytes into a 0xA5-filled struct, read the expected members back, re-encode
        rreqs, rparse = read_unit(acc, fields)
        unit = ['F a5', 'D ' + py.hex()] + rreqs + ['C %d' % (n + BIG)]

        def h_dec(resps, rec=rec, rparse=rparse, nr=len(rreqs)):
            if resps is None:
                rec['dec'] = {'crashed': True}
                return
            ret = int(resps[1].split()[1])
            rec['dec'] = {'ret': ret, 'f': rparse(resps[2:2 + nr]) if ret >= 0 else []}
            e = parse_e(resps[2 + nr])
            if e is not None:
                rec['re'] = {'ret': e[0], 'b': e[1]}
        add(unit, h_dec, 'D', vi, py)

    # --- adversarial inputs (one request each; the program does decode / encode / decode / encode itself)
    rng = random.Random(seed ^ int(hashlib.sha1(c['cid'].encode()).hexdigest()[:8], 16))
    ins = mutations(rng, encodings[:3] + encodings[-1:], adv_limit) if adv_limit else []
    adv = {'n': len(ins), 'rejected': 0, 'accepted': [], 'accepted_more': 0}
    for data in ins:
        def h_adv(resps, data=data):
            if resps is None:
                return
            r = resps[0].split()
            d1 = int(r[1])
            if d1 < 0:
                adv['rejected'] += 1
                return
            a = {'in': list(data), 'd1': d1, 'i1': r[2], 'e1': int(r[3]), 'b1': [] if r[4] == '-' else list(bytes.fromhex(r[4])),
                 'd2': -1, 'i2': '', 'e2': -1, 'b2': []}
            if len(r) > 5:
                a['d2'], a['i2'] = int(r[5]), r[6]
            if len(r) > 7:
                a['e2'], a['b2'] = int(r[7]), ([] if r[8] == '-' else list(bytes.fromhex(r[8])))
            if len(adv['accepted']) < 40 or not adv_ok(a):
                adv['accepted'].append(a)
            else:
                adv['accepted_more'] += 1
        add(['X %d %s' % (2 * len(data) + BIG, data.hex())], h_adv, 'A', 0, data)

    # --- version-2 bytes into the version-1 decoder
    pairs = []
    if c.get('paired') and spec2 is not None:
        env2, top2 = c['env2'], c['env2']['types'][c['top']]
        for vi, v2 in enumerate(c['vals2'], 1):
            rec = {'vi': vi}
            pairs.append(rec)
            o = guarded(lambda: spec2.encode(name, values.to_py(env2, top2, v2, False)))
            if o['st'] == 'ok':
                py2 = bytes(o.pop('r'))
                o['b'] = list(py2)
            rec['py'] = o
            if o['st'] != 'ok':
                continue
            rreqs, rparse = read_unit(acc, c['cs2'][vi - 1])

            def h_pair(resps, rec=rec, rparse=rparse):
                if resps is None:
                    rec['dec'] = {'crashed': True}
                    return
                ret = int(resps[1].split()[1])
                rec['dec'] = {'ret': ret, 'f': rparse(resps[2:]) if ret >= 0 else []}
            add(['F a5', 'D ' + py2.hex()] + rreqs, h_pair, 'P', vi, py2)

    crashes = []

    def on_crash(u, exc):
        op, vi, data = meta[u]
        crashes.append(crash_event(op, vi, exc, data=data))
    results = drv.run_units(ti, units, on_crash)
    for u, resps in enumerate(results):
        handlers[u](resps)
    return obs, adv, pairs, crashes


def adv_ok(a):
    """Only used to decide which of the accepted inputs beyond the first 40 are worth recording in full
    (TLC judges every recorded one); an input that does not look like a fixed point is always recorded."""
    return a['e1'] >= 0 and a['d2'] == a['e1'] and a['i1'] == a['i2'] and a['e2'] == a['e1'] and a['b1'] == a['b2']


# ----------------------------------------------------------------------------------------
# batches

class Ctx(object):
    def __init__(self, codec, work, out, seed, adv_limit, keep):
        self.codec, self.work, self.out, self.seed, self.adv_limit, self.keep = codec, work, out, seed, adv_limit, keep
        self.nbuild = 0
        self.main_exe = None


def emit(ctx, c, extra):
    line = {k: c[k] for k in ('cid', 'env', 'top', 'codec', 'modof', 'vals', 'paired', 'env2', 'vals2', 'depth') if k in c}
    line.update(extra)
    ctx.out.write(json.dumps(line) + '\n')
    ctx.out.flush()


def slim_gen(o):
    return {k: v for k, v in o.items() if k != 'asn1'}


def attribute(lines, text_by_file):
    """Case indices (bi) named nearest above each diagnostic's line (only used to split a batch)."""
    hit = set()
    for l in lines:
        m = re.match(r'([^:\s]+):(\d+):', l)
        if not m or os.path.basename(m.group(1)) not in text_by_file:
            continue
        src = text_by_file[os.path.basename(m.group(1))]
        ln = int(m.group(2))
        for back in range(ln, max(ln - 400, 0), -1):
            mm = re.search(r'_c(\d+)x_', src[back - 1]) if back - 1 < len(src) else None
            if mm:
                hit.add(int(mm.group(1)))
                break
    return hit


def process_accept(ctx, cases):
    """Cases the specification places inside the subset: generate, compile, run."""
    if not cases:
        return
    codec = ctx.codec
    g, spec, header, source = generate(cases, codec)
    if g['st'] != 'ok':
        if len(cases) == 1:
            emit(ctx, cases[0], {'gen': slim_gen(g), 'asn1': g['asn1']})
            return
        bad = [c for c in cases if generate([c], codec)[0]['st'] != 'ok']
        if not bad or len(bad) == len(cases):
            for c in cases:
                process_accept(ctx, [c])
            return
        for c in bad:
            process_accept(ctx, [c])
        process_accept(ctx, [c for c in cases if c not in bad])
        return
    ctx.nbuild += 1
    cdir = os.path.join(ctx.work, 'b%d' % ctx.nbuild)
    os.makedirs(cdir, exist_ok=True)
    with open(os.path.join(cdir, 'gen.h'), 'w') as f:
        f.write(header)
    with open(os.path.join(cdir, 'gen.c'), 'w') as f:
        f.write(source)
    with open(os.path.join(cdir, 'spec.asn'), 'w') as f:
        f.write(g['asn1'])
    rc_gcc, diags = cdriver.gcc_check(cdir, 'gen.c')
    cc = {'gcc': {'rc': rc_gcc, 'diags': []}, 'clang': {'rc': 0, 'errs': []}}
    hdr, tags, herr = None, [], None
    try:
        hdr = cdriver.Header(header)
        for c in cases:
            tag, _ = hdr.find_type(NS + MOD[c['modof'].get(c['top'], 'A')] + c['map'][c['top']])
            c['tag'] = tag
            tags.append(tag)
    except Exception as e:   # the header is not something pycparser / our conventions understand
        herr = '%s: %s' % (type(e).__name__, str(e)[:200])
    rc_clang, cerrs = 0, []
    if herr is None:
        try:
            with open(os.path.join(cdir, 'table.c'), 'w') as f:
                f.write(cdriver.table_source('gen.c', hdr, tags))      # one translation unit: the generated source + the tables
            rc_clang, cerrs, _ = cdriver.build_module(cdir, ['table.c'], 'mod.so')
        except cdriver.HeaderError as e:
            herr = str(e)
        cc['clang'] = {'rc': rc_clang, 'errs': [re.sub(r'C\d+x|c\d+x_', '', e)[-160:] for e in cerrs[:3]]}
    texts = {'gen.c': source.split('\n'), 'gen.h': header.split('\n')}
    if rc_gcc != 0 or rc_clang != 0 or herr is not None:
        if len(cases) == 1:
            errs = [d for d in diags if ': error' in d or 'fatal error' in d]
            cc['gcc']['diags'] = diag_summary(diags)
            cc['gcc']['first_error'] = re.sub(r'C\d+x|c\d+x_', '', errs[0].split(': ', 1)[-1])[:200] if errs else ''
            emit(ctx, cases[0], {'gen': slim_gen(g), 'cc': cc, 'header_error': herr or '', 'asn1': g['asn1'],
                                 'csrc': excerpt(source, diags)})
            cleanup(ctx, cdir)
            return
        cleanup(ctx, cdir)
        # which cases do not compile on their own?  (gcc syntax check of each case's own module)
        bad = []
        for c in cases:
            g1, _, h1, s1 = generate([c], codec)
            if g1['st'] != 'ok':
                bad.append(c)
                continue
            ctx.nbuild += 1
            d1 = os.path.join(ctx.work, 'p%d' % ctx.nbuild)
            os.makedirs(d1, exist_ok=True)
            with open(os.path.join(d1, 'gen.h'), 'w') as f:
                f.write(h1)
            with open(os.path.join(d1, 'gen.c'), 'w') as f:
                f.write(s1)
            rc1, _ = cdriver.gcc_check(d1, 'gen.c')
            shutil.rmtree(d1, ignore_errors=True)
            if rc1 != 0:
                bad.append(c)
        if not bad or len(bad) == len(cases):
            half = len(cases) // 2
            process_accept(ctx, cases[:half])
            process_accept(ctx, cases[half:])
            return
        for c in bad:
            process_accept(ctx, [c])
        process_accept(ctx, [c for c in cases if c not in bad])
        return
    # diagnostics per case (nearest case name above the line); the rest is shared by the batch
    per = {c['bi']: [] for c in cases}
    shared = []
    for d in diags:
        who = attribute([d], texts)
        (per[next(iter(who))] if len(who) == 1 and next(iter(who)) in per else shared).append(d)
    spec2 = None
    paired = [c for c in cases if c.get('paired')]
    if paired:
        spec2 = compile_py(cases, codec, 'env2')
    drv = cdriver.Driver(ctx.main_exe, os.path.join(cdir, 'mod.so'), os.path.join(cdir, 'gen.c'),
                         os.path.join(cdir, 'stderr.log'))
    try:
        rows = drv.layout()
        for ti, c in enumerate(cases):
            acc = cdriver.StructAccess(hdr, c['tag'], ti, rows)
            obs, adv, pairs, crashes = run_case(c, spec, spec2, drv, acc, codec, ctx.seed, ctx.adv_limit)
            ccc = {'gcc': {'rc': rc_gcc, 'diags': diag_summary(per[c['bi']] + shared)}, 'clang': cc['clang']}
            emit(ctx, c, {'gen': slim_gen(g), 'cc': ccc, 'obs': obs, 'adv': adv, 'pairs': pairs, 'crashes': crashes,
                          'cstruct': hdr.struct_text(c['tag'], 300)})
    finally:
        drv.stop()
    cleanup(ctx, cdir)


def diag_summary(diags):
    cnt = {}
    for d in diags:
        key = cdriver.classify_diag(d)
        cnt[key] = cnt.get(key, 0) + 1
    return [[sev, flag, n] for (sev, flag), n in sorted(cnt.items())]


def excerpt(source, diags):
    for d in diags:
        m = re.match(r'[^:\s]+:(\d+):\d+: error', d)
        if m:
            ln = int(m.group(1))
            lines = source.split('\n')
            return re.sub(r'c\d+x_', '', '\n'.join(lines[max(0, ln - 3):ln + 1]))[:400]
    return ''


def cleanup(ctx, cdir):
    if not ctx.keep:
        shutil.rmtree(cdir, ignore_errors=True)


def process_reject(ctx, c):
    """A case the specification places outside the subset: the generator has to raise Error."""
    g, spec, header, source = generate([c], ctx.codec)
    extra = {'gen': slim_gen(g), 'asn1': g['asn1']}
    if g['st'] == 'ok':
        try:
            hdr = cdriver.Header(header)
            tag, _ = hdr.find_type(NS + MOD[c['modof'].get(c['top'], 'A')] + c['map'][c['top']])
            extra['emitted'] = re.sub(r'c\d+x_', '', hdr.struct_text(tag, 300))
        except Exception as e:
            extra['emitted'] = 'unparsable header: %s' % (str(e)[:100],)
    emit(ctx, c, extra)


def main():
    import argparse
    ap = argparse.ArgumentParser()
    ap.add_argument('--cases', required=True)
    ap.add_argument('--out', required=True)
    ap.add_argument('--shard', default='0/1')
    ap.add_argument('--codec', required=True)
    ap.add_argument('--batch', type=int, default=25)
    ap.add_argument('--seed', type=int, default=1)
    ap.add_argument('--adv', type=int, default=120)
    ap.add_argument('--keep', action='store_true')
    ap.add_argument('--main', default='', help='prebuilt generic driver program (built here when absent)')
    a = ap.parse_args()
    k, n = [int(x) for x in a.shard.split('/')]
    cases = []
    with open(a.cases) as f:
        for idx, line in enumerate(f):
            if line.strip():
                c = json.loads(line)
                c.setdefault('cid', 'c%d' % idx)
                if c.get('codec', a.codec) == a.codec:
                    cases.append(c)
    acc = [c for c in cases if c['expect'] == 'accept']
    rej = [c for c in cases if c['expect'] != 'accept']
    batches = [acc[i:i + a.batch] for i in range(0, len(acc), a.batch)]
    work = os.path.join(os.path.dirname(os.path.abspath(a.out)), 'c.%d' % k)
    shutil.rmtree(work, ignore_errors=True)
    os.makedirs(work)
    sys.setrecursionlimit(3000)
    with open(a.out, 'w') as out:
        ctx = Ctx(a.codec, work, out, a.seed, a.adv, a.keep)
        ctx.main_exe = a.main
        if not ctx.main_exe or not os.path.exists(ctx.main_exe):
            ctx.main_exe = os.path.join(work, 'drv_main')
            rc, txt = cdriver.build_main(os.path.join(work, 'drv_main.c'), ctx.main_exe)
            if rc != 0:
                sys.stderr.write('cannot build the generic driver:\n' + txt[-2000:])
                sys.exit(3)
        for bi, b in enumerate(batches):
            if bi % n != k:
                continue
            for j, c in enumerate(b):
                c['bi'] = j
            assign_names(b)
            process_accept(ctx, b)
        for ri, c in enumerate(rej):
            if ri % n != k:
                continue
            c['bi'] = 0
            assign_names([c])
            process_reject(ctx, c)
    if not a.keep:
        shutil.rmtree(work, ignore_errors=True)


if __name__ == '__main__':
    main()
