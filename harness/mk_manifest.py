"""Writes /verif/MANIFEST.json from the table below (one source of truth for the claimed checks)."""
import json
import os

VERIF = os.path.dirname(os.path.dirname(os.path.abspath(__file__)))

TRUST = ('trusts TLC/SANY, the transcription of the standards in spec/*.tla (validated against the repository\'s own '
         'vectors incl. X.691 Annex A and the "Overview of OER" examples via binding B on its tests, and against each other: '
         'encoder vs TLV parser vs reader machine), harness/render.py and harness/values.py (shape conversion only); '
         'bounded universe: TypeGen boundary tables, nesting depth, simulation seeds')
GEN = ('explicit TLA+ specification; TLC generates behaviours (%s) that are replayed into asn1tools; '
       'a TLC trace specification (%s) judges every recorded execution')

# id: (level text, level note, technique, design ref)
P = {
 'C01': ('TypeGen.tla (the grammar of the notation as actions) generates types and boundary values; the real BER/DER/PER/UPER/OER '
         'codecs encode, decode and re-encode each; Trace_Codec.tla judges with the specification\'s AbsEq / Admits (absent DEFAULT = '
         'default, SET OF as multiset, named bits modulo trailing zeros) and byte-identical re-encoding for the canonical codecs',
         TRUST, GEN % ('TypeGen BFS + simulation', 'Trace_Codec')),
 'C02': ('JER and BASIC-XER mappings are written as document-tree functions with type-directed readers in TLA+ (Jer.tla, Xer.tla); TLC '
         'shows Read(Tree(T,v)) AbsEq v over TypeGen\'s universe (TextModel.tla) and emits the cases; the real encode(indent in '
         '{None,0,1,4}) / decode are run; each document is parsed by an independent reader (json strict, expat); Trace_Text.tla judges '
         'well-formedness, tree = mapping, REAL bit pattern, decode AbsEq v',
         TRUST + '; json/expat and float() trusted for token->number conversion', GEN % ('TypeGen BFS + simulation', 'Trace_Text')),
 'C03': ('X.690 DER written clause by clause (X690.tla); every recorded DER encoding must equal DerEnc(T,v) and, independently, satisfy '
         'the type-independent IsDer predicate over a TLV parse (two formulations); ModelProps.tla checks on the model that DerEnc is '
         'canonical w.r.t. AbsEq and satisfies IsDer, and that the independently written BER value reader (X690ValueReader.tla) reads it '
         'back as v; the encode calls of the repository\'s own DER tests are recorded and judged too',
         TRUST, GEN % ('TypeGen BFS + simulation', 'Trace_Codec')),
 'C04': ('TlvRewrite.tla: a transition system over annotated TLV trees whose actions are the serialisation freedoms of X.690 BER '
         '(non-minimal long-form lengths, indefinite length + EOC, constructed/segmented strings nested to depth 3, SET / SET OF '
         'permutation) applied to any node; TLC checks on the model that every reachable variant parses back to the distinguished tree '
         'and, with the BER value reader of X690ValueReader.tla, as the original value (mutant serialisers must fail) and emits the variants - from TypeGen values and, type-agnostically, from the encodings '
         'tests/test_ber.py decodes; the real BER decoder decodes every variant; Trace_Rewrite.tla requires the original value',
         TRUST, GEN % ('TlvRewrite BFS to R rewrite steps + simulation of mixtures', 'Trace_Rewrite')),
 'C05': ('X.691 clauses 10-30 written clause by clause for both variants (X691.tla: constrained/semi-constrained/unconstrained whole '
         'numbers, length determinants with 16K fragmentation, normally small numbers, extension bits, open types, preambles, '
         'CHOICE/ENUMERATED indices, known-multiplier packing, alignment); every recorded PER/UPER encoding must equal PerEncode(T,v) '
         'or be explained by a *listed* named deviation; the model reproduces the X.691 Annex A records exercised by the '
         'repository\'s tests (binding B on tests/test_uper.py, test_per.py); X691Reader.tla, an independently written reader, inverts the '
         'encoder model and consumes exactly the encoding over the same universe (PerReaderInverts)', TRUST, GEN % ('TypeGen BFS + simulation', 'Trace_Codec')),
 'C06': ('X.696 Basic OER written clause by clause (X696.tla); every recorded OER encoding must equal OerEncode(T,v) (sender\'s '
         'options of Basic-OER modelled as options, not deviations) or be explained by a listed named deviation; the repository\'s '
         'OER tests ("Overview of OER" vectors) are recorded and judged too; X696Reader.tla inverts the encoder model (OerReaderInverts)', TRUST, GEN % ('TypeGen BFS + simulation', 'Trace_Codec')),
 'C07': ('Extend.tla: a transition system over pairs (V1,V2) - one legal extension step per action at any extensible node of any '
         'depth, incl. large additions; Project/ProjEq/Lift define the version-1 view; TLC checks ProjectionSound on the model and '
         'emits pairs; both versions are compiled and cross-decoded by ber, der, per, uper, oer, jer, xer; Trace_Extend.tla judges',
         TRUST + '; Python None for an unknown alternative/item is read as the decoder\'s "absent" marker',
         GEN % ('Extend BFS + simulation over TypeGen seeds', 'Trace_Extend')),
 'C08': ('X690Reader.tla: the BER framing reader as an explicit machine; TLC checks Progress (variant decreases), StepBound, NoStuck '
         'and Agreement with the recursive parser for ALL strings up to length 4-5 over 8 framing octets; ByteMutate.tla generates '
         'mutation scripts; the real decoders (7 codecs) run on mutated valid encodings, the model\'s strings and random strings '
         'under a deterministic event budget + tracemalloc; Trace_Fuzz.tla compares recorded work/memory with WorkBound/MemBound and '
         'checks the state sentinel',
         'work is measured in interpreter events (calls, C calls, backward jumps), memory by tracemalloc; PER/OER have no reader '
         'machine (conformance only); bounds are linear in input length x type depth with generous constants',
         'TLC model checking of the reader machine + TLC-generated mutation scripts + TLC trace validation of recorded work/memory'),
 'C09': ('CSubset.tla states the documented subset of the C generators; CGen.tla (over TypeGen-style tables restricted / extended '
         'for C: widths around 8/16/32/64 bits, sizes around 255/256/65535, nested SEQUENCE OF, CHOICE, OPTIONAL/DEFAULT) emits types, '
         'values and mutated inputs; for every module the UPER C source is generated, compiled (gcc -Wall -Wextra; clang ASan+UBSan) '
         'with a generated driver, struct layouts read with pycparser; encode into every buffer size 0..len, decode of the Python '
         'bytes, decode of mutated inputs; Trace_CGen.tla requires C bytes = Python bytes = model, field-wise equal decoded structs, '
         'negative error for short buffers, no sanitizer event, accepted => re-encode fixed point; types outside CSubset must be '
         'refused with asn1tools.errors.Error',
         TRUST + '; gcc/clang, ASan/UBSan and pycparser are observers whose reports enter the trace as events',
         GEN % ('CGen BFS', 'Trace_CGen') + '; sanitizers as observers'),
 'C10': ('as C09 for the OER generator, plus REAL binary32/64, extension additions with presence flags and version-1 decoders on '
         'version-2 bytes (unknown additions skipped)',
         TRUST + '; gcc/clang, ASan/UBSan and pycparser are observers whose reports enter the trace as events',
         GEN % ('CGen BFS', 'Trace_CGen') + '; sanitizers as observers'),
 'C11': ('Constraints.tla: Admits(T,v) for the constraint forms the tool interprets, with ViolationPath; ConGen.tla generates types '
         'whose bounds are literals, MIN/MAX, named numbers and value references, reached through references, on list elements and '
         'inside CHOICE, with values at b-1, b, b+1 of every bound (boundary completeness is an invariant of the generator); the real '
         'encode/decode with check_constraints=True run for every codec; Trace_Constraints.tla requires ConstraintsError <=> ~Admits '
         'and that no non-admitted value reaches the wire', TRUST, GEN % ('ConGen BFS', 'Trace_Constraints')),
 'C12': ('Corrupt.tla: from a well-formed (T,v) one action corrupts one component position (wrong Python type the checker is '
         'specified to reject, unknown alternative / ENUMERATED name, missing mandatory member, constraint violation); CorruptRules.tla '
         'gives the expected error class and dotted path; all 8 codecs encode with checks on; Trace_Corrupt.tla requires the '
         'library\'s encode/constraints error whose text starts with the path, and no rejection of the uncorrupted value',
         TRUST, GEN % ('Corrupt BFS over every position x kind', 'Trace_Corrupt')),
 'C13': ('CompilePasses.tla transcribes the in-place pre-processing passes of codecs/compiler.py on a flag-vector abstraction of the '
         'dictionary; CompileHistory.tla explores ALL histories of compile_dict / pformat-eval / deepcopy steps up to the bound and '
         'checks pass idempotence and history independence on the model; the histories are replayed with real compile_dict on one '
         'dictionary and compared (bytes, decoded values, errors for a probe set) with a fresh parse + compile; Trace_History.tla '
         'judges, and matches the observed dictionary rewrites against the model\'s pass actions',
         TRUST, GEN % ('CompileHistory BFS + shortest paths to every model state', 'Trace_History')),
 'C14': ('Comments.tla: X.680 12.6 as a scanner machine (Code / InString / LineComment / BlockComment(depth)) checked for ALL strings '
         'up to length 6 (quick) / 8 (thorough) over {- / * " nl a space} against parser.ignore_comments (exact mask), and Layout.tla: '
         'filler schedules (spaces, tabs, new-lines, the three comment forms, nested comments) at token boundaries incl. inside '
         'multi-word keywords, chosen by TLC for generated modules and the fixture corpus; Trace_Comments.tla requires the same parse '
         'result, the same acceptance, and the error line of an injected syntax error', TRUST,
         GEN % ('Comments exhaustive + Layout BFS/simulation', 'Trace_Comments')),
 'C15': ('LengthProbe.tla specifies the length probe on a stream fed octet by octet (model-checked: unknown until the identifier '
         'and length octets are complete, the message length from then on, monotone); tags to 2^28, length forms short / long 1-4, '
         'contents 0..70000, tails; the real decode_length runs on every prefix and decode_with_length with every tail; '
         'Trace_Probe.tla compares', TRUST, GEN % ('LengthProbe BFS', 'Trace_Probe')),
 'C16': ('every byte prefix (all for short encodings; boundaries + samples for long ones) of every valid BER/DER/PER/UPER/OER encoding '
         'from TypeGen\'s universe is decoded by the real decoders; Trace_Codec.tla requires asn1tools DecodeError in the exception MRO, '
         'never a value, never a foreign exception; ModelProps.tla checks on the model that no strict prefix of a BER/DER, PER/UPER or OER '
         'encoding can be read (PrefixFreeTlv, PerPrefixFree, OerPrefixFree with the reader modules)',
         TRUST, GEN % ('TypeGen BFS + simulation', 'Trace_Codec')),
 'C17': ('Cache.tla: files x versions, the store (complete / partial / corrupt entries), the writer\'s program counter through '
         '_compile_files_cache and diskcache\'s store steps, with Call / EditFile / Kill (at every pc) / CorruptEntry actions and the key '
         'exactly as the code computes it; TLC checks Transparent (every returned specification = fresh compile of the current files, '
         'codec and options, or an error) over all histories to the bound - key deviations give counterexamples that are replayed; '
         'histories run on a real cache directory with real diskcache, kills by strace fault injection at enumerated syscall points, '
         'truncation / bit flips of cache files; Trace_Cache.tla validates cache_get / cache_set events and behaviour maps',
         TRUST + '; strace fault injection and diskcache/sqlite as they are', GEN % ('Cache BFS', 'Trace_Cache') + '; crash points enumerated at syscall granularity'),
 'C18': ('Stateless.tla: requirement model (every return equals the solo result; no action writes the compiled type graph after '
         'compile; arguments not modified) plus a mechanism model of per-call vs shared encoder state whose mutants '
         '(shared encoder, lazy-init race, shared default object, argument mutation, reset at end) must fail; TLC-simulated '
         'sequences of up to 50 operations run sequentially and on 1-8 threads with switch-interval jitter; __setattr__ tripwires on '
         'every codec type object, deep comparison of arguments; Trace_Stateless.tla judges',
         TRUST + '; CPython schedules the threads (sampled), the write tripwire is schedule-independent',
         GEN % ('Stateless simulation', 'Trace_Stateless')),
 'C19': ('ArrangeSem.tla gives the meaning of a specification text independent of its organisation; Arrange.tla: PermuteAssignments, '
         'PermuteModules, SplitModule with IMPORTS, Inline, Extract as actions with X.680 side conditions; TLC checks Meaning invariant '
         'and emits every arrangement reachable in <= 4 steps (deeper by simulation); each is rendered, compiled with all 8 codecs in '
         'the arrangement\'s file order and probed; Trace_Arrange.tla requires equal bytes / values / errors across arrangements',
         TRUST, GEN % ('Arrange BFS + simulation', 'Trace_Arrange')),
 'C20': ('Gser.tla: RFC 3641 as a type-directed reader machine over code points (sp, msp, StringValue with "" doubling, bstring / '
         'hstring, identifiers, CHOICE colon form, lists, REAL forms, outer `name Type ::= value`); MC_Gser checks GserRead(GserText) = v '
         'and complete consumption over TypeGen\'s universe for indents None/0/2/4; the real encode text is read by the machine; '
         'Trace_Gser.tla accepts iff Done at end of text with a value AbsEq v (injectivity follows: the reader is a function of the text)',
         TRUST, GEN % ('TypeGen BFS + simulation', 'Trace_Gser')),
}


def main():
    checks = []
    for pid in sorted(P):
        text, note, tech = P[pid]
        checks.append({
            'property_id': pid, 'quick_cmd': './check %s --tier quick' % pid, 'thorough_cmd': './check %s --tier thorough' % pid,
            'evidence_file': 'evidence/%s.json' % pid, 'replay_cmd_template': './check %s --replay {path}' % pid, 'engine': 'tlc',
            'level_claimed': {'category': 'model_checking', 'text': text, 'design_ref': 'DESIGN.md 3 %s and 7' % pid},
            'level_note': note, 'technique': tech})
    m = {
        'version': 1, 'setup_cmd': './check --setup',
        'hooks': {'guard': 'ASN1TOOLS_VERIF',
                  'enable': 'no source hooks: with ASN1TOOLS_VERIF=1 the harness wraps the public API from outside '
                            '(harness/observe_plugin.py as a pytest plugin, drivers importing asn1tools from $VERIF_REPO, default /repo)',
                  'baseline_off_cmd': 'cd /repo && /venv/bin/python -m pytest -ra -q -p no:cacheprovider --timeout=900 --continue-on-collection-errors',
                  'source_commits': [], 'add_only': True},
        'engines': [{'name': 'tlc', 'path': 'spec/', 'serves_properties': sorted(P),
                     'kind_free_text': 'explicit TLA+ specification (spec/*.tla) checked and evaluated by TLC 1.8; behaviours generated by '
                                       'TLC are replayed into asn1tools and the recorded executions are validated by TLC trace specifications '
                                       '(harness/*.py drives, records, shards, reports - it holds no encoding rules)'}],
        'checks': checks, 'not_applicable': [],
        'notes': 'Genuine defects found are either repaired (fix: commits in /repo, listed "fixed" in known_findings.json) or listed "open" '
                 'there and printed as KNOWN-FINDING lines. Seeded changes used to test the checks are under seeded/ (meta.json says which '
                 'check catches which).'}
    with open(os.path.join(VERIF, 'MANIFEST.json'), 'w') as f:
        json.dump(m, f, indent=1)
    print('MANIFEST.json: %d checks' % len(checks))


if __name__ == '__main__':
    main()
