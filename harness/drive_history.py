"""C13 driver: replay compile histories on ONE parsed dictionary and record what happened.

For a history (sequence of steps  C(codec, numeric_enums) | P (serialise to Python source with the
`parse` sub-command's own code and read back with the `.py` loader) | D (copy.deepcopy)) the driver

  * parses the module text once with the real parse_string,
  * performs the steps on that one dictionary object with the real compile_dict,
  * after every step records the *abstraction* of the dictionary (the per-member flag records the
    TLA+ mechanism model spec/CompileHistory.tla works on) when it changed, the set of changed
    paths, the number of aliased (shared) sub-dictionaries,
  * after every Compile records the behaviour map of the resulting codec object on the module's
    probe set (per type a digest of: bytes or exception for every probe value, decoded value of
    those bytes, decoded value of the bytes a *fresh* compile produces, decode of fixed strings),
    and again at the end of the history ("late": the object must not change when the dictionary
    is compiled again),
  * once per module (side file <out>.mods) records the behaviour maps of
    compile_string(text, codec, numeric_enums) for all 16 option pairs; dictionary abstractions
    are stored once each, content-addressed, in the side file <out>.snaps.

No verdicts here: Trace_History.tla compares behaviour maps and explains dictionary rewrites.
JSON for TLC: no null, no floats, ints < 2^31.

  drive_history.py --abstract OUT                 abstractions of all corpus modules (ndjson)
  drive_history.py --cases F --out F --shard k/n  replay
  drive_history.py --explain CASE.json            human-readable replay of one case (full maps)
"""
import argparse
import copy
import hashlib
import json
import os
import re
import signal
import sys
import tempfile
import traceback

HERE = os.path.dirname(os.path.abspath(__file__))
sys.path.insert(0, HERE)
REPO = os.environ.get('VERIF_REPO', '/repo')
sys.path.insert(0, REPO)

CALL_TIMEOUT = int(os.environ.get('VERIF_CALL_TIMEOUT', '20'))
CODECS = ['ber', 'der', 'per', 'uper', 'oer', 'jer', 'xer', 'gser']


class E(object):
    """An ENUMERATED probe value: name without numeric_enums, number with."""

    def __init__(self, name, number):
        self.name, self.number = name, number


def concretise(v, ne):
    if isinstance(v, E):
        return v.number if ne else v.name
    if isinstance(v, dict):
        return {k: concretise(x, ne) for k, x in v.items()}
    if isinstance(v, list):
        return [concretise(x, ne) for x in v]
    if isinstance(v, tuple):
        return tuple(concretise(x, ne) for x in v)
    return v


# ----------------------------------------------------------------------------------------
# the corpus: small but feature-rich modules (text) and their probe values

MODULES = {}


def module(name, text, probes):
    MODULES[name] = {'text': text, 'probes': probes}


module('auto', '''
Auto DEFINITIONS AUTOMATIC TAGS ::= BEGIN
Col ::= ENUMERATED { red(0), green(1), blue(2) }
Base ::= SEQUENCE { b1 BOOLEAN, b2 INTEGER (0..7) DEFAULT 3, ..., b3 NULL }
Ext ::= SEQUENCE { a INTEGER, COMPONENTS OF Base, c Col DEFAULT green }
Defs ::= SEQUENCE {
  e Col DEFAULT blue, bs BIT STRING DEFAULT '1010'B, os OCTET STRING DEFAULT 'ABCD'H,
  nb BIT STRING { x(0), y(2) } DEFAULT { y }, hx BIT STRING DEFAULT 'A1'H, ob OCTET STRING DEFAULT '101'B,
  bo BOOLEAN DEFAULT TRUE, i INTEGER DEFAULT 5, en ENUMERATED { p, q } DEFAULT q }
Rec ::= SEQUENCE { v INTEGER, next Rec OPTIONAL, kids SEQUENCE OF Rec OPTIONAL }
Ch ::= CHOICE { x INTEGER, y Defs, z [7] BOOLEAN }
Tagged ::= [APPLICATION 3] SEQUENCE OF [1] Ch
END
''', [
    ('Ext', [{'a': 1, 'b1': True, 'b2': 3, 'c': E('green', 1)}, {'a': 1, 'b1': True},
             {'a': -1, 'b1': False, 'b2': 1, 'c': E('red', 0)}]),
    ('Base', [{'b1': True}, {'b1': True, 'b2': 3, 'b3': None}]),
    ('Defs', [{}, {'e': E('blue', 2), 'bs': (b'\xa0', 4), 'os': b'\xab\xcd', 'nb': (b'\x20', 3), 'hx': (b'\xa1', 8),
                   'ob': b'\xa0', 'bo': True, 'i': 5, 'en': E('q', 1)},
              {'e': E('red', 0), 'bs': (b'\x50', 4), 'en': E('p', 0), 'i': 6, 'bo': False}]),
    ('Rec', [{'v': 1}, {'v': 2, 'next': {'v': 3}, 'kids': [{'v': 4}]}]),
    ('Ch', [('x', 5), ('y', {}), ('z', True)]),
    ('Tagged', [[('x', 1), ('y', {'e': E('green', 1)})]]),
])

# importer first in the text, exporter later; pformat sorts the module names
module('two-auto', '''
Zed DEFINITIONS AUTOMATIC TAGS ::= BEGIN
IMPORTS Base, Col FROM Alpha;
Top ::= SEQUENCE { a INTEGER, COMPONENTS OF Base, c Col DEFAULT green }
Use ::= SEQUENCE { b Base, c Col OPTIONAL }
END
Alpha DEFINITIONS AUTOMATIC TAGS ::= BEGIN
Base ::= SEQUENCE { b1 BOOLEAN, b2 INTEGER DEFAULT 3 }
Col ::= ENUMERATED { red, green }
END
''', [
    ('Top', [{'a': 1, 'b1': True}, {'a': 2, 'b1': False, 'b2': 4, 'c': E('red', 0)}]),
    ('Use', [{'b': {'b1': True}}, {'b': {'b1': False, 'b2': 3}, 'c': E('green', 1)}]),
    ('Base', [{'b1': True, 'b2': 7}]),
])

module('two-kinds', '''
Zed DEFINITIONS EXPLICIT TAGS ::= BEGIN
IMPORTS Base FROM Alpha;
Top ::= SEQUENCE { a [5] INTEGER, COMPONENTS OF Base }
END
Alpha DEFINITIONS IMPLICIT TAGS EXTENSIBILITY IMPLIED ::= BEGIN
Base ::= SEQUENCE { b1 [0] BOOLEAN, b2 [1] OCTET STRING DEFAULT '00FF'H }
END
''', [
    ('Top', [{'a': 1, 'b1': True}, {'a': 2, 'b1': False, 'b2': b'\x01'}]),
    ('Base', [{'b1': True}, {'b1': True, 'b2': b'\x00\xff'}]),
])

# same shape, but the text order is already the sorted order: serialising changes nothing
module('two-sorted', '''
Alpha DEFINITIONS AUTOMATIC TAGS ::= BEGIN
Base ::= SEQUENCE { b1 BOOLEAN, b2 INTEGER DEFAULT 3 }
END
Beta DEFINITIONS AUTOMATIC TAGS ::= BEGIN
IMPORTS Base FROM Alpha;
Top ::= SEQUENCE { a INTEGER, COMPONENTS OF Base }
END
''', [
    ('Top', [{'a': 1, 'b1': True}, {'a': 2, 'b1': False, 'b2': 4}]),
    ('Base', [{'b1': True, 'b2': 7}]),
])

module('extimp', '''
Xi DEFINITIONS IMPLICIT TAGS EXTENSIBILITY IMPLIED ::= BEGIN
S ::= SEQUENCE { a [0] INTEGER, b [1] Ch, n [2] SEQUENCE { q BOOLEAN }, g [3] SEQUENCE { p INTEGER, ..., r NULL } }
Ch ::= CHOICE { x [0] INTEGER, y [1] BOOLEAN }
T ::= SET { COMPONENTS OF S, z [5] NULL }
L ::= SEQUENCE OF SEQUENCE { k INTEGER }
EE ::= ENUMERATED { a, b, c }
W ::= SEQUENCE { e EE DEFAULT b, f [9] EE DEFAULT c }
END
''', [
    ('S', [{'a': 1, 'b': ('x', 2), 'n': {'q': True}, 'g': {'p': 1}}, {'a': 1, 'b': ('y', False), 'n': {'q': True}, 'g': {'p': 1, 'r': None}}]),
    ('T', [{'a': 1, 'b': ('y', True), 'n': {'q': False}, 'g': {'p': 0}, 'z': None}]),
    ('L', [[], [{'k': 1}, {'k': 2}]]),
    ('W', [{}, {'e': E('a', 0)}, {'e': E('b', 1), 'f': E('c', 2)}]),
])

# extensible ENUMERATED with DEFAULT: numeric_enums=True makes compile_dict raise
module('enum-ext', '''
Ex DEFINITIONS AUTOMATIC TAGS ::= BEGIN
EE ::= ENUMERATED { a, b, ..., c }
W ::= SEQUENCE { i INTEGER DEFAULT 1, e EE DEFAULT b, o OCTET STRING DEFAULT '01'H }
P ::= SEQUENCE { q ENUMERATED { u, v } DEFAULT v }
END
''', [
    ('W', [{}, {'e': E('a', 0)}, {'e': E('b', 1), 'i': 1, 'o': b'\x01'}]),
    ('P', [{}, {'q': E('u', 0)}]),
])

module('explicit', '''
Ex DEFINITIONS ::= BEGIN
A ::= SEQUENCE { a [0] INTEGER, b [1] IMPLICIT BOOLEAN, c [2] EXPLICIT NULL OPTIONAL, d Ch, e [3] Ch,
                 f SET { x [0] INTEGER, y [1] IA5String DEFAULT "hi" } OPTIONAL }
Ch ::= CHOICE { p INTEGER, q [0] SEQUENCE OF [4] BOOLEAN }
B ::= [PRIVATE 1] A
C ::= SEQUENCE { m BIT STRING { one(1), three(3) } DEFAULT { one, three }, n BIT STRING DEFAULT ''B,
                 o OCTET STRING DEFAULT ''H, r Col DEFAULT up, ..., [[ g1 INTEGER, g2 BIT STRING DEFAULT '11'B ]] }
Col ::= ENUMERATED { up(5), down(-1) }
END
''', [
    ('A', [{'a': 1, 'b': True, 'd': ('p', 1), 'e': ('q', [True])}, {'a': 1, 'b': False, 'c': None, 'd': ('q', []), 'e': ('p', 0), 'f': {'x': 1}}]),
    ('B', [{'a': 1, 'b': True, 'd': ('p', 1), 'e': ('p', 2)}]),
    ('C', [{}, {'m': (b'\x50', 4), 'n': (b'', 0), 'o': b'', 'r': E('up', 5)}, {'r': E('down', -1), 'g1': 1}, {'g1': 1, 'g2': (b'\xc0', 2)}]),
])

module('param', '''
Pm DEFINITIONS AUTOMATIC TAGS ::= BEGIN
Pair { First, Second } ::= SEQUENCE {
  fst First DEFAULT '1010'B,
  snd Second OPTIONAL,
  num INTEGER DEFAULT 7
}
Bits ::= Pair { BIT STRING, BOOLEAN }
Wrap { Inner } ::= SEQUENCE {
  oct Inner DEFAULT 'AB'H,
  col Col DEFAULT green,
  dyn Inner OPTIONAL
}
Octs ::= Wrap { OCTET STRING }
Col ::= ENUMERATED { red, green }
Pick { Which } ::= SEQUENCE { cc Which DEFAULT green }
Cols ::= Pick { Col }
Plain ::= SEQUENCE { pp Cols, qq Col DEFAULT red }
END
''', [
    ('Bits', [{}, {'fst': (b'\xa0', 4), 'snd': True, 'num': 7}, {'fst': (b'\x80', 1)}]),
    ('Octs', [{}, {'oct': b'\xab', 'col': E('green', 1)}, {'oct': b'\x01', 'dyn': b'\x02', 'col': E('red', 0)}]),
    ('Cols', [{}, {'cc': E('green', 1)}, {'cc': E('red', 0)}]),
    ('Plain', [{'pp': {}}, {'pp': {'cc': E('red', 0)}, 'qq': E('green', 1)}]),
])

# importer with EXTENSIBILITY IMPLIED, exporter without: the components copied by COMPONENTS OF carry inline
# SEQUENCE / SET / CHOICE types without "..." whose implied marker depends on the order of the passes
module('two-extimp', '''
Zed DEFINITIONS AUTOMATIC TAGS EXTENSIBILITY IMPLIED ::= BEGIN
IMPORTS Base, Deep FROM Alpha;
Top ::= SEQUENCE { a INTEGER, COMPONENTS OF Base, z BOOLEAN }
Two ::= SET { COMPONENTS OF Deep, y NULL }
END
Alpha DEFINITIONS AUTOMATIC TAGS ::= BEGIN
Base ::= SEQUENCE { b1 BOOLEAN, in SEQUENCE { p INTEGER (0..7), q BOOLEAN OPTIONAL }, ch CHOICE { u NULL, w INTEGER (0..3) } }
Deep ::= SEQUENCE { d1 SEQUENCE OF SEQUENCE { k INTEGER (0..15) }, d2 SET { m BOOLEAN, n ENUMERATED { e1, e2 } } }
END
''', [
    ('Top', [{'a': 1, 'b1': True, 'in': {'p': 5}, 'ch': ('w', 2), 'z': False},
             {'a': -3, 'b1': False, 'in': {'p': 0, 'q': True}, 'ch': ('u', None), 'z': True}]),
    ('Two', [{'d1': [{'k': 9}, {'k': 0}], 'd2': {'m': True, 'n': E('e2', 1)}, 'y': None}]),
    ('Base', [{'b1': True, 'in': {'p': 7, 'q': False}, 'ch': ('w', 3)}]),
])

# COMPONENTS OF through a chain of types, the middle one extensible, the last one in another module
module('chain', '''
Mid DEFINITIONS IMPLICIT TAGS ::= BEGIN
IMPORTS Leaf FROM Low;
Inner ::= SEQUENCE { i1 [0] INTEGER, COMPONENTS OF Leaf, ..., i9 [9] BOOLEAN OPTIONAL }
Outer ::= SEQUENCE { o1 [10] BOOLEAN, COMPONENTS OF Inner, o2 [11] OCTET STRING DEFAULT 'FF'H }
END
Low DEFINITIONS EXPLICIT TAGS EXTENSIBILITY IMPLIED ::= BEGIN
Leaf ::= SEQUENCE { l1 [1] BIT STRING { f(0), g(1) } DEFAULT { g }, l2 [2] ENUMERATED { on, off } DEFAULT off }
END
''', [
    ('Outer', [{'o1': True, 'i1': 4}, {'o1': False, 'i1': -1, 'l1': (b'\x40', 2), 'l2': E('off', 1), 'o2': b'\xff'},
               {'o1': True, 'i1': 0, 'l1': (b'\x80', 1), 'l2': E('on', 0), 'o2': b'\x00'}]),
    ('Inner', [{'i1': 1}, {'i1': 1, 'l2': E('on', 0), 'i9': True}]),
    ('Leaf', [{}, {'l1': (b'\xc0', 2)}]),
])

MODULE_NAMES = sorted(MODULES)


# ----------------------------------------------------------------------------------------
# guarded calls

class CallTimeout(BaseException):
    pass


def _alarm(signum, frame):
    raise CallTimeout()


ADDR = re.compile(r'0x[0-9a-fA-F]{6,}')


LAST_CLS = ['']
LAST_PHASE = ['']


def guarded(fn, patience=1):
    """-> ('ok', result) | ('exc', 'Class: message') | ('timeout', site); LAST_CLS[0] = exception class.
    patience > 1 (parse + compile calls): generous budget, so that a loaded machine is not mistaken for a hang."""
    LAST_CLS[0] = ''
    signal.signal(signal.SIGALRM, _alarm)
    signal.alarm(CALL_TIMEOUT * patience)
    try:
        return 'ok', fn()
    except CallTimeout:
        return 'timeout', 'timeout'
    except RecursionError:
        return 'exc', 'RecursionError'
    except BaseException as e:  # noqa
        LAST_CLS[0] = type(e).__name__
        # where was it raised: inside the in-place pre-processing passes (what CompilePasses.tla models) or later,
        # in a codec's own compiler
        tb, names = e.__traceback__, []
        while tb is not None:
            names.append(tb.tb_frame.f_code.co_name)
            tb = tb.tb_next
        LAST_PHASE[0] = 'pre' if any(n.startswith('pre_process') for n in names) else 'codec'
        return 'exc', ADDR.sub('0x?', '%s: %s' % (type(e).__name__, str(e)[:300]))
    finally:
        signal.alarm(0)


# ----------------------------------------------------------------------------------------
# abstraction of the dictionary (the shape spec/CompileHistory.tla works on)

NODE_KEYS = {'type', 'name', 'tag', 'optional', 'default', 'members', 'element', 'values', 'named-bits',
             'parameters', 'actual-parameters', 'module-name', 'components-of'}
MODULE_KEYS = {'types', 'tags', 'extensibility-implied', 'imports'}


def canon(o):
    """Deterministic text of a Python object (dict keys sorted)."""
    if isinstance(o, dict):
        return '{' + ', '.join('%s: %s' % (canon(k), canon(o[k])) for k in sorted(o, key=repr)) + '}'
    if isinstance(o, list):
        return '[' + ', '.join(canon(x) for x in o) + ']'
    if isinstance(o, tuple):
        return '(' + ', '.join(canon(x) for x in o) + ',)'
    return repr(o)


def dig(o):
    return hashlib.sha1(canon(o).encode()).hexdigest()[:10]


def rest_of(d, known):
    other = {k: v for k, v in d.items() if k not in known}
    return dig(other) if other else ''


def abs_default(n):
    z = {'f': 'none', 's': '', 'l': [], 'n': 0, 'ns': []}
    if 'default' not in n:
        return z
    v = n['default']
    if isinstance(v, bool):
        return dict(z, f='bool', s=repr(v))
    if v is None:
        return dict(z, f='null')
    if isinstance(v, int):
        return dict(z, f='int', s=str(v))
    if isinstance(v, str):
        if v.startswith('0b') and set(v[2:]) <= set('01'):
            return dict(z, f='bin', l=[int(c) for c in v[2:]])
        if v.startswith('0x') and set(v[2:]) <= set('0123456789abcdefABCDEF'):
            return dict(z, f='hex', l=[int(c, 16) for c in v[2:]])
        return dict(z, f='name', s=v)
    if isinstance(v, list) and all(isinstance(x, str) for x in v):
        return dict(z, f='names', ns=list(v))
    if isinstance(v, tuple) and len(v) == 2 and isinstance(v[0], (bytes, bytearray)) and isinstance(v[1], int):
        return dict(z, f='bits', l=list(bytes(v[0])), n=v[1])
    if isinstance(v, (bytes, bytearray)):
        return dict(z, f='octs', l=list(bytes(v)))
    return dict(z, f='other', s=dig(v))


def abs_tag(n):
    if 'tag' not in n:
        return {'has': False, 'num': -1, 'kind': '', 'cls': '', 'rest': ''}
    t = n['tag']
    num = t.get('number', -1)
    extra = rest_of(t, {'number', 'kind', 'class'})
    if not isinstance(num, int) or isinstance(num, bool) or num >= 2 ** 31:
        extra, num = dig(t), -2
    return {'has': True, 'num': num, 'kind': t.get('kind', ''), 'cls': t.get('class', ''), 'rest': extra}


def abs_items(members):
    out = []
    for m in members:
        if m is None:
            out.append({'it': 'X', 'ns': [], 'ref': ''})
        elif isinstance(m, list):
            out.append({'it': 'G', 'ns': [abs_node(x) for x in m], 'ref': ''})
        elif isinstance(m, dict) and 'components-of' in m and 'type' not in m:
            out.append({'it': 'C', 'ns': [], 'ref': m['components-of']})
        else:
            out.append({'it': 'M', 'ns': [abs_node(m)], 'ref': ''})
    return out


def abs_node(n):
    extra = {}
    vals = []
    for v in n.get('values', []) or []:
        if v is None:
            vals.append({'n': '', 'v': 0, 'x': True})
        elif isinstance(v[1], int) and abs(v[1]) < 2 ** 31:
            vals.append({'n': v[0], 'v': v[1], 'x': False})
        else:
            vals.append({'n': v[0], 'v': 0, 'x': False})
            extra['values'] = n['values']
    nbits = []
    for v in n.get('named-bits', []) or []:
        if v is not None and isinstance(v[1], str) and v[1].isdigit():
            nbits.append({'n': v[0], 'v': int(v[1])})
        else:
            extra['named-bits'] = n['named-bits']
    params = n.get('parameters', [])
    if not all(isinstance(p, str) for p in params):
        extra['parameters'] = params
        params = []
    actuals = n.get('actual-parameters', [])
    if not all(isinstance(a, dict) and 'type' in a for a in actuals):
        extra['actual-parameters'] = actuals
        actuals = []
    r = rest_of(n, NODE_KEYS)
    if extra:
        r = dig([r, extra])
    return {
        'name': n.get('name', ''), 'type': n.get('type', ''), 'tag': abs_tag(n),
        'opt': n.get('optional') is True, 'def': abs_default(n),
        'hasItems': 'members' in n, 'items': abs_items(n.get('members', [])),
        'elem': [abs_node(n['element'])] if 'element' in n else [],
        'vals': vals, 'nbits': nbits,
        'hasParams': 'parameters' in n, 'params': list(params),
        'hasActuals': 'actual-parameters' in n, 'actuals': [abs_node(a) for a in actuals],
        'modname': n.get('module-name', ''), 'rest': r,
    }


def count_aliases(o):
    """number of dict objects reachable along more than one path"""
    seen, shared = set(), set()

    def walk(x):
        if isinstance(x, dict):
            if id(x) in seen:
                shared.add(id(x))
                return
            seen.add(id(x))
            for v in x.values():
                walk(v)
        elif isinstance(x, (list, tuple)):
            for v in x:
                walk(v)
    walk(o)
    return len(shared)


def abs_dict(d):
    mods = []
    names = set()
    for mname, m in d.items():
        names.add(mname)
        types = []
        for tname, t in m.get('types', {}).items():
            names.add(tname)
            types.append({'name': tname, 'node': abs_node(t)})
        imports = []
        for frm, lst in m.get('imports', {}).items():
            names.add(frm)
            imports.append({'from': frm, 'names': list(lst)})
        mods.append({'name': mname, 'tags': m.get('tags', 'EXPLICIT'), 'extimp': bool(m.get('extensibility-implied')),
                     'imports': imports, 'types': types, 'rest': rest_of(m, MODULE_KEYS)})
    # TLC cannot compare strings: the order pformat sorts keys in is supplied as a table
    return {'mods': mods, 'order': sorted(names), 'alias': count_aliases(d)}


def paths(o, prefix=''):
    """flat path -> leaf text, for reporting which parts of the abstraction changed"""
    out = {}
    if isinstance(o, dict):
        if 'node' in o and 'name' in o and len(o) == 2:
            return paths(o['node'], prefix + '/' + o['name'])
        for k, v in o.items():
            out.update(paths(v, prefix + '/' + k))
    elif isinstance(o, list):
        if o and all(isinstance(x, int) for x in o):
            out[prefix] = json.dumps(o)
        else:
            out[prefix + '#'] = str(len(o))
            for i, v in enumerate(o):
                label = v.get('name') or str(i) if isinstance(v, dict) else str(i)
                out.update(paths(v, '%s[%s]' % (prefix, label)))
    else:
        out[prefix] = json.dumps(o)
    return out


def changed_paths(a, b, limit=24):
    pa, pb = paths(a), paths(b)
    ch = sorted(k for k in set(pa) | set(pb) if pa.get(k) != pb.get(k))
    return ch[:limit]


# ----------------------------------------------------------------------------------------
# behaviour maps

FIXED = {
    'ber': [b'', b'\x30\x00', b'\x30\x03\x80\x01\x01', b'\x31\x00', b'\x02\x01\x05', b'\x30\x80\x00\x00', b'\xa0\x03\x02\x01\x01'],
    'der': [b'', b'\x30\x00', b'\x30\x03\x80\x01\x01', b'\x31\x00', b'\x02\x01\x05', b'\xa0\x03\x02\x01\x01'],
    'per': [b'', b'\x00', b'\x80', b'\x40\x01\x01', b'\xff\xff\xff\xff'],
    'uper': [b'', b'\x00', b'\x80', b'\x40\x40\x40', b'\xff\xff\xff\xff'],
    'oer': [b'', b'\x00', b'\x80', b'\x80\x01\x01', b'\x01\x05', b'\xff\xff\xff\xff'],
    'jer': [b'{}', b'[]', b'{"a":1}', b'5', b'"x"', b'{"x":5}'],
    'xer': [b'<A />', b'<x>5</x>'],
    'gser': [],
}


def show(v):
    return ADDR.sub('0x?', canon(v))


def behaviour(spec, modname, codec, ne, fresh_bytes):
    """-> {type: [text lines]}; fresh_bytes: {(type, i): bytes} produced by the fresh object (or None)"""
    out = {}
    for tname, vals in MODULES[modname]['probes']:
        lines = []
        for i, v in enumerate(vals):
            pv = concretise(v, ne)
            st, r = guarded(lambda: spec.encode(tname, pv))
            if st == 'ok' and isinstance(r, (bytes, bytearray)):
                data = bytes(r)
                lines.append('enc %d %s' % (i, data.hex()))
                st2, r2 = guarded(lambda: spec.decode(tname, data))
                lines.append('dec %d %s' % (i, show(r2) if st2 == 'ok' else '!' + str(r2)))
            else:
                lines.append('enc %d !%s' % (i, r if st != 'ok' else 'not bytes: ' + show(r)))
            st3, r3 = guarded(lambda: spec.encode(tname, pv, check_types=True, check_constraints=True))
            lines.append('chk %d %s' % (i, bytes(r3).hex() if st3 == 'ok' and isinstance(r3, (bytes, bytearray)) else '!' + str(r3)))
            if fresh_bytes is not None:
                fb = fresh_bytes.get((tname, i))
                if fb is not None:
                    st4, r4 = guarded(lambda: spec.decode(tname, fb))
                    lines.append('decf %d %s' % (i, show(r4) if st4 == 'ok' else '!' + str(r4)))
        for j, data in enumerate(FIXED[codec]):
            st5, r5 = guarded(lambda: spec.decode(tname, data))
            lines.append('fix %d %s' % (j, show(r5) if st5 == 'ok' else '!' + str(r5)))
        out[tname] = lines
    return out


def own_bytes(beh):
    out = {}
    for tname, lines in beh.items():
        for ln in lines:
            p = ln.split(' ', 2)
            if p[0] == 'enc' and not p[2].startswith('!'):
                out[(tname, int(p[1]))] = bytes.fromhex(p[2])
    return out


def digest_map(beh):
    return [{'t': t, 'h': hashlib.sha1('\n'.join(beh[t]).encode()).hexdigest()[:12]} for t in sorted(beh)]


class Fresh(object):
    """Per module: the fresh parse's abstraction and compile_string behaviour for all option pairs."""

    def __init__(self, modname):
        import asn1tools
        self.modname = modname
        self.text = MODULES[modname]['text']
        self.d0 = abs_dict(asn1tools.parse_string(self.text))
        self.pristine, self.used = None, 0
        self.out = {}     # (codec, ne) -> {'st','msg','beh'(full)}
        self.bytes = {}   # (codec, ne) -> {(type,i): bytes}
        # pass 1: own behaviour (gives the reference encodings); pass 2 adds decode-of-reference lines
        for codec in CODECS:
            for ne in (False, True):
                st, spec = guarded(lambda: asn1tools.compile_string(self.text, codec, numeric_enums=ne), patience=15)
                if st != 'ok':
                    self.out[(codec, ne)] = {'st': st, 'msg': str(spec), 'beh': {}}
                    self.bytes[(codec, ne)] = {}
                    continue
                b0 = behaviour(spec, modname, codec, ne, None)
                self.bytes[(codec, ne)] = own_bytes(b0)
                self.out[(codec, ne)] = {'st': 'ok', 'msg': '', 'beh': behaviour(spec, modname, codec, ne, self.bytes[(codec, ne)])}

    def record(self):
        fresh = []
        for codec in CODECS:
            for ne in (False, True):
                o = self.out[(codec, ne)]
                fresh.append({'codec': codec, 'ne': ne, 'st': o['st'], 'msg': o['msg'], 'beh': digest_map(o['beh'])})
        return {'mod': self.modname, 'd0h': dig(self.d0), 'fresh': fresh}


class Snaps(object):
    """Content-addressed table of dictionary abstractions (side file <trace>.snaps)."""

    def __init__(self, f):
        self.f, self.seen = f, set()

    def put(self, snap):
        h = dig(snap)
        if h not in self.seen:
            self.seen.add(h)
            self.f.write(json.dumps({'h': h, 'd': snap}) + '\n')
        return h


# ----------------------------------------------------------------------------------------
# the steps

def pformat_eval(d):
    """Serialise with the parse sub-command's own code, read back with the .py loader."""
    import asn1tools
    tmp = tempfile.mkdtemp(prefix='c13py.')
    path = os.path.join(tmp, 'spec_%d.py' % os.getpid())
    try:
        do_parse = getattr(asn1tools, '_do_parse', None)
        loader = getattr(asn1tools, '_import_module', None)
        if do_parse is not None and hasattr(asn1tools, 'parse_files'):
            saved = asn1tools.parse_files
            asn1tools.parse_files = lambda *a, **k: d
            try:
                do_parse(argparse.Namespace(specification=['in.asn'], outfile=path))
            finally:
                asn1tools.parse_files = saved
        else:
            from pprint import pformat
            with open(path, 'w') as f:
                f.write('SPECIFICATION = {}'.format(pformat(d)))
        if loader is not None:
            return loader(path).SPECIFICATION
        ns = {}
        with open(path) as f:
            exec(f.read(), ns)
        return ns['SPECIFICATION']
    finally:
        for fn in os.listdir(tmp):
            os.unlink(os.path.join(tmp, fn))
        os.rmdir(tmp)


REPARSE_FIRST = int(os.environ.get('VERIF_C13_REPARSE', '12'))


def replay(case, fresh, snaps, full=False):
    import asn1tools
    modname = case['mod']
    text = MODULES[modname]['text']
    # the first histories of a module start from a parse of their own; the others from a deep copy
    # of one more parse (the parser output is plain data without sharing: d0h / alias are checked)
    fresh.used += 1
    if fresh.used <= REPARSE_FIRST or fresh.pristine is None:
        d = asn1tools.parse_string(text)
        if fresh.pristine is None:
            fresh.pristine = copy.deepcopy(d)
        src = 'parse'
    else:
        d = copy.deepcopy(fresh.pristine)
        src = 'copy'
    snap = abs_dict(d)
    line = {'cid': case['cid'], 'ev': 'hist', 'mod': modname, 'hist': case['hist'], 'src': src,
            'd0h': snaps.put(snap), 'steps': []}
    objs = []
    for step in case['hist']:
        rec = {'a': step['a'], 'codec': step.get('codec', ''), 'ne': bool(step.get('ne', False)),
               'st': 'ok', 'msg': '', 'cls': '', 'beh': [], 'late': []}
        if step['a'] == 'P':
            st, r = guarded(lambda: pformat_eval(d), patience=15)
            if st == 'ok':
                d = r
            else:
                rec['st'], rec['msg'], rec['cls'] = st, str(r), LAST_CLS[0]
        elif step['a'] == 'D':
            d = copy.deepcopy(d)
        else:
            codec, ne = step['codec'], bool(step['ne'])
            st, spec = guarded(lambda: asn1tools.compile_dict(d, codec, numeric_enums=ne), patience=15)
            if st == 'ok':
                beh = behaviour(spec, modname, codec, ne, fresh.bytes[(codec, ne)])
                rec['beh'] = digest_map(beh)
                if full:
                    rec['full'] = beh
                objs.append((rec, spec, codec, ne))
            else:
                rec['st'], rec['msg'], rec['cls'] = st, str(spec), LAST_CLS[0]
                rec['phase'] = LAST_PHASE[0] if st == 'exc' else ''
        after = abs_dict(d)
        rec['alias'] = after['alias']
        rec['after'] = snaps.put(after)
        rec['chg'] = changed_paths(snap, after) if after != snap else []
        snap = after
        line['steps'].append(rec)
    # every codec object once more, after the whole history
    for rec, spec, codec, ne in objs:
        rec['late'] = digest_map(behaviour(spec, modname, codec, ne, fresh.bytes[(codec, ne)]))
    return line


# ----------------------------------------------------------------------------------------

def explain(path):
    """Human-readable replay: python harness/drive_history.py --explain replay.json"""
    with open(path) as f:
        rp = json.load(f)
    case = rp.get('case') or rp
    fresh = Fresh(case['mod'])
    line = replay({'cid': 'x', 'mod': case['mod'], 'hist': case['hist']}, fresh, Snaps(open(os.devnull, 'w')), full=True)
    print(MODULES[case['mod']]['text'])
    for k, s in enumerate(line['steps'], 1):
        print('step %d: %s %s ne=%s -> %s %s' % (k, s['a'], s['codec'], s['ne'], s['st'], s['msg']))
        for c in s['chg']:
            print('     dict changed:', c)
        if s['a'] == 'C' and s['st'] == 'ok':
            ref = fresh.out[(s['codec'], s['ne'])]
            if ref['st'] != 'ok':
                print('     fresh compile_string raises:', ref['msg'])
                continue
            for t in sorted(s['full']):
                for got, exp in zip(s['full'][t], ref['beh'][t]):
                    if got != exp:
                        print('     %s: history  %s' % (t, got))
                        print('     %s: fresh    %s' % (' ' * len(t), exp))
        elif s['a'] == 'C':
            ref = fresh.out[(s['codec'], s['ne'])]
            print('     fresh compile_string:', ref['st'], ref['msg'])


def main():
    ap = argparse.ArgumentParser()
    ap.add_argument('--cases')
    ap.add_argument('--out')
    ap.add_argument('--shard', default='0/1')
    ap.add_argument('--abstract')
    ap.add_argument('--explain')
    a = ap.parse_args()
    sys.setrecursionlimit(3000)
    if a.explain:
        return explain(a.explain)
    if a.abstract:
        import asn1tools
        with open(a.abstract, 'w') as f:
            for name in MODULE_NAMES:
                f.write(json.dumps({'name': name, 'd': abs_dict(asn1tools.parse_string(MODULES[name]['text']))}) + '\n')
        return
    k, n = [int(x) for x in a.shard.split('/')]
    with open(a.cases) as f:
        allc = [json.loads(line) for line in f if line.strip()]
    # contiguous chunks of the module-sorted list: a shard compiles the references of few modules
    order = sorted(range(len(allc)), key=lambda i: (allc[i]['mod'], i))
    lo, hi = (len(order) * k) // n, (len(order) * (k + 1)) // n
    cases = [allc[i] for i in order[lo:hi]]
    if not cases:
        return
    fresh = {}
    with open(a.out, 'w') as out, open(a.out + '.mods', 'w') as fm, open(a.out + '.snaps', 'w') as fs:
        snaps = Snaps(fs)
        for c in cases:
            if c['mod'] not in fresh:
                fresh[c['mod']] = Fresh(c['mod'])
                snaps.put(fresh[c['mod']].d0)
                fm.write(json.dumps(fresh[c['mod']].record()) + '\n')
            try:
                line = replay(c, fresh[c['mod']], snaps)
            except Exception:
                line = {'cid': c['cid'], 'ev': 'broken', 'mod': c['mod'], 'hist': c['hist'], 'd0h': '',
                        'steps': [], 'why': traceback.format_exc()[-400:]}
            out.write(json.dumps(line) + '\n')


if __name__ == '__main__':
    main()
