"""C08: decoding arbitrary bytes terminates within bounded work and leaves no state behind."""
import json
import random

import pipeline as pl
import checks_codec as cc

CODECS = ['ber', 'der', 'per', 'uper', 'oer', 'jer', 'xer']


def c08(tier, seed):
    run = pl.Run('C08', tier, seed)
    try:
        # (M) the reader model: progress / step bound / agreement with the recursive parser, exhaustive
        maxlen = {'dev': 3, 'quick': 4}.get(tier, 5)
        rcfg = ('SPECIFICATION RSpec\nCONSTANTS\n  Alphabet <- Alpha8\n  MaxLen = %d\n'
                'INVARIANT StepBound\nINVARIANT Agreement\nINVARIANT NoStuck\nINVARIANT REmit\nPROPERTY Progress\nCHECK_DEADLOCK FALSE\n' % maxlen)
        smalls, res = pl.tlc_generate(run, 'X690Reader', rcfg, 'smalls.ndjson', workers=8,
                                      what='X690Reader exhaustive strings <= %d over 8 symbols' % maxlen, timeout=3000)
        # (A) mutation scripts
        mcfg = 'SPECIFICATION MSpec\nCONSTANT MaxOps = 1\nINVARIANT ApplyTotal\nINVARIANT MEmit\nCHECK_DEADLOCK FALSE\n'
        s1, res = pl.tlc_generate(run, 'ByteMutate', mcfg, 'scripts1.ndjson', workers=4, what='ByteMutate all single operations')
        nsim = {'dev': 20, 'quick': 150}.get(tier, 2500)
        mcfg2 = 'SPECIFICATION MSpec\nCONSTANT MaxOps = 6\nINVARIANT ApplyTotal\nINVARIANT MEmit\nCHECK_DEADLOCK FALSE\n'
        s2, res = pl.tlc_generate(run, 'ByteMutate', mcfg2, 'scripts2.ndjson', workers=1, simulate='num=%d' % nsim, depth=7,
                                  what='ByteMutate simulated scripts of up to 6 operations')
        rng = random.Random(seed)
        scripts = [l for l in open(s1) if l.strip()]
        long_scripts = list({l for l in open(s2) if l.strip() and l.count('"o"') >= 2})
        rng.shuffle(long_scripts)
        keep1 = scripts if tier == 'thorough' else rng.sample(scripts, min(len(scripts), {'dev': 40, 'quick': 120}.get(tier, 120)))
        keep2 = long_scripts[:{'dev': 20, 'quick': 80}.get(tier, 1500)]
        with open(run.path('scripts.ndjson'), 'w') as f:
            f.writelines(keep1 + keep2)
        small_lines = [l for l in open(smalls) if l.strip()]
        if tier != 'thorough':
            small_lines = rng.sample(small_lines, min(len(small_lines), {'dev': 200, 'quick': 1200}.get(tier, 1200)))
        with open(run.path('smalls_used.ndjson'), 'w') as f:
            f.writelines(small_lines)
        # seed types
        cases = cc.generate_cases(run, 'dev1' if tier in ('dev', 'quick') else 'quick')
        rng.shuffle(cases)
        cases = cases[:{'dev': 40, 'quick': 160}.get(tier, 1500)] + cc.witness_cases('C08')
        cpath = run.path('cases.ndjson')
        pl.write_cases(cases, cpath)
        shards = pl.drive(run, 'drive_fuzz.py', cpath, 'trace',
                          ['--scripts', run.path('scripts.ndjson'), '--smalls', run.path('smalls_used.ndjson'),
                           '--codecs', ','.join(CODECS), '--seed', str(seed),
                           '--random', str({'dev': 5, 'quick': 20}.get(tier, 100))], timeout=7200)
        tcfg = 'SPECIFICATION Spec\nPOSTCONDITION TraceAccepted\nCHECK_DEADLOCK FALSE\n'
        reports = pl.validate(run, 'Trace_Fuzz', tcfg, shards, what='Trace_Fuzz')
        idx = pl.load_trace_index(shards)
        pl.classify(run, reports, idx, 'C08')
        total = 0
        for cid, line in idx.items():
            total += line['inputs']
            for r in line['obs']:
                run.signatures.add((cid, r['k'], r['n'], r['st'], r['cls']))
            if len(run.samples) < 3 and line['obs']:
                run.samples.append({'cid': cid, 'asn1': line['asn1'][:400], 'outcomes': line['outcomes'],
                                    'max_events': max(r['ev'] for r in line['obs'])})
        run.evaluations = total
        run.notes['inputs_decoded'] = total
        run.notes['type_codec_pairs'] = len(idx)
        run.assumptions = ['work is measured in interpreter events (calls, C calls, backward jumps in asn1tools): deterministic',
                           'WorkBound in spec/Trace_Fuzz.tla: 5000 + 1000 * (2n + 2) * (depth + 1) events',
                           'memory is bounded through the work bound (every allocation is an event); RLIMIT is not used']
        return pl.finish(run, rule='inputs = TLC mutation scripts (ByteMutate.tla) applied to valid encodings + the strings enumerated by '
                                   'the reader model + seeded random strings; distinct non-trivial = distinct (type, codec, input kind, length, '
                                   'outcome class) among the recorded extreme cases')
    except pl.Machinery as e:
        print('MACHINERY FAILURE C08: %s' % e)
        return 2
