"""C side of C09/C10: parse a generated header with pycparser, emit a generic driver program for it,
build it with the sanitizers, and talk to it.

Nothing in here knows ASN.1 or an encoding rule.  The field list of every struct comes from parsing the
*generated header* with pycparser (an independent C parser); member offsets, strides and sizes are
computed by the C compiler (offsetof / sizeof in the driver) and printed by the driver on request, so
this module does not replicate the platform ABI either.

Driver protocol (one request line, one response line):
  L            layout table: lines  "L <type> <leaf> <offset> <size> <stride>..."  then  "END"
  T <i>        select type i, allocate its struct (malloc, exact size), fill with 0xA5      -> ok <sizeof>
  F <xx>       fill the struct with byte xx                                                 -> ok
  W <off> <hex>  write raw bytes into the struct                                            -> ok | err
  R <off> <n>  read raw bytes of the struct                                                 -> <hex>
  E <n>        encode the struct into a fresh malloc(n) buffer pre-filled with 0xFF         -> E <ret> <hex of ret bytes>
  D <hex>      decode from a fresh exact-size malloc copy of the bytes into the struct      -> D <ret>
  C <n>        like E, but only if the last D succeeded (else "E skipped")
  X <cap> <hex>  adversarial input: zero the struct, decode; if accepted: digest of the struct image, encode
               (cap octets); if that worked: zero, decode the re-encoding, digest, encode again
                                      -> X <d1> [<i1> <e1> <hex1|-> [<d2> <i2> [<e2> <hex2|->]]]
Requests are independent "units" (each starts by filling the struct), so many can be sent at once; after a
crash the harness restarts the program and goes on with the next unit.
"""
import os
import re
import select
import signal
import struct
import subprocess

from pycparser import c_ast, c_generator, c_parser

FAKE_STD = '''
typedef unsigned char uint8_t; typedef unsigned short uint16_t; typedef unsigned int uint32_t; typedef unsigned long uint64_t;
typedef signed char int8_t; typedef short int16_t; typedef int int32_t; typedef long int64_t;
typedef _Bool bool; typedef long ssize_t; typedef unsigned long size_t;
'''

INT_TYPES = {'uint8_t': (1, False), 'uint16_t': (2, False), 'uint32_t': (4, False), 'uint64_t': (8, False),
             'int8_t': (1, True), 'int16_t': (2, True), 'int32_t': (4, True), 'int64_t': (8, True)}


class HeaderError(Exception):
    pass


def strip_cpp(text):
    text = re.sub(r'/\*.*?\*/', ' ', text, flags=re.S)
    text = re.sub(r'//[^\n]*', ' ', text)
    return '\n'.join(l for l in text.split('\n') if not l.lstrip().startswith('#'))


def const_int(node):
    if isinstance(node, c_ast.Constant):
        return int(node.value.rstrip('uUlL'), 0)
    if isinstance(node, c_ast.UnaryOp) and node.op == '-':
        return -const_int(node.expr)
    if isinstance(node, c_ast.UnaryOp) and node.op == '+':
        return const_int(node.expr)
    raise HeaderError('not an integer constant: %r' % (node,))


class Leaf(object):
    def __init__(self, pattern, ctype, dims):
        self.pattern, self.ctype, self.dims = pattern, ctype, dims
        self.offset = self.size = None
        self.strides = []


class Header(object):
    """What the generated header declares: enums, structs (as leaf lists), encode/decode functions."""

    def __init__(self, text):
        self.ast = c_parser.CParser().parse(FAKE_STD + strip_cpp(text), filename='<generated header>')
        self.enums = {}        # tag -> [(enumerator, value)]
        self.struct_nodes = {}
        self.functions = {}
        self.gen = c_generator.CGenerator()
        for ext in self.ast.ext:
            if isinstance(ext, c_ast.Typedef):
                continue
            t = ext.type
            if isinstance(t, c_ast.Struct) and t.decls is not None:
                self.struct_nodes[t.name] = t
            elif isinstance(t, c_ast.Enum) and t.values is not None:
                self.enums[t.name] = self._enum_values(t)
            elif isinstance(t, c_ast.FuncDecl):
                self.functions[ext.name] = ext
        self._leaves = {}

    @staticmethod
    def _enum_values(node):
        out, nxt = [], 0
        for e in node.values.enumerators:
            if e.value is not None:
                nxt = const_int(e.value)
            out.append((e.name, nxt))
            nxt += 1
        return out

    def leaves(self, tag):
        if tag not in self._leaves:
            out = []
            for d in self.struct_nodes[tag].decls or []:
                self._walk(d.name, d.type, (), out)
            self._leaves[tag] = out
        return self._leaves[tag]

    def _walk(self, path, t, dims, out):
        if isinstance(t, c_ast.ArrayDecl):
            self._walk(path + '[]', t.type, dims + (const_int(t.dim),), out)
        elif isinstance(t, c_ast.TypeDecl):
            inner = t.type
            if isinstance(inner, c_ast.IdentifierType):
                out.append(Leaf(path, ' '.join(inner.names), dims))
            elif isinstance(inner, c_ast.Enum):
                if inner.values is not None:
                    self.enums[inner.name] = self._enum_values(inner)
                out.append(Leaf(path, 'enum ' + inner.name, dims))
            elif isinstance(inner, (c_ast.Struct, c_ast.Union)):
                decls = inner.decls
                if decls is None:
                    if inner.name not in self.struct_nodes:
                        raise HeaderError('struct %s used but not defined' % inner.name)
                    decls = self.struct_nodes[inner.name].decls
                for d in decls or []:
                    self._walk(path + '.' + d.name, d.type, dims, out)
            else:
                raise HeaderError('unexpected member type %r' % (inner,))
        else:
            raise HeaderError('unexpected declarator %r' % (t,))

    def struct_text(self, tag, limit=400):
        """The struct as C text (for reports)."""
        txt = self.gen.visit(self.struct_nodes[tag])
        return re.sub(r'\s+', ' ', txt)[:limit]

    def find_type(self, wanted):
        """struct tag whose name, ignoring case and underscores, equals wanted + 't'."""
        key = re.sub(r'[^a-z0-9]', '', wanted.lower()) + 't'
        hits = [t for t in self.struct_nodes if re.sub(r'[^a-z0-9]', '', t.lower()) == key]
        if len(hits) != 1:
            raise HeaderError('no unique struct for %s: %r' % (wanted, hits))
        tag = hits[0]
        base = tag[:-2]
        if base + '_encode' not in self.functions or base + '_decode' not in self.functions:
            raise HeaderError('no encode/decode declared for %s' % tag)
        return tag, base


def c_expr(pattern):
    return pattern.replace('[]', '[0]')


MAX_DIMS = 6
DRV_DECLS = '''
typedef ssize_t (*enc_f)(uint8_t *, size_t, const void *);
typedef ssize_t (*dec_f)(void *, const uint8_t *, size_t);
struct drv_type { size_t size; enc_f enc; dec_f dec; };
'''


def table_source(header_name, hdr, tags):
    """C text compiled together with the generated source into a shared object: typed wrappers around the
    encode / decode functions and the layout table (offsetof / sizeof evaluated by the C compiler) of
    the given struct tags (index = type number)."""
    o = ['#include <stddef.h>', '#include <stdint.h>', '#include "%s"' % header_name, DRV_DECLS]
    for i, tag in enumerate(tags):
        base = tag[:-2]
        o.append('static ssize_t enc_%d(uint8_t *d, size_t n, const void *s) { return %s_encode(d, n, (const struct %s *)s); }'
                 % (i, base, tag))
        o.append('static ssize_t dec_%d(void *s, const uint8_t *b, size_t n) { return %s_decode((struct %s *)s, b, n); }'
                 % (i, base, tag))
    o.append('const struct drv_type DRV_TYPES[] = {')
    for i, tag in enumerate(tags):
        o.append('    { sizeof(struct %s), enc_%d, dec_%d },' % (tag, i, i))
    o.append('};')
    o.append('const size_t DRV_NTYPES = %d;' % len(tags))
    rows = []
    for i, tag in enumerate(tags):
        for j, lf in enumerate(hdr.leaves(tag)):
            if len(lf.dims) > MAX_DIMS:
                raise HeaderError('more than %d array dimensions in %s' % (MAX_DIMS, lf.pattern))
            expr = c_expr(lf.pattern)
            cols = [str(i), str(j), 'offsetof(struct %s, %s)' % (tag, expr), 'sizeof(((struct %s *)0)->%s)' % (tag, expr),
                    str(len(lf.dims))]
            pos = 0
            for _ in lf.dims:
                pos = lf.pattern.index('[]', pos) + 2
                cols.append('sizeof(((struct %s *)0)->%s)' % (tag, c_expr(lf.pattern[:pos])))
            cols += ['0'] * (5 + MAX_DIMS - len(cols))
            rows.append('    { %s },' % ', '.join(cols))
    o.append('const size_t DRV_LAYOUT[][%d] = {' % (5 + MAX_DIMS))
    o += rows or ['    { 0 },']
    o.append('};')
    o.append('const size_t DRV_NLAYOUT = %d;' % len(rows))
    return '\n'.join(o) + '\n'


GENERIC_MAIN = r'''
#include <stdio.h>
#include <stdlib.h>
#include <string.h>
#include <stddef.h>
#include <stdint.h>
#include <unistd.h>
#include <dlfcn.h>
''' + DRV_DECLS + r'''
#define LAYOUT_COLS 11
static const struct drv_type *TYPES;
static size_t NTYPES;
static const size_t (*LAYOUT)[LAYOUT_COLS];
static size_t NLAYOUT;

static void print_layout(void)
{
    size_t r, k;
    for (r = 0; r < NLAYOUT; r++) {
        printf("L %zu %zu %zu %zu", LAYOUT[r][0], LAYOUT[r][1], LAYOUT[r][2], LAYOUT[r][3]);
        for (k = 0; k < LAYOUT[r][4]; k++) printf(" %zu", LAYOUT[r][5 + k]);
        putchar('\n');
    }
    printf("END\n");
}

static uint8_t *cur;
static size_t cursize;
static int curtype = -1;
static char line[1 << 21];
static uint8_t scratch[1 << 20];

static int hv(int c)
{
    if (c >= '0' && c <= '9') return c - '0';
    if (c >= 'a' && c <= 'f') return c - 'a' + 10;
    return -1;
}

static size_t unhex(const char *s, uint8_t *out)
{
    size_t n = 0;
    while (hv(s[0]) >= 0 && hv(s[1]) >= 0) {
        out[n++] = (uint8_t)(hv(s[0]) * 16 + hv(s[1]));
        s += 2;
    }
    return n;
}

static void hex(const uint8_t *p, size_t n)
{
    static const char *d = "0123456789abcdef";
    size_t i;
    for (i = 0; i < n; i++) { putchar(d[p[i] >> 4]); putchar(d[p[i] & 15]); }
}

static ssize_t lastdec = -1;

static ssize_t do_decode(const uint8_t *data, size_t n)
{
    uint8_t *src = malloc(n);       /* exact size: reads past the input are heap overflows */
    ssize_t r;
    if (n > 0) memcpy(src, data, n);
    r = TYPES[curtype].dec(cur, src, n);
    free(src);
    return r;
}

static void do_encode(size_t n, int print)
{
    uint8_t *dst = malloc(n);       /* exact size: writes past the destination are heap overflows */
    ssize_t r;
    if (n > 0) memset(dst, 0xFF, n);
    r = TYPES[curtype].enc(dst, n, cur);
    if (print) {
        printf("E %zd ", r);
        if (r > 0 && (size_t)r <= n) hex(dst, (size_t)r);
        putchar('\n');
    }
    free(dst);
}

static unsigned long long digest(const uint8_t *p, size_t n)
{
    unsigned long long h = 1469598103934665603ull;   /* FNV-1a, a fingerprint of the struct image */
    size_t i;
    for (i = 0; i < n; i++) { h ^= p[i]; h *= 1099511628211ull; }
    return h;
}

int main(int argc, char **argv)
{
    void *h;
    if (argc < 2 || (h = dlopen(argv[1], RTLD_NOW)) == NULL) {
        fprintf(stderr, "driver: cannot load module: %s\n", argc < 2 ? "no argument" : dlerror());
        return 3;
    }
    TYPES = (const struct drv_type *)dlsym(h, "DRV_TYPES");
    NTYPES = *(const size_t *)dlsym(h, "DRV_NTYPES");
    LAYOUT = (const size_t (*)[LAYOUT_COLS])dlsym(h, "DRV_LAYOUT");
    NLAYOUT = *(const size_t *)dlsym(h, "DRV_NLAYOUT");
    while (fgets(line, sizeof(line), stdin) != NULL) {
        char *e = line + 1;
        switch (line[0]) {
        case 'L':
            print_layout();
            break;
        case 'T': {
            int i = atoi(e);
            if (i < 0 || (size_t)i >= NTYPES) { printf("err type\n"); break; }
            free(cur);
            curtype = i;
            cursize = TYPES[i].size;
            cur = malloc(cursize);
            memset(cur, 0xA5, cursize);
            printf("ok %zu\n", cursize);
            break;
        }
        case 'F':
            memset(cur, (int)strtoul(e, NULL, 16), cursize);
            printf("ok\n");
            break;
        case 'W': {
            size_t off = strtoul(e, &e, 10);
            size_t n;
            while (*e == ' ') e++;
            n = unhex(e, scratch);
            if (off + n > cursize) { printf("err range\n"); break; }
            memcpy(cur + off, scratch, n);
            printf("ok\n");
            break;
        }
        case 'R': {
            size_t off = strtoul(e, &e, 10);
            size_t n = strtoul(e, &e, 10);
            if (off + n > cursize) { printf("err range\n"); break; }
            hex(cur + off, n);
            putchar('\n');
            break;
        }
        case 'E':
            do_encode(strtoul(e, NULL, 10), 1);
            break;
        case 'D': {
            size_t n;
            while (*e == ' ') e++;
            n = unhex(e, scratch);
            lastdec = do_decode(scratch, n);
            printf("D %zd\n", lastdec);
            break;
        }
        case 'C': {
            size_t n = strtoul(e, NULL, 10);
            if (lastdec < 0) { printf("E skipped\n"); break; }
            do_encode(n, 1);
            break;
        }
        case 'X': {
            size_t cap = strtoul(e, &e, 10);
            size_t n;
            ssize_t d1, e1, d2, e2;
            uint8_t *b1;
            while (*e == ' ') e++;
            n = unhex(e, scratch);
            memset(cur, 0, cursize);
            d1 = do_decode(scratch, n);
            printf("X %zd", d1);
            if (d1 >= 0) {
                printf(" %016llx", digest(cur, cursize));
                b1 = malloc(cap);
                memset(b1, 0xFF, cap);
                e1 = TYPES[curtype].enc(b1, cap, cur);
                printf(" %zd ", e1);
                if (e1 > 0 && (size_t)e1 <= cap) hex(b1, (size_t)e1); else putchar('-');
                if (e1 >= 0 && (size_t)e1 <= cap) {
                    memset(cur, 0, cursize);
                    d2 = do_decode(b1, (size_t)e1);
                    printf(" %zd %016llx", d2, digest(cur, cursize));
                    if (d2 >= 0) {
                        uint8_t *b2 = malloc(cap);
                        memset(b2, 0xFF, cap);
                        e2 = TYPES[curtype].enc(b2, cap, cur);
                        printf(" %zd ", e2);
                        if (e2 > 0 && (size_t)e2 <= cap) hex(b2, (size_t)e2); else putchar('-');
                        free(b2);
                    }
                }
                free(b1);
            }
            putchar('\n');
            break;
        }
        default:
            printf("err cmd\n");
            break;
        }
        fflush(stdout);
    }
    return 0;
}
'''


# ----------------------------------------------------------------------------------------
# compilers

GCC = ['gcc', '-std=c99', '-Wall', '-Wextra', '-Werror=implicit-function-declaration', '-c']


def gcc_check(cdir, source):
    """Compile the generated source as C99 with gcc; returns (rc, diagnostics)."""
    p = subprocess.run(GCC + [source, '-o', os.devnull], cwd=cdir, stdout=subprocess.PIPE, stderr=subprocess.STDOUT,
                       text=True, errors='replace', timeout=300)
    diags = [l for l in p.stdout.splitlines() if re.search(r': (warning|error|fatal error): ', l)]
    return p.returncode, diags


SAN = ['-fsanitize=address,undefined', '-fno-sanitize-recover=all', '-g', '-fno-omit-frame-pointer']


def build_main(path_c, exe):
    """The generic driver program (built once per run): loads a module (shared object) given as argv[1]."""
    with open(path_c, 'w') as f:
        f.write(GENERIC_MAIN)
    p = subprocess.run(['clang'] + SAN + [path_c, '-o', exe, '-ldl'], stdout=subprocess.PIPE, stderr=subprocess.STDOUT,
                       text=True, errors='replace', timeout=900)
    return p.returncode, p.stdout


def build_module(cdir, sources, so):
    """Generated source + table, instrumented with ASan + UBSan, as a shared object."""
    p = subprocess.run(['clang'] + SAN + ['-shared', '-fPIC'] + sources + ['-o', so], cwd=cdir, stdout=subprocess.PIPE,
                       stderr=subprocess.STDOUT, text=True, errors='replace', timeout=900)
    errs = [l for l in p.stdout.splitlines() if re.search(r': (error|fatal error): ', l)]
    if p.returncode != 0 and not errs:
        errs = [l for l in p.stdout.splitlines() if l.strip()][-3:]
    return p.returncode, errs, p.stdout


def classify_diag(line):
    """'file:line:col: warning: text [-Wflag]' -> (severity, flag or text without identifiers)."""
    m = re.search(r': (warning|error|fatal error): (.*)$', line)
    sev, txt = m.group(1), m.group(2)
    f = re.search(r'\[(-W[^\]]+)\]', txt)
    if f:
        return sev, f.group(1)
    txt = re.sub(r"'[^']*'", "'_'", txt)
    txt = re.sub(r'[‘’]', "'", txt)
    txt = re.sub(r"'[^']*'", "'_'", txt)
    return sev, re.sub(r'\d+', 'N', txt)[:100]


# ----------------------------------------------------------------------------------------
# the running driver

class Crash(Exception):
    def __init__(self, kind, frame, report):
        Exception.__init__(self, '%s@%s' % (kind, frame))
        self.kind, self.frame, self.report = kind, frame, report


class Hang(Exception):
    pass


def parse_sanitizer(report, gen_source):
    """(kind, top frame inside the generated source) of an ASan / UBSan report."""
    kind = 'unknown'
    m = re.search(r'ERROR: AddressSanitizer: ([A-Za-z0-9_-]+)', report)
    if m:
        kind = 'asan:' + m.group(1)
        rw = re.search(r'^(READ|WRITE) of size', report, flags=re.M)
        if rw:
            kind += ':' + rw.group(1).lower()
    else:
        m = re.search(r'runtime error: (.*)', report)
        if m:
            txt = re.sub(r"'[^']*'", "'T'", m.group(1))
            txt = re.sub(r'0x[0-9a-f]+', 'A', txt)
            txt = re.sub(r'-?\d+', 'N', txt)
            kind = 'ubsan:' + txt.strip()[:80]
        elif 'AddressSanitizer' in report or 'Sanitizer' in report:
            kind = 'sanitizer'
    frame = ''
    base = os.path.basename(gen_source)
    for fm in re.finditer(r'#\d+ 0x[0-9a-f]+ in (\S+) ([^\s:]+):(\d+)', report):
        if os.path.basename(fm.group(2)) == base:
            frame = fm.group(1)
            break
    if not frame:
        fm = re.search(r'#0 0x[0-9a-f]+ in (\S+)', report)
        frame = fm.group(1) if fm else ''
    # per-type functions are named after the type: keep only their role
    m = re.match(r'.*_(encode_inner|decode_inner|encode|decode)$', frame)
    if m:
        frame = '<type>_' + m.group(1)
    return kind, frame


class Driver(object):
    """One running driver process; restarted transparently after a crash."""

    def __init__(self, exe, module, gen_source, errlog, timeout=int(os.environ.get("VERIF_CDRV_TIMEOUT", "120"))):
        self.exe, self.module, self.gen_source, self.errlog, self.timeout = exe, module, gen_source, errlog, timeout
        self.p = None
        self.curtype = None
        self.restarts = 0
        self.hangs = 0        # once a hang has been seen (a violation already), later waits are cut short

    def start(self):
        self.stop()
        env = dict(os.environ)
        env['ASAN_OPTIONS'] = 'detect_leaks=0:abort_on_error=0:allocator_may_return_null=1:symbolize=1'
        env['UBSAN_OPTIONS'] = 'print_stacktrace=1:halt_on_error=1'
        self.err = open(self.errlog, 'wb')
        self.p = subprocess.Popen([self.exe, self.module], stdin=subprocess.PIPE, stdout=subprocess.PIPE, stderr=self.err,
                                  env=env, bufsize=0)
        self.buf = b''
        self.curtype = None
        self.restarts += 1

    def stop(self):
        if self.p is not None:
            try:
                self.p.stdin.close()
            except Exception:
                pass
            try:
                self.p.kill()
            except Exception:
                pass
            self.p.wait()
            self.p.stdout.close()
            self.err.close()
            self.p = None

    def _readline(self):
        deadline = None
        while b'\n' not in self.buf:
            r, _, _ = select.select([self.p.stdout], [], [], self.timeout if self.hangs == 0 else max(5, self.timeout // 12))
            if not r:
                self.hangs += 1
                self.stop()
                raise Hang()
            chunk = os.read(self.p.stdout.fileno(), 1 << 16)
            if not chunk:
                self.p.wait()
                rc = self.p.returncode
                self.err.flush()
                with open(self.errlog, 'r', errors='replace') as f:
                    report = f.read()
                self.stop()
                kind, frame = parse_sanitizer(report, self.gen_source)
                if kind == 'unknown':
                    kind = 'exit:%s' % (signal.Signals(-rc).name if rc < 0 else rc)
                raise Crash(kind, frame, report[:4000])
            self.buf += chunk
        line, self.buf = self.buf.split(b'\n', 1)
        return line.decode()

    def cmd(self, text):
        if self.p is None:
            self.start()
        try:
            self.p.stdin.write(text.encode() + b'\n')
        except BrokenPipeError:
            pass
        return self._readline()

    def run_units(self, ti, units, on_crash):
        """Run independent units (lists of request lines) on type ti, many per write.  Returns one list of
        responses per unit (None for a unit that did not complete); on_crash(unit index, exception) is
        called for a crash / hang, the program is restarted and the following units still run."""
        results = [None] * len(units)
        u = 0
        while u < len(units):
            if self.p is None:
                self.start()
            reqs, owners = [], []
            if self.curtype != ti:
                reqs.append('T %d' % ti)
                owners.append(-1)
            size = sum(len(r) + 1 for r in reqs)
            first = u
            while u < len(units):
                usz = sum(len(r) + 1 for r in units[u])
                if reqs and owners[-1] != -1 and (size + usz > 30000 or len(reqs) > 3000):
                    break
                for r in units[u]:
                    reqs.append(r)
                    owners.append(u)
                size += usz
                u += 1
                if size > 30000:
                    break
            try:
                self.p.stdin.write(('\n'.join(reqs) + '\n').encode())
            except BrokenPipeError:
                pass
            got = {}
            k = 0
            try:
                for k, owner in enumerate(owners):
                    resp = self._readline()
                    if owner == -1:
                        self.curtype = ti
                    else:
                        got.setdefault(owner, []).append(resp)
                for owner, resps in got.items():
                    results[owner] = resps
            except (Crash, Hang) as e:
                owner = owners[k]
                for o2, resps in got.items():
                    if o2 != owner and len(resps) == len(units[o2]):
                        results[o2] = resps
                if owner == -1:
                    # the request that selects the type did not come back (an overloaded machine): start the program
                    # again and repeat these units; give up only when it happens a second time
                    if getattr(self, '_select_retries', 0) >= 2:
                        raise
                    self._select_retries = getattr(self, '_select_retries', 0) + 1
                    self.hangs = 0
                    u = first
                    continue
                on_crash(owner, e)
                u = owner + 1          # the program is gone; go on with the next unit
        return results

    def layout(self):
        if self.p is None:
            self.start()
        self.p.stdin.write(b'L\n')
        rows = []
        while True:
            l = self._readline()
            if l == 'END':
                return rows
            rows.append([int(x) for x in l.split()[1:]])

    def select(self, i):
        r = self.cmd('T %d' % i)
        if not r.startswith('ok'):
            raise HeaderError('driver: %s' % r)
        self.curtype = i
        return int(r.split()[1])

    def ensure(self, i):
        if self.p is None or self.curtype != i:
            self.select(i)

    def fill(self, byte):
        self.cmd('F %02x' % byte)

    def write(self, off, data):
        r = self.cmd('W %d %s' % (off, data.hex()))
        if r != 'ok':
            raise HeaderError('driver write: %s' % r)

    def read(self, off, n):
        r = self.cmd('R %d %d' % (off, n))
        if r.startswith('err'):
            raise HeaderError('driver read: %s' % r)
        return bytes.fromhex(r)

    def encode(self, n):
        r = self.cmd('E %d' % n).split()
        return int(r[1]), (bytes.fromhex(r[2]) if len(r) > 2 else b'')

    def decode(self, data):
        r = self.cmd('D %s' % data.hex()).split()
        return int(r[1])


# ----------------------------------------------------------------------------------------
# struct images: abstract fields <-> raw bytes at compiler-computed offsets

class StructAccess(object):
    """Access to one struct type of a running driver by member path."""

    def __init__(self, hdr, tag, index, rows):
        self.hdr, self.tag, self.index = hdr, tag, index
        self.leaves = {}
        lvs = hdr.leaves(tag)
        for row in rows:
            if row[0] != index:
                continue
            lf = lvs[row[1]]
            lf.offset, lf.size, lf.strides = row[2], row[3], row[4:]
            self.leaves[lf.pattern] = lf

    def locate(self, path, want_array=False):
        """-> (leaf, offset, count) or None.  With want_array the path names an array (count elements)."""
        idx = [int(x) for x in re.findall(r'\[(\d+)\]', path)]
        pat = re.sub(r'\[\d+\]', '[]', path)
        if want_array:
            pat += '[]'
        lf = self.leaves.get(pat)
        if lf is None:
            return None
        if len(idx) + (1 if want_array else 0) != len(lf.dims):
            return None
        off = lf.offset
        for k, i in enumerate(idx):
            if i >= lf.dims[k]:
                return None
            off += i * lf.strides[k]
        return lf, off, (lf.dims[-1] if want_array else 1)

    def short_names(self, enum_tag):
        """enumerator -> short name: strip the enum's prefix (<tag without _e>_) and the _e suffix."""
        tag = enum_tag[len('enum '):]
        vals = self.hdr.enums.get(tag)
        if vals is None:
            return None
        prefix = tag[:-2] + '_' if tag.endswith('_e') else tag + '_'
        out = []
        for name, num in vals:
            short = name
            if name.startswith(prefix):
                short = name[len(prefix):]
            if short.endswith('_e'):
                short = short[:-2]
            out.append((short, num, name))
        return out
