"""C09 / C10: generated C source (UPER / OER) against the Python codec, under ASan + UBSan.

CGen.tla (TLC) emits the modules, values and expected struct images; drive_cgen.py runs the real
generator, gcc, clang and the generated code and records; Trace_CGen.tla (TLC) judges every line."""
import hashlib
import json
import os

import cdriver
import pipeline as pl

CODEC = {'C09': 'uper', 'C10': 'oer'}
NSHARDS = int(os.environ.get('VERIF_NPROC', '16'))
TLC_WORKERS = int(os.environ.get('VERIF_TLC_WORKERS', '2'))

INVARIANTS = ['CEmit', 'CValuesAdmitted', 'CStructInRange', 'CStructPathsDistinct', 'COutsideStaysOutside',
              'CProjectionWellFormed']


def cgen_cfg(codec, depth, rich):
    return ('SPECIFICATION CSpec\nCONSTANTS\n  Codec = "%s"\n  MaxDepth = %d\n  Rich = %s\n%sCHECK_DEADLOCK FALSE\n' % (
        codec, depth, 'TRUE' if rich else 'FALSE', ''.join('INVARIANT %s\n' % i for i in INVARIANTS)))


def generate_cases(run, codec, tier):
    """Binding A universe: BFS over CGen (+ simulation for deeper nestings)."""
    if tier == 'smoke':        # sensitivity demonstrations: the boundary tables only (about 80 types, 3 modules)
        bfs = [(0, False)]
        sim = None
    elif tier == 'quick':
        bfs = [(1, False)]
        sim = ('num=6', 3)
    else:
        bfs = [(1, True), (2, False)]
        sim = ('num=1500', 4)
    cases = []
    for n, (d, rich) in enumerate(bfs):
        out, res = pl.tlc_generate(run, 'CGen', cgen_cfg(codec, d, rich), 'gen%d.ndjson' % n, workers=TLC_WORKERS,
                                   what='CGen %s BFS depth<=%d rich=%s' % (codec, d, rich), heap='4g')
        cases += pl.dedup_cases(out, 'g%d' % n)
    if sim:
        out, res = pl.tlc_generate(run, 'CGen', cgen_cfg(codec, sim[1], True), 'gensim.ndjson', workers=1,
                                   simulate=sim[0], depth=sim[1] + 1, what='CGen %s simulate %s depth %d' % (codec, sim[0], sim[1]),
                                   heap='4g')
        cases += pl.dedup_cases(out, 's')
    seen, uniq = set(), []
    for c in cases:
        h = hashlib.sha1(json.dumps([c['env'], c['vals']], sort_keys=True).encode()).hexdigest()
        if h not in seen:
            seen.add(h)
            uniq.append(c)
    return uniq


TRACE_CFG = 'SPECIFICATION Spec\nPOSTCONDITION TraceAccepted\nCHECK_DEADLOCK FALSE\n'

RULE = ('cases are the states of spec/CGen.tla (BFS over the boundary tables of the documented C subset plus the '
        'just-outside table, and simulation for deeper nestings, seed %d); one observation is one judged fact: the '
        'generator verdict for a module, one compile, one value encoded at every destination size 0..len+1, one value '
        'decoded and compared member by member, one re-encoding, one adversarial input, one version-2 value; an '
        'observation is distinct and non-trivial when its (type, value, kind) is new and the generated code ran: '
        'encodings with at least one octet, accepted adversarial inputs, refusals of distinct out-of-subset shapes')


def run_check(prop, tier, seed, cases=None):
    codec = CODEC[prop]
    run = pl.Run(prop, tier, seed)
    try:
        if cases is None:
            cases = generate_cases(run, codec, tier)
        cpath = run.path('cases.ndjson')
        pl.write_cases(cases, cpath)
        adv = '120' if tier == 'quick' else '200'
        main_exe = run.path('drv_main')
        rc, txt = cdriver.build_main(run.path('drv_main.c'), main_exe)
        if rc != 0:
            raise pl.Machinery('cannot build the generic driver program:\n' + txt[-2000:])
        shards = pl.drive(run, 'drive_cgen.py', cpath, 'trace',
                          ['--codec', codec, '--seed', str(seed), '--adv', adv, '--batch', '30', '--main', main_exe],
                          nshards=NSHARDS, timeout=7200)
        reports = pl.validate(run, 'Trace_CGen', TRACE_CFG, shards, what='Trace_CGen %s' % codec, heap='3g')
        idx = pl.load_trace_index(shards)
        pl.classify(run, reports, idx, prop)
        by_cid = {c['cid']: c for c in cases}
        for v in run.violations:      # a replay needs the generated case (expected struct images), not only the trace line
            if v.get('case') and v['cid'] in by_cid:
                v['case'] = dict(v['case'], gencase=by_cid[v['cid']])
        account(run, idx, cases)
        run.assumptions = [
            'TLC and SANY are correct; spec/CSubset.tla states the documented subset (README "Limitations by design" / '
            '"Known limitations") and the member naming convention of the generated header faithfully',
            'the Python %s codec is the reference for bytes (c_bytes = py_bytes); where it deviates from the standard the C '
            'code has to deviate in the same way' % codec.upper(),
            'gcc 12 -std=c99 -Wall -Wextra decides "valid C99 that compiles"; clang 14 AddressSanitizer + '
            'UndefinedBehaviorSanitizer (-fno-sanitize-recover=all) observe out-of-bounds accesses and undefined behaviour '
            'on the executed paths only',
            'pycparser reads the generated header correctly; member offsets and sizes are computed by the C compiler',
            'harness/render.py renders descriptors to the ASN.1 notation they denote; harness/values.py converts shapes only',
        ]
        return pl.finish(run, rule=RULE % seed)
    except pl.Machinery as e:
        print('MACHINERY FAILURE %s: %s' % (prop, e))
        return 2


def account(run, idx, cases):
    ngen = {'accepted': 0, 'refused': 0}
    warn = {}
    modules = 0
    for cid, line in idx.items():
        th = hashlib.sha1(json.dumps(line['env'], sort_keys=True).encode()).hexdigest()[:10]
        ngen['accepted' if line['gen']['st'] == 'ok' else 'refused'] += 1
        if line['gen']['st'] != 'ok':
            run.signatures.add((th, 'refused'))
        for d in line.get('cc', {}).get('gcc', {}).get('diags', []):
            if d[0] == 'warning':
                warn[d[1]] = warn.get(d[1], 0) + d[2]
        for o in line.get('obs', []):
            if o.get('py', {}).get('st') == 'ok' and len(o['py']['b']) >= 1:
                if 'enc' in o:
                    run.signatures.add((th, o['vi'], 'enc'))
                if 'dec' in o:
                    run.signatures.add((th, o['vi'], 'dec'))
        for k, a in enumerate(line.get('adv', {}).get('accepted', [])):
            run.signatures.add((th, 'adv', hashlib.sha1(bytes(a['in'])).hexdigest()[:8]))
        for p in line.get('pairs', []):
            run.signatures.add((th, p['vi'], 'v1v2'))
        if len(run.samples) < 5 and line.get('obs') and line['env']['types'][line['top']]['k'] in ('SEQ', 'CHOICE', 'SEQOF'):
            o = line['obs'][min(len(line['obs']) - 1, 2)]
            if o.get('py', {}).get('st') == 'ok' and 'enc' in o and 'rets' in o['enc']:
                run.samples.append({'cid': cid, 'asn1_top': line['env']['types'][line['top']],
                                    'c_struct': line.get('cstruct'), 'value': line['vals'][o['vi'] - 1],
                                    'python_bytes': bytes(o['py']['b']).hex(), 'c_bytes': bytes(o['enc']['b']).hex(),
                                    'c_encode_results_for_sizes_0_to_len_plus_1': o['enc']['rets'],
                                    'decode_result': o.get('dec', {}).get('ret')})
    run.notes['cases'] = len(cases)
    run.notes['generator'] = ngen
    run.notes['gcc_warnings'] = warn
    run.notes['adversarial_inputs'] = sum(l.get('adv', {}).get('n', 0) for l in idx.values())
    run.notes['adversarial_accepted'] = sum(len(l.get('adv', {}).get('accepted', [])) + l.get('adv', {}).get('accepted_more', 0)
                                            for l in idx.values())
    run.notes['sanitizer_events'] = sum(len(l.get('crashes', [])) for l in idx.values())
    run.notes['v1_v2_pairs'] = sum(len(l.get('pairs', [])) for l in idx.values())


def c09(tier, seed):
    return run_check('C09', tier, seed)


def c10(tier, seed):
    return run_check('C10', tier, seed)


def replay(prop, rp, seed):
    """Re-execute exactly the recorded case (rp = a replay file written by pipeline.finish)."""
    case = dict(rp['case']['gencase'])
    return run_check(prop, rp.get('tier', 'quick'), rp.get('seed', seed), cases=[case])
