"""C14 -- parsing depends only on the token sequence, not on comments or white-space.

spec/Comments.tla   X.680 12.6 comment scanner (machine + invariants), lexical items (XLex), deviations
spec/Layout.tla     token list + filler per boundary; one action changes one filler; invariant: same tokens
spec/Trace_Comments.tla   judges every recorded line

Pipeline of one run (all verdicts by TLC):
  M   TLC model-checks the scanner machine over all strings up to MaxLen and emits every string with
      the model's comment-free text;
  A1  parser.ignore_comments is run on every such string, Trace_Comments compares;
  B1  parser.ignore_comments on whole texts (generated modules, probes, tests/files/**.asn), compared line
      by line with the model, which also hands back the comment-free text;
  --  the harness tokenizes the comment-free texts (no comment rule in Python) into windows;
  A2  TLC (Layout) chooses filler schedules per window: BFS up to MaxChanges on the probe texts,
      -simulate sweeps on all windows; some with a syntax error to inject;
  B2  the parser is run on every re-laid-out text; Trace_Comments re-lexes both texts and judges
      "same tokens => same result" and "reported line = line of the offending item".
"""
import glob
import hashlib
import json
import os
import time

import pipeline as pl
import checks_codec as cc
import render

REPO_FILES = os.path.join(pl.REPO, 'tests', 'files')

TRACE_CFG = ('SPECIFICATION Spec\nCONSTANTS\n  MaxLen = 0\n  Alphabet = {}\n  Mut = {}\n  MaxChanges = 0\n'
             '  MinChanges = 0\n  Skips = {}\n  OnlyBfs = FALSE\n  FillerIdx = {}\n  Inject = FALSE\n  FinishEarly = FALSE\n  OnlyWordPairs = FALSE\nPOSTCONDITION TraceAccepted\nCHECK_DEADLOCK FALSE\n')

# Probe texts: every keyword the grammar matches as one literal, the other word sequences of X.680,
# abutting punctuation, character strings that contain comment markers, CLASS.&field and ENUMERATED {.
# Tiers: smoke (probes + tiny fixtures, strings <= 4; for sensitivity demonstrations), quick, thorough.
# Environment (development only): VERIF_FINDINGS=<file> another findings file, VERIF_C14_ONLY=masks|layout,
# VERIF_TLC_WORKERS (default 8), VERIF_NPROC (pipeline, default 16).
PROBE_KEYWORDS = '''Probe-1 DEFINITIONS AUTOMATIC TAGS EXTENSIBILITY IMPLIED ::= BEGIN
IMPORTS T1 FROM Other-1 WITH SUCCESSORS T2 FROM Other-2 WITH DESCENDANTS;
A ::= SEQUENCE {
  a BIT STRING { one(1) } (SIZE (1..8)),
  b OCTET STRING (SIZE (2)) OPTIONAL,
  c OBJECT IDENTIFIER,
  d CHARACTER STRING,
  e ANY DEFINED BY c,
  f SEQUENCE (SIZE (0..3)) OF INTEGER (-5..5),
  g SET OF BOOLEAN,
  COMPONENTS OF B
}
B ::= SEQUENCE { x INTEGER DEFAULT 3, y REAL (WITH COMPONENTS { mantissa (1..9), base (2) }) }
C ::= SEQUENCE OF A (WITH COMPONENT (WITH COMPONENTS { ..., b ABSENT }))
D ::= INTEGER (CONSTRAINED BY { })
E ::= CLASS { &id INTEGER UNIQUE, &Type } WITH SYNTAX { &id &Type }
END
'''
PROBE_TINY = '''P DEFINITIONS ::= BEGIN
A ::= SEQUENCE { a OCTET STRING }
END
'''
PROBE_STRINGS = '''Probe-3 DEFINITIONS ::= BEGIN
A ::= SEQUENCE {
  a UTF8String DEFAULT "x--y--z",
  b IA5String (FROM ("a".."z" | "-" | "/" | "*")),
  c VisibleString DEFAULT "p/*q*/r",
  d UTF8String DEFAULT "say ""hi"""
}
END
'''
PROBE_OTHER = '''Probe-5 DEFINITIONS ::= BEGIN
C ::= CLASS { &id INTEGER UNIQUE, &Type }
A ::= SEQUENCE { a C.&id, b C.&Type }
E ::= ENUMERATED {x, y}
END
'''
PROBE_MARKER = '''Probe-4 DEFINITIONS ::= BEGIN
A ::= SEQUENCE { a UTF8String DEFAULT "x--y", b INTEGER }
END
'''


class CountingSet(set):
    """set whose len() also counts members that were only counted (millions of mask strings)."""
    extra = 0

    def __len__(self):
        return set.__len__(self) + self.extra


class LazyIndex(object):
    """cid -> trace line, looked up in the shard files on demand (only for violations)."""

    def __init__(self, shards):
        self.shards = shards
        self.cache = None

    def get(self, cid, default=None):
        if self.cache is None:
            self.cache = {}
        if cid in self.cache:
            return self.cache[cid]
        needle = '"cid": "%s"' % cid
        for s in self.shards:
            with open(s) as f:
                for line in f:
                    if needle in line:
                        self.cache[cid] = json.loads(line)
                        return self.cache[cid]
        return default


def workers():
    return int(os.environ.get('VERIF_TLC_WORKERS', '8'))


# ------------------------------------------------------------------------------------------
# M + A1: scanner machine, masks

def comments_cfg(maxlen, emit=True):
    return ('SPECIFICATION ScanSpec\nCONSTANTS\n  MaxLen = %d\n  Alphabet <- Alphabet7\n  Mut = {}\n'
            'INVARIANTS TypeOK MaskShape LinesPreserved StringsOpaque LineCommentEnds BlockCommentsNest OnlineEqualsLookahead%s\n'
            'PROPERTIES StringStep DepthStep\nCHECK_DEADLOCK FALSE\n' % (maxlen, ' EmitMask' if emit else ''))


def masks_phase(run, maxlen):
    out, res = pl.tlc_generate(run, 'Comments', comments_cfg(maxlen), 'masks.ndjson', workers=workers(), timeout=7200,
                               what='Comments scanner machine, all strings over 7 characters up to length %d: 7 invariants, 2 action properties' % maxlen)
    cpath = run.path('mask_cases.ndjson')
    nstr = nontriv = 0
    with open(out) as f, open(cpath, 'w') as g:
        for n, line in enumerate(f):
            c = json.loads(line)
            c['cid'] = 'm-%d' % n
            c['k'] = 'mask'
            for it in c['items']:
                nstr += 1
                s = c['p'] + it['x']
                if it['b'] != s or it['e'] != 'ok' or '"' in s:
                    nontriv += 1
                    if len(run.samples) < 2 and len(s) == maxlen and '"' in s and '-' in s:
                        run.samples.append({'kind': 'mask', 'string': s, 'model_comment_free_text': it['b'], 'end_of_text': it['e']})
            g.write(json.dumps(c) + '\n')
    if nstr != sum(7 ** k for k in range(maxlen + 1)):
        raise pl.Machinery('scanner machine emitted %d strings, expected %d' % (nstr, sum(7 ** k for k in range(maxlen + 1))))
    run.signatures.extra += nontriv
    run.notes['mask_strings'] = nstr
    run.notes['mask_strings_nontrivial'] = nontriv
    shards = pl.drive(run, 'drive_comments.py', cpath, 'mtrace', ['--mode', 'masks'])
    reports = pl.validate(run, 'Trace_Comments', TRACE_CFG, shards, what='Trace_Comments masks', timeout=7200)
    return reports, shards


# ------------------------------------------------------------------------------------------
# texts

def generated_modules(run, tier):
    """ASN.1 modules rendered from TypeGen descriptors (token boundaries by construction of render.py)."""
    if tier == 'smoke':
        return []
    if tier == 'quick':
        cfgs = [(1, False, ['A'])]
        per = 8
    else:
        cfgs = [(1, False, ['E', 'I', 'A']), (0, True, ['E'])]
        per = 8
    texts = []
    for n, (d, rich, tds) in enumerate(cfgs):
        out, res = pl.tlc_generate(run, 'TypeGen', cc.typegen_cfg(d, rich, tds, extra_inv=False), 'types%d.ndjson' % n,
                                   workers=workers(), what='TypeGen BFS depth<=%d rich=%s (descriptors for generated modules)' % (d, rich))
        groups = {}
        with open(out) as f:
            for line in f:
                if line.strip():
                    c = json.loads(line)
                    groups.setdefault((c['env']['tagdef'], c['env'].get('extimp', False)), []).append(c)
        for key in sorted(groups):
            g = groups[key]
            g.sort(key=lambda c: hashlib.sha1(json.dumps(c['env'], sort_keys=True).encode()).hexdigest())
            for i in range(0, len(g), per):
                types = {}
                for j, c in enumerate(g[i:i + per]):
                    mapping = {nm: 'G%dx%s' % (j, nm) for nm in c['env']['types']}
                    for nm, T in c['env']['types'].items():
                        types[mapping[nm]] = render.rename(T, mapping)
                env = {'tagdef': key[0], 'extimp': key[1], 'types': types}
                try:
                    text = render.render_module('Gen-%d' % len(texts), env)
                except Exception as e:   # a descriptor kind render.py does not know yet
                    run.notes['unrendered'] = run.notes.get('unrendered', 0) + 1
                    continue
                texts.append({'tid': 'gen%d-%d' % (n, len(texts)), 'src': 'gen', 'name': 'generated module', 'text': text})
    return texts


def fixture_texts(tier):
    out = []
    for path in sorted(glob.glob(os.path.join(REPO_FILES, '**', '*.asn'), recursive=True)):
        size = os.path.getsize(path)
        if (tier == 'quick' and size > 20000) or (tier == 'smoke' and size > 700):
            continue
        with open(path, encoding='utf-8', errors='replace') as f:
            text = f.read() + '\n'              # as asn1tools.parse_files reads it
        rel = os.path.relpath(path, REPO_FILES)
        out.append({'tid': 'fx-' + rel.replace('/', '_').replace('.asn', ''), 'src': 'fixture', 'name': rel, 'text': text,
                    'size': size})
    return out


def probe_texts():
    return [{'tid': 'probe-keywords', 'src': 'probe', 'name': 'probe: multi-word keywords', 'text': PROBE_KEYWORDS, 'bfs': True, 'kw': True},
            {'tid': 'probe-tiny', 'src': 'probe', 'name': 'probe: tiny', 'text': PROBE_TINY, 'bfs': True, 'bfs2': True},
            {'tid': 'probe-strings', 'src': 'probe', 'name': 'probe: strings with markers', 'text': PROBE_STRINGS, 'bfs': True},
            {'tid': 'probe-marker', 'src': 'probe', 'name': 'probe: -- in a string', 'text': PROBE_MARKER, 'bfs': True},
            {'tid': 'probe-other', 'src': 'probe', 'name': 'probe: CLASS.&field, ENUMERATED {', 'text': PROBE_OTHER, 'bfs': True}]


def layout_cfg(max_changes, min_changes, skips, bfs, fillers, inject, invariants, word_pairs=False):
    return ('SPECIFICATION LaySpec\nCONSTANTS\n  MaxLen = 0\n  Alphabet = {}\n  Mut = {}\n  MaxChanges = %d\n  MinChanges = %d\n'
            '  %s\n  OnlyBfs = %s\n  %s\n  Inject = %s\n  FinishEarly = %s\n  OnlyWordPairs = %s\n%sCHECK_DEADLOCK FALSE\n' % (
                max_changes, min_changes, skips, 'TRUE' if bfs else 'FALSE', fillers, 'TRUE' if inject else 'FALSE',
                'TRUE' if bfs else 'FALSE', 'TRUE' if word_pairs else 'FALSE',
                ''.join('INVARIANT %s\n' % i for i in invariants)))


def read_ndjson(paths):
    out = []
    for p in paths:
        if os.path.exists(p):
            with open(p) as f:
                out += [json.loads(l) for l in f if l.strip()]
    return out


def layout_phase(run, tier, seed):
    quick = tier in ('quick', 'smoke')
    t_last = [time.time()]

    cpu_last = [sum(os.times()[:4])]

    def clock(what):
        cpu = sum(os.times()[:4])         # own + finished children (drivers, TLC), user + system
        run.notes.setdefault('phase_seconds_wall_cpu', {})[what] = [round(time.time() - t_last[0], 1), round(cpu - cpu_last[0], 1)]
        t_last[0], cpu_last[0] = time.time(), cpu
    texts = probe_texts() + generated_modules(run, tier) + fixture_texts(tier)
    texts.sort(key=lambda t: -len(t['text']))     # heavy texts first so that they spread over the shards
    tpath = run.path('texts.ndjson')
    pl.write_cases(texts, tpath)
    run.notes['texts'] = {'probe': sum(t['src'] == 'probe' for t in texts), 'generated': sum(t['src'] == 'gen' for t in texts),
                          'fixtures': sum(t['src'] == 'fixture' for t in texts),
                          'characters': sum(len(t['text']) for t in texts)}

    clock('texts (TypeGen, render, read fixtures)')
    # B1: ignore_comments on whole texts, judged line by line; the model returns the comment-free text
    tshards = pl.drive(run, 'drive_comments.py', tpath, 'ttrace', ['--mode', 'texts'])
    for s in tshards:
        if os.path.exists(s + '.blank'):
            os.unlink(s + '.blank')
    treports = pl.validate(run, 'Trace_Comments', TRACE_CFG, tshards, what='Trace_Comments whole texts', timeout=7200, heap='6g')

    clock('ignore_comments on texts + validation')
    # tokenize the model's comment-free texts into windows
    origdir = run.path('orig')
    tok_shards = pl.drive(run, 'drive_comments.py', tpath, 'tok',
                          ['--mode', 'tokenize', '--blank', ','.join(s + '.blank' for s in tshards), '--origdir', origdir,
                           '--seed', str(seed), '--window', '60' if quick else '120', '--windows', '2' if quick else '8'])
    wins = read_ndjson(tok_shards)
    skipped = [w for w in wins if 'skip' in w]
    if skipped:
        # the model hands back the comment-free text only of a text whose ignore_comments result it accepted: a text
        # that was rejected in B1 (a violation reported from treports) simply has no windows
        rejected = {r['cid'] for r in treports if any(o['verdict'] in ('reject', 'dev') for o in r['other'])}
        unexplained = [w for w in skipped if 't-%s' % w['tid'] not in rejected]
        for w in unexplained:
            # never seen on the unchanged tree: the recorded lines of this text and the text itself disagree in length,
            # i.e. what ignore_comments returned is not a blanked copy of its input -- a rejected observation
            treports.append({'cid': 't-%s' % w['tid'], 'n': 1, 'ok': 0, 'other': [
                {'vi': 0, 'codec': '', 'ne': False, 'check': 'TEXT', 'verdict': 'reject',
                 'detail': 'ignore_comments did not return a same-length copy of the text (%s)' % w['skip']}]})
        wins = [w for w in wins if 'skip' not in w]
    by_tid = {t['tid']: t for t in texts}

    def tokens_file(name, pred):
        path = run.path(name)
        pl.write_cases([{'wid': w['wid'], 'toks': w['toks'], 'fill0': w['fill0'], 'bfs': True, 'inj': w['inj']}
                        for w in wins if pred(by_tid[w['tid']])], path)
        return path
    wpath = tokens_file('tokens.ndjson', lambda t: True)
    run.notes['windows'] = len(wins)
    run.notes['tokens_in_windows'] = sum(len(w['toks']) for w in wins)
    run.notes['texts_not_accepted_as_they_are'] = sorted(set(by_tid[w['tid']]['name'] for w in wins if w['parse0'] != 'ok'))
    clock('tokenize')

    # A2: schedules
    scheds = []
    inv = ['LastChangeInert', 'TokenSeqUnchangedSmall']
    allf = 'FillerIdx <- AllFillers'
    if quick:
        runs = [('b1', 1, allf, False, tokens_file('tokens_b1.ndjson', lambda t: t.get('bfs') and not t.get('kw')),
                 'every single filler change at every boundary of the small probe texts'),
                ('bw', 1, allf, True, tokens_file('tokens_bw.ndjson', lambda t: t.get('kw')),
                 'every single filler change between the words of multi-word keywords in the keyword probe'),
                ('b2', 2, 'FillerIdx = {1, 5, 7, 10}', False, tokens_file('tokens_b2.ndjson', lambda t: t.get('bfs2')),
                 'every pair of filler changes (4 fillers) on the tiny probe')]
    else:
        runs = [('b1', 1, allf, False, tokens_file('tokens_b1.ndjson', lambda t: t.get('bfs')),
                 'every single filler change at every boundary of the probe texts'),
                ('b2', 2, allf, False, tokens_file('tokens_b2.ndjson', lambda t: t.get('bfs2')),
                 'every pair of filler changes on the tiny probe')]
    for tag, nchg, fillers, wp, path, what in runs:
        out, res = pl.tlc_generate(run, 'Layout', layout_cfg(nchg, nchg, 'Skips <- AnySkip', True, fillers, not quick and nchg == 1, inv, wp),
                                   'sched_%s.ndjson' % tag, workers=workers(), env={'TOKENS_FILE': path}, what='Layout BFS: ' + what)
        scheds += pl.dedup_cases(out, tag)
    clock('layout bfs')
    num, depth = (20, 100) if tier == 'smoke' else (120, 100) if quick else (4000, 200)
    out, res = pl.tlc_generate(run, 'Layout', layout_cfg(100000, 1, 'Skips = {1, 2, 3, 5, 8, 13, 21, 34}', False, allf, True, []),
                               'sched_sim.ndjson', workers=workers(), simulate='num=%d' % num, depth=depth,
                               env={'TOKENS_FILE': wpath}, timeout=3600,
                               what='Layout -simulate num=%d: left-to-right sweeps over all windows' % num)
    scheds += pl.dedup_cases(out, 's')
    clock('layout simulate')
    # the tokenizer self-check as a schedule: a single space at every boundary of every window
    for w in wins:
        scheds.append({'cid': 'allsp-' + w['wid'], 'wid': w['wid'], 'ch': [[b, 2] for b in range(1, len(w['toks']))],
                       'ik': 0, 'ikind': 'none'})
    size = {w['wid']: len(by_tid[w['tid']]['text']) for w in wins}
    per_win = {}
    for c in scheds:
        lst = per_win.setdefault(c['wid'], [])
        if size[c['wid']] > 100000 and len(lst) >= 3:
            continue         # a whole-file parse of the largest fixtures takes 5-30 s: a few schedules each
        lst.append({'id': c['cid'], 'ch': c['ch'], 'ik': c['ik'], 'ikind': c['ikind']})
    cases = []
    for wid in per_win:
        chunk = 25 if size[wid] < 5000 else 6 if size[wid] < 100000 else 1
        lst = per_win[wid]
        for i in range(0, len(lst), chunk):
            cases.append({'cid': 'L%d-%s' % (i // chunk, wid), 'wid': wid, 'scheds': lst[i:i + chunk]})
    cases.sort(key=lambda c: (-size[c['wid']] * len(c['scheds']), c['cid']))   # heavy first, interleaved over the shards
    cpath = run.path('layout_cases.ndjson')
    pl.write_cases(cases, cpath)
    run.notes['layout_schedules'] = sum(len(c['scheds']) for c in cases)
    lshards = pl.drive(run, 'drive_comments.py', cpath, 'ltrace',
                       ['--mode', 'layout', '--texts', tpath, '--tokens', ','.join(tok_shards), '--origdir', origdir],
                       timeout=5 * 3600)
    clock('parse re-laid-out texts')
    lreports = pl.validate(run, 'Trace_Comments', TRACE_CFG, lshards, what='Trace_Comments layouts and error lines',
                           timeout=7200, heap='6g')
    clock('validate layouts')
    # coverage accounting
    for s in lshards:
        with open(s) as f:
            for line in f:
                r = json.loads(line)
                if r['k'] == 'errline':
                    run.signatures.add(('errline', r['wid'], json.dumps(r['ch']), r['ik'], r['ikind']))
                    if sum(x.get('kind') == 'errline' for x in run.samples) < 2 and r['l1'].get('st') == 'exc':
                        run.samples.append({'kind': 'errline', 'window': r['wid'], 'injected_at_token': r['ik'], 'how': r['ikind'],
                                            'reported_in_comment_free_layout': [r['l0'].get('line'), r['l0'].get('col')],
                                            'reported_in_laid_out_text': [r['l1'].get('line'), r['l1'].get('col')]})
                    continue
                for c in r['cases']:
                    run.signatures.add(('layout', r['wid'], json.dumps(c['ch'])))
                    if sum(x.get('kind') == 'layout' for x in run.samples) < 2 and len(c['ch']) <= 3 and r['wid'].startswith('fx-'):
                        b = c['ch'][0][0]
                        run.samples.append({'kind': 'layout', 'window': r['wid'], 'changes [boundary, filler]': c['ch'],
                                            'tokens_at_first_change': r['toks'][b - 1:b + 1],
                                            'original': r['o0']['st'], 're-laid-out': c['o1']['st'], 'same_dictionary': c['same']})
    ctx = {'texts': {t['tid']: t['text'] for t in texts}, 'wins': {w['wid']: w for w in wins}, 'origdir': origdir}
    return treports, tshards, lreports, lshards, ctx


def enrich(run, ctx):
    """Make the replay files of layout violations self-contained: the two complete texts."""
    import pickle
    for v in run.violations:
        c = v.get('case')
        if not c or c.get('k') != 'layout' or c['wid'] not in ctx['wins']:
            continue
        w = ctx['wins'][c['wid']]
        text = ctx['texts'][w['tid']]
        with open(os.path.join(ctx['origdir'], '%s.pickle' % w['tid']), 'rb') as f:
            items = pickle.load(f)['items']
        lo, hi = items[w['off']][1], items[w['off'] + len(w['toks']) - 1][2]
        one = c['cases'][v['obs']['vi'] - 1]
        v['case'] = {'cid': c['cid'], 'k': 'layout', 'wid': c['wid'], 'toks': c['toks'], 'worig': c['worig'], 'o0': c['o0'],
                     'cases': [one], 'text_orig': text, 'text_new': text[:lo] + ''.join(one['wnew']) + text[hi:]}
        v['obs'] = dict(v['obs'], vi=1)


def replay(rp, seed):
    """./check C14 --replay <file>: run the recorded case again on the real parser and judge it again."""
    import sys
    import drive_comments as dc
    sys.path.insert(0, pl.REPO)
    import asn1tools
    from asn1tools import parser
    use_dev_findings()
    run = pl.Run('C14', 'replay', seed)
    run.signatures = CountingSet()
    try:
        c = dict(rp['case'])
        if c['k'] == 'mask':
            for it in c['items']:
                o = dc.guarded(lambda: parser.ignore_comments(c['p'] + it['x']), 20)
                if o['st'] == 'ok':
                    o['t'] = o.pop('r')
                it['o'] = o
        elif c['k'] == 'text':
            text = ''.join(c['lines'])
            o = dc.guarded(lambda: parser.ignore_comments(text), 120)
            if o['st'] == 'ok':
                o['lines'] = dc.cut_like(c['lines'], o.pop('r'))
            c['o'] = o
        elif c['k'] == 'layout':
            if 'text_orig' not in c:
                raise pl.Machinery('replay file without the complete texts')
            o0, d0 = dc.parse_outcome(asn1tools, c.pop('text_orig'))
            o1, d1 = dc.parse_outcome(asn1tools, c.pop('text_new'))
            c['o0'] = o0
            c['cases'][0].update({'o1': o1, 'same': bool(o0['st'] == 'ok' and o1['st'] == 'ok' and d0 == d1)})
        elif c['k'] == 'errline':
            c['l0'], _ = dc.parse_outcome(asn1tools, ''.join(c['t0']))
            c['l1'], _ = dc.parse_outcome(asn1tools, ''.join(c['t1']))
        path = run.path('replay.0.ndjson')
        pl.write_cases([c], path)
        reports = pl.validate(run, 'Trace_Comments', TRACE_CFG, [path], what='Trace_Comments replay')
        pl.classify(run, reports, LazyIndex([path]), 'C14')
        print('replayed %s: %s' % (c['cid'], json.dumps(reports[0]['other'])[:600] or 'accepted'))
        return pl.finish(run, rule='replay of one recorded case')
    except pl.Machinery as e:
        print('MACHINERY FAILURE C14: %s' % e)
        return 2


def use_dev_findings():
    if os.environ.get('VERIF_FINDINGS'):       # development only: another findings file
        path = os.environ['VERIF_FINDINGS']

        def load_findings(prop=None):
            with open(path) as f:
                data = json.load(f)
            return [e for e in data['findings'] if prop is None or e['property'] == prop]
        pl.load_findings = load_findings


def c14(tier, seed):
    use_dev_findings()
    run = pl.Run('C14', tier, seed)
    run.signatures = CountingSet()
    try:
        maxlen = {'smoke': 4, 'quick': 6}.get(tier, 8)
        only = os.environ.get('VERIF_C14_ONLY', '')      # development: 'masks' or 'layout'
        if only != 'layout':
            mreports, mshards = masks_phase(run, maxlen)
            pl.classify(run, mreports, LazyIndex(mshards), 'C14')
        if only != 'masks':
            treports, tshards, lreports, lshards, ctx = layout_phase(run, tier, seed)
            pl.classify(run, treports, LazyIndex(tshards), 'C14')
            pl.classify(run, lreports, LazyIndex(lshards), 'C14')
            enrich(run, ctx)
        run.assumptions = [
            'TLC and SANY are correct; spec/Comments.tla transcribes X.680 12.6 (comments) and 12.1-12.37 (lexical items) faithfully',
            'white-space is space, tab, new-line, carriage return; other new-line characters of X.680 12.1.6 (VT, FF) and no-break space are outside the explored alphabet',
            'a signed number (-5) and a field reference (&id) are single items; the end of the text ends a line',
            'error injection and line judgement only in the first window of texts of at most 40 000 characters that parse',
        ]
        return pl.finish(run, exhaustive=True, rule=(
            'masks: every string over {- / * " new-line a space} up to length %d is one case (exhaustive); it counts as '
            'non-trivial when the model blanks a character, ends in an error or the string contains a quote. '
            'layouts: a case is (window of a text, schedule of filler changes chosen by TLC [BFS on the probes, simulation '
            'seed %d elsewhere], injected error); all are non-trivial (at least one boundary changed)' % (maxlen, seed)))
    except pl.Machinery as e:
        print('MACHINERY FAILURE C14: %s' % e)
        return 2
