"""C04 driver: decode every TLC-generated re-serialisation with the real BER decoder and record
what it did.  No TLV is built, parsed or compared here.

Inputs
  --cases     the TypeGen cases (env, top, vals, cid) or raw fixture cases
              ({cid, raw:[octets], recipe, type, codec}: fx_meta.ndjson of record_fixtures.py) the variants were generated from
  --variants  the ndjson written by spec/TlvRewrite.tla: {cid, vi, b:[octets], d:[node descriptions]}

Output, one line per case:
  typed   {cid, env, top, vals, obs:[{vi, codec, ne, ctl:<outcome of the unrewritten octets>,
                                      same:<number of variants whose outcome is identical to ctl>,
                                      diff:[{b, d, dec:<outcome>}]}]}
  raw     {cid, raw, type, obs:[{vi:1, codec, ne, ctl, same, diff:[{b, d, dec, eq:<python == with ctl value>}]}]}
Outcomes as in drive_codec.py.  Grouping identical outcomes is a recording economy only: the
verdict on the control outcome is computed by TLC and holds for every variant with that outcome.
"""
import json
import os
import re
import sys

HERE = os.path.dirname(os.path.abspath(__file__))
sys.path.insert(0, HERE)
REPO = os.environ.get('VERIF_REPO', '/repo')
sys.path.insert(0, REPO)

import render  # noqa: E402
import values  # noqa: E402
from drive_codec import guarded, dec_outcome  # noqa: E402

CODEC = 'ber'
CID_RE = re.compile(r'"cid":"([^"]+)"')


def load_variants(path, wanted):
    """cid -> vi -> list of variant records, only for the wanted cids."""
    out = {}
    with open(path) as f:
        for line in f:
            if not line.strip():
                continue
            m = CID_RE.search(line)
            if not m:
                raise SystemExit('unexpected variant line: %r' % line[:80])
            cid = m.group(1)
            if cid not in wanted:
                continue
            r = json.loads(line)
            out.setdefault(cid, {}).setdefault(r['vi'], []).append(r)
    return out


def shape_of(d):
    """a readable signature of a rewrite description (for coverage accounting only)"""
    parts = sorted('%s:%s%s%s' % (x['k'], x['lf'], ':seg%d' % x['sd'] if x['sg'] >= 0 else '',
                                  ':perm' if x['ord'] else '') for x in d)
    return '+'.join(parts)


def strip_outcome(o):
    return {k: v for k, v in o.items() if k != 'r'}


def run_batch(batch, variants, out):
    import asn1tools
    env0 = batch[0]['env']
    types = {}
    for c in batch:
        mapping = {n: 'C%dx%s' % (c['bi'], n) for n in c['env']['types']}
        c['map'] = mapping
        for n, T in c['env']['types'].items():
            types[mapping[n]] = render.rename(T, mapping)
    menv = {'tagdef': env0['tagdef'], 'extimp': env0.get('extimp', False), 'types': types}
    text = render.render_module('M', menv)
    o = guarded(lambda: asn1tools.compile_string(text, CODEC))
    if o['st'] != 'ok':
        if len(batch) > 1:
            for c in batch:
                run_batch([c], variants, out)
            return
        c = batch[0]
        o.pop('r', None)
        out.write(json.dumps({'cid': c['cid'], 'env': c['env'], 'top': c['top'], 'vals': c['vals'],
                              'obs': [{'vi': 0, 'codec': CODEC, 'ne': False, 'compile': o}]}) + '\n')
        return
    spec = o['r']
    for c in batch:
        env, top = c['env'], c['env']['types'][c['top']]
        name = c['map'][c['top']]
        obs = []
        vals = list(c['vals'])
        # derived start values (TlvRewrite!ExtraVals) arrive with their unrewritten variant
        for vi in sorted(variants.get(c['cid'], {})):
            for v in variants[c['cid']][vi]:
                if 'xv' in v and vi == len(vals) + 1:
                    vals.append(v['xv'])
        for vi in sorted(variants.get(c['cid'], {})):
            vs = variants[c['cid']][vi]
            ctl = [v for v in vs if not v['d']]
            rec = {'vi': vi, 'codec': CODEC, 'ne': False, 'same': 0, 'diff': []}
            if vi > len(vals):
                rec['machinery'] = 'variant of value %d, but only %d values are known' % (vi, len(vals))
                obs.append(rec)
                continue
            # (a permutation applied twice gives the unrewritten tree again: same octets)
            if not ctl or any(v['b'] != ctl[0]['b'] for v in ctl):
                rec['machinery'] = 'expected one unrewritten variant, got %d' % len(ctl)
                obs.append(rec)
                continue
            data = bytes(ctl[0]['b'])
            rec['ctl'] = dec_outcome(guarded(lambda: spec.decode(name, data)), env, top, False)
            seen = set()
            rec['shapes'] = {}
            for v in vs:
                if not v['d']:
                    continue
                data = bytes(v['b'])
                if data in seen:
                    continue
                seen.add(data)
                sh = shape_of(v['d'])
                rec['shapes'][sh] = rec['shapes'].get(sh, 0) + 1
                d = dec_outcome(guarded(lambda: spec.decode(name, data)), env, top, False)
                if d == rec['ctl']:
                    rec['same'] += 1
                else:
                    rec['diff'].append({'b': v['b'], 'd': v['d'], 'dec': d})
            obs.append(rec)
        out.write(json.dumps({'cid': c['cid'], 'env': env, 'top': c['top'], 'vals': vals, 'obs': obs}) + '\n')


_specs = {}


def fixture_spec(recipe):
    """the Specification a recorded test call was made on, rebuilt from its recipe (record_fixtures.py)"""
    import asn1tools
    key = json.dumps(recipe, sort_keys=True)
    if key not in _specs:
        kw = dict(recipe.get('kw', {}))
        if recipe['kind'] == 'files':
            fn = lambda: asn1tools.compile_files([os.path.join(REPO, f) for f in recipe['files']], 'ber', **kw)  # noqa
        elif recipe['kind'] == 'string':
            fn = lambda: asn1tools.compile_string(recipe['text'], 'ber', **kw)  # noqa
        else:
            import pickle
            with open(recipe['pickle'], 'rb') as f:
                d = pickle.load(f)
            fn = lambda: asn1tools.compile_dict(d, 'ber', **kw)  # noqa
        _specs[key] = guarded(fn)
    return _specs[key]


def py_repr(x):
    return repr(x)[:400]


def run_raw(c, variants, out):
    """Fixture encodings: the decoded Python value of every variant must equal (==) the value
    decoded from the recorded octets; equal / different is recorded, TLC judges."""
    codec = c.get('codec', CODEC)
    so = fixture_spec(c['recipe'])
    base = {'cid': c['cid'], 'raw': c['raw'], 'type': c['type'], 'source': c.get('source', '')}
    if so['st'] != 'ok':
        base['obs'] = [{'vi': 0, 'codec': codec, 'ne': False, 'compile': strip_outcome(so)}]
        out.write(json.dumps(base) + '\n')
        return
    spec = so['r']
    vs = variants.get(c['cid'], {}).get(1, [])
    rec = {'vi': 1, 'codec': codec, 'ne': False, 'same': 0, 'diff': []}
    data0 = bytes(c['raw'])
    co = guarded(lambda: spec.decode(c['type'], data0))
    cval = co.pop('r', None)
    if co['st'] == 'ok':
        co['repr'] = py_repr(cval)
    rec['ctl'] = co
    seen = set()
    rec['shapes'] = {}
    for v in vs:
        if not v['d']:
            continue
        data = bytes(v['b'])
        if data in seen:
            continue
        seen.add(data)
        sh = shape_of(v['d'])
        rec['shapes'][sh] = rec['shapes'].get(sh, 0) + 1
        do = guarded(lambda: spec.decode(c['type'], data))
        dval = do.pop('r', None)
        if do['st'] == 'ok' and co['st'] == 'ok':
            eq = guarded(lambda: bool(dval == cval) or repr(dval) == repr(cval))
            same = eq['st'] == 'ok' and eq['r']
        else:
            same = False
        if same:
            rec['same'] += 1
        else:
            if do['st'] == 'ok':
                do['repr'] = py_repr(dval)
            rec['diff'].append({'b': v['b'], 'd': v['d'], 'dec': do, 'eq': False})
    base['obs'] = [rec]
    out.write(json.dumps(base) + '\n')


def main():
    import argparse
    ap = argparse.ArgumentParser()
    ap.add_argument('--cases', required=True)
    ap.add_argument('--variants', required=True)
    ap.add_argument('--out', required=True)
    ap.add_argument('--batch', type=int, default=40)
    ap.add_argument('--shard', default='0/1')
    a = ap.parse_args()
    k, n = [int(x) for x in a.shard.split('/')]
    groups, raws = {}, []
    with open(a.cases) as f:
        for idx, line in enumerate(f):
            if not line.strip():
                continue
            c = json.loads(line)
            if 'raw' in c:
                raws.append(c)
                continue
            key = (c['env']['tagdef'], c['env'].get('extimp', False))
            groups.setdefault(key, []).append(c)
    batches = []
    for key in sorted(groups):
        g = groups[key]
        for i in range(0, len(g), a.batch):
            batches.append(g[i:i + a.batch])
    mine = [b for bi, b in enumerate(batches) if bi % n == k]
    myraws = [c for i, c in enumerate(raws) if i % n == k]
    wanted = {c['cid'] for b in mine for c in b} | {c['cid'] for c in myraws}
    variants = load_variants(a.variants, wanted)
    sys.setrecursionlimit(3000)
    with open(a.out, 'w') as out:
        for b in mine:
            for j, c in enumerate(b):
                c['bi'] = j
            run_batch(b, variants, out)
        for c in myraws:
            run_raw(c, variants, out)


if __name__ == '__main__':
    main()
