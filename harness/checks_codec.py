"""Checks of the wire-format family (C01, C03, C05, C06, C16): TypeGen behaviours replayed into
the real codecs, recorded, and judged by Trace_Codec."""
import hashlib
import json
import os

import pipeline as pl

TYPEGEN_MODS = ['BigInt.tla', 'Bits.tla', 'Asn1Type.tla', 'Asn1Value.tla', 'TypeGen.tla']


def typegen_cfg(max_depth, rich, tagdefs, extra_inv=True, big=False):
    return ('SPECIFICATION Spec\nCONSTANTS\n  Big = %s\n  MaxDepth = %d\n  Rich = %s\n  TagDefs = {%s}\n'
            'INVARIANT Emit\n%sCHECK_DEADLOCK FALSE\n' % (
                'TRUE' if big else 'FALSE', max_depth, 'TRUE' if rich else 'FALSE', ', '.join('"%s"' % t for t in tagdefs),
                'INVARIANT ValuesAdmitted\n' if extra_inv else ''))


def generate_cases(run, tier, big=True):
    """Binding A universe: BFS over TypeGen + simulation for deeper nestings."""
    if tier == 'big':
        bfs = [(0, False, ['E'], True)]
        sim = None
    elif tier == 'dev':
        bfs = [(0, True, ['E'])]
        sim = None
    elif tier == 'dev1':
        bfs = [(1, False, ['A', 'I'])]
        sim = None
    elif tier == 'quick':
        bfs = [(1, False, ['A'], True), (0, True, ['E', 'I'])]
        sim = ('num=50', 3, ['I', 'E'])
    else:
        # (depth 2 over three tag defaults: 20 000 types with their value tables; the 16 driver processes, each holding its
        # share of the cases, were killed by the kernel for lack of memory)
        # (big payloads - a minute of TLC each in validation - under one tag default only)
        # (a depth-2 BFS - 7 000 types, 49 000 trace lines - was still in trace validation after 35 minutes: nestings deeper
        # than 1 come from the simulation below)
        bfs = [(1, False, ['E', 'I', 'A']), (1, True, ['E'], True), (1, True, ['I', 'A'])]
        sim = ('num=60', 6, ['E', 'I', 'A'])       # per TLC worker (4 workers); 4 x 250 behaviours gave 320 MB of cases
    cases = []
    big_ok = big
    for n, b in enumerate(bfs):
        d, rich, tds = b[:3]
        big = big_ok and len(b) > 3 and b[3]
        out, res = pl.tlc_generate(run, 'TypeGen', typegen_cfg(d, rich, tds, big=big), 'gen%d.ndjson' % n,
                                   workers=8, what='TypeGen BFS depth<=%d rich=%s tagdefs=%s' % (d, rich, tds))
        cases += pl.dedup_cases(out, 'g%d' % n)
    if sim:
        out, res = pl.tlc_generate(run, 'TypeGen', typegen_cfg(sim[1], True, sim[2]), 'gensim.ndjson',
                                   workers=1 if tier == 'quick' else 4, timeout=3000,
                                   simulate=sim[0], depth=sim[1] + 1,
                                   what='TypeGen simulate %s depth %d' % (sim[0], sim[1]))
        cases += pl.dedup_cases(out, 's')
    # dedup across runs by content
    seen, uniq = set(), []
    for c in cases:
        h = hashlib.sha1(json.dumps([c['env'], c['vals']], sort_keys=True).encode()).hexdigest()
        if h not in seen:
            seen.add(h)
            uniq.append(c)
    return uniq


def model_check(run, tier, invariants):
    """(M) properties of the rules themselves over TypeGen's universe, no implementation involved."""
    d, rich, tds = {'dev': (0, False, ['E']), 'dev1': (0, False, ['E']), 'big': (0, False, ['E']),
                    'quick': (1, False, ['I'])}.get(tier, (1, True, ['E', 'A']))
    cfg = ('SPECIFICATION Spec\nCONSTANTS\n  Big = FALSE\n  MaxDepth = %d\n  Rich = %s\n  TagDefs = {%s}\n%sCHECK_DEADLOCK FALSE\n'
           % (d, 'TRUE' if rich else 'FALSE', ', '.join('"%s"' % t for t in tds),
              ''.join('INVARIANT %s\n' % i for i in invariants)))
    res = pl.tlc.run_tlc('ModelProps', cfg, workers=8, timeout=3000, heap='6g')
    if not res['ok']:
        if 'is violated' in res['out']:
            # a property of the specification itself fails: the model is wrong, not the code
            raise pl.Machinery('model property violated:\n' + pl.tlc.error_context(res['out']))
        raise pl.Machinery('TLC failed on ModelProps:\n' + pl.tlc.error_context(res['out']))
    run.account(res, 'ModelProps %s depth<=%d' % (','.join(invariants), d))
    run.notes['model_invariants'] = invariants


def witness_cases(prop):
    out = []
    for e in pl.load_findings(prop):
        w = e.get('witness')
        if isinstance(w, dict) and 'env' in w:
            c = dict(w)
            c['cid'] = 'w-' + e['id']
            out.append(c)
    return out


def codec_check(prop, tier, seed, codecs, checks, ops, numerics='0,1', rule=None, fixtures=None, model=None, big=('big', 'thorough')):
    run = pl.Run(prop, tier, seed)
    try:
        if model:
            model_check(run, tier, model)
        cases = generate_cases(run, tier, big=tier in big) + witness_cases(prop)
        cpath = run.path('cases.ndjson')
        pl.write_cases(cases, cpath)
        shards = pl.drive(run, 'drive_codec.py', cpath, 'trace',
                          ['--codecs', ','.join(codecs), '--ops', ','.join(ops), '--numerics', numerics])
        if fixtures and tier in fixtures:
            files, kexpr = fixtures[tier]
            shards = shards + pl.observe_tests(run, files, kexpr)
        cfg = ('SPECIFICATION Spec\nCONSTANT Checks = {%s}\nPOSTCONDITION TraceAccepted\nCHECK_DEADLOCK FALSE\n'
               % ', '.join('"%s"' % c for c in checks))
        shards = pl.rebalance(run, shards)
        reports = pl.validate(run, 'Trace_Codec', cfg, shards, what='Trace_Codec %s' % ','.join(checks))
        idx = pl.load_trace_index(shards)
        pl.classify(run, reports, idx, prop)
        # coverage accounting from the recorded trace
        for cid, line in idx.items():
            th = hashlib.sha1(json.dumps(line['env'], sort_keys=True).encode()).hexdigest()[:10]
            for o in line['obs']:
                enc = o.get('enc', {})
                if enc.get('st') == 'ok' and len(enc['b']) >= 1:
                    run.signatures.add((th, o['vi'], o['codec'], o['ne']))
            if len(run.samples) < 4 and line['obs']:
                o = line['obs'][min(len(line['obs']) - 1, 3)]
                run.samples.append({'cid': cid, 'asn1_top': line['env']['types'][line['top']],
                                    'value': line['vals'][o['vi'] - 1] if o.get('vi') else None,
                                    'codec': o['codec'], 'numeric_enums': o['ne'],
                                    'encoded': enc_hex(o)})
        run.notes['cases'] = len(cases)
        run.notes['codecs'] = codecs
        run.assumptions = [
            'TLC and SANY are correct; the transcription of the standard clauses in spec/*.tla is faithful',
            'harness/render.py renders descriptors to the ASN.1 notation they denote; harness/values.py converts shapes only',
        ]
        return pl.finish(run, rule=rule or (
            'cases are TypeGen states (BFS + simulation, seed %d); an observation is one (type, value, codec, '
            'numeric_enums) tuple; it counts as distinct non-trivial when the tuple is new and the encoder produced '
            'at least one octet' % seed))
    except pl.Machinery as e:
        print('MACHINERY FAILURE %s: %s' % (prop, e))
        return 2


def enc_hex(o):
    e = o.get('enc', {})
    return bytes(e['b']).hex() if e.get('st') == 'ok' else e
