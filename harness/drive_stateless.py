"""C18 driver: one compiled specification used by many calls and threads.

Two modes (both started through pipeline.drive, so both take --cases --out --shard):

  --mode table   --cases <modules.ndjson>    for every (module, codec) of this shard build the
                 operation table (encode of valid / invalid values, decode of valid / truncated /
                 corrupted encodings) and measure Solo[op]: the canonical result of the call made
                 ALONE on a FRESHLY COMPILED specification.  One line per table.
  --mode run     --cases <schedules.ndjson> --tables <tables.ndjson>
                 replay TLC's schedules (Stateless.tla, Mech = "Table") on ONE compiled object:
                 (i) sequentially, (ii) on n real threads with sys.setswitchinterval jitter.
                 One line per schedule execution, judged by Trace_Stateless.tla.

Nothing in here decides the property.  The driver records
  inv / ret events          per-thread sequence numbers, canonical result strings
  graph_write events        tripwires installed from outside after compile: every instance of an
                            asn1tools class reachable from the Specification gets a subclass whose
                            __setattr__/__delattr__ record (class, attr); every list / dict / set it
                            holds is replaced by a recording twin (append, __setitem__, ...)
  arg_mutated events        canonical form of the argument object before / after the call
  fp                        structural fingerprint of the compiled graph (and of the class / module
                            level state of asn1tools.codecs) before / after the run: changed paths
  alias                     two decodes of the same bytes sharing a mutable object with each other or
                            with the graph; the driver mutates it, decodes again, and reports whether
                            the later result changed (default_aliased)

Fresh compile for Solo: asn1tools.compile_string(text, codec) is literally
compile_dict(parse_string(text), codec); the text is parsed once per process and every Solo
measurement compiles a deepcopy of the parse result, so no compiled object and no mutable input of
the compiler is shared between two measurements (parsing costs 0.3 s, compiling 5 ms).  The first
operation of every table is also measured through compile_string itself and must agree.
"""
import copy
import json
import os
import random
import re
import signal
import sys
import threading
import time
import types

HERE = os.path.dirname(os.path.abspath(__file__))
sys.path.insert(0, HERE)
REPO = os.environ.get('VERIF_REPO', '/repo')
sys.path.insert(0, REPO)

import render  # noqa: E402
import values  # noqa: E402

CALL_TIMEOUT = int(os.environ.get('VERIF_CALL_TIMEOUT', '3'))
SLOW_OP = 0.25           # operations needing more CPU seconds than this alone are left out of the tables
TEXT_CODECS = ('jer', 'xer', 'gser')
ALL_CODECS = ['ber', 'der', 'per', 'uper', 'oer', 'jer', 'xer', 'gser']
SENTINEL = '#c18-sentinel#'


# ----------------------------------------------------------------------------------------
# the fixed module: recursive types, types sharing referenced sub-types (with member-level
# DEFAULT / OPTIONAL / SIZE, i.e. shallow copies of the shared compiled type), structured DEFAULTs
# through references, CHOICE, SET, SET OF, extension additions and addition groups

TEMPLATE = '''
C18 DEFINITIONS %(tagdef)s TAGS ::= BEGIN

Label ::= IA5String (SIZE (1..8))
Flags ::= BIT STRING { urgent(0), ack(1), fin(2) } (SIZE (1..8))
Blob ::= OCTET STRING (SIZE (0..6))
Colour ::= ENUMERATED { red(0), green(1), blue(2), ..., violet(7) }
Coord ::= SEQUENCE {
  x @0 INTEGER (0..1023),
  y @1 INTEGER (-512..511) DEFAULT 7,
  tag @2 Label OPTIONAL
}
Items ::= SEQUENCE (SIZE (0..4)) OF Coord
Nums ::= SET (SIZE (0..5)) OF INTEGER (0..255)

Msg ::= SEQUENCE {
  id @0 INTEGER (0..65535),
  pos @1 Coord,
  items @2 Items DEFAULT {},
  nums @3 Nums DEFAULT {},
  flags @4 Flags DEFAULT {urgent, fin},
  raw @5 Flags DEFAULT '101'B,
  blob @6 Blob DEFAULT 'CAFE'H,
  col @7 Colour DEFAULT green,
  ok @8 BOOLEAN DEFAULT TRUE,
  ...,
  ext1 @9 INTEGER (0..7) OPTIONAL,
  [[ g1 @10 Coord,
     g2 @11 BOOLEAN OPTIONAL ]]
}
Rpt ::= SEQUENCE {
  pos @0 Coord,
  second @1 Coord OPTIONAL,
  items @2 Items,
  col @3 Colour
}
Pick ::= CHOICE {
  c @0 Coord,
  n @1 INTEGER (0..255),
  l @2 Label,
  m @3 Msg,
  ...,
  e @4 BOOLEAN
}
Picks ::= SET (SIZE (0..3)) OF Pick
Bag ::= SET {
  a @0 INTEGER (0..100),
  b @1 BOOLEAN DEFAULT FALSE,
  c @2 Label OPTIONAL
}
Tree ::= SEQUENCE {
  v @0 INTEGER (0..255),
  kids @1 SEQUENCE (SIZE (0..3)) OF Tree DEFAULT {}
}
Expr ::= CHOICE {
  lit @0 INTEGER (-128..127),
  neg @1 Expr,
  add @2 SEQUENCE { l @0 Expr, r @1 Expr }
}
Chain ::= SEQUENCE {
  head @0 Coord,
  tail @1 Chain OPTIONAL
}
Oid ::= OBJECT IDENTIFIER
Num ::= REAL
Txt ::= UTF8String (SIZE (0..40))
Misc ::= SEQUENCE {
  o @0 Oid,
  o2 @1 Oid OPTIONAL,
  r @2 Num OPTIONAL,
  t @3 Txt DEFAULT "x",
  n @4 NULL OPTIONAL,
  big @5 INTEGER,
  os @6 OCTET STRING OPTIONAL
}
END
'''


def fixed_text(variant):
    if variant == 'A':
        return re.sub(r'@\d+ ', '', TEMPLATE) % {'tagdef': 'AUTOMATIC'}
    return re.sub(r'@(\d+) ', r'[\1] ', TEMPLATE) % {'tagdef': {'E': 'EXPLICIT', 'I': 'IMPLICIT'}[variant]}


C1 = {'x': 1}
C2 = {'x': 1023, 'y': -512, 'tag': 'corner'}
C3 = {'x': 5, 'y': 7}
MSG1 = {'id': 5, 'pos': C1}
MSG2 = {'id': 65535, 'pos': C2, 'items': [C1, C2], 'nums': [3, 1, 2], 'flags': (b'\x40', 2),
        'raw': (b'\xff', 8), 'blob': b'\x00\x01\x02', 'col': 'blue', 'ok': False,
        'ext1': 7, 'g1': C3, 'g2': True}
MSG3 = {'id': 0, 'pos': C3, 'items': [], 'nums': [], 'flags': (b'\xa0', 3), 'raw': (b'\xa0', 3),
        'blob': b'\xca\xfe', 'col': 'green', 'ok': True}          # every DEFAULT given explicitly
MSG4 = {'id': 300, 'pos': C1, 'items': [C3], 'col': 'violet', 'g1': C1}

FIXED_VALID = {
    'Label': ['a', 'eightchr'],
    'Flags': [(b'\x80', 1), (b'\xe0', 3)],
    'Blob': [b'', b'\x01\x02\x03\x04\x05\x06'],
    'Colour': ['red', 'violet'],
    'Coord': [C1, C2, C3],
    'Items': [[], [C1], [C1, C2, C3, C1]],
    'Nums': [[], [9, 1, 255, 0]],
    'Msg': [MSG1, MSG2, MSG3, MSG4],
    'Rpt': [{'pos': C1, 'items': [], 'col': 'red'},
            {'pos': C2, 'second': C3, 'items': [C1, C2], 'col': 'blue'}],
    'Pick': [('c', C2), ('n', 200), ('l', 'hey'), ('m', MSG1), ('m', MSG2), ('e', True)],
    'Picks': [[], [('n', 3), ('c', C1), ('e', False)]],
    'Bag': [{'a': 3}, {'a': 100, 'b': True, 'c': 'bag'}],
    'Tree': [{'v': 1}, {'v': 1, 'kids': [{'v': 2}, {'v': 3, 'kids': [{'v': 4}, {'v': 5, 'kids': []}]}]}],
    'Expr': [('lit', -128), ('neg', ('neg', ('lit', 5))),
             ('add', {'l': ('lit', 1), 'r': ('add', {'l': ('neg', ('lit', 2)), 'r': ('lit', 3)})})],
    'Chain': [{'head': C1}, {'head': C1, 'tail': {'head': C2, 'tail': {'head': C3}}}],
    # primitive kinds whose codecs share helper functions across types and codecs (OID sub-identifiers, REAL, UTF-8)
    'Oid': ['2.999.1', '2.999.1.5', '1.2.840.113549', '2.999.1', '0.39.16384.3', '1.3.1079.2'],
    'Num': [0.5, -1.0e10, 0.0, 1.0e-7],
    'Txt': ['', 'h\u00e9llo \u20ac', 'x'],
    'Misc': [{'o': '2.999.1', 'big': 0},
             {'o': '1.3.1079.7', 'o2': '2.999.1.9', 'r': 2.5, 't': 'gr\u00fc\u00df', 'n': None, 'big': -(2 ** 70), 'os': b'\x00' * 200},
             {'o': '2.999.1', 'o2': '2.999.1', 'big': 2 ** 64, 'os': b''}],
}

# invalid values: wrong Python type, constraint violations, unknown choice / enumeration item,
# missing mandatory member, failure deep inside a recursive value or a shared sub-type
FIXED_INVALID = {
    'Label': [7, 'toolongstring', ''],
    'Flags': [b'\x80', (b'\x80', 9)],
    'Colour': ['pink', 3],
    'Coord': [{'y': 1}, {'x': 'one'}, {'x': 5000}, [1, 2], {'x': 1, 'tag': 5}],
    'Items': [[C1] * 5, [C1, {'x': None}], {'x': 1}],
    'Nums': [[1, 256], [1, 'b'], 5],
    'Msg': [{'id': 1}, dict(MSG2, id=70000), dict(MSG2, col='pink'), dict(MSG2, items=[C1, {'y': 2}]),
            dict(MSG2, g1={'x': -1}), dict(MSG1, blob='text'), dict(MSG1, nums=[300]), 'Msg', None,
            dict(MSG1, flags=(b'\xa0',))],
    'Rpt': [{'pos': C1, 'items': [], 'col': 'none'}, {'pos': C1, 'col': 'red'}],
    'Pick': [('zzz', 1), ('n', 256), ('c', {'x': 'q'}), 'n', ('m', {'id': 1}), ('n',)],
    'Picks': [[('n', 1), ('bad', 2)], [('n', 1)] * 4],
    'Bag': [{'b': True}, {'a': 101}, {'a': 1, 'c': b'x'}],
    'Tree': [{'v': 1, 'kids': [{'v': 2, 'kids': [{'v': 256}]}]}, {'v': 1, 'kids': [{'kids': []}]},
             {'v': 1, 'kids': 7}],
    'Expr': [('neg', ('neg', ('nope', 5))), ('add', {'l': ('lit', 1)}), ('lit', 1000), ('neg', None)],
    'Chain': [{'head': C1, 'tail': {'tail': {'head': C1}}}, {'head': C1, 'tail': {'head': {'x': 'x'}}}],
    'Oid': [5, '1'],
    'Misc': [{'o': '2.999.1'}, {'o': 7, 'big': 1}, {'o': '2.999.1', 'big': 1, 't': 'y' * 41}],
}


# ----------------------------------------------------------------------------------------
# Python value <-> JSON (tables are files)

def pj(v):
    if v is None:
        return {'t': 'none'}
    if isinstance(v, bool):
        return {'t': 'bool', 'v': v}
    if isinstance(v, int):
        return {'t': 'int', 'v': str(v)}
    if isinstance(v, float):
        return {'t': 'float', 'v': v.hex() if v == v and v not in (float('inf'), float('-inf')) else repr(v)}
    if isinstance(v, str):
        return {'t': 'str', 'v': v}
    if isinstance(v, bytes):
        return {'t': 'bytes', 'v': v.hex()}
    if isinstance(v, bytearray):
        return {'t': 'bytearray', 'v': bytes(v).hex()}
    if isinstance(v, tuple):
        return {'t': 'tuple', 'v': [pj(x) for x in v]}
    if isinstance(v, list):
        return {'t': 'list', 'v': [pj(x) for x in v]}
    if isinstance(v, dict):
        return {'t': 'dict', 'v': [[pj(k), pj(x)] for k, x in v.items()]}
    raise ValueError('cannot store %r' % (v,))


def unpj(j):
    t = j['t']
    if t == 'none':
        return None
    if t in ('bool', 'str'):
        return j['v']
    if t == 'int':
        return int(j['v'])
    if t == 'float':
        s = j['v']
        return float.fromhex(s) if 'x' in s else float(s)
    if t == 'bytes':
        return bytes.fromhex(j['v'])
    if t == 'bytearray':
        return bytearray.fromhex(j['v'])
    if t == 'tuple':
        return tuple(unpj(x) for x in j['v'])
    if t == 'list':
        return [unpj(x) for x in j['v']]
    if t == 'dict':
        return {unpj(k): unpj(x) for k, x in j['v']}
    raise ValueError(t)


# ----------------------------------------------------------------------------------------
# canonical strings

ADDR = re.compile(r'0x[0-9a-fA-F]{6,}')


def canon_value(v, sort_keys=True):
    """Deterministic text of a Python value, types included.  Dictionaries compare as
    dictionaries (keys sorted) for results; arguments use insertion order (sort_keys=False)."""
    if v is None or isinstance(v, (bool, int, str)):
        return repr(v)
    if isinstance(v, float):
        return 'f' + repr(v)
    if isinstance(v, bytes):
        return "b'" + v.hex() + "'"
    if isinstance(v, bytearray):
        return "ba'" + bytes(v).hex() + "'"
    if isinstance(v, tuple):
        return '(' + ','.join(canon_value(x, sort_keys) for x in v) + ')'
    if isinstance(v, list):
        return '[' + ','.join(canon_value(x, sort_keys) for x in v) + ']'
    if isinstance(v, (set, frozenset)):
        return 'set{' + ','.join(sorted(canon_value(x, sort_keys) for x in v)) + '}'
    if isinstance(v, dict):
        items = [(canon_value(k, sort_keys), canon_value(x, sort_keys)) for k, x in v.items()]
        if sort_keys:
            items.sort()
        return '{' + ','.join(k + ':' + x for k, x in items) + '}'
    return '<%s %s>' % (type(v).__name__, ADDR.sub('0xADDR', repr(v))[:80])


def canon_exc(e):
    c = type(e)
    return ('exc:%s.%s:%s' % (c.__module__, c.__qualname__, ADDR.sub('0xADDR', str(e))))[:400]


class CallTimeout(BaseException):
    pass


def _alarm(signum, frame):
    raise CallTimeout()


def perform(spec, op, arg, use_alarm):
    """One public call; returns (canonical result string, raw result or None)."""
    if use_alarm:        # CPU-time budget (not wall clock: a loaded machine must not look like a hang)
        signal.signal(signal.SIGVTALRM, _alarm)
        signal.setitimer(signal.ITIMER_VIRTUAL, CALL_TIMEOUT)
    try:
        if op['kind'] == 'encode':
            r = spec.encode(op['type'], arg, check_types=op['ct'], check_constraints=op['cc'])
            if not isinstance(r, (bytes, bytearray)):
                return 'bad:encode returned ' + type(r).__name__, None
            return 'ok:' + bytes(r).hex(), r
        r = spec.decode(op['type'], arg, check_constraints=op['cc'])
        return 'ok:' + canon_value(r), r
    except CallTimeout:
        return 'timeout', None
    except RecursionError:
        return 'exc:builtins.RecursionError:', None
    except MemoryError:
        return 'exc:builtins.MemoryError:', None
    except BaseException as e:  # noqa
        return canon_exc(e), None
    finally:
        if use_alarm:
            signal.setitimer(signal.ITIMER_VIRTUAL, 0)


def op_arg(op):
    """A fresh argument object for one invocation."""
    if op['kind'] == 'decode':
        return bytes.fromhex(op['data'])
    return unpj(op['value'])


# ----------------------------------------------------------------------------------------
# fresh compiles

_PARSED = {}


def fresh_compile(text, codec, via_string=False):
    import asn1tools
    if via_string:
        return asn1tools.compile_string(text, codec)
    if text not in _PARSED:
        _PARSED[text] = asn1tools.parse_string(text)
    return asn1tools.compile_dict(copy.deepcopy(_PARSED[text]), codec)


# ----------------------------------------------------------------------------------------
# table construction

def cut_points(n):
    return sorted({0, 1, n // 2, n - 1} & set(range(0, n)))


def corruptions(data):
    out = []
    n = len(data)
    for p in sorted({0, 1, n // 2, n - 1} & set(range(n))):
        b = bytearray(data)
        b[p] ^= 0xff
        out.append(bytes(b))
        b = bytearray(data)
        b[p] ^= 0x01
        out.append(bytes(b))
    out.append(data + b'\x00')
    out.append(data + data[:2])
    return out


def wrong_type(v):
    """A value of another Python type (for modules that come without hand-written invalid values)."""
    if isinstance(v, dict):
        return [v]
    if isinstance(v, list):
        return {'list': v}
    if isinstance(v, tuple):
        return list(v)
    if isinstance(v, bool):
        return 'TRUE'
    if isinstance(v, int):
        return str(v)
    if isinstance(v, (bytes, bytearray)):
        return 5
    if isinstance(v, str):
        return 5
    if isinstance(v, float):
        return 'real'
    return 5


def damage(v):
    """A structurally similar value with one wrong leaf deep inside (container values only)."""
    if isinstance(v, dict) and v:
        k = sorted(v, key=str)[-1]
        d = dict(v)
        d[k] = damage(v[k]) if isinstance(v[k], (dict, list, tuple)) and v[k] else wrong_type(v[k])
        return d
    if isinstance(v, list) and v:
        return v[:-1] + [damage(v[-1]) if isinstance(v[-1], (dict, list, tuple)) and v[-1] else wrong_type(v[-1])]
    if isinstance(v, tuple) and len(v) == 2 and isinstance(v[0], str):
        return ('no-such-alternative', v[1])
    return wrong_type(v)


def module_values(mod):
    """type name -> (valid values, invalid values) of a module description."""
    if mod['src'] == 'fixed':
        return {t: (FIXED_VALID[t], FIXED_INVALID.get(t, [])) for t in FIXED_VALID}
    out = {}
    env = mod['env']
    for name, vals in mod['vals'].items():
        valid = []
        for v in vals:
            try:
                valid.append(values.to_py(env, env['types'][name], v, False))
            except Exception:
                pass
        invalid = []
        for v in valid[:3]:
            invalid.append(wrong_type(v))
            if isinstance(v, (dict, list, tuple)) and v:
                invalid.append(damage(v))
        out[name] = (valid, invalid)
    return out


def build_table(mod, codec, max_ops):
    """Operation table of one (module, codec) with Solo measured on fresh compiles."""
    text = mod['text']
    cand = []          # candidate operations in a deterministic order

    def add(kind, tname, cls, **kw):
        op = {'kind': kind, 'type': tname, 'cls': cls, 'ct': True, 'cc': False}
        op.update(kw)
        cand.append(op)

    explicit = mod['src'] == 'ops'          # replay: the operations are given, only Solo is measured
    if explicit:
        for o in mod['ops']:
            op = {'kind': o['kind'], 'type': o['type'], 'cls': o['cls'], 'ct': o['ct'], 'cc': o['cc']}
            if o['kind'] == 'decode':
                op['data'] = o['input']
            else:
                op['value'] = json.loads(o['input'])
            cand.append(op)
    mv = {} if explicit else module_values(mod)
    encodings = []
    for tname in sorted(mv):
        valid, invalid = mv[tname]
        for vi, v in enumerate(valid):
            add('encode', tname, 'valid', value=pj(v), cc=(vi % 2 == 0))
        for vi, v in enumerate(invalid):
            add('encode', tname, 'invalid', value=pj(v), cc=(vi % 3 != 2), ct=(vi % 4 != 3))
    # measure the encode operations first: their results are the inputs of the decode operations
    table = []
    stats = {'dropped_timeout': 0, 'dropped_slow': 0, 'dropped_unstable': 0, 'compile_string_checked': 0}

    def measure(op):
        spec = fresh_compile(text, codec)
        t0 = time.process_time()
        r, raw = perform(spec, op, op_arg(op), True)
        dt = time.process_time() - t0
        if r == 'timeout' or r.startswith('exc:builtins.MemoryError') or r.startswith('exc:builtins.RecursionError'):
            stats['dropped_timeout'] += 1
            return None, None
        if dt > SLOW_OP:
            stats['dropped_slow'] += 1
            return None, None
        # the oracle itself must be a function: a second fresh compile gives the same answer
        r2, _ = perform(fresh_compile(text, codec), op, op_arg(op), True)
        if r2 != r:
            stats['dropped_unstable'] += 1
            return None, None
        return r, raw

    seen_data = set()
    for op in cand:
        r, raw = measure(op)
        if r is None:
            if explicit:                    # keep the numbering of a replayed execution
                op['solo'] = 'unmeasurable'
                table.append(op)
            continue
        op['solo'] = r
        table.append(op)
        if op['kind'] == 'encode' and op['cls'] == 'valid' and r.startswith('ok:') and codec != 'gser':
            data = bytes(raw)
            if (op['type'], data) not in seen_data:
                seen_data.add((op['type'], data))
                encodings.append((op['type'], data))
    if codec != 'gser' and not explicit:
        dec = []
        for k, (tname, data) in enumerate(encodings):
            dec.append({'kind': 'decode', 'type': tname, 'cls': 'valid', 'data': data.hex(), 'ct': True,
                        'cc': k % 2 == 1})
            for c in cut_points(len(data)):
                dec.append({'kind': 'decode', 'type': tname, 'cls': 'truncated', 'data': data[:c].hex(),
                            'ct': True, 'cc': False})
            if k % 2 == 0:
                for d in corruptions(data):
                    dec.append({'kind': 'decode', 'type': tname, 'cls': 'corrupted', 'data': d.hex(),
                                'ct': True, 'cc': k % 4 == 0})
        # the data of one type decoded as another type that shares its sub-types
        for (ta, da) in encodings[:6]:
            for (tb, _) in encodings[-3:]:
                if ta != tb:
                    dec.append({'kind': 'decode', 'type': tb, 'cls': 'corrupted', 'data': da.hex(),
                                'ct': True, 'cc': False})
        for op in dec:
            r, _ = measure(op)
            if r is None:
                continue
            op['solo'] = r
            table.append(op)
    # bound the table: keep a deterministic spread over classes
    if len(table) > max_ops and not explicit:
        rng = random.Random(len(table) * 7919 + len(text))
        by = {}
        for op in table:
            by.setdefault((op['kind'], op['cls']), []).append(op)
        keep = []
        share = max(1, max_ops // len(by))
        for k in sorted(by):
            ops = by[k]
            rng.shuffle(ops)
            keep += ops[:share]
        keep_ids = {id(o) for o in keep}
        rest = [o for o in table if id(o) not in keep_ids]
        rng.shuffle(rest)
        keep += rest[:max_ops - len(keep)]
        keep_ids = {id(o) for o in keep}
        table = [o for o in table if id(o) in keep_ids]
    if table:
        # compile_string itself gives the same oracle (machinery self-check)
        r, _ = perform(fresh_compile(text, codec, via_string=True), table[0], op_arg(table[0]), True)
        if r != table[0]['solo']:
            raise RuntimeError('compile_string and compile_dict(parse_string) disagree on %r' % (table[0],))
        stats['compile_string_checked'] = 1
    for i, op in enumerate(table, 1):
        op['id'] = i
    return table, stats


def mode_table(a, k, n):
    import asn1tools  # noqa
    with open(a.cases) as f:
        mods = [json.loads(l) for l in f if l.strip()]
    jobs = [(m, c) for m in mods for c in m['codecs']]
    with open(a.out, 'w') as out:
        for j, (mod, codec) in enumerate(jobs):
            if j % n != k:
                continue
            try:
                fresh_compile(mod['text'], codec)
            except BaseException as e:  # noqa -- outside "specifications the compiler accepts"
                out.write(json.dumps({'tid': '%s-%s' % (mod['mid'], codec), 'mid': mod['mid'], 'codec': codec,
                                      'nops': 0, 'ops': [], 'skipped': canon_exc(e)}) + '\n')
                continue
            table, stats = build_table(mod, codec, a.max_ops)
            out.write(json.dumps({'tid': '%s-%s' % (mod['mid'], codec), 'mid': mod['mid'], 'codec': codec,
                                  'text': mod['text'], 'nops': len(table), 'ops': table, 'stats': stats}) + '\n')


# ----------------------------------------------------------------------------------------
# tripwires and fingerprint

class Recorder(object):
    """Collects events of one schedule execution.  list.append is atomic under the GIL, so the
    list order is a global order consistent with every thread's own order."""

    def __init__(self):
        self.events = []
        self.armed = False
        self.quiet = threading.local()
        self.cur = threading.local()
        self.seq = {}
        self.written = {}          # (class, attr) -> count
        self.probe_hits = []

    def emit(self, t, ev, op=0, r='', obj='', attr=''):
        self.seq[t] = self.seq.get(t, 0) + 1
        self.events.append({'t': t, 'seq': self.seq[t], 'ev': ev, 'op': op, 'r': r, 'obj': obj, 'attr': attr})

    def write(self, obj, attr):
        if not self.armed:
            return
        if getattr(self.quiet, 'on', False):
            self.probe_hits.append('%s.%s' % (obj, attr))
            return
        key = (obj, attr)
        n = self.written.get(key, 0)
        self.written[key] = n + 1
        if n == 0:                           # first write to this (class, attr) of this execution
            t = getattr(self.cur, 't', 0)
            if t:
                self.emit(t, 'graph_write', getattr(self.cur, 'op', 0), '', obj, attr)
            else:
                self.events.append({'t': 0, 'seq': 0, 'ev': 'graph_write', 'op': 0, 'r': '', 'obj': obj, 'attr': attr})


REC = None          # the recorder of the running execution


def _rec(owner, what):
    if REC is not None:
        REC.write(owner, what)


class TripList(list):
    __slots__ = ('_c18_owner',)

    def _w(self, m):
        _rec(getattr(self, '_c18_owner', '?'), m)

    def append(self, x): self._w('append'); return list.append(self, x)           # noqa: E704
    def extend(self, x): self._w('extend'); return list.extend(self, x)           # noqa: E704
    def insert(self, i, x): self._w('insert'); return list.insert(self, i, x)     # noqa: E704
    def pop(self, *a): self._w('pop'); return list.pop(self, *a)                  # noqa: E704
    def remove(self, x): self._w('remove'); return list.remove(self, x)           # noqa: E704
    def clear(self): self._w('clear'); return list.clear(self)                    # noqa: E704
    def sort(self, **kw): self._w('sort'); return list.sort(self, **kw)           # noqa: E704
    def reverse(self): self._w('reverse'); return list.reverse(self)              # noqa: E704
    def __setitem__(self, i, x): self._w('__setitem__'); return list.__setitem__(self, i, x)   # noqa: E704
    def __delitem__(self, i): self._w('__delitem__'); return list.__delitem__(self, i)         # noqa: E704
    def __iadd__(self, x): self._w('__iadd__'); return list.__iadd__(self, x)     # noqa: E704
    def __imul__(self, x): self._w('__imul__'); return list.__imul__(self, x)     # noqa: E704
    def __copy__(self): return list(self)                                          # noqa: E704
    def __deepcopy__(self, memo): return [copy.deepcopy(x, memo) for x in self]    # noqa: E704
    def __reduce_ex__(self, proto): return (list, (list(self),))                   # noqa: E704


class TripDict(dict):
    __slots__ = ('_c18_owner',)

    def _w(self, m):
        _rec(getattr(self, '_c18_owner', '?'), m)

    def __setitem__(self, k, v): self._w('__setitem__'); return dict.__setitem__(self, k, v)   # noqa: E704
    def __delitem__(self, k): self._w('__delitem__'); return dict.__delitem__(self, k)         # noqa: E704
    def pop(self, *a): self._w('pop'); return dict.pop(self, *a)                  # noqa: E704
    def popitem(self): self._w('popitem'); return dict.popitem(self)              # noqa: E704
    def clear(self): self._w('clear'); return dict.clear(self)                    # noqa: E704
    def update(self, *a, **kw): self._w('update'); return dict.update(self, *a, **kw)          # noqa: E704
    def setdefault(self, k, d=None):                                               # noqa: E704
        if k not in self:
            self._w('setdefault')
        return dict.setdefault(self, k, d)
    def __ior__(self, x): self._w('__ior__'); return dict.__ior__(self, x)        # noqa: E704
    def __copy__(self): return dict(self)                                          # noqa: E704
    def __deepcopy__(self, memo): return {copy.deepcopy(k, memo): copy.deepcopy(v, memo) for k, v in self.items()}  # noqa
    def __reduce_ex__(self, proto): return (dict, (dict(self),))                   # noqa: E704


class TripSet(set):
    __slots__ = ('_c18_owner',)

    def _w(self, m):
        _rec(getattr(self, '_c18_owner', '?'), m)

    def add(self, x): self._w('add'); return set.add(self, x)                     # noqa: E704
    def discard(self, x): self._w('discard'); return set.discard(self, x)         # noqa: E704
    def remove(self, x): self._w('remove'); return set.remove(self, x)            # noqa: E704
    def pop(self): self._w('pop'); return set.pop(self)                           # noqa: E704
    def clear(self): self._w('clear'); return set.clear(self)                     # noqa: E704
    def update(self, *a): self._w('update'); return set.update(self, *a)          # noqa: E704
    def __ior__(self, x): self._w('__ior__'); return set.__ior__(self, x)         # noqa: E704
    def __copy__(self): return set(self)                                           # noqa: E704
    def __deepcopy__(self, memo): return {copy.deepcopy(x, memo) for x in self}    # noqa: E704
    def __reduce_ex__(self, proto): return (set, (set(self),))                     # noqa: E704


TWINS = {list: TripList, dict: TripDict, set: TripSet}
SIMPLE = (type(None), bool, int, float, str, bytes, complex, range, type(Ellipsis))
OPAQUE = (type, types.ModuleType, types.FunctionType, types.BuiltinFunctionType, types.MethodDescriptorType,
          types.WrapperDescriptorType, property, staticmethod, classmethod, re.Pattern)
_WIRED = {}


def qual(cls):
    return '%s.%s' % (cls.__module__.replace('asn1tools.', ''), cls.__qualname__)


def is_lib_instance(o):
    return type(o).__module__.startswith('asn1tools') and not isinstance(o, OPAQUE)


def wired_class(cls):
    """A subclass of cls (same name, same layout) whose attribute writes are recorded."""
    w = _WIRED.get(cls)
    if w is None:
        base_set, base_del = cls.__setattr__, cls.__delattr__
        name = qual(cls)

        def __setattr__(self, attr, value):
            _rec(name, attr)
            base_set(self, attr, value)

        def __delattr__(self, attr):
            _rec(name, 'del ' + attr)
            base_del(self, attr)

        w = type(cls.__name__, (cls,), {'__setattr__': __setattr__, '__delattr__': __delattr__,
                                        '__module__': cls.__module__, '__qualname__': cls.__qualname__,
                                        '_c18_wired': True})
        _WIRED[cls] = w
    return w


class Graph(object):
    """Everything reachable from a Specification: walk, tripwires, fingerprint."""

    def __init__(self, spec):
        self.spec = spec
        self.nwired = 0
        self.ncontainers = 0
        self.unwirable = []
        self.classes = set()

    def children(self, o):
        if isinstance(o, dict):
            for k, v in o.items():
                yield ('[%r]' % (k,))[:40], v
        elif isinstance(o, (list, tuple)):
            for i, v in enumerate(o):
                yield '[%d]' % i, v
        elif isinstance(o, (set, frozenset)):
            for v in sorted(o, key=repr):
                yield '{%s}' % repr(v)[:20], v
        elif isinstance(o, types.MethodType):
            yield '.__self__', o.__self__
        elif hasattr(o, '__dict__') and not isinstance(o, OPAQUE):
            for k in sorted(vars(o)):
                yield '.' + k, vars(o)[k]

    def walk(self, holders=None):
        """(path, object) of every non-simple object reachable from the specification, in a
        deterministic depth-first order.  holders (optional dict) receives id -> (class of the
        nearest library instance holding the object, attribute of that instance)."""
        seen = {}
        order = []
        stack = [('spec', self.spec, ('Specification', ''))]
        while stack:
            path, o, holder = stack.pop()
            if isinstance(o, SIMPLE) or isinstance(o, OPAQUE) or id(o) in seen:
                continue
            seen[id(o)] = path
            order.append((path, o))
            if holders is not None:
                holders[id(o)] = holder
            lib = is_lib_instance(o) and hasattr(o, '__dict__')
            for name, c in reversed(list(self.children(o))):
                stack.append((path + name, c, (qual(type(o)), name[1:]) if lib else holder))
        return order

    def install(self):
        """Replace containers by recording twins, then instance classes by recording subclasses."""
        order = self.walk()
        twin = {}
        for path, o in order:
            if type(o) in TWINS:
                t = TWINS[type(o)]()
                twin[id(o)] = t
        # fill the twins (elements that are containers themselves are replaced by their twins)
        for path, o in order:
            t = twin.get(id(o))
            if t is None:
                continue
            if isinstance(o, list):
                list.extend(t, [twin.get(id(x), x) for x in o])
            elif isinstance(o, dict):
                dict.update(t, {k: twin.get(id(v), v) for k, v in o.items()})
            else:
                set.update(t, o)
            self.ncontainers += 1
        owner_named = set()
        for path, o in order:
            if isinstance(o, (list, dict, set, tuple, frozenset, types.MethodType)) or not hasattr(o, '__dict__'):
                continue
            d = vars(o)
            for k in list(d):
                t = twin.get(id(d[k]))
                if t is not None:
                    d[k] = t
                    if id(t) not in owner_named:
                        owner_named.add(id(t))
                        t._c18_owner = '%s.%s' % (qual(type(o)), k)
        for t in twin.values():
            if id(t) not in owner_named:
                t._c18_owner = 'container'
        for path, o in order:
            if is_lib_instance(o) and hasattr(o, '__dict__'):
                cls = type(o)
                if getattr(cls, '_c18_wired', False):
                    continue
                try:
                    o.__class__ = wired_class(cls)
                    self.nwired += 1
                    self.classes.add(qual(cls))
                except TypeError:
                    self.unwirable.append(qual(cls))
        self.twin_ids = {id(t) for t in twin.values()}

    def mutable_ids(self):
        """id -> (holder class, attribute, path) of every mutable object of the graph."""
        holders = {}
        return {id(o): holders[id(o)] + (path,) for path, o in self.walk(holders)
                if isinstance(o, (list, dict, set, bytearray)) or hasattr(o, '__dict__')}

    def fingerprint(self):
        """path -> token of everything reachable from the specification, plus the class-level and
        module-level state of the library (no addresses; sharing is visible through numbering)."""
        fp = {}
        num = {}

        def token(o):
            if isinstance(o, SIMPLE):
                return '%s:%s' % (type(o).__name__, repr(o)[:120])
            if isinstance(o, OPAQUE):
                return 'opaque:%s' % getattr(o, '__qualname__', getattr(o, '__name__', type(o).__name__))
            return None

        def visit(path, o):
            stack = [(path, o)]
            while stack:
                p, x = stack.pop()
                tk = token(x)
                if tk is not None:
                    fp[p] = tk
                    continue
                if id(x) in num:
                    fp[p] = 'ref#%d' % num[id(x)]
                    continue
                num[id(x)] = len(num)
                if isinstance(x, bytearray):
                    fp[p] = 'bytearray:' + bytes(x).hex()[:120]
                    continue
                kids = list(self.children(x))
                cname = type(x).__bases__[0].__name__ if getattr(type(x), '_c18_wired', False) else type(x).__name__
                if isinstance(x, (TripList, TripDict, TripSet)):
                    cname = type(x).__bases__[0].__name__
                fp[p] = '%s#%d/%d' % (cname, num[id(x)], len(kids))
                if not kids and not isinstance(x, (list, dict, set, tuple, frozenset)) and not hasattr(x, '__dict__'):
                    fp[p] = 'leaf:%s:%s' % (type(x).__name__, ADDR.sub('0xADDR', repr(x))[:120])
                for name, c in reversed(kids):
                    stack.append((p + name, c))

        visit('spec', self.spec)
        for mname in sorted(sys.modules):
            if not mname.startswith('asn1tools'):
                continue
            m = sys.modules[mname]
            for k in sorted(vars(m)):
                v = vars(m)[k]
                if k.startswith('__') or isinstance(v, (types.ModuleType, types.FunctionType, types.BuiltinFunctionType)):
                    continue
                if isinstance(v, type):
                    if v.__module__ != mname:
                        continue
                    for ck in sorted(vars(v)):
                        cv = vars(v)[ck]
                        if ck.startswith('__') or callable(cv) or isinstance(cv, OPAQUE) or ck == '_c18_wired':
                            continue
                        if isinstance(cv, (types.GetSetDescriptorType, types.MemberDescriptorType)):
                            continue
                        fp['%s:%s.%s' % (mname, k, ck)] = digest(cv)
                elif isinstance(v, (list, dict, set, bytearray)) or isinstance(v, SIMPLE):
                    fp['%s:%s' % (mname, k)] = digest(v)
        return fp


def digest(v):
    """Token of a piece of class-level / module-level state (tables of 65536 characters live there:
    large containers are summarised by their length and both ends)."""
    import hashlib
    if isinstance(v, SIMPLE):
        return '%s:%s' % (type(v).__name__, repr(v)[:120])
    if not isinstance(v, (list, tuple, dict, set, frozenset, bytearray)):
        if hasattr(v, '__dict__') and not isinstance(v, OPAQUE):
            return 'obj:%s{%s}' % (type(v).__name__, ','.join('%s=%s' % (k, digest(x)) for k, x in sorted(vars(v).items())))
        return 'obj:%s' % type(v).__name__
    n = len(v)
    if n <= 2000:
        text = ADDR.sub('0xADDR', repr(v))
    else:
        items = list(v.items()) if isinstance(v, dict) else list(v)
        text = ADDR.sub('0xADDR', repr(items[:100] + items[-100:]))
    return '%s/%d/%s' % (type(v).__name__, n, hashlib.sha1(text.encode('utf-8', 'replace')).hexdigest()[:12])


def fp_diff(before, after, limit=6):
    out = []
    for p in sorted(set(before) | set(after)):
        b, a = before.get(p, '(absent)'), after.get(p, '(absent)')
        if a != b:
            out.append({'path': p[-200:], 'before': b, 'after': a})
            if len(out) >= limit:
                break
    return out


# ----------------------------------------------------------------------------------------
# aliasing probe

def mutable_parts(v, path='r'):
    """(path, object) of every mutable object inside a decoded value."""
    out = []
    if isinstance(v, dict):
        out.append((path, v))
        for k, x in v.items():
            out += mutable_parts(x, '%s[%r]' % (path, k))
    elif isinstance(v, list):
        out.append((path, v))
        for i, x in enumerate(v):
            out += mutable_parts(x, '%s[%d]' % (path, i))
    elif isinstance(v, tuple):
        for i, x in enumerate(v):
            out += mutable_parts(x, '%s[%d]' % (path, i))
    elif isinstance(v, (set, bytearray)):
        out.append((path, v))
    elif not isinstance(v, SIMPLE) and not isinstance(v, frozenset):
        out.append((path, v))
    return out


def poke(o):
    """Change a mutable object the caller was handed; returns the undo function or None."""
    if isinstance(o, list):
        o.append(SENTINEL)
        return lambda: o.pop()
    if isinstance(o, dict):
        o[SENTINEL] = 1
        return lambda: o.pop(SENTINEL)
    if isinstance(o, set):
        o.add(SENTINEL)
        return lambda: o.discard(SENTINEL)
    if isinstance(o, bytearray):
        o.append(0xA5)
        return lambda: o.pop()
    return None


def alias_probe(spec, graph, ops, rec, limit):
    """For decode operations that succeed alone: do two results, or a result and the compiled graph,
    share a mutable object -- and does changing it change what a later decode returns?"""
    found = []
    gids = graph.mutable_ids()
    done = 0
    rec.quiet.on = True
    try:
        for li, op in ops:
            if op['kind'] != 'decode' or not op['solo'].startswith('ok:'):
                continue
            if done >= limit:
                break
            done += 1
            s1, r1 = perform(spec, op, op_arg(op), True)
            s2, r2 = perform(spec, op, op_arg(op), True)
            if r1 is None or r2 is None:
                continue
            ids2 = {id(o) for _, o in mutable_parts(r2)}
            for path, o in mutable_parts(r1):
                in_graph = id(o) in gids
                if id(o) not in ids2 and not in_graph:
                    continue
                del rec.probe_hits[:]
                own = gids.get(id(o), ('', '', ''))
                undo = poke(o)
                if undo is None:
                    found.append({'op': li, 'path': path, 'pytype': type(o).__name__, 'stored': in_graph,
                                  'owner': own[0], 'attr': own[1], 'where': own[2][-160:], 'effect': False,
                                  'now': '', 'wire': '', 'restored': True})
                    continue
                s3, _ = perform(spec, op, op_arg(op), True)
                undo()
                s4, _ = perform(spec, op, op_arg(op), True)
                base = type(o).__bases__[0].__name__ if isinstance(o, (TripList, TripDict, TripSet)) else type(o).__name__
                found.append({'op': li, 'path': path, 'pytype': base, 'stored': in_graph,
                              'owner': own[0], 'attr': own[1], 'where': own[2][-160:], 'effect': s3 != op['solo'],
                              'now': s3[:200], 'wire': (rec.probe_hits or [''])[0],
                              'restored': s4 == op['solo']})
    finally:
        rec.quiet.on = False
    return found


# ----------------------------------------------------------------------------------------
# schedule execution

INTERVALS = [1e-6, 1e-6, 2e-6, 5e-6, 1e-5, 2e-5, 5e-5, 2e-4]


def do_call(spec, rec, t, li, op, use_alarm):
    rec.cur.t, rec.cur.op = t, li
    rec.emit(t, 'inv', li)
    arg = op_arg(op)
    before = canon_value(arg, sort_keys=False) if op['kind'] == 'encode' else None
    r, _ = perform(spec, op, arg, use_alarm)
    if before is not None:
        after = canon_value(arg, sort_keys=False)
        if after != before:
            rec.emit(t, 'arg_mutated', li, after[:200])
    rec.emit(t, 'ret', li, r)
    rec.cur.op = 0


def overlaps(events):
    """Number of Invoke events that happened while another thread's call was pending (a statistic
    about how much real interleaving the execution had; not a verdict)."""
    pending = set()
    n = 0
    for e in events:
        if e['ev'] == 'inv':
            if pending - {e['t']}:
                n += 1
            pending.add(e['t'])
        elif e['ev'] == 'ret':
            pending.discard(e['t'])
    return n


def execute(table, sched, mode, cid, probe_limit):
    """One schedule execution on one freshly compiled, tripwired Specification object."""
    global REC
    ops = table['ops']
    used = []
    local = {}
    for st in sched['steps']:
        if st['op'] not in local:
            local[st['op']] = len(used) + 1
            used.append(ops[st['op'] - 1])
    extra = [o for o in ops if o['kind'] == 'decode' and o['cls'] == 'valid' and o['solo'].startswith('ok:')
             and o['id'] not in local]
    if extra:          # decode operations that are only probed for aliasing, rotating with the schedule
        start = sum(st['op'] for st in sched['steps']) % len(extra)
        have = sum(1 for u in used if u['kind'] == 'decode' and u['solo'].startswith('ok:'))
        for o in (extra[start:] + extra[:start])[:max(0, probe_limit - have)]:
            local[o['id']] = len(used) + 1
            used.append(o)
    n = sched['n']
    prog = [[local[st['op']] for st in sched['steps'] if st['t'] == t] for t in range(1, n + 1)]
    steps = [(st['t'], local[st['op']]) for st in sched['steps']]
    spec = fresh_compile(table['text'], table['codec'])
    rec = Recorder()
    REC = rec
    graph = Graph(spec)
    graph.install()
    before = graph.fingerprint()
    rec.armed = True
    hung = False
    t0 = time.time()
    if mode == 'seq':
        for t, li in steps:
            do_call(spec, rec, t, li, used[li - 1], True)
    else:
        rng = random.Random(sched['sw'] * 1000003 + n)
        old = sys.getswitchinterval()
        stop = threading.Event()
        barrier = threading.Barrier(n + 1)

        def worker(t):
            barrier.wait()
            for li in prog[t - 1]:
                do_call(spec, rec, t, li, used[li - 1], False)

        def jitter():
            while not stop.is_set():
                sys.setswitchinterval(rng.choice(INTERVALS))
                time.sleep(rng.uniform(0.00005, 0.0005))

        ths = [threading.Thread(target=worker, args=(t,), daemon=True) for t in range(1, n + 1)]
        jt = threading.Thread(target=jitter, daemon=True)
        sys.setswitchinterval(rng.choice(INTERVALS[:4]))
        for th in ths:
            th.start()
        jt.start()
        barrier.wait()
        deadline = time.time() + 60
        for th in ths:
            th.join(max(0.1, deadline - time.time()))
            hung = hung or th.is_alive()
        stop.set()
        jt.join(1)
        sys.setswitchinterval(old)
    wall = time.time() - t0
    events = list(rec.events)
    rec.armed = False
    after = graph.fingerprint()
    changed = fp_diff(before, after)
    rec.armed = True
    alias = [] if hung else alias_probe(spec, graph, list(enumerate(used, 1)), rec, probe_limit)
    rec.armed = False
    REC = None
    line = {
        'cid': '%s-%s' % (cid, mode), 'tid': table['tid'], 'codec': table['codec'], 'mode': mode, 'n': n,
        'sw': sched['sw'], 'hung': hung,
        'ops': [{'id': o['id'], 'kind': o['kind'], 'type': o['type'], 'cls': o['cls'], 'ct': o['ct'], 'cc': o['cc'],
                 'input': o['data'] if o['kind'] == 'decode' else json.dumps(o['value'])} for o in used],
        'text': table['text'],
        'solo': [o['solo'] for o in used],
        'prog': prog, 'events': events, 'fp': changed, 'alias': alias,
        'wires': {'instances': graph.nwired, 'containers': graph.ncontainers, 'unwirable': sorted(set(graph.unwirable)),
                  'classes': len(graph.classes), 'fp_paths': len(before),
                  'writes': sorted('%s.%s x%d' % (k[0], k[1], v) for k, v in rec.written.items())[:20]},
        'wall_ms': int(wall * 1000), 'overlaps': overlaps(events),
    }
    return line, hung


def mode_run(a, k, n):
    import asn1tools  # noqa
    import resource
    try:
        resource.setrlimit(resource.RLIMIT_AS, (6 << 30, 6 << 30))
    except Exception:
        pass
    tables = {}
    with open(a.tables) as f:
        for l in f:
            if l.strip():
                t = json.loads(l)
                tables[t['tid']] = t
    with open(a.cases) as f:
        cases = [json.loads(l) for l in f if l.strip()]
    modes = a.modes.split(',')
    with open(a.out, 'w') as out:
        for idx, c in enumerate(cases):
            if idx % n != k:
                continue
            table = tables[c['tid']]
            for mode in modes:
                line, hung = execute(table, c, mode, c['cid'], a.probe_limit)
                out.write(json.dumps(line) + '\n')
                out.flush()
                if hung:           # threads that never returned cannot be reclaimed: stop this shard
                    os._exit(0)


def main():
    import argparse
    ap = argparse.ArgumentParser()
    ap.add_argument('--mode', required=True, choices=['table', 'run'])
    ap.add_argument('--cases', required=True)
    ap.add_argument('--out', required=True)
    ap.add_argument('--shard', default='0/1')
    ap.add_argument('--tables')
    ap.add_argument('--modes', default='seq,thr')
    ap.add_argument('--max-ops', type=int, default=160)
    ap.add_argument('--probe-limit', type=int, default=12)
    a = ap.parse_args()
    k, n = [int(x) for x in a.shard.split('/')]
    sys.setrecursionlimit(3000)
    if a.mode == 'table':
        mode_table(a, k, n)
    else:
        mode_run(a, k, n)


if __name__ == '__main__':
    main()
