"""C07 driver: compile V1 and V2 of each case, encode with one version, decode with the other.

Output line per case: {cid, env1, env2, top, vals1, vals2, steps, obs: [{dir, vi, codec, ne, enc, dec}]}
"""
import json
import os
import sys

HERE = os.path.dirname(os.path.abspath(__file__))
sys.path.insert(0, HERE)
import drive_codec as dc   # noqa: E402  (sets sys.path for asn1tools from $VERIF_REPO)
import render  # noqa: E402
import values  # noqa: E402


def module_for(batch, which):
    env0 = batch[0][which]
    types = {}
    for c in batch:
        mapping = {n: 'C%dx%s' % (c['bi'], n) for n in c[which]['types']}
        c['map'] = mapping
        for n, T in c[which]['types'].items():
            types[mapping[n]] = render.rename(T, mapping)
    menv = {'tagdef': env0['tagdef'], 'extimp': env0.get('extimp', False), 'types': types}
    return render.render_module('M', menv)


def run_batch(batch, codecs, out):
    import asn1tools
    t1, t2 = module_for(batch, 'env1'), module_for(batch, 'env2')
    specs = {}
    bad = {}
    for codec in codecs:
        for ver, text in ((1, t1), (2, t2)):
            o = dc.guarded(lambda: asn1tools.compile_string(text, codec))
            if o['st'] == 'ok':
                specs[(codec, ver)] = o['r']
            else:
                o.pop('r', None)
                bad[(codec, ver)] = o
    if bad and len(batch) > 1:
        for c in batch:
            c['bi'] = 0
            run_batch([c], codecs, out)
        return
    for c in batch:
        name = c['map'][c['top']]
        T1, T2 = c['env1']['types'][c['top']], c['env2']['types'][c['top']]
        obs = []
        for codec in codecs:
            if (codec, 1) in bad or (codec, 2) in bad:
                obs.append({'dir': 'x', 'vi': 0, 'codec': codec, 'ne': False,
                            'compile': bad.get((codec, 1)) or bad.get((codec, 2))})
                continue
            s1, s2 = specs[(codec, 1)], specs[(codec, 2)]
            for vi, v in enumerate(c['vals2'], 1):
                rec = {'dir': '2to1', 'vi': vi, 'codec': codec, 'ne': False}
                pv = values.to_py(c['env2'], T2, v)
                rec['enc'] = dc.enc_outcome(dc.guarded(lambda: s2.encode(name, pv)))
                if rec['enc']['st'] == 'ok':
                    data = bytes(rec['enc']['b'])
                    d = dc.guarded(lambda: s1.decode(name, data))
                    if d['st'] == 'ok':
                        r = d.pop('r')
                        try:
                            d['v'] = values.from_py(c['env1'], T1, r, False, True)
                        except values.BadShape as e:
                            d = {'st': 'bad', 'msg': str(e)[:300]}
                    rec['dec'] = d
                obs.append(rec)
            for vi, v in enumerate(c['vals1'], 1):
                rec = {'dir': '1to2', 'vi': vi, 'codec': codec, 'ne': False}
                pv = values.to_py(c['env1'], T1, v)
                rec['enc'] = dc.enc_outcome(dc.guarded(lambda: s1.encode(name, pv)))
                if rec['enc']['st'] == 'ok':
                    data = bytes(rec['enc']['b'])
                    rec['dec'] = dc.dec_outcome(dc.guarded(lambda: s2.decode(name, data)), c['env2'], T2, False)
                obs.append(rec)
        out.write(json.dumps({'cid': c['cid'], 'env1': c['env1'], 'env2': c['env2'], 'top': c['top'],
                              'vals1': c['vals1'], 'vals2': c['vals2'], 'steps': c.get('steps', 0), 'obs': obs}) + '\n')


def main():
    import argparse
    ap = argparse.ArgumentParser()
    ap.add_argument('--cases', required=True)
    ap.add_argument('--out', required=True)
    ap.add_argument('--codecs', default='ber,der,per,uper,oer,jer,xer')
    ap.add_argument('--batch', type=int, default=25)
    ap.add_argument('--shard', default='0/1')
    a = ap.parse_args()
    k, n = [int(x) for x in a.shard.split('/')]
    groups = {}
    with open(a.cases) as f:
        for idx, line in enumerate(f):
            if line.strip():
                c = json.loads(line)
                c.setdefault('cid', 'e%d' % idx)
                groups.setdefault((c['env1']['tagdef'], c['env1'].get('extimp', False)), []).append(c)
    batches = []
    for key in sorted(groups):
        g = groups[key]
        for i in range(0, len(g), a.batch):
            batches.append(g[i:i + a.batch])
    sys.setrecursionlimit(3000)
    with open(a.out, 'w') as out:
        for bi, b in enumerate(batches):
            if bi % n != k:
                continue
            for j, c in enumerate(b):
                c['bi'] = j
            run_batch(b, a.codecs.split(','), out)


if __name__ == '__main__':
    main()
