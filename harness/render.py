"""Descriptor -> ASN.1 text.  No encoding rules here: this is X.680 notation only.

A descriptor is the JSON form of the records documented in spec/Asn1Type.tla.
"""

STR_NAMES = {
    'IA5': 'IA5String', 'Visible': 'VisibleString', 'Numeric': 'NumericString',
    'Printable': 'PrintableString', 'UTF8': 'UTF8String', 'BMP': 'BMPString',
    'Universal': 'UniversalString', 'General': 'GeneralString',
    'Graphic': 'GraphicString', 'Teletex': 'TeletexString',
    'ObjectDescriptor': 'ObjectDescriptor',
}
CLS = {'U': 'UNIVERSAL ', 'A': 'APPLICATION ', 'C': '', 'P': 'PRIVATE '}
MODE = {'I': ' IMPLICIT', 'E': ' EXPLICIT', 'D': ''}
TAGDEF = {'E': 'EXPLICIT TAGS', 'I': 'IMPLICIT TAGS', 'A': 'AUTOMATIC TAGS'}
REAL_WC = {
    'B32': ' (WITH COMPONENTS { mantissa (-16777215..16777215), base (2), exponent (-149..104) })',
    'B64': ' (WITH COMPONENTS { mantissa (-9007199254740991..9007199254740991), base (2), exponent (-1074..971) })',
}


def big(b):
    """BigInt record -> python int."""
    n = int.from_bytes(bytes(b['mag']), 'big') if b['mag'] else 0
    return -n if b['neg'] else n


def unbig(n):
    mag = list(abs(n).to_bytes((abs(n).bit_length() + 7) // 8, 'big')) if n else []
    return {'neg': n < 0, 'mag': mag}


def asn1_string(cps):
    s = ''.join(chr(c) for c in cps)
    return '"' + s.replace('"', '""') + '"'


def size_text(sz):
    if sz['f'] == 'N':
        return ''
    lb, ub = sz['lb'], ('MAX' if sz['ubinf'] else sz['ub'])
    # optional rendering hints (C11): a bound written as a value reference
    lb, ub = sz.get('lbref', lb), (ub if sz['ubinf'] else sz.get('ubref', ub))
    body = str(lb) if (not sz['ubinf'] and lb == ub) else '%s..%s' % (lb, ub)
    if sz['ext']:
        body += ', ...'
    return ' (SIZE (%s))' % body


def int_con_text(c):
    if c['f'] == 'N':
        return ''
    lb = 'MIN' if c['lbinf'] else str(big(c['lb']))
    ub = 'MAX' if c['ubinf'] else str(big(c['ub']))
    # optional rendering hints (C11): a bound written as a named number / value reference
    if not c['lbinf']:
        lb = c.get('lbref', lb)
    if not c['ubinf']:
        ub = c.get('ubref', ub)
    body = lb if lb == ub else '%s..%s' % (lb, ub)
    if c['ext']:
        body += ', ...'
    return ' (%s)' % body


def alphabet_text(al):
    if not al['has']:
        return ''
    s = al['set']
    if len(s) == 1:
        return ' (FROM (%s))' % asn1_string(s)
    if s == list(range(s[0], s[-1] + 1)):
        return ' (FROM (%s..%s))' % (asn1_string([s[0]]), asn1_string([s[-1]]))
    return ' (FROM (%s))' % ' | '.join(asn1_string([c]) for c in s)


def tags_text(tags):
    return ''.join('[%s%d]%s ' % (CLS[t['cls']], t['num'], MODE[t['mode']]) for t in tags)


def render_value(env, T, v):
    """ASN.1 value notation (for DEFAULT)."""
    k = T['k']
    if k == 'REF':
        return render_value(env, env['types'][T['name']], v)
    if k == 'BOOL':
        return 'TRUE' if v else 'FALSE'
    if k == 'NULL':
        return 'NULL'
    if k == 'INT':
        return str(big(v))
    if k == 'ENUM':
        return v
    if k == 'BITS':
        bits = ''.join(format(b, '08b') for b in v['b'])[:v['n']]
        return "'%s'B" % bits
    if k == 'OCTS':
        return "'%s'H" % bytes(v).hex().upper()
    if k == 'STR':
        return asn1_string(v)
    raise ValueError('no value notation for %s' % k)


def member_text(env, m, ind):
    if m.get('q') == 'C':            # COMPONENTS OF <type reference> (spec/ArrangeSem.tla)
        return 'COMPONENTS OF ' + render_type(env, m['t'], ind)
    s = '%s %s' % (m['n'], render_type(env, m['t'], ind))
    if m['q'] == 'O':
        s += ' OPTIONAL'
    elif m['q'] == 'D':
        s += ' DEFAULT ' + render_value(env, m['t'], m['d'])
    return s


def render_type(env, T, ind=1):
    k = T['k']
    pre = tags_text(T['tags'])
    pad = '  ' * ind
    if k == 'REF':
        # optional (C11): a constraint written on the reference,  A (0..5)  /  B (SIZE (2))
        return pre + T['name'] + (int_con_text(T['con']) if 'con' in T else '') + (size_text(T['sz']) if 'sz' in T else '')
    if k == 'BOOL':
        return pre + 'BOOLEAN'
    if k == 'NULL':
        return pre + 'NULL'
    if k == 'OID':
        return pre + 'OBJECT IDENTIFIER'
    if k == 'REAL':
        # optional (C09/C10): wc = "B32" | "B64", the IEEE 754 binary32/64 inner subtyping of X.696 12.2-12.4
        return pre + 'REAL' + REAL_WC.get(T.get('wc'), '')
    if k == 'INT':
        nn = ''
        if T.get('nn'):
            nn = ' { %s }' % ', '.join('%s(%d)' % (x['n'], big(x['v'])) for x in T['nn'])
        return pre + 'INTEGER' + nn + int_con_text(T['con'])
    if k == 'ENUM':
        items = ['%s(%d)' % (x['n'], x['v']) for x in T['root']]
        if T['ext']:
            items.append('...')
            items += ['%s(%d)' % (x['n'], x['v']) for x in T['adds']]
        return pre + 'ENUMERATED { %s }' % ', '.join(items)
    if k == 'BITS':
        nb = ''
        if T['nb']:
            nb = ' { %s }' % ', '.join('%s(%d)' % (x['n'], x['v']) for x in T['nb'])
        return pre + 'BIT STRING' + nb + size_text(T['sz'])
    if k == 'OCTS':
        return pre + 'OCTET STRING' + size_text(T['sz'])
    if k == 'STR':
        return pre + STR_NAMES[T['st']] + alphabet_text(T['al']) + size_text(T['sz'])
    if k in ('SEQ', 'SET'):
        parts = [member_text(env, m, ind + 1) for m in T['root']]
        if T['ext']:
            parts.append('...')
            for a in T['adds']:
                if a['g']:
                    inner = (',\n' + pad + '    ').join(member_text(env, m, ind + 2) for m in a['ms'])
                    parts.append('[[\n%s    %s\n%s  ]]' % (pad, inner, pad))
                else:
                    parts.append(member_text(env, a['m'], ind + 1))
        body = (',\n' + pad + '  ').join(parts)
        kw = 'SEQUENCE' if k == 'SEQ' else 'SET'
        return pre + '%s {\n%s  %s\n%s}' % (kw, pad, body, pad) if parts else pre + kw + ' { }'
    if k == 'CHOICE':
        parts = ['%s %s' % (a['n'], render_type(env, a['t'], ind + 1)) for a in T['root']]
        if T['ext']:
            parts.append('...')
            parts += ['%s %s' % (a['n'], render_type(env, a['t'], ind + 1)) for a in T['adds']]
        body = (',\n' + pad + '  ').join(parts)
        return pre + 'CHOICE {\n%s  %s\n%s}' % (pad, body, pad)
    if k in ('SEQOF', 'SETOF'):
        kw = 'SEQUENCE' if k == 'SEQOF' else 'SET'
        sz = size_text(T['sz'])
        return pre + '%s%s OF %s' % (kw, sz, render_type(env, T['e'], ind + 1))
    raise ValueError('cannot render kind %r' % k)


def rename(T, mapping):
    """Return a copy of descriptor T with REF names mapped (for batching)."""
    if isinstance(T, dict):
        out = {}
        for key, val in T.items():
            if key == 'name' and T.get('k') == 'REF':
                out[key] = mapping.get(val, val)
            elif key in ('d',):          # default values are not types
                out[key] = val
            else:
                out[key] = rename(val, mapping)
        return out
    if isinstance(T, list):
        return [rename(x, mapping) for x in T]
    return T


def value_refs(T, named=(), out=None):
    """name -> int of every bound of descriptor T that is rendered as a value reference (hints
    lbref / ubref that are not named numbers of the INTEGER type they constrain)."""
    out = {} if out is None else out
    if isinstance(T, dict):
        nn = [x['n'] for x in T.get('nn', [])] if T.get('k') == 'INT' else list(named)
        for ref, bound in (('lbref', 'lb'), ('ubref', 'ub')):
            if ref in T and T[ref] not in nn:
                b = T[bound]
                out[T[ref]] = big(b) if isinstance(b, dict) else b
        for key, val in T.items():
            if key != 'd':
                value_refs(val, nn, out)
    elif isinstance(T, list):
        for x in T:
            value_refs(x, named, out)
    return out


def rename_valuerefs(T, prefix):
    """Copy of descriptor T with every value-reference hint prefixed (for batching);
    named numbers keep their names."""
    def walk(x, nn):
        if isinstance(x, dict):
            if x.get('k') == 'INT':
                nn = [y['n'] for y in x.get('nn', [])]
            out = {}
            for key, val in x.items():
                if key in ('lbref', 'ubref') and val not in nn:
                    out[key] = prefix + val
                elif key == 'd':
                    out[key] = val
                else:
                    out[key] = walk(val, nn)
            return out
        if isinstance(x, list):
            return [walk(y, nn) for y in x]
        return x
    return walk(T, [])


def render_module(name, env, types=None):
    """One ASN.1 module containing env['types'] (or the given subset)."""
    names = types if types is not None else sorted(env['types'])
    lines = ['%s DEFINITIONS %s%s ::= BEGIN' % (
        name, TAGDEF[env['tagdef']], ' EXTENSIBILITY IMPLIED' if env.get('extimp') else ''), '']
    refs = {}
    for n in names:
        value_refs(env['types'][n], (), refs)
    for r in sorted(refs):
        lines.append('%s INTEGER ::= %d' % (r, refs[r]))
    if refs:
        lines.append('')
    for n in names:
        lines.append('%s ::= %s' % (n, render_type(env, env['types'][n])))
        lines.append('')
    lines.append('END')
    return '\n'.join(lines) + '\n'


# ---------------------------------------------------------------------------------------------
# arrangements (spec/ArrangeSem.tla): several modules with IMPORTS, assignments in a given order

def _arr_home(arr, mi, name):
    """Index of the module whose assignment `name` denotes when written in module mi."""
    mod = arr['mods'][mi]
    if any(a['n'] == name for a in mod['asg']):
        return mi
    for imp in mod['imp']:
        if name in imp['syms']:
            for j, m in enumerate(arr['mods']):
                if m['name'] == imp['from']:
                    return j
    return None


def _arr_base(arr, mi, T, depth=0):
    """The non-reference descriptor a type denotes (only used to pick the value notation of DEFAULT)."""
    while T['k'] == 'REF' and depth < 50:
        h = _arr_home(arr, mi, T['name'])
        if h is None:
            return T
        mi = h
        T = next(a['t'] for a in arr['mods'][mi]['asg'] if a['n'] == T['name'])
        depth += 1
    return T


def _names_in(T, acc):
    if isinstance(T, dict):
        if T.get('k') == 'REF':
            acc.add(T['name'])
        for key, val in T.items():
            if key != 'd':
                _names_in(val, acc)
    elif isinstance(T, list):
        for x in T:
            _names_in(x, acc)


def render_arrangement(arr):
    """[(module name, ASN.1 text)] in the arrangement's module order."""
    out = []
    for mi, mod in enumerate(arr['mods']):
        names = set()
        for a in mod['asg']:
            _names_in(a['t'], names)
        for imp in mod['imp']:
            names.update(imp['syms'])
        env = {'tagdef': mod['td'], 'extimp': False,
               'types': {n: _arr_base(arr, mi, {'k': 'REF', 'name': n, 'tags': []}) for n in names}}
        lines = ['%s DEFINITIONS %s ::= BEGIN' % (mod['name'], TAGDEF[mod['td']]), '']
        if mod['imp']:
            lines.append('IMPORTS ' + ' '.join('%s FROM %s' % (', '.join(i['syms']), i['from']) for i in mod['imp']) + ';')
            lines.append('')
        for a in mod['asg']:
            lines.append('%s ::= %s' % (a['n'], render_type(env, a['t'])))
            lines.append('')
        lines.append('END')
        out.append((mod['name'], '\n'.join(lines) + '\n'))
    return out
