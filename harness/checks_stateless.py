"""C18 -- a compiled specification is stateless across calls and threads.

  model    spec/Stateless.tla: TLC verifies that the per-call mechanism refines the requirement
           (ReqSpec, NoGraphWrite, ReturnsSolo, ...) over all interleavings, and must produce a
           counterexample for every MUT_ mechanism (they name the objects the tripwires watch)
  tables   harness/drive_stateless.py --mode table: operation tables of the real library with
           Solo[op] measured alone on fresh compiles
  A        spec/Stateless.tla, Mech = "Table": TLC -simulate generates the schedules
  B        drive_stateless.py --mode run executes every schedule sequentially and on real threads
           on one compiled, tripwired object; spec/Trace_Stateless.tla judges every execution
"""
import hashlib
import json
import os
import re
from concurrent.futures import ThreadPoolExecutor

import pipeline as pl
import tlc
import render
import checks_codec as cc
import drive_stateless as ds

ALL_CODECS = ds.ALL_CODECS
PROPS_ALL = ['ReturnsSolo', 'GraphUnchanged', 'ArgsUnchanged', 'NoAliasOfGraph']

TRACE_CFG = ('SPECIFICATION TSpec\nCONSTANTS\n  Threads = {1}\n  MaxCalls = 0\n  Mech = "Trace"\n'
             'POSTCONDITION TraceAccepted\nCHECK_DEADLOCK FALSE\n')
GEN_CFG = ('SPECIFICATION Spec\nCONSTANTS\n  Threads = {1, 2, 3, 4, 5, 6, 7, 8}\n  MaxCalls = 50\n  Mech = "Table"\n'
           'INVARIANT Emit\nCHECK_DEADLOCK FALSE\n')


def mc_cfg(mech, nthreads, calls, invariants, properties):
    ths = ', '.join('t%d' % k for k in range(1, nthreads + 1))
    s = 'SPECIFICATION Spec\nCONSTANTS\n  Threads = {%s}\n  MaxCalls = %d\n  Mech = "%s"\n' % (ths, calls, mech)
    if nthreads > 1:
        s += 'SYMMETRY Perms\n'
    if invariants:
        s += 'INVARIANTS %s\n' % ' '.join(invariants)
    if properties:
        s += 'PROPERTIES %s\n' % ' '.join(properties)
    return s + 'CHECK_DEADLOCK FALSE\n'


# (mechanism, threads, calls per thread, invariants, properties, expected: None = holds / name of what must be violated)
def model_jobs(tier):
    big = [('PerCall', 3, 3)] if tier == 'thorough' else [('PerCall', 3, 2), ('PerCall', 2, 3)]
    jobs = [(m, n, c, PROPS_ALL, ['ReqSpec', 'NoGraphWrite'], None) for (m, n, c) in big]
    jobs += [
        # fine sequentially, still a write to shared state: only the tripwire property sees it
        ('MUT_SharedEncoder', 1, 3, ['ReturnsSolo'], [], None),
        ('MUT_SharedEncoder', 1, 2, [], ['NoGraphWrite'], 'NoGraphWrite'),
        ('MUT_SharedEncoder', 2, 2, ['ReturnsSolo'], [], 'ReturnsSolo'),
        ('MUT_ResetAtEnd', 1, 2, ['ReturnsSolo'], [], 'ReturnsSolo'),
        ('MUT_SharedDefaultObject', 1, 2, ['ReturnsSolo'], [], 'ReturnsSolo'),
        ('MUT_LazyInitRace', 1, 2, [], ['NoGraphWrite'], 'NoGraphWrite'),
        ('MUT_LazyInitRace', 2, 2, ['ReturnsSolo'], [], 'ReturnsSolo'),
        ('MUT_MutatesArgument', 1, 1, ['ArgsUnchanged'], [], 'ArgsUnchanged'),
    ]
    if tier == 'thorough':
        jobs += [
            ('MUT_SharedEncoder', 2, 2, [], ['ReqSpec'], 'ReqSpec'),
            ('MUT_SharedDefaultObject', 1, 2, ['NoAliasOfGraph'], [], 'NoAliasOfGraph'),
            ('MUT_SharedDefaultObject', 1, 2, ['GraphUnchanged'], [], 'GraphUnchanged'),
            ('MUT_LazyInitRace', 1, 3, ['ReturnsSolo'], [], None),
            ('MUT_MutatesArgument', 1, 1, [], ['ReqSpec'], 'ReqSpec'),
        ]
    return jobs


GRAPH_INIT = {'enc.S': '<<>>', 'enc.R': '<<>>', 'def.A.d': '<<>>'}


def written_objects(out):
    """Objects of the model's graph whose content in the last state of the counterexample differs
    from the compiled graph -- what the harness has to watch."""
    blocks = re.split(r'\nState \d+: ', out)
    if len(blocks) < 2:
        return []
    last = blocks[-1]
    objs = []
    for m in re.finditer(r'"(enc\.S|enc\.R|def\.A\.d|lazy\.R)" :> (<<[^@)]*>>)', last):
        name, val = m.group(1), re.sub(r'\s+', '', m.group(2))
        if name == 'lazy.R':
            if val not in ('<<"ready">>', '<<"unset">>'):
                objs.append('%s=%s' % (name, val))
        elif val != GRAPH_INIT[name]:
            objs.append('%s=%s' % (name, val))
    m = re.search(r'gArg = \((.*?)\)\n', last, re.S)
    return objs


def run_model(run, tier):
    """Model checking of the mechanism model; raises Machinery when the model does not behave as
    designed (a MUT_ variant without counterexample means the invariants are vacuous)."""
    jobs = model_jobs(tier)

    def one(job):
        mech, n, c, invs, props, expect = job
        big = mech == 'PerCall'
        res = tlc.run_tlc('Stateless', mc_cfg(mech, n, c, invs, props), workers=TLC_WORKERS if big else 1,
                          timeout=6000, heap='4g' if big else '1g')
        return job, res

    results = []
    with ThreadPoolExecutor(max_workers=max(1, TLC_WORKERS // 2)) as ex:
        for job, res in ex.map(one, jobs):
            mech, n, c, invs, props, expect = job
            what = 'Stateless %s threads=%d calls=%d %s' % (mech, n, c, ' '.join(invs + props))
            run.account(res, what)
            if res['timed_out'] or 'states generated' not in res['out']:
                raise pl.Machinery('TLC failed on %s:\n%s' % (what, tlc.error_context(res['out'])))
            violated = None
            m = re.search(r'Invariant (\w+) is violated', res['out'])
            if m:
                violated = m.group(1)
            elif 'Action property' in res['out'] and 'is violated' in res['out']:
                m = re.search(r'Action property (\w+) is violated', res['out'])
                violated = m.group(1) if m else (props[0] if props else 'property')
            elif res['error']:
                raise pl.Machinery('TLC error on %s:\n%s' % (what, tlc.error_context(res['out'])))
            if violated is not None and props and violated not in props and violated not in invs:
                violated = props[0]        # TLC names action properties by position
            if expect is None and violated is not None:
                raise pl.Machinery('model: %s must hold but %s is violated:\n%s' % (what, violated, tlc.error_context(res['out'], 60)))
            if expect is not None and violated is None:
                raise pl.Machinery('model: %s must produce a counterexample (vacuous invariant)' % what)
            results.append({'mechanism': mech, 'threads': n, 'calls_per_thread': c, 'checked': invs + props,
                            'result': 'holds (%d distinct states, exhaustive)' % res['distinct'] if violated is None
                            else 'counterexample to %s' % violated,
                            'watch': written_objects(res['out']) if violated else []})
    return results


# ----------------------------------------------------------------------------------------
# modules

def typegen_modules(run, tg, seed):
    """Random types from the grammar of supported ASN.1 (spec/TypeGen.tla, simulation), batched
    into modules; their boundary values become the valid inputs of the operation tables."""
    num, depth, per_mod, nmods = tg
    out, res = pl.tlc_generate(run, 'TypeGen', cc.typegen_cfg(depth, True, ['E', 'A', 'I'], extra_inv=False),
                               'typegen.ndjson', workers=2, simulate='num=%d' % num, depth=depth + 1, timeout=6000,
                               what='TypeGen simulate num=%d depth %d (random types for C18)' % (num, depth))
    cases = [c for c in pl.dedup_cases(out, 't') if c.get('depth', 0) >= 2 and c['vals']]
    # deepest (most nested / recursive / sharing) first, deterministic
    cases.sort(key=lambda c: (-c['depth'], c['cid']))
    groups = {}
    for c in cases:
        groups.setdefault((c['env']['tagdef'], c['env'].get('extimp', False)), []).append(c)
    mods = []
    for key in sorted(groups):
        g = groups[key]
        for i in range(0, len(g), per_mod):
            batch = g[i:i + per_mod]
            types, vals = {}, {}
            for j, c in enumerate(batch):
                mapping = {n: 'C%dx%s' % (j, n) for n in c['env']['types']}
                for n, T in c['env']['types'].items():
                    types[mapping[n]] = render.rename(T, mapping)
                vals[mapping[c['top']]] = c['vals'][:6]
            env = {'tagdef': key[0], 'extimp': key[1], 'types': types}
            mods.append({'mid': 'tg%s%d' % (key[0], len(mods)), 'src': 'tg', 'env': env, 'vals': vals,
                         'text': render.render_module('M', env), 'codecs': ALL_CODECS})
    return spread(mods, nmods)


def spread(mods, nmods):
    """Take modules round-robin over the tag defaults (E / I / A TAGS, EXTENSIBILITY IMPLIED or not)."""
    by = {}
    for m in mods:
        by.setdefault((m['env']['tagdef'], m['env']['extimp']), []).append(m)
    out = []
    k = 0
    while len(out) < nmods and any(by.values()):
        for key in sorted(by):
            if by[key] and len(out) < nmods:
                out.append(by[key].pop(0))
        k += 1
    return out


# ----------------------------------------------------------------------------------------

def pipeline_from_tables(run, mods, max_ops):
    mpath = run.path('modules.ndjson')
    pl.write_cases(mods, mpath)
    njobs = sum(len(m['codecs']) for m in mods)
    tshards = pl.drive(run, 'drive_stateless.py', mpath, 'tables', ['--mode', 'table', '--max-ops', str(max_ops)],
                       nshards=max(1, min(pl.NPROC, njobs)))
    tables = []
    for s in tshards:
        with open(s) as f:
            tables += [json.loads(l) for l in f if l.strip()]
    tables.sort(key=lambda t: t['tid'])
    usable = [t for t in tables if t['nops'] >= 6]
    if not usable:
        raise pl.Machinery('no operation table could be built')
    tpath = run.path('tables.ndjson')
    pl.write_cases(usable, tpath)
    with open(run.path('ops.json'), 'w') as f:
        json.dump({'tables': [{'tid': t['tid'], 'nops': t['nops']} for t in usable], 'lens': [4, 12, 25, 50]}, f)
    return tables, usable, tpath


# tier -> (fixed module variants, TypeGen (num, depth, types per module, modules), schedules per TLC worker,
#          operations per table, run the mechanism model)
TIERS = {
    'dev':      (['A'], None, 48, 100, False),                 # development / mutant demonstrations
    'quick':    (['A', 'E'], (60, 4, 8, 2), 320, 120, True),
    'thorough': (['A', 'E', 'I'], (150, 5, 10, 10), 4000, 200, True),
}
TLC_WORKERS = max(1, int(os.environ.get('VERIF_TLC_WORKERS', '4')))   # per TLC run of this check


def c18(tier, seed):
    run = pl.Run('C18', tier, seed)
    variants, tg, num, max_ops, with_model = TIERS[tier]
    try:
        with ThreadPoolExecutor(max_workers=1) as bg:
            model_future = bg.submit(run_model, run, tier) if with_model else None
            mods = [{'mid': 'fx' + v, 'src': 'fixed', 'text': ds.fixed_text(v), 'codecs': ALL_CODECS} for v in variants]
            if tg:
                mods += typegen_modules(run, tg, seed)
            tables, usable, tpath = pipeline_from_tables(run, mods, max_ops)
            # -simulate num=N generates N behaviours per worker
            per_worker = (num + TLC_WORKERS - 1) // TLC_WORKERS
            out, res = pl.tlc_generate(run, 'Stateless', GEN_CFG, 'sched.ndjson', workers=TLC_WORKERS,
                                       simulate='num=%d' % per_worker, depth=110, env={'OPS_FILE': run.path('ops.json')},
                                       what='Stateless Mech=Table simulate num=%dx%d (schedules)' % (per_worker, TLC_WORKERS),
                                       timeout=6000)
            cases = pl.dedup_cases(out, 's')
            if len(cases) < num // 2:
                raise pl.Machinery('TLC generated only %d schedules' % len(cases))
            cpath = run.path('cases.ndjson')
            pl.write_cases(cases, cpath)
            shards = pl.drive(run, 'drive_stateless.py', cpath, 'trace', ['--mode', 'run', '--tables', tpath])
            reports = pl.validate(run, 'Trace_Stateless', TRACE_CFG, shards, what='Trace_Stateless')
            idx = pl.load_trace_index(shards)
            pl.classify(run, reports, idx, 'C18')
            model = model_future.result() if with_model else []
        account(run, idx, tables, usable, cases, model, mods)
        return pl.finish(run, rule=(
            'schedules are behaviours of spec/Stateless.tla (Mech = "Table", TLC -simulate, seed %d) over operation '
            'tables measured on the real library; every schedule is executed twice (sequentially, on n real threads) '
            'on one compiled object; an execution counts as distinct non-trivial when its (table, mode, thread count, '
            'operation sequence) is new, it contains at least one succeeding and one failing call and -- for threaded '
            'executions with more than one thread -- at least one Invoke happened while another call was pending' % seed))
    except pl.Machinery as e:
        print('MACHINERY FAILURE C18: %s' % e)
        return 2


def account(run, idx, tables, usable, cases, model, mods):
    hung = 0
    overl = 0
    by_codec = {}
    nwires = []
    for cid, line in idx.items():
        rets = [e['r'] for e in line['events'] if e['ev'] == 'ret']
        ok = any(r.startswith('ok:') for r in rets)
        bad = any(not r.startswith('ok:') for r in rets)
        hung += 1 if line['hung'] else 0
        overl += line['overlaps']
        by_codec[line['codec']] = by_codec.get(line['codec'], 0) + 1
        nwires.append(line['wires']['instances'] + line['wires']['containers'])
        inter = line['mode'] == 'seq' or line['n'] == 1 or line['overlaps'] > 0
        if ok and bad and inter:
            ids = [o['id'] for o in line['ops']]
            h = hashlib.sha1(json.dumps([[ids[x - 1] for x in p] for p in line['prog']]).encode()).hexdigest()[:12]
            run.signatures.add((line['tid'], line['mode'], line['n'], h))
        if len(run.samples) < 4 and line['mode'] == 'thr' and line['n'] >= 2 and len(rets) >= 12:
            run.samples.append({
                'cid': cid, 'table': line['tid'], 'threads': line['n'], 'switch_seed': line['sw'],
                'calls': len(rets), 'invokes_overlapping_a_pending_call': line['overlaps'],
                'first_calls': ['%s %s (%s) -> %s' % (line['ops'][e['op'] - 1]['kind'], line['ops'][e['op'] - 1]['type'],
                                                      line['ops'][e['op'] - 1]['cls'], e['r'][:60])
                                for e in line['events'] if e['ev'] == 'ret'][:5],
                'tripwires': line['wires']['instances'], 'recording_containers': line['wires']['containers']})
    run.evaluations = sum(len(l['events']) for l in idx.values())
    run.notes['schedules'] = len(cases)
    run.notes['executions'] = len(idx)
    run.notes['executions_by_codec'] = by_codec
    run.notes['executions_hung'] = hung
    run.notes['invokes_overlapping_a_pending_call'] = overl
    run.notes['tripwired_objects_per_execution'] = {'min': min(nwires or [0]), 'max': max(nwires or [0])}
    run.notes['modules'] = [{'mid': m['mid'], 'source': 'hand-written module of harness/drive_stateless.py'
                             if m['src'] == 'fixed' else 'TypeGen (random types)'} for m in mods]
    run.notes['operation_tables'] = [
        {'tid': t['tid'], 'ops': t['nops'], 'classes': _classes(t), 'dropped': t.get('stats'), 'skipped': t.get('skipped')}
        for t in tables]
    run.notes['mechanism_model'] = model
    run.assumptions = [
        'TLC and SANY are correct',
        'thread schedules are chosen by CPython, not enumerated: interleavings are sampled (switch interval 1 us .. 200 us, '
        'changed by a jitter thread); the write tripwires make the verdict independent of the schedule for every state '
        'that is reachable from the Specification object through attributes, lists, dicts and sets',
        'state kept in closures, C extension objects or module globals other than simple values and containers is not '
        'tripwired; it is covered only by the result comparison and the class/module-level fingerprint',
        'Solo[op] is measured on compile_dict(deepcopy(parse_string(text))), which is what compile_string does; the '
        'first operation of every table is cross-checked through compile_string itself',
    ]


def _classes(t):
    c = {}
    for o in t.get('ops', []):
        k = '%s/%s/%s' % (o['kind'], o['cls'], 'ok' if o['solo'].startswith('ok:') else 'error')
        c[k] = c.get(k, 0) + 1
    return c


# ----------------------------------------------------------------------------------------

def replay_c18(rp, seed):
    """./check C18 --replay file: re-measure Solo for exactly the recorded operations on fresh compiles,
    re-execute the recorded schedule in the recorded mode and let Trace_Stateless judge it again."""
    run = pl.Run('C18', 'replay', seed)
    try:
        case = rp['case']
        mod = {'mid': 'rp', 'src': 'ops', 'text': case['text'], 'codecs': [case['codec']], 'ops': case['ops']}
        tables, usable, tpath = pipeline_from_tables(run, [mod], 10 ** 6)
        steps = []
        # rebuild a global order of invocations from the recorded events (thread programs are kept)
        for e in case['events']:
            if e['ev'] == 'inv':
                steps.append({'t': e['t'], 'op': e['op']})
        sched = {'tid': usable[0]['tid'], 'n': case['n'], 'sw': case['sw'], 'steps': steps, 'cid': 'replay'}
        cpath = run.path('cases.ndjson')
        pl.write_cases([sched], cpath)
        shards = pl.drive(run, 'drive_stateless.py', cpath, 'trace',
                          ['--mode', 'run', '--tables', tpath, '--modes', case['mode']], nshards=1)
        reports = pl.validate(run, 'Trace_Stateless', TRACE_CFG, shards, what='Trace_Stateless (replay)')
        pl.classify(run, reports, pl.load_trace_index(shards), 'C18')
        return pl.finish(run, rule='replay of one recorded execution')
    except pl.Machinery as e:
        print('MACHINERY FAILURE C18: %s' % e)
        return 2
