"""Property id -> check function; setup; replay."""
import glob
import json
import os
import shutil
import sys

import pipeline as pl
import tlc
import checks_codec as cc
import checks_extend
import checks_fuzz
import checks_text
import checks_gser
import checks_history
import checks_stateless
import checks_framing
import checks_checkers
import checks_comments
import checks_arrange
import checks_cache
import checks_cgen


def c01(tier, seed):
    return cc.codec_check('C01', tier, seed, ['ber', 'der', 'per', 'uper', 'oer'], ['RT'], ['enc', 'dec', 're'])


def c03(tier, seed):
    return cc.codec_check('C03', tier, seed, ['der'], ['DER'], ['enc'], numerics='0', model=['DerCanonical', 'DerIsDer'],
                          fixtures={'quick': (['tests/test_der.py'], 'not rfc5280 and not performance'),
                                    'thorough': (['tests/test_der.py', 'tests/test_codecs_consistency.py'], None)})


def c16(tier, seed):
    return cc.codec_check('C16', tier, seed, ['ber', 'der', 'per', 'uper', 'oer'], ['PREFIX'], ['enc', 'pre'], numerics='0',
                          model=['PrefixFreeTlv', 'PerPrefixFree', 'OerPrefixFree'], big=('big', 'quick', 'thorough'))


def c05(tier, seed):
    return cc.codec_check('C05', tier, seed, ['per', 'uper'], ['PER'], ['enc', 'dec'], numerics='0', model=['PerOctetPadded', 'PerReaderInverts'], big=('big', 'quick', 'thorough'),
                          fixtures={'quick': (['tests/test_uper.py', 'tests/test_per.py'], 'x691 or foo or sequence or choice or integer or enumerated or string'),
                                    'thorough': (['tests/test_uper.py', 'tests/test_per.py', 'tests/test_codecs_consistency.py'], None)})


def c06(tier, seed):
    return cc.codec_check('C06', tier, seed, ['oer'], ['OER'], ['enc', 'dec'], numerics='0', model=['OerReaderInverts'],
                          fixtures={'quick': (['tests/test_oer.py'], 'not c_source and not ieee1609'),
                                    'thorough': (['tests/test_oer.py', 'tests/test_codecs_consistency.py'], 'not c_source')})


REPLAYERS = {'C11': checks_checkers.replay_c11, 'C12': checks_checkers.replay_c12, 'C14': checks_comments.replay, 'C19': checks_arrange.replay, 'C17': checks_cache.replay_c17,
             'C09': lambda rp, seed: checks_cgen.replay('C09', rp, seed), 'C10': lambda rp, seed: checks_cgen.replay('C10', rp, seed),
             'C18': lambda rp, seed: checks_stateless.replay_c18(rp, seed), 'C13': lambda rp, seed: checks_history.c13_replay(rp, seed), 'C20': lambda rp, seed: checks_gser.c20_replay(rp['_path'], seed)}

CHECKS = {'C04': checks_framing.c04, 'C15': checks_framing.c15, 'C11': checks_checkers.c11, 'C12': checks_checkers.c12, 'C14': checks_comments.c14,
          'C19': checks_arrange.c19, 'C17': checks_cache.c17, 'C09': checks_cgen.c09, 'C10': checks_cgen.c10,
          'C18': checks_stateless.c18, 'C13': checks_history.c13, 'C20': checks_gser.c20, 'C02': checks_text.c02, 'C08': checks_fuzz.c08, 'C07': checks_extend.c07, 'C06': c06, 'C05': c05, 'C01': c01, 'C03': c03, 'C16': c16}


def setup():
    """SANY-parse every module and run the unit-test modules (model regression)."""
    rc = 0
    from concurrent.futures import ThreadPoolExecutor
    paths = sorted(glob.glob(os.path.join(tlc.SPEC, '*.tla')))
    with ThreadPoolExecutor(max_workers=8) as ex:
        for path, (ok, out) in zip(paths, ex.map(lambda p: tlc.sany(os.path.basename(p)), paths)):
            if not ok:
                print('SANY failed on %s\n%s' % (path, out[-2000:]))
                rc = 2
    print('SANY: %d modules parsed' % len(paths))
    for path in sorted(glob.glob(os.path.join(tlc.SPEC, 'tests', 'Test*.tla'))):
        name = os.path.basename(path)[:-4]
        for ext in ('.tla', '.cfg'):
            shutil.copy(os.path.join(tlc.SPEC, 'tests', name + ext), os.path.join(tlc.SPEC, name + ext))
        try:
            res = tlc.run_tlc(name, os.path.join(tlc.SPEC, name + '.cfg'), timeout=600)
        finally:
            for ext in ('.tla', '.cfg'):
                os.unlink(os.path.join(tlc.SPEC, name + ext))
        if not res['ok']:
            print('model regression %s failed:\n%s' % (name, tlc.error_context(res['out'])))
            rc = 2
        else:
            print('model regression %s ok (%.1fs)' % (name, res['wall']))
    print('setup %s' % ('ok' if rc == 0 else 'FAILED'))
    return rc


def replay(prop, path, seed):
    """Re-execute exactly the recorded case through the same pipeline."""
    with open(path) as f:
        rp = json.load(f)
    rp['_path'] = path
    import replay as rpl
    return rpl.replay(prop, rp, seed)
