"""C17 reproducer (plain asn1tools): the cache key ignores any_defined_by_choices."""
import shutil, sys, tempfile, os
sys.path.insert(0, os.environ.get('VERIF_REPO', '/repo'))
import asn1tools
d = tempfile.mkdtemp()
try:
    f = os.path.join(d, 'a.asn')
    open(f, 'w').write('A DEFINITIONS AUTOMATIC TAGS ::= BEGIN Q ::= SEQUENCE { id INTEGER, val ANY DEFINED BY id } END\n')
    cache = os.path.join(d, 'cache')
    ch = {('A', 'Q', 'val'): {1: 'INTEGER', 2: 'BOOLEAN'}}
    asn1tools.compile_files([f], 'ber', cache_dir=cache)                            # populates the cache without choices
    cached = asn1tools.compile_files([f], 'ber', any_defined_by_choices=ch, cache_dir=cache)
    fresh = asn1tools.compile_files([f], 'ber', any_defined_by_choices=ch)
    print('uncached:', fresh.encode('Q', {'id': 1, 'val': 5}).hex())                # 3006800101020105
    try:
        print('cached  :', cached.encode('Q', {'id': 1, 'val': 5}).hex())
    except Exception as e:
        print('cached  :', type(e).__name__, e)                                     # TypeError: the choices were ignored
        sys.exit(1)
finally:
    shutil.rmtree(d)
