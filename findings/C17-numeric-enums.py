"""C17 reproducer (plain asn1tools): the cache key ignores numeric_enums."""
import shutil, sys, tempfile, os
sys.path.insert(0, os.environ.get('VERIF_REPO', '/repo'))
import asn1tools
d = tempfile.mkdtemp()
try:
    f = os.path.join(d, 'a.asn')
    open(f, 'w').write('A DEFINITIONS AUTOMATIC TAGS ::= BEGIN E ::= ENUMERATED { red(0), green(1), blue(5) } END\n')
    cache = os.path.join(d, 'cache')
    asn1tools.compile_files([f], 'ber', cache_dir=cache)                            # populates the cache
    cached = asn1tools.compile_files([f], 'ber', cache_dir=cache, numeric_enums=True)
    fresh = asn1tools.compile_files([f], 'ber', numeric_enums=True)
    print('uncached:', fresh.encode('E', 5).hex())                                  # 0a0105
    try:
        print('cached  :', cached.encode('E', 5).hex())
    except Exception as e:
        print('cached  :', type(e).__name__, e)                                     # EncodeError: Expected data of type str
        sys.exit(1)
finally:
    shutil.rmtree(d)
