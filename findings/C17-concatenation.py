"""C17 reproducer (plain asn1tools): the cache key is the concatenation of the files, but parse_files
joins them with a newline -- two file lists with the same concatenated bytes, cut at different
places, share a cache entry although they denote different specifications."""
import shutil, sys, tempfile, os
sys.path.insert(0, os.environ.get('VERIF_REPO', '/repo'))
import asn1tools
A = 'A DEFINITIONS AUTOMATIC TAGS ::= BEGIN T ::= INTEGER (0..255) END\n'
C = '-- '
B = 'B DEFINITIONS AUTOMATIC TAGS ::= BEGIN U ::= BOOLEAN END\n'
d = tempfile.mkdtemp()
try:
    def write(a, b):
        open(os.path.join(d, 'a.asn'), 'w').write(a)
        open(os.path.join(d, 'b.asn'), 'w').write(b)
        return [os.path.join(d, 'a.asn'), os.path.join(d, 'b.asn')]
    cache = os.path.join(d, 'cache')
    asn1tools.compile_files(write(A, C + B), 'ber', cache_dir=cache)      # module B is inside a comment
    files = write(A + C, B)                                               # same bytes, B is live now
    fresh = asn1tools.compile_files(files, 'ber')
    cached = asn1tools.compile_files(files, 'ber', cache_dir=cache)
    print('uncached:', fresh.encode('U', True).hex())                     # 0101ff
    try:
        print('cached  :', cached.encode('U', True).hex())
    except Exception as e:
        print('cached  :', type(e).__name__, e)                           # EncodeError: Type 'U' not found
        sys.exit(1)
finally:
    shutil.rmtree(d)
