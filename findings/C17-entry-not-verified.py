"""C17 reproducer (plain asn1tools): a flipped byte in the cache directory makes compile_files
return a *different* Specification instead of raising: the pickled value is returned as read,
nothing ties it to the key or checks its integrity."""
import os, shutil, sys, tempfile
sys.path.insert(0, os.environ.get('VERIF_REPO', '/repo'))
import asn1tools
d = tempfile.mkdtemp()
try:
    f = os.path.join(d, 'a.asn')
    open(f, 'w').write('A DEFINITIONS AUTOMATIC TAGS ::= BEGIN Tq ::= INTEGER (0..255) END\n')
    cache = os.path.join(d, 'cache')
    fresh = asn1tools.compile_files([f], 'uper')
    asn1tools.compile_files([f], 'uper', cache_dir=cache)          # populates the cache
    import gc; gc.collect()          # as at interpreter exit: the connection closes, sqlite checkpoints the WAL into cache.db
    # the pickled value lives in cache.db or, until sqlite checkpoints, in cache.db-wal
    db, data = [(os.path.join(cache, n), open(os.path.join(cache, n), 'rb').read()) for n in sorted(os.listdir(cache))
                if b'Tq' in open(os.path.join(cache, n), 'rb').read()][0]
    at = data.index(b'Tq')                                          # the type name inside the pickled value
    snap = os.path.join(d, 'snap')
    shutil.copytree(cache, snap)
    wrong = 0
    occurrences = [i for i in range(len(data)) if data.startswith(b'Tq', i)]    # flip 'T' -> 'U' in each, one at a time
    for pos in occurrences:
        shutil.rmtree(cache); shutil.copytree(snap, cache)
        with open(db, 'r+b') as fh:
            fh.seek(pos); b = fh.read(1); fh.seek(pos); fh.write(bytes([b[0] ^ 0x01]))
        try:
            cached = asn1tools.compile_files([f], 'uper', cache_dir=cache)
        except Exception as e:
            continue                                                 # an error is allowed
        try:
            got = cached.encode('Tq', 200).hex()
        except Exception as e:
            got = type(e).__name__ + ': ' + str(e)
        if got != fresh.encode('Tq', 200).hex():
            wrong += 1
            if wrong <= 3:
                print('byte %d of %s flipped: compile_files returned a Specification with encode(Tq, 200) = %s (uncached: %s)'
                      % (pos, os.path.basename(db), got, fresh.encode('Tq', 200).hex()))
    print('%d of the flipped positions gave a wrong Specification without any error' % wrong)
    sys.exit(1 if wrong else 0)
finally:
    shutil.rmtree(d)
