SPECIFICATION RSpec
CONSTANTS
  Alphabet <- Alpha8
  MaxLen = 4
INVARIANT StepBound
INVARIANT Agreement
INVARIANT NoStuck
PROPERTY Progress
CHECK_DEADLOCK FALSE
