----------------------------- MODULE Trace_Gser -----------------------------
(***************************************************************************)
(* Binding B for C20: one recorded line per case (a type, its values and,  *)
(* for every value and layout, the text the real GSER encoder wrote).      *)
(* One action consumes one line; every recorded text is handed to the      *)
(* reader of Gser.tla:                                                     *)
(*                                                                         *)
(*   ok      read completely by the standard RFC 3641 productions (compact *)
(*           layout: strict sp class) and the value read is AbsEq to the   *)
(*           value that was encoded; or the value has no GSER notation     *)
(*           (NaN) and the encoder refused it with an EncodeError          *)
(*   dev     only read back to the value when the named deviations (the    *)
(*           smallest set, among those whose production the value reaches) *)
(*           are tolerated                                                 *)
(*   reject  anything else: `production at position: why`, or the          *)
(*           exception key, followed by ` applicable:{...}` naming the     *)
(*           input classes of Gser.tla whose symptom this is               *)
(*                                                                         *)
(* plus, per layout, the cross-value check INJ: two values of the case     *)
(* that are not AbsEq must not have produced identical text.               *)
(* A rejected observation never stops the run: exactly one report per      *)
(* line goes to VERDICT_FILE; TraceAccepted demands that every line was    *)
(* consumed.                                                               *)
(***************************************************************************)
EXTENDS Gser, TLCExt, Json, IOUtils

Tr == ndJsonDeserialize(IOEnv.TRACE_FILE)

VARIABLE i
vars == <<i>>

Has(r, f) == f \in DOMAIN r
InMro(o, name) == \E j \in 1..Len(o.mro) : o.mro[j] = name
IsEncodeError(o) == o.st = "exc" /\ InMro(o, "asn1tools.errors.EncodeError")

ExcKey(phase, o) ==
  IF o.st = "exc" THEN phase \o "-exc:" \o o.cls \o "@" \o o.site
  ELSE IF o.st = "timeout" THEN phase \o "-timeout@" \o o.site
  ELSE phase \o "-bad:" \o o.msg

V(check, verdict, detail) == [check |-> check, verdict |-> verdict, detail |-> detail]

\* the input classes that hold for the value AND whose known symptom is what was observed
Applicable(env, T, v, enc) ==
  LET symptom(c) == CASE c = "GserEmptyBitString" -> enc.st = "exc" /\ enc.cls = "ValueError"
                      [] c = "GserAbsentMandatoryAddition" -> IsEncodeError(enc)
                      [] c = "GserAbsentNullDefault" -> IsEncodeError(enc)
                      [] c = "GserRealMinusZero" -> enc.st = "ok"
  IN {GserClasses[j] : j \in {j \in 1..Len(GserClasses) : symptom(GserClasses[j]) /\ GClassHolds(GserClasses[j], env, T, v)}}

Reals(o) == IF Has(o, "reals") THEN o.reals ELSE <<>>

\* rel: the deviations relevant for v (computed once per value, see LineReport)
TextVerdict(L, env, T, v, o, rel) ==
  LET t == o.enc.t
      wsLf == o.ind >= 0
      r0 == GserRead(env, L.top, L.tn, t, wsLf, {}, Reals(o), GNoHint)
  IN IF r0.ok /\ AbsEq(env, T, v, r0.v) THEN V("GSER", "ok", "")
     ELSE LET cands == GDevCandidates(rel)
              k == SelectInSeq(cands, LAMBDA S : GserAccepts(env, L.top, L.tn, t, wsLf, S, Reals(o), v))
          IN IF k # 0 THEN V("GSER", "dev", ToString(cands[k]))
             ELSE V("GSER", "reject",
                    (IF r0.ok THEN "reads back as a different value"
                     ELSE r0.prod \o " at " \o ToString(r0.at) \o ": " \o r0.msg)
                    \o " applicable:" \o ToString(Applicable(env, T, v, o.enc)))

\* pv: per-value facts [rep |-> GRepresentable, rel |-> GRelevantDevs], indexed by o.vi
ObsVerdict(L, o, pv) ==
  IF Has(o, "machinery") THEN V("ANY", "machinery", o.machinery)
  ELSE IF Has(o, "compile") THEN V("ANY", "skip", "not compilable: " \o ExcKey("compile", o.compile))
  ELSE LET env == L.env
           T == env.types[L.top]
           v == L.vals[o.vi]
           rep == pv[o.vi].rep
       IN IF ~rep /\ IsEncodeError(o.enc) /\ Applicable(env, T, v, o.enc) = {}
          THEN V("GSER", "ok", "")                                   \* no notation, refused
          ELSE IF o.enc.st # "ok"
          THEN V("GSER", "reject", ExcKey("enc", o.enc) \o " applicable:" \o ToString(Applicable(env, T, v, o.enc)))
          ELSE IF ~rep
          THEN V("GSER", "reject", "text for a value that has no GSER notation applicable:" \o ToString(Applicable(env, T, v, o.enc)))
          ELSE TextVerdict(L, env, T, v, o, pv[o.vi].rel)

\* INJ: pairs of observations of one layout with identical text and different values
Collisions(L) ==
  LET n == Len(L.obs)
      okText(j) == Has(L.obs[j], "enc") /\ L.obs[j].enc.st = "ok"
      pair(a, b) ==
        LET oa == L.obs[a]  ob == L.obs[b]
            env == L.env  T == env.types[L.top]
            va == L.vals[oa.vi]  vb == L.vals[ob.vi]
        IN IF a < b /\ okText(a) /\ okText(b) /\ oa.ind = ob.ind /\ oa.ne = ob.ne /\ oa.vi # ob.vi
              /\ Len(oa.enc.t) = Len(ob.enc.t) /\ oa.enc.t = ob.enc.t /\ ~AbsEq(env, T, va, vb)
           THEN LET what == "same text as value " \o ToString(ob.vi) \o " which is a different value"
                    quotes == "DevGserNoQuoteDoubling" \in (GRelevantDevs(env, T, va) \cup GRelevantDevs(env, T, vb))
                    cls == Applicable(env, T, va, oa.enc) \cup Applicable(env, T, vb, ob.enc)
                IN << [vi |-> oa.vi, codec |-> "gser", ne |-> oa.ne, ind |-> oa.ind, check |-> "INJ",
                       verdict |-> IF quotes THEN "dev" ELSE "reject",
                       detail |-> IF quotes THEN ToString({"DevGserNoQuoteDoubling"})
                                  ELSE what \o " applicable:" \o ToString(cls)] >>
           ELSE <<>>
  IN Concat([a \in 1..n |-> Concat([b \in 1..(n - a) |-> pair(a, a + b)])])

\* the same text for the same value in another layout gets the same verdict
\* (a text without structure is identical in all layouts; if it contains no
\* LINE FEED the white-space class makes no difference)
SameAsPrevious(L, j) ==
  /\ j > 1
  /\ LET o == L.obs[j]  q == L.obs[j - 1] IN
       /\ Has(o, "enc") /\ Has(q, "enc") /\ o.enc.st = "ok" /\ q.enc.st = "ok"
       /\ o.vi = q.vi /\ o.ne = q.ne
       /\ Len(o.enc.t) = Len(q.enc.t) /\ o.enc.t = q.enc.t
       /\ \A k \in 1..Len(o.enc.t) : o.enc.t[k] # 10

LineReport(L) ==
  LET env == L.env
      T == env.types[L.top]
      pv == Force([k \in 1..Len(L.vals) |-> [rep |-> GRepresentable(env, T, L.vals[k]), rel |-> GRelevantDevs(env, T, L.vals[k])]])
      one(acc, j) ==
        LET o == L.obs[j] IN
        IF SameAsPrevious(L, j) THEN Append(acc, [acc[j - 1] EXCEPT !.ind = o.ind])
        ELSE LET r == ObsVerdict(L, o, pv)
             IN Append(acc, [vi |-> o.vi, codec |-> o.codec, ne |-> o.ne, ind |-> o.ind,
                             check |-> r.check, verdict |-> r.verdict, detail |-> r.detail])
      per == FoldLeft(one, <<>>, [j \in 1..Len(L.obs) |-> j])
      col == Collisions(L)
      inj == IF col = <<>> THEN << [vi |-> 0, codec |-> "gser", ne |-> FALSE, ind |-> -1, check |-> "INJ", verdict |-> "ok", detail |-> ""] >>
             ELSE col
      all == per \o inj
  IN [cid |-> L.cid, n |-> Len(all),
      ok |-> Len(SelectSeq(all, LAMBDA r : r.verdict = "ok")),
      other |-> SelectSeq(all, LAMBDA r : r.verdict # "ok")]

Emit(r) ==
  Serialize(ToJson(r) \o "\n", IOEnv.VERDICT_FILE,
            [format |-> "TXT", charset |-> "UTF-8", openOptions |-> <<"WRITE", "CREATE", "APPEND">>]).exitValue = 0

Init == i = 1
Next == /\ i <= Len(Tr)
        /\ Emit(LineReport(Tr[i]))
        /\ i' = i + 1
Spec == Init /\ [][Next]_vars

TraceAccepted == TLCGet("stats").diameter - 1 = Len(Tr)

=============================================================================
