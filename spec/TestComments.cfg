SPECIFICATION Spec
CONSTANTS
  MaxLen = 0
  Alphabet = {}
  Mut = {}
  MaxChanges = 0
  MinChanges = 0
  Skips = {}
  OnlyBfs = FALSE
  FillerIdx = {}
  Inject = FALSE
  FinishEarly = FALSE
  OnlyWordPairs = FALSE
