------------------------------- MODULE TypeGen ------------------------------
(***************************************************************************)
(* The grammar of the supported ASN.1 notation as a transition system.     *)
(*                                                                         *)
(* State  <<env, T, depth>>:  T is the type under test, env.types holds    *)
(* the named types it refers to.  Init picks a primitive type from the     *)
(* boundary tables; every action is one production of the notation applied *)
(* around the current type (wrap in SEQUENCE / SET / CHOICE / SEQUENCE OF  *)
(* / SET OF, make it OPTIONAL / DEFAULT / an extension addition, tag it,   *)
(* name it and refer to it, close a recursion).  BFS depth = nesting       *)
(* depth.  Values(env, T) is the boundary-value table of a type.           *)
(*                                                                         *)
(* No cartesian products: tables are boundary tables (DESIGN 2.9).         *)
(***************************************************************************)
EXTENDS Asn1Value, TLC, Json, IOUtils

CONSTANTS Big,           \* TRUE: also the big-payload cases (lengths around 128 / 16K / 64K)
          MaxDepth,      \* nesting depth explored by BFS
          Rich,          \* TRUE: full tables, FALSE: reduced (quick) tables
          TagDefs        \* subset of {"E","I","A"} explored for the module default

VARIABLES gEnv, gT, gDepth
vars == <<gEnv, gT, gDepth>>

B(n) == FromInt(n)
P2(k) == TwoTo(k)

------------------------------------------------------------------------------
(* constructors                                                             *)

NoSz == [f |-> "N"]
Sz(lb, ub, ext) == [f |-> "R", lb |-> lb, ub |-> ub, ubinf |-> FALSE, ext |-> ext]
SzMin(lb) == [f |-> "R", lb |-> lb, ub |-> 0, ubinf |-> TRUE, ext |-> FALSE]
NoAl == [has |-> FALSE, set |-> <<>>]
Al(s) == [has |-> TRUE, set |-> s]

TBool == [k |-> "BOOL", tags |-> <<>>]
TNull == [k |-> "NULL", tags |-> <<>>]
TOid  == [k |-> "OID", tags |-> <<>>]
TReal == [k |-> "REAL", tags |-> <<>>]
TIntN == [k |-> "INT", tags |-> <<>>, con |-> [f |-> "N"], nn |-> <<>>]
TIntR(lb, ub, ext) == [k |-> "INT", tags |-> <<>>, nn |-> <<>>,
   con |-> [f |-> "R", lbinf |-> FALSE, ubinf |-> FALSE, lb |-> lb, ub |-> ub, ext |-> ext]]
TIntLo(lb) == [k |-> "INT", tags |-> <<>>, nn |-> <<>>,
   con |-> [f |-> "R", lbinf |-> FALSE, ubinf |-> TRUE, lb |-> lb, ub |-> Zero, ext |-> FALSE]]
TIntHi(ub) == [k |-> "INT", tags |-> <<>>, nn |-> <<>>,
   con |-> [f |-> "R", lbinf |-> TRUE, ubinf |-> FALSE, lb |-> Zero, ub |-> ub, ext |-> FALSE]]
TEnum(root, ext, adds) == [k |-> "ENUM", tags |-> <<>>, root |-> root, ext |-> ext, adds |-> adds]
It(n, v) == [n |-> n, v |-> v]
TBits(sz, nb) == [k |-> "BITS", tags |-> <<>>, sz |-> sz, nb |-> nb]
TOcts(sz) == [k |-> "OCTS", tags |-> <<>>, sz |-> sz]
TStr(st, sz, al) == [k |-> "STR", tags |-> <<>>, st |-> st, sz |-> sz, al |-> al]
Mem(n, t, q, d) == [n |-> n, t |-> t, q |-> q, d |-> d]
Mand(n, t) == Mem(n, t, "M", "NULL")
Opt(n, t) == Mem(n, t, "O", "NULL")
Def(n, t, d) == Mem(n, t, "D", d)
TSeq(k, root, ext, adds) == [k |-> k, tags |-> <<>>, root |-> root, ext |-> ext, adds |-> adds]
Add1(m) == [g |-> FALSE, m |-> m, ms |-> <<>>]
AddG(ms) == [g |-> TRUE, m |-> Mand("x", TNull), ms |-> ms]
Alt(n, t) == [n |-> n, t |-> t]
TChoice(root, ext, adds) == [k |-> "CHOICE", tags |-> <<>>, root |-> root, ext |-> ext, adds |-> adds]
TOf(k, e, sz) == [k |-> k, tags |-> <<>>, e |-> e, sz |-> sz]
TRef(name) == [k |-> "REF", tags |-> <<>>, name |-> name]
Tag(cls, num, mode) == [cls |-> cls, num |-> num, mode |-> mode]
WithTag(t, tg) == [t EXCEPT !.tags = <<tg>> \o t.tags]
\* the tool reads at most one tag per type: tag only what is not tagged yet
Tagged(t, tg) == IF t.tags = <<>> THEN WithTag(t, tg) ELSE t

------------------------------------------------------------------------------
(* boundary tables of primitive types                                       *)

IntRanges ==   \* <<lb, ub>> : range widths 1,2,3,255,256,257,65535,65536,65537,2^32,2^64 ...
  << <<B(0), B(0)>>, <<B(0), B(1)>>, <<B(0), B(2)>>, <<B(0), B(7)>>, <<B(0), B(254)>>, <<B(0), B(255)>>,
     <<B(0), B(256)>>, <<B(-128), B(127)>>, <<B(-129), B(127)>>, <<B(1), B(65536)>>,
     <<B(0), B(65535)>>, <<B(0), B(65536)>>, <<B(-32768), B(32767)>>, <<B(2005), B(2007)>>,
     <<B(0), Pred(P2(32))>>, <<B(0), P2(32)>>, <<Neg(P2(31)), Pred(P2(31))>>,
     <<B(0), Pred(P2(64))>>, <<Neg(P2(63)), Pred(P2(63))>>, <<B(0), P2(64)>>, <<B(-1), B(0)>> >>

IntRangesQuick ==
  << <<B(0), B(0)>>, <<B(0), B(7)>>, <<B(0), B(255)>>, <<B(0), B(256)>>, <<B(-129), B(127)>>,
     <<B(1), B(65536)>>, <<B(0), B(65536)>>, <<B(0), P2(32)>>, <<B(0), Pred(P2(64))>>,
     <<Neg(P2(63)), Pred(P2(63))>> >>

IntTypes ==
  LET rs == IF Rich THEN IntRanges ELSE IntRangesQuick
  IN <<TIntN>> \o [i \in 1..Len(rs) |-> TIntR(rs[i][1], rs[i][2], FALSE)]
     \o <<TIntR(B(0), B(10), TRUE), TIntR(B(-5), B(300), TRUE), TIntLo(B(0)), TIntLo(B(-1)), TIntLo(B(256)),
          TIntHi(B(0)), TIntHi(B(127))>>

EnumTypes ==
  << TEnum(<<It("a", 0)>>, FALSE, <<>>),
     TEnum(<<It("a", 0), It("b", 1)>>, FALSE, <<>>),
     TEnum(<<It("a", 0), It("b", 1), It("c", 2)>>, FALSE, <<>>),
     TEnum(<<It("b", 5), It("a", -1), It("c", 127), It("d", 128)>>, FALSE, <<>>),
     TEnum(<<It("a", 0), It("b", 1)>>, TRUE, <<>>),
     TEnum(<<It("a", 0), It("b", 1)>>, TRUE, <<It("c", 2), It("d", 3)>>),
     TEnum(<<It("a", -129), It("b", 32768)>>, TRUE, <<It("c", 40000)>>) >>

BitsTypes ==
  << TBits(NoSz, <<>>), TBits(Sz(1, 1, FALSE), <<>>), TBits(Sz(8, 8, FALSE), <<>>), TBits(Sz(9, 9, FALSE), <<>>),
     TBits(Sz(16, 16, FALSE), <<>>), TBits(Sz(17, 17, FALSE), <<>>), TBits(Sz(0, 7, FALSE), <<>>),
     TBits(Sz(1, 20, FALSE), <<>>), TBits(Sz(0, 0, FALSE), <<>>),
     TBits(NoSz, <<It("x", 0), It("y", 3), It("z", 9)>>),
     TBits(Sz(4, 4, FALSE), <<It("x", 0), It("y", 3)>>),
     TBits(Sz(2, 12, FALSE), <<It("x", 0), It("y", 3)>>) >>

OctsTypes ==
  << TOcts(NoSz), TOcts(Sz(1, 1, FALSE)), TOcts(Sz(2, 2, FALSE)), TOcts(Sz(3, 3, FALSE)), TOcts(Sz(0, 0, FALSE)),
     TOcts(Sz(0, 2, FALSE)), TOcts(Sz(1, 4, FALSE)), TOcts(Sz(0, 255, FALSE)), TOcts(Sz(0, 256, FALSE)),
     TOcts(SzMin(2)), TOcts(Sz(1, 2, TRUE)) >>

StrKinds == <<"IA5", "Visible", "Numeric", "Printable", "UTF8", "BMP", "Universal", "General", "Graphic", "Teletex">>

StrTypes ==
  [i \in 1..Len(StrKinds) |-> TStr(StrKinds[i], NoSz, NoAl)] \o
  << TStr("IA5", Sz(3, 3, FALSE), NoAl), TStr("IA5", Sz(0, 4, FALSE), NoAl), TStr("IA5", Sz(2, 2, FALSE), NoAl),
     TStr("IA5", Sz(1, 3, FALSE), Al(<<65, 66>>)),                     \* FROM ("AB"): 1 bit per char
     TStr("IA5", NoSz, Al(<<65, 66, 67>>)),                            \* 2 bits
     TStr("IA5", Sz(0, 8, FALSE), Al(<<48, 49, 50, 51, 52>>)),         \* 5 chars: 3 bits
     TStr("Visible", Sz(1, 255, FALSE), NoAl), TStr("Visible", Sz(0, 65536, FALSE), NoAl),
     TStr("Numeric", Sz(1, 5, FALSE), NoAl), TStr("Numeric", Sz(4, 4, FALSE), Al(<<48, 49>>)),
     TStr("Printable", Sz(2, 2, FALSE), NoAl),
     TStr("UTF8", Sz(2, 4, FALSE), NoAl), TStr("UTF8", Sz(3, 3, FALSE), NoAl),
     TStr("BMP", Sz(2, 2, FALSE), NoAl), TStr("BMP", Sz(0, 3, FALSE), NoAl),
     TStr("Universal", Sz(1, 1, FALSE), NoAl),
     TStr("IA5", Sz(1, 2, TRUE), NoAl), TStr("Visible", SzMin(1), NoAl) >>

\* many items / many additions: normally-small numbers >= 64, 8-bit indices
ManyEnum(nroot, nadd) ==
  TEnum([i \in 1..nroot |-> It("r" \o ToString(i), i - 1)], nadd > 0,
        [i \in 1..nadd |-> It("a" \o ToString(i), nroot + i - 1)])
ManyAdditions(n) ==
  TSeq("SEQ", <<Mand("pre", TBool)>>, TRUE, [i \in 1..n |-> Add1(Opt("a" \o ToString(i), WithTag(TBool, Tag("C", i, "D"))))])
ManyAlternatives(nroot, nadd) ==
  TChoice([i \in 1..nroot |-> Alt("r" \o ToString(i), WithTag(TBool, Tag("C", i - 1, "D")))], nadd > 0,
          [i \in 1..nadd |-> Alt("a" \o ToString(i), WithTag(TNull, Tag("C", nroot + i - 1, "D")))])
ManyTypes == IF Rich THEN <<ManyEnum(130, 0), ManyEnum(3, 70), ManyEnum(257, 0), ManyAdditions(65), ManyAdditions(3),
                            ManyAdditions(7), ManyAdditions(8), ManyAdditions(9), ManyAdditions(16), ManyAdditions(64),
                            ManyAlternatives(3, 66), ManyAlternatives(130, 0)>>
             ELSE <<ManyEnum(3, 70), ManyAdditions(65), ManyAdditions(8),
                    ManyAlternatives(2, 1)>>      \* a small extensible CHOICE: wrapped, it is followed by other components

PrimTypes == <<TBool, TNull, TOid, TReal>> \o IntTypes \o EnumTypes \o BitsTypes \o OctsTypes \o StrTypes \o ManyTypes

\* big payloads: only at depth 0, marked by gDepth = BigMark
BigMark == 100
BigLens == IF Rich THEN <<127, 128, 255, 256, 16383, 16384, 16385, 32768, 49152, 65535, 65536, 70000>>
           ELSE <<128, 16384, 49152, 65536>>      \* one, three, four (+ a final empty) fragments
BigTypes ==
  <<TOcts(NoSz), TBits(NoSz, <<>>), TStr("IA5", NoSz, NoAl), TStr("UTF8", NoSz, NoAl), TStr("Numeric", NoSz, NoAl),
    TOf("SEQOF", TBool, NoSz), TOf("SEQOF", TIntR(B(0), B(255), FALSE), NoSz), TOcts(Sz(0, 65535, FALSE)),
    TOcts(Sz(0, 65536, FALSE)), TStr("Visible", Sz(0, 65536, FALSE), NoAl), TStr("BMP", NoSz, NoAl),
    TOcts(Sz(70000, 70000, FALSE)), TBits(Sz(0, 70000, FALSE), <<>>), TOf("SETOF", TNull, NoSz)>>
\* lengths between the fragmentation boundaries: long runs of sub-octet fields followed by
\* an octet-aligned field / inside an open type (buffer and alignment book-keeping)
MidLens == IF Rich THEN <<1022, 1363, 1500, 2047, 2048, 4095, 4096, 4097, 5461, 8191, 8192, 12000>>
           ELSE <<1363, 4097>>
SubOctetCarriers ==
  <<TOf("SEQOF", TIntR(B(0), B(7), FALSE), NoSz), TOf("SEQOF", TBool, Sz(0, 20000, FALSE)), TStr("Numeric", NoSz, NoAl),
    TBits(NoSz, <<>>), TOf("SEQOF", TEnum(<<It("a", 0), It("b", 1), It("c", 2)>>, FALSE, <<>>), Sz(0, 20000, FALSE)),
    TStr("IA5", Sz(0, 20000, FALSE), Al(<<65, 66, 67>>))>>
BigWrapped ==
  Concat([i \in 1..Len(SubOctetCarriers) |->
     <<TSeq("SEQ", <<Mand("x", SubOctetCarriers[i]), Mand("post", TOcts(NoSz))>>, FALSE, <<>>),
       TSeq("SEQ", <<Mand("pre", TBool)>>, TRUE, <<Add1(Mand("x", SubOctetCarriers[i])), Add1(Opt("y", TIntN))>>)>>])

BigOne(t, n) ==
  CASE t.k = "OCTS" -> [j \in 1..n |-> (j * 7) % 256]
    [] t.k = "BITS" -> [n |-> n, b |-> BitsToBytes([j \in 1..n |-> (j \div 3) % 2])]
    [] t.k = "STR" -> [j \in 1..n |-> IF t.st = "Numeric" THEN 48 + (j % 10) ELSE 65 + (j % 3)]
    [] t.e.k = "BOOL" -> [j \in 1..n |-> (j % 3) = 0]
    [] t.e.k = "NULL" -> [j \in 1..n |-> "NULL"]
    [] t.e.k = "ENUM" -> [j \in 1..n |-> IF j % 2 = 0 THEN "a" ELSE "c"]
    [] OTHER -> [j \in 1..n |-> B(j % (IF t.e.con.f = "R" /\ Eq(t.e.con.ub, B(7)) THEN 8 ELSE 256))]

BigValues(t) ==
  IF t.k = "SEQ"
  THEN LET inner == IF t.ext THEN t.adds[1].m.t ELSE t.root[1].t
       IN [i \in 1..Len(MidLens) |->
             IF t.ext THEN [pre |-> Present(TRUE), x |-> Present(BigOne(inner, MidLens[i])), y |-> Present(B(5))]
             ELSE [x |-> Present(BigOne(inner, MidLens[i])), post |-> Present(<<1, 2, 3>>)]]
  ELSE LET ok(n) == t.sz.f = "N" \/ (n >= t.sz.lb /\ (t.sz.ubinf \/ n <= t.sz.ub))
           lens == SelectSeq(BigLens, ok)
       IN [i \in 1..Len(lens) |-> BigOne(t, lens[i])]

\* a few representatives that are wrapped at depth >= 1 when ~Rich
Carriers ==
  <<TBool, TNull, TIntN, TIntR(B(0), B(255), FALSE), TIntR(B(0), B(10), TRUE), TIntR(B(1), B(65536), FALSE),
    EnumTypes[2], EnumTypes[6], BitsTypes[1], BitsTypes[10], BitsTypes[4], OctsTypes[1], OctsTypes[3],
    OctsTypes[7], StrTypes[1], StrTypes[5], StrTypes[11], StrTypes[14], TReal, TOid, ManyAlternatives(2, 1)>>

------------------------------------------------------------------------------
(* boundary values                                                          *)

Dedup(s) ==   \* keep first occurrences (values of one type are comparable)
  FoldLeft(LAMBDA acc, x : IF \E i \in 1..Len(acc) : acc[i] = x THEN acc ELSE Append(acc, x), <<>>, s)

IntValues(c) ==
  IF c.f = "N"
  THEN <<B(0), B(1), B(-1), B(127), B(128), B(-128), B(-129), B(255), B(256), B(32767), B(32768), B(65536),
         Pred(P2(31)), P2(31), Pred(P2(63)), Neg(P2(63)), P2(63), Pred(P2(64)), P2(64), Neg(Succ(P2(63)))>>
  ELSE IF c.lbinf
  THEN <<c.ub, Pred(c.ub), B(-128), B(-129), Neg(P2(63))>>
  ELSE IF c.ubinf
  THEN <<c.lb, Succ(c.lb), Add(c.lb, B(127)), Add(c.lb, B(128)), Add(c.lb, B(255)), Add(c.lb, B(256)),
         Add(c.lb, B(65536)), Add(c.lb, P2(32)), Add(c.lb, Pred(P2(64)))>>
  ELSE LET inside == Dedup(<<c.lb, c.ub,
                       IF Lt(c.lb, c.ub) THEN Succ(c.lb) ELSE c.lb,
                       IF Lt(c.lb, c.ub) THEN Pred(c.ub) ELSE c.ub,
                       IF Leq(Add(c.lb, B(128)), c.ub) THEN Add(c.lb, B(128)) ELSE c.lb,
                       IF Leq(Add(c.lb, B(256)), c.ub) THEN Add(c.lb, B(256)) ELSE c.lb,
                       IF Leq(Add(c.lb, B(65536)), c.ub) THEN Add(c.lb, B(65536)) ELSE c.lb>>)
       IN IF c.ext THEN inside \o <<Pred(c.lb), Succ(c.ub), Add(c.ub, B(128)), Sub(c.lb, B(129)), Add(c.ub, P2(32))>>
          ELSE inside

\* lengths worth trying for a size constraint, capped
SizeLens(sz, cap) ==
  IF sz.f = "N" THEN <<0, 1, 2, 5>>
  ELSE LET hi == IF sz.ubinf THEN sz.lb + 3 ELSE sz.ub
           cands == <<sz.lb, sz.lb + 1, hi - 1, hi>> \o (IF sz.ext THEN <<hi + 1, hi + 2>> ELSE <<>>)
           ok(n) == /\ n >= 0 /\ n <= cap
                    /\ (n >= sz.lb /\ n <= hi) \/ (sz.ext /\ n > hi)
       IN Dedup(SelectSeq(cands, ok))

BitPattern(n, phase) ==   \* n bits, alternating starting with 1 (phase 0) / all zero (1) / all one (2)
  [i \in 1..n |-> IF phase = 1 THEN 0 ELSE IF phase = 2 THEN 1 ELSE i % 2]
MkBits(bits) == [n |-> Len(bits), b |-> BitsToBytes(bits)]

BitsValues(T) ==
  LET lens == SizeLens(T.sz, 40)
      base == Concat([i \in 1..Len(lens) |-> <<MkBits(BitPattern(lens[i], 0)), MkBits(BitPattern(lens[i], 2))>>])
      named == IF T.nb # <<>> /\ T.sz.f = "N"
               THEN <<MkBits(<<1, 0, 0, 1>>), MkBits(<<1, 0, 0, 1, 0, 0, 0, 0, 0, 1>>),
                      MkBits(<<1, 0, 0, 0, 0, 0, 0, 0>>), MkBits(<<0, 0, 0, 0>>)>>
               ELSE IF T.nb # <<>> THEN [i \in 1..Len(lens) |-> MkBits(BitPattern(lens[i], 1))]
               ELSE <<>>
  IN Dedup(base \o named)

OctsValues(T) ==
  LET lens == SizeLens(T.sz, 300)
  IN [i \in 1..Len(lens) |-> [j \in 1..lens[i] |-> (j * 37 + lens[i]) % 256]]

SampleChars(T) ==
  IF T.al.has THEN T.al.set
  ELSE CASE T.st = "Numeric" -> <<49, 32, 57>>
         [] T.st = "Printable" -> <<65, 122, 32, 63>>
         [] T.st \in {"UTF8", "Universal"} -> <<97, 228, 8364, 128512>>
         [] T.st = "BMP" -> <<97, 228, 8364>>
         [] T.st = "Visible" -> <<32, 126, 72>>
         [] T.st = "IA5" -> <<72, 0, 127, 10>>
         [] OTHER -> <<72, 105, 33>>

StrValues(T) ==
  LET lens == SizeLens(T.sz, 300)
      cs == SampleChars(T)
  IN [i \in 1..Len(lens) |-> [j \in 1..lens[i] |-> cs[((j + i) % Len(cs)) + 1]]]

RealValues ==
  << [c |-> "Z", s |-> 0, m |-> <<>>, e |-> 0],
     [c |-> "F", s |-> 0, m |-> <<1>>, e |-> 0],            \* 1.0
     [c |-> "F", s |-> 1, m |-> <<1>>, e |-> 1],            \* -2.0
     [c |-> "F", s |-> 0, m |-> <<5>>, e |-> -2],           \* 1.25
     [c |-> "F", s |-> 0, m |-> <<1>>, e |-> -1074],        \* smallest subnormal
     [c |-> "F", s |-> 0, m |-> <<31, 255, 255, 255, 255, 255, 255>>, e |-> 971],   \* max double
     [c |-> "F", s |-> 1, m |-> <<1>>, e |-> 128],
     [c |-> "F", s |-> 0, m |-> <<1>>, e |-> -128],         \* exponent octet 0x80
     [c |-> "F", s |-> 1, m |-> <<5>>, e |-> -128],
     [c |-> "F", s |-> 0, m |-> <<3>>, e |-> -127],
     [c |-> "F", s |-> 0, m |-> <<1>>, e |-> 127],
     [c |-> "F", s |-> 0, m |-> <<1>>, e |-> 255],
     [c |-> "F", s |-> 0, m |-> <<1>>, e |-> 256],
     [c |-> "F", s |-> 0, m |-> <<1>>, e |-> -256],
     [c |-> "F", s |-> 0, m |-> <<1>>, e |-> -257],
     [c |-> "F", s |-> 0, m |-> <<1, 1>>, e |-> -129],
     [c |-> "PINF", s |-> 0, m |-> <<>>, e |-> 0],
     [c |-> "NINF", s |-> 0, m |-> <<>>, e |-> 0],
     [c |-> "NAN", s |-> 0, m |-> <<>>, e |-> 0] >>

OidValues == << <<1, 2>>, <<0, 39, 3>>, <<2, 5, 4, 3>>, <<1, 2, 840, 113549>>, <<2, 999, 3>>, <<2, 40>>,
                <<1, 0, 127, 128, 16383, 16384>>, <<2, 47>>, <<2, 48, 1>>, <<2, 100, 3>>, <<2, 175, 1>>, <<2, 176>>,
                <<2, 16303, 5>>, <<2, 16304>> >>

RECURSIVE Values(_, _, _)
\* fuel bounds the unfolding of recursive types: it decreases at every type
\* reference; at fuel 0 only a minimal value is produced (OPTIONAL members absent,
\* first alternative, shortest list)
Values(e, t, fuel) ==
  CASE t.k = "REF" -> Values(e, e.types[t.name], IF fuel = 0 THEN 0 ELSE fuel - 1)
    [] t.k = "BOOL" -> <<TRUE, FALSE>>
    [] t.k = "NULL" -> <<"NULL">>
    [] t.k = "INT" -> IntValues(t.con)
    [] t.k = "ENUM" -> [i \in 1..Len(AllAlts(t)) |-> AllAlts(t)[i].n]
    [] t.k = "BITS" -> BitsValues(t)
    [] t.k = "OCTS" -> OctsValues(t)
    [] t.k = "STR" -> StrValues(t)
    [] t.k = "REAL" -> RealValues
    [] t.k = "OID" -> OidValues
    [] t.k \in {"SEQ", "SET"} ->
         LET ms == AllMembers(t)
             names == {ms[i].n : i \in 1..Len(ms)}
             allvs == Force([i \in 1..Len(ms) |-> IF fuel = 0 /\ ms[i].q # "M" THEN <<>>
                                              ELSE Values(e, ms[i].t, fuel)])
             vs(i) == allvs[i]
             first(i) == IF vs(i) = <<>> THEN Absent ELSE Present(vs(i)[1])
             base == [nm \in names |-> first(MemberIndex(ms, nm))]
             \* one-hot: member i takes its j-th value / becomes absent
             \* members of the same addition group as member i (or just i)
             groupOf(i) == IF i <= Len(t.root) THEN {i}
                           ELSE LET nm == ms[i].n
                                    g == CHOOSE a \in 1..Len(t.adds) :
                                           IF t.adds[a].g THEN \E h \in 1..Len(t.adds[a].ms) : t.adds[a].ms[h].n = nm
                                           ELSE t.adds[a].m.n = nm
                                IN IF t.adds[g].g
                                   THEN {h \in 1..Len(ms) : \E u \in 1..Len(t.adds[g].ms) : t.adds[g].ms[u].n = ms[h].n}
                                   ELSE {i}
             without(i) == IF ms[i].q = "M" /\ i > Len(t.root)
                           THEN [nm \in names |-> IF MemberIndex(ms, nm) \in groupOf(i) THEN Absent ELSE base[nm]]
                           ELSE [base EXCEPT ![ms[i].n] = Absent]
             hot(i) == [j \in 1..Max2(0, Len(vs(i)) - 1) |-> [base EXCEPT ![ms[i].n] = Present(vs(i)[j + 1])]]
                       \o (IF ms[i].q # "M" \/ i > Len(t.root) THEN <<without(i)>> ELSE <<>>)
             \* two more corners: every member at its last value; every non-mandatory member absent
             lastv(i) == IF vs(i) = <<>> THEN Absent ELSE Present(vs(i)[Len(vs(i))])
             allLast == [nm \in names |-> lastv(MemberIndex(ms, nm))]
             allAbsent == [nm \in names |-> LET i == MemberIndex(ms, nm) IN
                              IF ms[i].q # "M" \/ i > Len(t.root) THEN Absent ELSE base[nm]]
             secondv(i) == IF Len(vs(i)) >= 2 THEN Present(vs(i)[2]) ELSE first(i)
             mandSecond == [nm \in names |-> LET i == MemberIndex(ms, nm) IN
                              IF ms[i].q # "M" \/ i > Len(t.root) THEN (IF i > Len(t.root) /\ ms[i].q = "M" THEN secondv(i) ELSE Absent)
                              ELSE secondv(i)]
         IN <<base, allLast, allAbsent, mandSecond>> \o Concat([i \in 1..Len(ms) |-> hot(i)])
    [] t.k = "CHOICE" ->
         LET alts == AllAlts(t)
             allvs == Force([i \in 1..Len(alts) |-> IF fuel = 0 /\ i > 1 THEN <<>>
                                                ELSE Values(e, alts[i].t, fuel)])
             vs(i) == allvs[i]
             pick(i) == IF fuel = 0 /\ i > 1 THEN <<>>
                        ELSE [j \in 1..Min2(Len(vs(i)), IF fuel = 0 THEN 1 ELSE 6) |-> [a |-> alts[i].n, v |-> vs(i)[j]]]
         IN Concat([i \in 1..Len(alts) |-> pick(i)])
    [] t.k \in {"SEQOF", "SETOF"} ->
         LET minlen == IF t.sz.f = "N" THEN 0 ELSE t.sz.lb
             lens == IF fuel = 0 THEN <<minlen>>
                     ELSE IF t.sz.f = "R" /\ ~t.sz.ubinf /\ t.sz.lb = t.sz.ub /\ t.sz.ub <= 1000 THEN <<t.sz.ub>>   \* fixed size: that size
                     ELSE SizeLens(t.sz, 4)
             ev == Force(Values(e, t.e, fuel))
             mk(n, off) == [j \in 1..n |-> ev[((j + off) % Len(ev)) + 1]]
         IN IF fuel = 0 /\ minlen = 0 THEN <<(<<>>)>>
            ELSE IF ev = <<>> THEN <<(<<>>)>>
            ELSE Concat([i \in 1..Len(lens) |-> IF lens[i] = 0 THEN <<(<<>>)>> ELSE <<mk(lens[i], 0), mk(lens[i], 2)>>])

------------------------------------------------------------------------------
(* the productions                                                          *)

Pre == Mand("pre", TBool)
Post == Mand("post", TIntR(B(0), B(255), FALSE))
FirstValue(e, t) == Values(e, t, 2)[1]
SecondValue(e, t) == LET vs == Values(e, t, 2) IN IF Len(vs) > 1 THEN vs[2] ELSE vs[1]

\* every wrap of the current type t
Wraps(e, t) ==
  << TSeq("SEQ", <<Mand("x", t)>>, FALSE, <<>>),
     TSeq("SEQ", <<Pre, Mand("x", t), Post>>, FALSE, <<>>),
     TSeq("SEQ", <<Pre, Opt("x", t), Post>>, FALSE, <<>>),
     TSeq("SEQ", <<Def("x", t, SecondValue(e, t)), Post>>, FALSE, <<>>),
     TSeq("SEQ", <<Pre>>, TRUE, <<>>),
     TSeq("SEQ", <<Pre, Opt("o", TIntN)>>, TRUE, <<Add1(Mand("x", t)), Add1(Opt("y", TBool))>>),
     TSeq("SEQ", <<Pre>>, TRUE, <<Add1(Opt("w", TNull)), AddG(<<Mand("x", t), Opt("y", TBool)>>)>>),
     TSeq("SET", <<Mand("x", Tagged(t, Tag("C", 1, "D"))), Mand("pre", Tagged(TBool, Tag("C", 0, "D")))>>, FALSE, <<>>),
     TSeq("SET", <<Mand("pre", Tagged(TBool, Tag("P", 2, "D"))), Opt("x", Tagged(t, Tag("A", 1, "D"))),
                   Mand("post", Tagged(TIntN, Tag("C", 0, "D")))>>, FALSE, <<>>),
     TChoice(<<Alt("x", Tagged(t, Tag("C", 0, "D"))), Alt("b", Tagged(TBool, Tag("C", 1, "D")))>>, FALSE, <<>>),
     TChoice(<<Alt("b", Tagged(TBool, Tag("C", 7, "D")))>>, TRUE, <<Alt("x", Tagged(t, Tag("C", 3, "D")))>>),
     TOf("SEQOF", t, NoSz),
     TOf("SEQOF", t, Sz(0, 3, FALSE)),
     TOf("SEQOF", t, Sz(2, 2, FALSE)),
     TOf("SETOF", t, NoSz),
     Tagged(t, Tag("C", 5, "D")),
     Tagged(t, Tag("A", 31, "E")),
     Tagged(t, Tag("P", 128, "I")) >>

\* an untagged CHOICE cannot be tagged IMPLICIT explicitly (X.680 31.2.7)
DefaultOk(e, w) ==   \* DEFAULT only where the tool can read the value notation
  w.k \in {"SEQ", "SET"} =>
    \A i \in 1..Len(AllMembers(w)) :
      AllMembers(w)[i].q = "D" => Base(e, AllMembers(w)[i].t).k \in {"BOOL", "INT", "ENUM", "BITS", "OCTS", "NULL"}

LegalWrap(e, w) ==
  /\ ~(w.tags # <<>> /\ w.tags[1].mode = "I" /\ IsUntaggedChoice(e, [w EXCEPT !.tags = Tail(w.tags)]))
  /\ DefaultOk(e, w)
  /\ TagsLegal(e, w)
  /\ Len(w.tags) <= 1

Init ==
  /\ \E td \in TagDefs : gEnv = [tagdef |-> td, extimp |-> FALSE, types |-> [x \in {} |-> 0]]
  /\ \/ \E i \in 1..Len(PrimTypes) : gT = PrimTypes[i] /\ gDepth = 0
     \/ Big /\ \E i \in 1..Len(BigTypes) : gT = BigTypes[i] /\ gDepth = BigMark
     \/ Big /\ \E i \in 1..Len(BigWrapped) : gT = BigWrapped[i] /\ gDepth = BigMark

IsCarrier(t) == \E i \in 1..Len(Carriers) : Carriers[i] = t

Wrap ==
  /\ gDepth < MaxDepth
  /\ (gDepth = 0 /\ ~Rich) => IsCarrier(gT)
  /\ LET ws == Wraps(gEnv, gT) IN
       \E i \in 1..Len(ws) :
         /\ LegalWrap(gEnv, ws[i])
         /\ gT' = ws[i]
  /\ gDepth' = gDepth + 1
  /\ UNCHANGED gEnv

\* name the current type and refer to it (twice, so that sharing is exercised)
NameAndRefer ==
  /\ gDepth < MaxDepth
  /\ gDepth > 0
  /\ LET nm == "N" \o ToString(gDepth) IN
       /\ nm \notin DOMAIN gEnv.types
       /\ gEnv' = [gEnv EXCEPT !.types = [x \in DOMAIN gEnv.types \cup {nm} |-> IF x = nm THEN gT ELSE gEnv.types[x]]]
       /\ gT' = TSeq("SEQ", <<Mand("r1", TRef(nm)), Opt("r2", WithTag(TRef(nm), Tag("C", 9, "D")))>>, FALSE, <<>>)
  /\ gDepth' = gDepth + 1

\* recursion through an OPTIONAL member / a SEQUENCE OF / a CHOICE alternative
CloseRecursion ==
  /\ gDepth < MaxDepth
  /\ gDepth > 0
  /\ "Rec" \notin DOMAIN gEnv.types
  /\ \E shape \in {"opt", "of", "choice"} :
       LET body == CASE shape = "opt" -> TSeq("SEQ", <<Mand("x", gT), Opt("next", TRef("Rec"))>>, FALSE, <<>>)
                     [] shape = "of" -> TSeq("SEQ", <<Mand("x", gT), Mand("kids", TOf("SEQOF", TRef("Rec"), NoSz))>>, FALSE, <<>>)
                     [] shape = "choice" -> TChoice(<<Alt("leaf", Tagged(gT, Tag("C", 0, "D"))),
                                                       Alt("node", WithTag(TOf("SEQOF", TRef("Rec"), Sz(0, 2, FALSE)), Tag("C", 1, "D")))>>, FALSE, <<>>)
           newEnv == [gEnv EXCEPT !.types = [x \in DOMAIN gEnv.types \cup {"Rec"} |-> IF x = "Rec" THEN body ELSE gEnv.types[x]]]
       IN /\ LegalWrap(newEnv, body)
          /\ gEnv' = newEnv
          /\ gT' = TRef("Rec")
  /\ gDepth' = gDepth + 1

Next == Wrap \/ NameAndRefer \/ CloseRecursion

Spec == Init /\ [][Next]_vars

------------------------------------------------------------------------------
(* emission of behaviours for binding A                                     *)

MaxVals == 22
Case == [env |-> [tagdef |-> gEnv.tagdef, extimp |-> gEnv.extimp,
                  types |-> [x \in DOMAIN gEnv.types \cup {"Top"} |-> IF x = "Top" THEN gT ELSE gEnv.types[x]]],
         top |-> "Top", depth |-> gDepth,
         vals |-> IF gDepth = BigMark THEN BigValues(gT)
                  ELSE LET vs == Values(gEnv, gT, 3) IN SubSeq(vs, 1, Min2(Len(vs), MaxVals))]

Emit ==
  Serialize(ToJson(Case) \o "\n", IOEnv.OUT_FILE,
            [format |-> "TXT", charset |-> "UTF-8", openOptions |-> <<"WRITE", "CREATE", "APPEND">>]).exitValue = 0

\* model-level sanity: every generated value is admitted by its type, or lies
\* just outside an extensible constraint (which Admits treats as admitted)
ValuesAdmitted == \A i \in 1..Len(Case.vals) : Admits(Case.env, gT, Case.vals[i])

=============================================================================
