----------------------------- MODULE Trace_Extend ---------------------------
(***************************************************************************)
(* Binding B for C07: each recorded line holds V1, V2 (environments), the   *)
(* value tables and, per codec, what decoding version-2 bytes under         *)
(* version 1 (dir "2to1") and version-1 bytes under version 2 ("1to2")      *)
(* returned.  Judged with Project / ProjEq / Lift of Extend.tla.            *)
(***************************************************************************)
EXTENDS Extend, Profile, TLCExt

Tr == ndJsonDeserialize(IOEnv.TRACE_FILE)

VARIABLE i

Has(r, f) == f \in DOMAIN r
ExcKey(phase, o) ==
  IF o.st = "exc" THEN phase \o "-exc:" \o o.cls \o "@" \o o.site
  ELSE IF o.st = "timeout" THEN phase \o "-timeout@" \o o.site
  ELSE phase \o "-bad:" \o o.msg
V(check, verdict, detail) == [check |-> check, verdict |-> verdict, detail |-> detail]

ObsVerdict(L, o) ==
  IF Has(o, "compile") THEN V("EXT", "skip", "not compilable: " \o ExcKey("compile", o.compile))
  ELSE LET T1 == L.env1.types[L.top]
           T2 == L.env2.types[L.top]
       IN IF o.dir = "2to1"
          THEN LET v == L.vals2[o.vi]
                   app == " applicable:" \o ToString(RtApplicable(L.env2, T2, v, o.codec) \cup ExtApplicable(L.env1, L.env2, T1, T2, v, o.codec))
               IN IF o.codec = "xer" /\ ~XmlRepresentable(L.env2, T2, v) THEN V("EXT", "skip", "characters not representable in XML")
                  ELSE IF o.enc.st # "ok" THEN V("EXT", "skip", "V2 value not encodable: " \o ExcKey("enc", o.enc))   \* C01's business
                  ELSE IF o.dec.st # "ok" THEN V("EXT", "reject", "2to1 " \o ExcKey("dec", o.dec) \o app)
                  ELSE IF ~ProjEq(L.env1, T1, Project(L.env2, T1, T2, v), o.dec.v)
                       THEN V("EXT", "reject", "2to1 decoded value is not the version-1 projection" \o app)
                  ELSE V("EXT", "ok", "")
          ELSE LET v == L.vals1[o.vi]
                   app == " applicable:" \o ToString(RtApplicable(L.env1, T1, v, o.codec))
               IN IF o.codec = "xer" /\ ~XmlRepresentable(L.env1, T1, v) THEN V("EXT", "skip", "characters not representable in XML")
                  ELSE IF o.enc.st # "ok" THEN V("EXT", "skip", "V1 value not encodable: " \o ExcKey("enc", o.enc))
                  ELSE IF o.dec.st # "ok" THEN V("EXT", "reject", "1to2 " \o ExcKey("dec", o.dec) \o app)
                  ELSE IF ~AbsEq(L.env2, T2, Lift(L.env2, T1, T2, v), o.dec.v)
                       THEN V("EXT", "reject", "1to2 decoded value differs" \o app)
                  ELSE V("EXT", "ok", "")

LineReport(L) ==
  LET all == [j \in 1..Len(L.obs) |->
                LET r == ObsVerdict(L, L.obs[j])
                IN [vi |-> L.obs[j].vi, codec |-> L.obs[j].codec, ne |-> L.obs[j].ne, dir |-> L.obs[j].dir,
                    check |-> r.check, verdict |-> r.verdict, detail |-> r.detail]] \o <<>>
  IN [cid |-> L.cid, n |-> Len(all),
      ok |-> Len(SelectSeq(all, LAMBDA r : r.verdict = "ok")),
      other |-> SelectSeq(all, LAMBDA r : r.verdict # "ok")]

TEmit(r) ==
  Serialize(ToJson(r) \o "\n", IOEnv.VERDICT_FILE,
            [format |-> "TXT", charset |-> "UTF-8", openOptions |-> <<"WRITE", "CREATE", "APPEND">>]).exitValue = 0

TInit == i = 1 /\ gEnv = 0 /\ gT = 0 /\ gDepth = 0 /\ gPhase = 0 /\ gV1 = 0 /\ gSteps = 0
TNext == /\ i <= Len(Tr)
         /\ TEmit(LineReport(Tr[i]))
         /\ i' = i + 1
         /\ UNCHANGED evars
TSpec == TInit /\ [][TNext]_<<i, evars>>

TraceAccepted == TLCGet("stats").diameter - 1 = Len(Tr)
=============================================================================
