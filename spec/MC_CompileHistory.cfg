\* Manual run of the C13 model check (harness/checks_history.py writes the same configuration):
\*   /venv/bin/python harness/drive_history.py --abstract /tmp/mods.ndjson
\*   cd spec && MODULES_FILE=/tmp/mods.ndjson tlc -workers 2 -config MC_CompileHistory.cfg CompileHistory.tla
\* Devs = {"DevCompileInPlace"}: in-place passes that are idempotent and option-independent - all four
\* invariants hold for every history up to length 6.  Add "DevEnumDefaultInPlace" (or
\* "DevPformatSortsDicts", "DevModuleMajorPasses" together, or "DevDefaultsBeforeParameterization") to
\* see the counterexample history of the mechanism the code really has.
SPECIFICATION Spec
CONSTANTS
  Corpus <- FileCorpus
  Devs = {"DevCompileInPlace"}
  Codecs = {"ber", "der", "per", "uper", "oer", "jer", "xer", "gser"}
  MaxLen = 6
  EmitFrom = 99
INVARIANT HistoryIndependent
INVARIANT CompileReachesFixpoint
INVARIANT EachPassIdempotent
INVARIANT OptionsDoNotLeak
VIEW StateView
CHECK_DEADLOCK FALSE
