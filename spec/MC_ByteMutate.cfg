SPECIFICATION MSpec
CONSTANT MaxOps = 1
INVARIANT ApplyTotal
INVARIANT MEmit
CHECK_DEADLOCK FALSE
