SPECIFICATION Spec
CONSTANTS
  Threads = {t1, t2}
  MaxCalls = 2
  Mech = "MUT_MutatesArgument"
SYMMETRY Perms
INVARIANTS ReturnsSolo GraphUnchanged ArgsUnchanged NoAliasOfGraph
PROPERTIES ReqSpec NoGraphWrite
CHECK_DEADLOCK FALSE
