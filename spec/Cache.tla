-------------------------------- MODULE Cache -------------------------------
(***************************************************************************)
(* C17 -- the compile cache is transparent.                                *)
(*                                                                         *)
(* Transition system of asn1tools.compile_files(..., cache_dir=d) over one *)
(* shared cache directory (asn1tools/compiler.py:245-272, 379-394):        *)
(*                                                                         *)
(*   gFiles  the version of every source file currently on disk            *)
(*   gStore  the cache directory: key |-> entry, entry.st in               *)
(*           {"complete", "partial", "trunc", "flip"}, entry.id = identity *)
(*           of the Specification that was pickled into it                 *)
(*   gDb     the sqlite data base itself has been damaged                  *)
(*   gAny    some file of the directory has been damaged at some time      *)
(*   gW      the calling ("writer") process: program counter and locals    *)
(*             idle -> called -> keyed -> (hit: done)                      *)
(*                                     -> missed -> parsed -> compiled     *)
(*                                     -> storing(1..3) -> done -> idle    *)
(*   gRet    the verdict on the last step (fresh / wrong+why / error)      *)
(*   gHist   the history that led here (not part of the VIEW)              *)
(*                                                                         *)
(* The *mechanism* is the constant Devs: the set of named deviations from  *)
(* what the property needs.  Devs = {} is the required mechanism (key =    *)
(* codec, options, every file's contents separately; entries verified on   *)
(* load).  CodeDevs is the mechanism of compiler.py as it is written:      *)
(*     key = codec.encode('ascii') ++ contents of all files concatenated   *)
(* (no options, no file boundaries) and the pickled value is returned      *)
(* as it is read.  Mut* names are deliberately wrong mechanisms used to    *)
(* show that the checks can fail.                                          *)
(*                                                                         *)
(* One definition of the mechanism (the step function Steps) is explored   *)
(* at three granularities: Grain = "small" takes one program step at a     *)
(* time so that Kill is enabled at every program counter; Grain = "big"    *)
(* takes a whole call (or a whole call killed at one representative of     *)
(* each class of program counters that leave the same directory behind)    *)
(* as one step -- the same reachable idle states, far fewer intermediate   *)
(* ones; Grain = "sim" takes one randomly chosen big step (TLC -simulate,  *)
(* long histories).                                                        *)
(*                                                                         *)
(* Bounded searches (MaxSteps) must be run with ONE TLC worker: the bound  *)
(* is on the length of the first history found for a state, which is the   *)
(* shortest one only in a strictly level-by-level search.                  *)
(***************************************************************************)
EXTENDS Naturals, Sequences, FiniteSets, FiniteSetsExt, TLC, Json, IOUtils

CONSTANTS
  World,          \* "plain" | "split" | "broken" | "dup": table of file contents (below)
  Codecs,         \* set of codec names, e.g. {"ber", "uper"}
  NumEnums,       \* subset of {"F", "T"}
  Adbcs,          \* subset of 0..2: any_defined_by_choices variant, 0 = None
  FileLists,      \* set of sequences of paths
  Devs,           \* the mechanism (see above)
  MaxSteps,       \* histories of at most MaxSteps steps (call / killed call / corruption)
  Faults,         \* subset of {"kill", "trunc", "flip"} that may occur
  Grain,          \* "big" | "small" | "sim"
  EditDuringCall, \* small grain only: files may change while a call is running
  Focus,          \* TRUE: only histories whose calls all use one key (see "key independence")
  EmitWhen        \* "all" | "wrong" | "final" | "none": which histories Emit writes

Paths    == {"a", "b"}
Versions == {1, 2}

AllDevs == {"DevCacheKeyOmitsNumericEnums", "DevCacheKeyOmitsAnyDefinedByChoices",
            "DevCacheKeyConcatAmbiguity", "DevCacheEntryNotVerified"}
CodeDevs == AllDevs      \* compiler.py:251-272 takes every one of them
Mutants == {"MutKeyOmitsCodec", "MutKeyFirstFileOnly", "MutSwallowDamage"}

------------------------------------------------------------------------------
(* File contents.  A content is a sequence of abstract chunks; two files   *)
(* lists have the same concatenated bytes iff their chunk sequences        *)
(* concatenate to the same sequence.  harness/drive_cache.py holds the     *)
(* text of every chunk.                                                    *)
(*   plain : four unrelated module texts                                   *)
(*   split : a1 ++ b1 = a2 ++ b2 as bytes, cut at different places         *)
(*   broken: as plain, version 2 of file a does not parse                  *)

Content ==
  IF World = "dup"       \* both files define the same module (chunk 1 / chunk 2): the order of the file list decides which one holds
  THEN [a |-> << <<1>>, <<1>> >>, b |-> << <<2>>, <<2>> >>]
  ELSE IF World = "split"
  THEN [a |-> << <<1>>, <<1, 2>> >>, b |-> << <<2, 3>>, <<3>> >>]
  ELSE IF World = "broken"
  THEN [a |-> << <<1>>, <<9>> >>, b |-> << <<3>>, <<4>> >>]
  ELSE [a |-> << <<1>>, <<2>> >>, b |-> << <<3>>, <<4>> >>]

BrokenChunks == {9}

Texts(f, fl) == [i \in 1..Len(fl) |-> Content[fl[i]][f[fl[i]]]] \o <<>>
RECURSIVE FlatN(_, _)
FlatN(ts, n) == IF n = 0 THEN <<>> ELSE FlatN(ts, n - 1) \o ts[n]
Flat(ts) == FlatN(ts, Len(ts))
Lens(ts) == [i \in 1..Len(ts) |-> Len(ts[i])] \o <<>>
Broken(ts) == \E i \in 1..Len(ts) : \E j \in 1..Len(ts[i]) : ts[i][j] \in BrokenChunks

FileStates == [Paths -> Versions]
FL3 == {<<"a">>, <<"b">>, <<"a", "b">>}                  \* values for the constant FileLists
FL4 == FL3 \cup {<<"b", "a">>}
Calls == [fl : FileLists, codec : Codecs, ne : NumEnums, adbc : Adbcs]

------------------------------------------------------------------------------
(* Identity of a compiled Specification = everything an uncached compile   *)
(* depends on (compile_files with cache_dir=None: parse_files(filenames)   *)
(* then compile_dict(.., codec, any_defined_by_choices, numeric_enums)).   *)
(* g = TRUE marks an object that was read back from a damaged entry.       *)

Fresh(c, ts) == [codec |-> c.codec, texts |-> ts, ne |-> c.ne, adbc |-> c.adbc, g |-> FALSE]
NoId == [codec |-> "-", texts |-> <<>>, ne |-> "-", adbc |-> 0, g |-> FALSE]
Garble(id) == [id EXCEPT !.g = TRUE]
DefaultCompile(ts) == [codec |-> "ber", texts |-> ts, ne |-> "F", adbc |-> 0, g |-> FALSE]

------------------------------------------------------------------------------
(* The key.  compiler.py:251-260:                                          *)
(*     key = [codec.encode('ascii')]                                       *)
(*     for filename in filenames: key.append(fin.read())                   *)
(*     key = b''.join(key)                                                 *)
(* i.e. with D = CodeDevs: codec, flat contents -- and nothing else.       *)

KeyOf(D, c, ts) ==
  [codec |-> IF "MutKeyOmitsCodec" \in D THEN "-" ELSE c.codec,
   flat  |-> IF "MutKeyFirstFileOnly" \in D THEN ts[1] ELSE Flat(ts),
   lens  |-> IF "DevCacheKeyConcatAmbiguity" \in D \/ "MutKeyFirstFileOnly" \in D THEN <<>> ELSE Lens(ts),
   ne    |-> IF "DevCacheKeyOmitsNumericEnums" \in D THEN "-" ELSE c.ne,
   adbc  |-> IF "DevCacheKeyOmitsAnyDefinedByChoices" \in D THEN 99 ELSE c.adbc]
NoKey == [codec |-> "-", flat |-> <<>>, lens |-> <<>>, ne |-> "-", adbc |-> 99]

------------------------------------------------------------------------------
(* The mechanism state and its step function                               *)

NoCall == [fl |-> <<>>, codec |-> "-", ne |-> "-", adbc |-> 0]
NoRet  == [k |-> "none", id |-> NoId]
SpecRet(id) == [k |-> "spec", id |-> id]
CacheErr    == [k |-> "error-cache", id |-> NoId]     \* an exception out of diskcache / pickle
CompileErr  == [k |-> "error-compile", id |-> NoId]   \* the exception the compiler raises for these files
Idle == [pc |-> "idle", call |-> NoCall, tk |-> <<>>, key |-> NoKey, tp |-> <<>>,
         comp |-> NoId, i |-> 0, ret |-> NoRet]
Begin(c) == [Idle EXCEPT !.pc = "called", !.call = c]

Entry(st, id) == [st |-> st, id |-> id]
EmptyStore == [k \in {} |-> Entry("partial", NoId)]
Put(store, k, e) == [x \in DOMAIN store \cup {k} |-> IF x = k THEN e ELSE store[x]]

\* what  cache[key]  can do (diskcache.Cache.__getitem__, then pickle.load)
\*   "miss" = KeyError
LookupOutcomes(D, s, k) ==
  LET dbE == IF s.db THEN {"err"} ELSE {}
      dbW == IF s.db /\ "DevCacheEntryNotVerified" \in D THEN {"garbled-any"} ELSE {}
  IN IF k \notin DOMAIN s.store \/ s.store[k].st = "partial"
     THEN {"miss"} \cup dbE \cup dbW          \* a value file without a committed row is invisible
     ELSE IF s.store[k].st = "complete" THEN {"hit"} \cup dbE
     ELSE IF s.store[k].st = "trunc" THEN {"err", "miss"}   \* a truncated pickle has no STOP opcode
     ELSE (* flip *) {"err", "miss", "hit"}                 \* the flipped byte may be unused
          \cup (IF "DevCacheEntryNotVerified" \in D THEN {"garbled"} ELSE {})

Done(s, r) == [s EXCEPT !.w.pc = "done", !.w.ret = r]

Looked(D, s, o) ==
  LET w == s.w IN
  IF o = "miss" THEN [s EXCEPT !.w.pc = "missed"]
  ELSE IF o = "hit" THEN Done(s, SpecRet(s.store[w.key].id))
  ELSE IF o = "garbled" THEN Done(s, SpecRet(Garble(s.store[w.key].id)))
  ELSE IF o = "garbled-any" THEN Done(s, SpecRet(Garble(NoId)))
  ELSE (* err *) IF "MutSwallowDamage" \in D
                 THEN Done(s, SpecRet(DefaultCompile(w.tk)))   \* mutant: "recover" with a default compile
                 ELSE Done(s, CacheErr)

\* successors of one program step of the call in progress; f = files on disk
Steps(D, f, s) ==
  LET w == s.w
      c == w.call
  IN
  CASE w.pc = "called" ->      \* read every file, join, prepend the codec        (251-260)
         LET t == Texts(f, c.fl)
         IN {[s EXCEPT !.w.pc = "keyed", !.w.tk = t, !.w.key = KeyOf(D, c, t)]}
    [] w.pc = "keyed" ->       \* diskcache.Cache(cache_dir); cache[key]          (261-265)
         {Looked(D, s, o) : o \in LookupOutcomes(D, s, w.key)}
    [] w.pc = "missed" ->      \* parse_files opens and reads the files *again*   (266)
         LET t == Texts(f, c.fl)
         IN IF Broken(t) THEN {Done(s, CompileErr)}
            ELSE {[s EXCEPT !.w.pc = "parsed", !.w.tp = t]}
    [] w.pc = "parsed" ->      \* compile_dict(.., codec, adbc, numeric_enums)    (266-269)
         {[s EXCEPT !.w.pc = "compiled", !.w.comp = Fresh(c, w.tp)]}
    [] w.pc = "compiled" ->    \* cache[key] = compiled: the value is written ... (270)
         {[s EXCEPT !.w.pc = "storing", !.w.i = 1,
                    !.store = IF w.key \in DOMAIN s.store THEN s.store
                              ELSE Put(s.store, w.key, Entry("partial", w.comp))]}
         \cup (IF s.db THEN {Done(s, CacheErr)} ELSE {})
    [] w.pc = "storing" ->
         IF w.i = 1            \* ... the row is committed (sqlite transaction)
         THEN {[s EXCEPT !.w.i = 2, !.store = Put(s.store, w.key, Entry("complete", w.comp))]}
         ELSE IF w.i = 2       \* ... housekeeping after the commit (cull, checkpoint)
         THEN {[s EXCEPT !.w.i = 3]}
         ELSE {Done(s, SpecRet(w.comp))}                                       \* (272)
    [] OTHER -> {}

\* every state a call can pass through from s on (s included).  Steps has one successor except at
\* the lookup and at the beginning of the store, so this is a small tree; a call takes <= 9 steps.
RECURSIVE ReachSeq(_, _, _, _)
ReachSeq(D, f, s, n) ==
  IF n = 0 THEN <<s>>
  ELSE LET nx == Steps(D, f, s)
       IN IF nx = {} THEN <<s>>
          ELSE <<s>> \o FoldSet(LAMBDA t, acc : acc \o ReachSeq(D, f, t, n - 1), <<>>, nx)
Reach(D, f, s) == LET q == ReachSeq(D, f, s, 10) IN {q[j] : j \in 1..Len(q)}

------------------------------------------------------------------------------
(* The requirement: what a call returned against an uncached compile of    *)
(* the files as they are now, with the same codec and options.             *)

Diff(id, want) ==
  (IF id.g THEN {"DevCacheEntryNotVerified"} ELSE {})
  \cup (IF id.codec # want.codec /\ ~id.g THEN {"WrongCodec"} ELSE {})
  \cup (IF id.ne # want.ne /\ ~id.g THEN {"DevCacheKeyOmitsNumericEnums"} ELSE {})
  \cup (IF id.adbc # want.adbc /\ ~id.g THEN {"DevCacheKeyOmitsAnyDefinedByChoices"} ELSE {})
  \cup (IF id.texts # want.texts /\ ~id.g
        THEN (IF Flat(id.texts) = Flat(want.texts) THEN {"DevCacheKeyConcatAmbiguity"} ELSE {"StaleContents"})
        ELSE {})

Ok(k) == [k |-> k, why |-> {}]
Wrong(why) == [k |-> "wrong", why |-> why]

Verdict(f, c, r, damaged) ==
  LET now == Texts(f, c.fl)
      want == Fresh(c, now)
  IN IF r.k = "spec"
     THEN (IF Broken(now) THEN Wrong({"ReturnedWhereCompileRaises"})
           ELSE IF r.id = want THEN Ok("fresh") ELSE Wrong(Diff(r.id, want)))
     ELSE IF r.k = "error-compile"
     THEN (IF Broken(now) THEN Ok("fresh") ELSE Wrong({"StaleError"}))
     ELSE IF r.k = "error-cache"
     THEN (IF damaged THEN Ok("error") ELSE Wrong({"ErrorWithoutDamage"}))
     ELSE Ok("none")

------------------------------------------------------------------------------
(* Key independence.  Every program step reads and writes gStore at the    *)
(* key of the running call only, and damage to the data base acts on all   *)
(* keys alike.  Hence the steps of a history that do not touch key k can   *)
(* be deleted without changing what the calls with key k return: whatever  *)
(* can be returned in some history can be returned in a history whose      *)
(* calls all have one key.  Focus = TRUE explores exactly those histories  *)
(* (gObs = the key of the first call) -- that makes "all histories of      *)
(* <= 5 calls" finite enough to enumerate; the unfocused system is         *)
(* explored exhaustively to a smaller depth and by simulation, and must    *)
(* show the same classes of wrong returns.                                 *)

VARIABLES gFiles, gStore, gDb, gAny, gW, gRet, gObs, gHist
vars == <<gFiles, gStore, gDb, gAny, gW, gRet, gObs, gHist>>

\* In the big grain the files on disk are chosen anew by every step, and of the
\* last verdict only a wrong one needs to be told apart.  The kind of the last
\* step is kept so that histories ending in a call are not all hidden behind
\* equivalent ones ending in a killed call (one history is emitted per view).
LastOp == IF gHist = <<>> THEN "-" ELSE gHist[Len(gHist)].op
view == IF Grain # "small"
        THEN <<gStore, gDb, gAny, gObs, LastOp, IF gRet.k = "wrong" THEN gRet.why ELSE {"-"}>>
        ELSE <<gFiles, gStore, gDb, gAny, gW, gObs, LastOp, IF gRet.k = "wrong" THEN gRet.why ELSE {"-"}>>

Mech == [store |-> gStore, db |-> gDb, any |-> gAny, w |-> gW]
SetMech(t) == /\ gStore' = t.store
              /\ gDb' = t.db
              /\ gAny' = t.any
              /\ gW' = t.w

\* one step of a history; ent = identity of the entry a corruption aims at
H(op, f, c, at, tgt, how, ent, v) ==
  [op |-> op, files |-> f, fl |-> c.fl, codec |-> c.codec, ne |-> c.ne, adbc |-> c.adbc,
   at |-> at, tgt |-> tgt, how |-> how, ent |-> ent, exp |-> v.k, why |-> v.why]

Init == /\ gFiles = [p \in Paths |-> 1]
        /\ gStore = EmptyStore
        /\ gDb = FALSE
        /\ gAny = FALSE
        /\ gW = Idle
        /\ gRet = Ok("none")
        /\ gObs = NoKey
        /\ gHist = <<>>

Room == Len(gHist) < MaxSteps

\* key the call c would use with files f
WouldKey(f, c) == KeyOf(Devs, c, Texts(f, c.fl))
InFocus(f, c) == ~Focus \/ gObs = NoKey \/ WouldKey(f, c) = gObs
Observe(f, c) == gObs' = IF Focus /\ gObs = NoKey THEN WouldKey(f, c) ELSE gObs

------------------------------------------------------------------------------
(* faults (both grains)                                                    *)

\* truncate / flip bytes of the value of one entry
CorruptEntry(k, how) ==
  /\ Room /\ how \in Faults /\ gW.pc = "idle"
  /\ k \in DOMAIN gStore /\ gStore[k].st \in {"complete", "flip"}
  /\ gStore' = Put(gStore, k, Entry(how, gStore[k].id))
  /\ gAny' = TRUE
  /\ UNCHANGED <<gFiles, gDb, gW, gObs>>
  /\ gRet' = Ok("none")
  /\ gHist' = Append(gHist, H("corrupt", gFiles, NoCall, "-", "entry", how, gStore[k].id, Ok("none")))

\* truncate / flip bytes of the data base files: every entry and the index are suspect
CorruptDb(how) ==
  /\ Room /\ how \in Faults /\ gW.pc = "idle"
  /\ gStore' = [k \in DOMAIN gStore |-> IF gStore[k].st \in {"complete", "flip"} THEN Entry(how, gStore[k].id) ELSE gStore[k]]
  /\ gDb' = TRUE
  /\ gAny' = TRUE
  /\ UNCHANGED <<gFiles, gW, gObs>>
  /\ gRet' = Ok("none")
  /\ gHist' = Append(gHist, H("corrupt", gFiles, NoCall, "-", "db", how, NoId, Ok("none")))

Corrupt == \E how \in {"trunc", "flip"} : CorruptDb(how) \/ \E k \in DOMAIN gStore : CorruptEntry(k, how)

------------------------------------------------------------------------------
(* big grain: one step = (files change,) a whole call -- or a call killed   *)
(* at any of its program counters                                           *)

At(w) == IF w.pc = "storing" THEN "storing" \o ToString(w.i) ELSE w.pc

\* SIGKILL leaves the same directory behind at every program counter before the store begins
\* (nothing), at storing(1) (a value without a row) and from storing(2) on (a committed row):
\* the big grain kills at one representative of each; the small grain at every pc.
KillRep(w) == w.pc = "called" \/ (w.pc = "storing" /\ w.i <= 2)

\* files may have changed since the last step; only the files the call reads matter
FilesFor(c) == {f \in FileStates : \A p \in Paths : (\A j \in 1..Len(c.fl) : c.fl[j] # p) => f[p] = gFiles[p]}

BigStep(f2, c, which) ==      \* which: "any" | "call" | "kill"
  /\ Room /\ gW.pc = "idle" /\ InFocus(f2, c) /\ Observe(f2, c)
  /\ LET R == Reach(Devs, f2, [Mech EXCEPT !.w = Begin(c)])
     IN \E t \in R :
          /\ t.w.pc = "done" \/ ("kill" \in Faults /\ KillRep(t.w))
          /\ which = "any" \/ (which = "call") = (t.w.pc = "done")
          /\ SetMech([t EXCEPT !.w = Idle])   \* returned -- or SIGKILL: the process is gone, the directory stays as it is
          /\ gFiles' = f2
          /\ LET v == IF t.w.pc = "done" THEN Verdict(f2, c, t.w.ret, t.any) ELSE Ok("none")
             IN /\ gRet' = v
                /\ gHist' = Append(gHist, IF t.w.pc = "done" THEN H("call", f2, c, "-", "-", "-", NoId, v)
                                                              ELSE H("kill", f2, c, At(t.w), "-", "-", NoId, v))

BigNext == \/ \E c \in Calls : \E f2 \in FilesFor(c) : BigStep(f2, c, "any")
           \/ Corrupt

\* simulation of long histories: one random step at a time (TLC -simulate)
SimNext == LET c == RandomElement(Calls)
               f2 == RandomElement(FileStates)
               k == RandomElement(1..20)
           IN IF k <= 13 \/ Faults = {} THEN BigStep(f2, c, "call")
              ELSE IF k <= 16 /\ "kill" \in Faults THEN BigStep(f2, c, "kill")
              ELSE Corrupt \/ BigStep(f2, c, "call")

------------------------------------------------------------------------------
(* small grain: one step = one program step; Kill enabled at every pc       *)

EditFile(p, v) ==
  /\ gW.pc = "idle" \/ EditDuringCall
  /\ gFiles[p] # v
  /\ gFiles' = [gFiles EXCEPT ![p] = v]
  /\ UNCHANGED <<gStore, gDb, gAny, gW, gRet, gObs, gHist>>

CallBegin(c) ==
  /\ Room /\ gW.pc = "idle" /\ InFocus(gFiles, c) /\ Observe(gFiles, c)
  /\ gW' = Begin(c)
  /\ gRet' = Ok("none")
  /\ UNCHANGED <<gFiles, gStore, gDb, gAny, gHist>>

CallStep ==
  /\ gW.pc \notin {"idle", "done"}
  /\ \E t \in Steps(Devs, gFiles, Mech) : SetMech(t)
  /\ gRet' = Ok("none")
  /\ UNCHANGED <<gFiles, gObs, gHist>>

CallReturn ==
  /\ gW.pc = "done"
  /\ LET v == Verdict(gFiles, gW.call, gW.ret, gAny)
     IN /\ gRet' = v
        /\ gHist' = Append(gHist, H("call", gFiles, gW.call, "-", "-", "-", NoId, v))
  /\ gW' = Idle
  /\ UNCHANGED <<gFiles, gStore, gDb, gAny, gObs>>

Kill ==
  /\ "kill" \in Faults /\ gW.pc \notin {"idle", "done"}
  /\ gW' = Idle
  /\ gRet' = Ok("none")
  /\ gHist' = Append(gHist, H("kill", gFiles, gW.call, At(gW), "-", "-", NoId, Ok("none")))
  /\ UNCHANGED <<gFiles, gStore, gDb, gAny, gObs>>

SmallNext == \/ \E p \in Paths, v \in Versions : EditFile(p, v)
             \/ \E c \in Calls : CallBegin(c)
             \/ CallStep \/ CallReturn \/ Kill
             \/ Corrupt

Next == IF Grain = "big" THEN BigNext ELSE IF Grain = "sim" THEN SimNext ELSE SmallNext
Spec == Init /\ [][Next]_vars

------------------------------------------------------------------------------
(* properties                                                               *)

\* C17 as stated: every returned specification is the fresh one, an error only after damage
Transparent == gRet.k # "wrong"

\* the implementation-shaped statement: the mechanism of compiler.py breaks
\* transparency in the named ways only
TransparentUpToDevs == gRet.k = "wrong" => gRet.why \subseteq AllDevs

\* a killed writer alone never makes a later call fail or lie (sqlite commits atomically)
KillHarmless == (~gAny /\ gRet.k = "wrong") => gRet.why \subseteq (AllDevs \ {"DevCacheEntryNotVerified"})

\* type invariant of the mechanism state
TypeOK == /\ gFiles \in FileStates
          /\ gW.pc \in {"idle", "called", "keyed", "missed", "parsed", "compiled", "storing", "done"}
          /\ \A k \in DOMAIN gStore : gStore[k].st \in {"complete", "partial", "trunc", "flip"}
          /\ gRet.k \in {"none", "fresh", "error", "wrong"}

------------------------------------------------------------------------------
(* emission of histories for replay on the real cache (binding A)           *)

LastStep == gHist[Len(gHist)]
Case == [world |-> World, hist |-> gHist, n |-> Len(gHist),
         pred |-> gRet.k, why |-> gRet.why]

Write(x) ==
  Serialize(ToJson(x) \o "\n", IOEnv.OUT_FILE,
            [format |-> "TXT", charset |-> "UTF-8", openOptions |-> <<"WRITE", "CREATE", "APPEND">>]).exitValue = 0

Emit ==
  IF gHist = <<>> \/ gW.pc # "idle" \/ EmitWhen = "none" THEN TRUE
  ELSE IF EmitWhen = "all" THEN (LastStep.op # "call" \/ Write(Case))
  ELSE IF EmitWhen = "wrong" THEN (gRet.k # "wrong" \/ Write(Case))
  ELSE (* final *) (Len(gHist) < MaxSteps \/ LastStep.op # "call" \/ Write(Case))

=============================================================================
