-------------------------------- MODULE CGen --------------------------------
(***************************************************************************)
(* C09 / C10, binding A: the ASN.1 modules fed to the C source generators, *)
(* as a transition system in the style of TypeGen.                          *)
(*                                                                         *)
(* State <<gEnv, gT, gDepth>> (variables of TypeGen).  CInit picks          *)
(*   - a primitive of the documented C subset from boundary tables         *)
(*     (INTEGER ranges at the 8/16/32/64-bit storage boundaries, signed    *)
(*     and unsigned; OCTET STRING (SIZE (n)) / (SIZE (a..b)) at the         *)
(*     uint8/uint32 length boundaries; BIT STRING (SIZE (n <= 64));         *)
(*     ENUMERATED shapes at the OER short/long form boundaries; REAL       *)
(*     binary32/64 for OER), or a fixed composite shape (presence bitmap   *)
(*     and choice index boundaries), or                                    *)
(*   - a type just OUTSIDE the subset (table COutside).                    *)
(* CWrap / CRefer apply one production of the subset around the current    *)
(* type: SEQUENCE member (mandatory / OPTIONAL / DEFAULT / behind an empty  *)
(* extension marker / as an extension addition for OER), bounded SEQUENCE  *)
(* OF, CHOICE alternative, reference to a named type of a second module.   *)
(*                                                                         *)
(* Every state is emitted as one case: descriptor environment, the module  *)
(* of every type, expect = "accept" | "reject" computed by InCSubset,      *)
(* boundary values, and for each value the struct image CStruct the C      *)
(* decoder must produce (and the C encoder is given).  For OER, types that *)
(* contain an extensible SEQUENCE also carry version 2 of the module (two   *)
(* extension additions appended to every extensible SEQUENCE), its values, *)
(* and the image a version-1 decoder must make of them.                    *)
(***************************************************************************)
EXTENDS CSubset, Json, IOUtils

CONSTANTS Codec,        \* "uper" | "oer"
          MaxDepth,     \* nesting depth explored
          Rich          \* TRUE: full tables and every type wrapped again; FALSE: quick tables, carriers only

VARIABLES gEnv, gT, gDepth,
          gCar          \* the current type is built around a carrier (may be wrapped again when ~Rich)

------------------------------------------------------------------------------
(* constructors (same shapes as TypeGen; kept here so that this generator    *)
(* does not depend on TypeGen's constants)                                   *)

B(n) == FromInt(n)
P2(k) == TwoTo(k)
NoSz == [f |-> "N"]
Sz(lb, ub, ext) == [f |-> "R", lb |-> lb, ub |-> ub, ubinf |-> FALSE, ext |-> ext]
SzMin(lb) == [f |-> "R", lb |-> lb, ub |-> 0, ubinf |-> TRUE, ext |-> FALSE]
NoAl == [has |-> FALSE, set |-> <<>>]
TBool == [k |-> "BOOL", tags |-> <<>>]
TNull == [k |-> "NULL", tags |-> <<>>]
TOid  == [k |-> "OID", tags |-> <<>>]
TReal == [k |-> "REAL", tags |-> <<>>]
TIntN == [k |-> "INT", tags |-> <<>>, con |-> [f |-> "N"], nn |-> <<>>]
TIntR(lb, ub, ext) == [k |-> "INT", tags |-> <<>>, nn |-> <<>>,
   con |-> [f |-> "R", lbinf |-> FALSE, ubinf |-> FALSE, lb |-> lb, ub |-> ub, ext |-> ext]]
TIntLo(lb) == [k |-> "INT", tags |-> <<>>, nn |-> <<>>,
   con |-> [f |-> "R", lbinf |-> FALSE, ubinf |-> TRUE, lb |-> lb, ub |-> Zero, ext |-> FALSE]]
TIntHi(ub) == [k |-> "INT", tags |-> <<>>, nn |-> <<>>,
   con |-> [f |-> "R", lbinf |-> TRUE, ubinf |-> FALSE, lb |-> Zero, ub |-> ub, ext |-> FALSE]]
TEnum(root, ext, adds) == [k |-> "ENUM", tags |-> <<>>, root |-> root, ext |-> ext, adds |-> adds]
It(n, v) == [n |-> n, v |-> v]
TBits(sz, nb) == [k |-> "BITS", tags |-> <<>>, sz |-> sz, nb |-> nb]
TOcts(sz) == [k |-> "OCTS", tags |-> <<>>, sz |-> sz]
TStr(st, sz, al) == [k |-> "STR", tags |-> <<>>, st |-> st, sz |-> sz, al |-> al]
Mem(n, t, q, d) == [n |-> n, t |-> t, q |-> q, d |-> d]
Mand(n, t) == Mem(n, t, "M", "NULL")
Opt(n, t) == Mem(n, t, "O", "NULL")
Def(n, t, d) == Mem(n, t, "D", d)
TSeq(k, root, ext, adds) == [k |-> k, tags |-> <<>>, root |-> root, ext |-> ext, adds |-> adds]
Add1(m) == [g |-> FALSE, m |-> m, ms |-> <<>>]
AddG(ms) == [g |-> TRUE, m |-> Mand("x", TNull), ms |-> ms]
Alt(n, t) == [n |-> n, t |-> t]
TChoice(root, ext, adds) == [k |-> "CHOICE", tags |-> <<>>, root |-> root, ext |-> ext, adds |-> adds]
TOf(k, e, sz) == [k |-> k, tags |-> <<>>, e |-> e, sz |-> sz]
TRef(name) == [k |-> "REF", tags |-> <<>>, name |-> name]

Dedup(s) ==   \* keep first occurrences (values of one type are comparable)
  FoldLeft(LAMBDA acc, x : IF \E i \in 1..Len(acc) : acc[i] = x THEN acc ELSE Append(acc, x), <<>>, s)

\* lengths worth trying for a (closed, non-extensible) size constraint, capped
SizeLens(sz, cap) ==
  LET cands == <<sz.lb, sz.lb + 1, sz.ub - 1, sz.ub>>
      ok(n) == n >= sz.lb /\ n <= sz.ub /\ n <= cap
  IN Dedup(SelectSeq(cands, ok))

BitPattern(n, phase) ==   \* n bits, alternating starting with 1 (phase 0) / all zero (1) / all one (2)
  [i \in 1..n |-> IF phase = 1 THEN 0 ELSE IF phase = 2 THEN 1 ELSE i % 2]
MkBits(bits) == [n |-> Len(bits), b |-> BitsToBytes(bits)]

Pre == Mand("pre", TBool)
Post == Mand("post", TIntR(B(0), B(255), FALSE))

I(lb, ub) == TIntR(lb, ub, FALSE)
CReal(wc) == [k |-> "REAL", tags |-> <<>>, wc |-> wc]
P31 == P2(31)
P32 == P2(32)

------------------------------------------------------------------------------
(* the subset: primitives                                                    *)

CIntTypesQuick ==
  << I(B(0), B(0)), I(B(0), B(7)), I(B(0), B(255)), I(B(0), B(256)), I(B(1), B(256)), I(B(0), B(65536)),
     I(B(0), Pred(P32)), I(B(0), P32), I(B(0), Pred(CP64)),
     I(B(-128), B(127)), I(B(-129), B(127)), I(B(-1), B(255)), I(B(-2), B(4)), I(B(-32768), B(32767)),
     I(Neg(P31), Pred(P31)), I(Pred(Neg(P31)), B(0)), I(Neg(CP63), Pred(CP63)) >>

CIntTypesRich ==
  CIntTypesQuick \o
  << I(B(0), B(1)), I(B(0), B(254)), I(B(5), B(260)), I(B(0), B(65535)), I(B(1), B(65536)), I(B(2005), B(2007)),
     I(B(1), Pred(CP64)), I(B(0), Pred(CP63)), I(B(-1), B(0)), I(B(-128), B(128)), I(B(-128), B(0)),
     I(B(-32769), B(32767)), I(B(-1), B(65535)), I(B(-32768), B(32768)),
     I(B(-1), Pred(P32)), I(Neg(P31), P31), I(Neg(CP63), B(0)), I(B(-1), Pred(CP63)), I(B(-128), B(65407)) >>

CEnumTypes ==
  << TEnum(<<It("a", 0)>>, FALSE, <<>>),
     TEnum(<<It("a", 0), It("b", 1)>>, FALSE, <<>>),
     TEnum(<<It("a", 0), It("b", 1), It("c", 2)>>, FALSE, <<>>),
     TEnum(<<It("b", 5), It("a", 0), It("c", 127), It("d", 128)>>, FALSE, <<>>),
     TEnum(<<It("a", 0), It("b", 1)>>, TRUE, <<>>),                                \* empty extension marker
     TEnum(<<It("a", -128), It("b", -129), It("c", 32767), It("d", 32768), It("e", -1)>>, FALSE, <<>>),
     TEnum(<<It("a", -32768), It("b", -32769), It("c", 8388607), It("d", 8388608), It("e", -8388608),
             It("f", -8388609), It("g", 2147483647), It("h", -2147483647)>>, FALSE, <<>>) >>

CBitsTypes ==
  << TBits(Sz(1, 1, FALSE), <<>>), TBits(Sz(4, 4, FALSE), <<>>), TBits(Sz(8, 8, FALSE), <<>>), TBits(Sz(9, 9, FALSE), <<>>),
     TBits(Sz(16, 16, FALSE), <<>>), TBits(Sz(24, 24, FALSE), <<It("x", 0), It("y", 23)>>),
     TBits(Sz(32, 32, FALSE), <<>>), TBits(Sz(64, 64, FALSE), <<It("x", 1), It("y", 63)>>) >>

CBitsTypesRich ==
  CBitsTypes \o
  << TBits(Sz(7, 7, FALSE), <<>>), TBits(Sz(17, 17, FALSE), <<>>), TBits(Sz(25, 25, FALSE), <<>>),
     TBits(Sz(33, 33, FALSE), <<>>), TBits(Sz(56, 56, FALSE), <<>>), TBits(Sz(57, 57, FALSE), <<>>),
     TBits(Sz(63, 63, FALSE), <<>>), TBits(Sz(0, 0, FALSE), <<>>) >>

COctsTypes ==
  << TOcts(Sz(1, 1, FALSE)), TOcts(Sz(3, 3, FALSE)), TOcts(Sz(0, 2, FALSE)), TOcts(Sz(1, 4, FALSE)),
     TOcts(Sz(0, 127, FALSE)), TOcts(Sz(0, 128, FALSE)), TOcts(Sz(0, 256, FALSE)),
     TOcts(Sz(1, 3, FALSE)), TOcts(Sz(4, 10, FALSE)) >>      \* lower bound > 0 and a range that is not a power of two: the length field can hold more than ub - lb

COctsTypesRich ==
  COctsTypes \o
  << TOcts(Sz(2, 2, FALSE)), TOcts(Sz(11, 11, FALSE)), TOcts(Sz(22, 23, FALSE)), TOcts(Sz(0, 255, FALSE)),
     TOcts(Sz(0, 500, FALSE)), TOcts(Sz(300, 300, FALSE)), TOcts(Sz(0, 0, FALSE)) >>

\* fixed composite shapes: presence bitmap / choice index / quantity boundaries
OptBools(n, ext) == TSeq("SEQ", [i \in 1..n |-> Opt("m" \o ToString(i), TBool)] \o <<Mand("z", I(B(0), B(255)))>>, ext, <<>>)
ChoiceN(n) == TChoice([i \in 1..n |-> Alt("c" \o ToString(i), IF i % 2 = 1 THEN TBool ELSE I(B(0), B(255)))], FALSE, <<>>)
AddsN(n) == TSeq("SEQ", <<Pre>>, TRUE, [i \in 1..n |-> Add1(Mand("q" \o ToString(i), I(B(0), B(255))))])

CShapes ==
  << OptBools(7, TRUE), OptBools(8, FALSE), ChoiceN(3), ChoiceN(5),
     TOf("SEQOF", TBool, Sz(1, 260, FALSE)), TOf("SEQOF", TNull, Sz(3, 4, FALSE)),
     TOf("SEQOF", I(B(0), B(255)), Sz(1, 3, FALSE)), TOf("SEQOF", TBool, Sz(1, 7, FALSE)),
     TSeq("SEQ", <<Def("s", TBool, FALSE), Def("o", I(B(-2), B(4)), B(3)), Opt("n", TBool)>>, FALSE, <<>>) >>
  \o (IF Codec = "oer" THEN <<AddsN(8), AddsN(9)>> ELSE <<>>)

CShapesRich ==
  CShapes \o
  << OptBools(8, TRUE), OptBools(9, FALSE), ChoiceN(2), ChoiceN(17),
     TOf("SEQOF", TBool, Sz(0, 255, FALSE)), TOf("SEQOF", TBool, Sz(256, 256, FALSE)),
     TOf("SEQOF", I(B(0), B(65535)), Sz(0, 256, FALSE)), TSeq("SEQ", <<>>, FALSE, <<>>) >>

CPrims ==
  <<TBool, TNull>>
  \o (IF Rich THEN CIntTypesRich ELSE CIntTypesQuick)
  \o CEnumTypes
  \o (IF Rich THEN CBitsTypesRich ELSE CBitsTypes)
  \o (IF Rich THEN COctsTypesRich ELSE COctsTypes)
  \o (IF Codec = "oer" THEN <<CReal("B32"), CReal("B64"),
                              TEnum(<<It("a", 0), It("b", 1)>>, TRUE, <<It("c", 2), It("d", 300)>>)>> ELSE <<>>)
  \o (IF Rich THEN CShapesRich ELSE CShapes)

\* representatives that are wrapped a second time
CCarriers ==
  <<TBool, TNull, I(B(0), B(256)), I(B(-129), B(127)), I(B(0), Pred(CP64)), CEnumTypes[3], CEnumTypes[4],
    CBitsTypes[4], COctsTypes[2], COctsTypes[4], COctsTypes[7]>>
  \o (IF Codec = "oer" THEN <<CReal("B32")>> ELSE <<>>)

------------------------------------------------------------------------------
(* just outside the subset: the generator has to refuse these                *)

Out(t, why) == [t |-> t, why |-> why]

COutside ==
  << Out(TIntN, "INT-UNBOUNDED"), Out(TIntLo(B(0)), "INT-UNBOUNDED"), Out(TIntHi(B(10)), "INT-UNBOUNDED"),
     Out(I(B(0), CP64), "INT-GT64"), Out(I(B(-1), CP63), "INT-GT64"), Out(I(Pred(Neg(CP63)), B(0)), "INT-GT64"),
     Out(TIntR(B(0), B(10), TRUE), "INT-EXTENSIBLE"),
     Out(TOcts(NoSz), "OCTS-UNBOUNDED"), Out(TOcts(SzMin(2)), "OCTS-UNBOUNDED"), Out(TOcts(Sz(1, 2, TRUE)), "SIZE-EXTENSIBLE"),
     Out(TBits(NoSz, <<>>), "BITS-VARSIZE"), Out(TBits(Sz(1, 20, FALSE), <<>>), "BITS-VARSIZE"),
     Out(TBits(NoSz, <<It("x", 0), It("y", 3)>>), "BITS-VARSIZE"), Out(TBits(Sz(65, 65, FALSE), <<>>), "BITS-GT64"),
     Out(TReal, IF Codec = "oer" THEN "REAL-NOT-IEEE" ELSE "REAL"),
     Out(TOid, "OID"), Out(TStr("IA5", NoSz, NoAl), "STRING"), Out(TStr("UTF8", Sz(2, 4, FALSE), NoAl), "STRING"),
     Out(TStr("Visible", Sz(3, 3, FALSE), NoAl), "STRING"), Out(TStr("Numeric", Sz(1, 5, FALSE), NoAl), "STRING"),
     Out(TSeq("SET", <<Mand("a", TBool), Mand("b", I(B(0), B(7)))>>, FALSE, <<>>), "SET"),
     Out(TOf("SETOF", TBool, Sz(0, 2, FALSE)), "SETOF"),
     Out(TOf("SEQOF", TBool, NoSz), "SEQOF-UNBOUNDED"), Out(TOf("SEQOF", TBool, SzMin(1)), "SEQOF-UNBOUNDED"),
     Out(TOf("SEQOF", TBool, Sz(0, 2, TRUE)), "SIZE-EXTENSIBLE") >>
  \o (IF Codec = "uper"
      THEN <<Out(CReal("B32"), "REAL"), Out(CReal("B64"), "REAL"),
             Out(TEnum(<<It("a", 0), It("b", 1)>>, TRUE, <<It("c", 2)>>), "ENUM-ADDITIONS"),
             Out(TChoice(<<Alt("a", TBool)>>, TRUE, <<Alt("b", I(B(0), B(7)))>>), "CHOICE-ADDITIONS"),
             Out(TSeq("SEQ", <<Mand("a", TBool)>>, TRUE, <<Add1(Mand("b", I(B(0), B(3))))>>), "SEQ-ADDITIONS")>>
      ELSE <<>>)

RecEnv == [tagdef |-> "A", extimp |-> FALSE,
           types |-> [x \in {"Rec"} |-> TSeq("SEQ", <<Mand("x", TBool), Opt("next", TRef("Rec"))>>, FALSE, <<>>)]]

------------------------------------------------------------------------------
(* boundary values of subset types                                           *)

InRange(c, x) == Leq(c.lb, x) /\ Leq(x, c.ub)

CIntValues(c) ==
  LET cands == <<c.lb, c.ub, Succ(c.lb), Pred(c.ub), B(0), B(-1), B(1), B(127), B(128), B(255), B(256), B(-128), B(-129),
                 B(32767), B(32768), B(65535), B(65536), B(-32768), B(-32769), Pred(P31), P31, Neg(P31), Pred(P32), P32,
                 Pred(CP63), CP63, Add(c.lb, B(128)), Add(c.lb, B(256))>>
  IN Dedup(SelectSeq(cands, LAMBDA x : InRange(c, x)))

CBitsValues(T) ==
  LET n == T.sz.ub
  IN IF n = 0 THEN <<MkBits(<<>>)>>
     ELSE Dedup(<<MkBits(BitPattern(n, 0)), MkBits(BitPattern(n, 2)), MkBits(BitPattern(n, 1)),
                  MkBits(<<1>> \o Zeros(n - 1)), MkBits(Zeros(n - 1) \o <<1>>)>>)

COctsValues(T) ==
  LET lens == SizeLens(T.sz, 600)
  IN [i \in 1..Len(lens) |-> [j \in 1..lens[i] |-> (j * 37 + lens[i]) % 256]]

RZ == [c |-> "Z", s |-> 0, m |-> <<>>, e |-> 0]
RF(s, m, e) == [c |-> "F", s |-> s, m |-> m, e |-> e]
CRealValues(wc) ==
  <<RZ, RF(0, <<1>>, 0), RF(1, <<1>>, 1), RF(0, <<5>>, -2), RF(1, <<3>>, -1)>>
  \o (IF wc = "B32"
      THEN <<RF(0, <<1>>, -149), RF(0, <<255, 255, 255>>, 104), RF(1, <<255, 255, 255>>, 104), RF(0, <<1>>, -126)>>
      ELSE <<RF(0, <<1>>, -1074), RF(0, <<31, 255, 255, 255, 255, 255, 255>>, 971), RF(1, <<1>>, 128), RF(0, <<1, 1>>, -129)>>)
  \o <<[RZ EXCEPT !.c = "NZ"], [RZ EXCEPT !.c = "PINF"], [RZ EXCEPT !.c = "NINF"], [RZ EXCEPT !.c = "NAN"]>>

RECURSIVE CValues(_, _)
CValues(e, t) ==
  CASE t.k = "REF" -> CValues(e, e.types[t.name])
    [] t.k = "BOOL" -> <<TRUE, FALSE>>
    [] t.k = "NULL" -> <<"NULL">>
    [] t.k = "INT" -> CIntValues(t.con)
    [] t.k = "ENUM" -> [i \in 1..Len(AllAlts(t)) |-> AllAlts(t)[i].n]
    [] t.k = "BITS" -> CBitsValues(t)
    [] t.k = "OCTS" -> COctsValues(t)
    [] t.k = "REAL" -> CRealValues(RealWc(t))
    [] t.k = "SEQ" ->
         LET ms == AllMembers(t)
             names == {ms[i].n : i \in 1..Len(ms)}
             allvs == Force([i \in 1..Len(ms) |-> CValues(e, ms[i].t)])
             isAdd(i) == i > Len(t.root)
             base == [nm \in names |-> Present(allvs[MemberIndex(ms, nm)][1])]
             hot(i) == [j \in 1..Min2(Max2(0, Len(allvs[i]) - 1), 7) |-> [base EXCEPT ![ms[i].n] = Present(allvs[i][j + 1])]]
                       \o (IF ms[i].q # "M" \/ isAdd(i) THEN <<[base EXCEPT ![ms[i].n] = Absent]>> ELSE <<>>)
             allAbsent == [nm \in names |-> LET i == MemberIndex(ms, nm)
                                            IN IF ms[i].q # "M" \/ isAdd(i) THEN Absent ELSE base[nm]]
             nOpt == Cardinality({i \in 1..Len(ms) : ms[i].q # "M" \/ isAdd(i)})
         IN IF ms = <<>> THEN <<[nm \in {} |-> Absent]>>
            ELSE <<base>> \o (IF nOpt >= 2 THEN <<allAbsent>> ELSE <<>>) \o Concat([i \in 1..Len(ms) |-> hot(i)])
    [] t.k = "CHOICE" ->
         LET alts == AllAlts(t)
             per == IF Len(alts) > 3 THEN 2 ELSE 5
             pick(i) == LET vs == CValues(e, alts[i].t)
                        IN [j \in 1..Min2(Len(vs), per) |-> [a |-> alts[i].n, v |-> vs[j]]]
         IN Concat([i \in 1..Len(alts) |-> pick(i)])
    [] t.k = "SEQOF" ->
         LET lens == SizeLens(t.sz, 300)
             ev == Force(CValues(e, t.e))
             mk(n, off) == [j \in 1..n |-> ev[((j + off) % Len(ev)) + 1]]
         IN Concat([i \in 1..Len(lens) |-> IF lens[i] = 0 THEN <<(<<>>)>>
                                            ELSE IF Len(ev) = 1 THEN <<mk(lens[i], 0)>>
                                            ELSE <<mk(lens[i], 0), mk(lens[i], 1)>>])

MaxCVals == 12
CVals(e, t) == LET vs == CValues(e, t) IN SubSeq(vs, 1, Min2(Len(vs), MaxCVals))

------------------------------------------------------------------------------
(* the productions of the subset                                             *)

Defaultable(e, t) == Base(e, t).k \in {"BOOL", "INT", "ENUM", "BITS", "OCTS"}
DefValue(e, t) == LET vs == CValues(e, t) IN IF Len(vs) > 1 THEN vs[2] ELSE vs[1]

CWrapsIn(e, t) ==
  << TSeq("SEQ", <<Mand("x", t)>>, FALSE, <<>>),
     TSeq("SEQ", <<Pre, Opt("x", t), Post>>, FALSE, <<>>),
     TSeq("SEQ", <<Pre, Mand("x", t)>>, TRUE, <<>>),                         \* empty extension marker
     TSeq("SEQ", <<Opt("a-b", t), Mand("y", TBool)>>, FALSE, <<>>),
     TOf("SEQOF", t, Sz(0, 3, FALSE)),
     TOf("SEQOF", t, Sz(2, 2, FALSE)),
     TChoice(<<Alt("x", t), Alt("b", TBool)>>, FALSE, <<>>),
     TChoice(<<Alt("n", TNull), Alt("b", TBool), Alt("x", t)>>, FALSE, <<>>),
     TChoice(<<Alt("x", t)>>, TRUE, <<>>) >>                                  \* empty extension marker
  \o (IF Defaultable(e, t) THEN <<TSeq("SEQ", <<Def("x", t, DefValue(e, t)), Post>>, FALSE, <<>>)>> ELSE <<>>)
  \o (IF Codec = "oer"
      THEN << TSeq("SEQ", <<Pre>>, TRUE, <<Add1(Mand("x", t)), Add1(Opt("y", TBool))>>),
              TSeq("SEQ", <<Pre, Opt("o", I(B(0), B(255)))>>, TRUE, <<Add1(Mand("w", TBool)), Add1(Mand("x", t))>>),
              TChoice(<<Alt("b", TBool)>>, TRUE, <<Alt("x", t)>>) >>
      ELSE <<>>)

\* around a type outside the subset: it must be refused wherever it occurs
CWrapsOut(t) ==
  << TSeq("SEQ", <<Pre, Mand("x", t)>>, FALSE, <<>>),
     TOf("SEQOF", t, Sz(0, 3, FALSE)),
     TChoice(<<Alt("x", t), Alt("b", TBool)>>, FALSE, <<>>) >>

CurIn == InCSubset(gEnv, gT, Codec)

CIsCarrier(t) == \E i \in 1..Len(CCarriers) : CCarriers[i] = t

CInit ==
  /\ gDepth = 0
  /\ \/ /\ gEnv = [tagdef |-> "A", extimp |-> FALSE, types |-> [x \in {} |-> 0]]
        /\ \/ \E i \in 1..Len(CPrims) : gT = CPrims[i]
           \/ \E i \in 1..Len(COutside) : gT = COutside[i].t
     \/ gEnv = RecEnv /\ gT = TRef("Rec")
  /\ gCar = CIsCarrier(gT)

\* with ~Rich only the carriers are wrapped a second time
DeeperOk == gDepth = 0 \/ (CurIn /\ (Rich \/ gCar))

CWrap ==
  /\ gDepth < MaxDepth
  /\ DeeperOk
  /\ LET ws == IF CurIn THEN CWrapsIn(gEnv, gT) ELSE CWrapsOut(gT)
     IN \E i \in 1..Len(ws) : gT' = ws[i]
  /\ gDepth' = gDepth + 1
  /\ UNCHANGED <<gEnv, gCar>>

\* name the current type in the second module and refer to it from the first
CRefer ==
  /\ gDepth < MaxDepth
  /\ DeeperOk
  /\ gT.k # "REF"
  /\ LET nm == "N" \o ToString(gDepth) IN
       /\ nm \notin DOMAIN gEnv.types
       /\ gEnv' = [gEnv EXCEPT !.types = [x \in DOMAIN gEnv.types \cup {nm} |-> IF x = nm THEN gT ELSE gEnv.types[x]]]
       /\ LET r == TRef(nm)
              ws == IF CurIn
                    THEN << r,
                            TSeq("SEQ", <<Mand("r1", r), Opt("r2", r)>>, FALSE, <<>>),
                            TOf("SEQOF", r, Sz(0, 2, FALSE)),
                            TChoice(<<Alt("r", r), Alt("b", TBool)>>, FALSE, <<>>) >>
                         \o (IF Defaultable(gEnv, gT)
                             THEN <<TSeq("SEQ", <<Def("r", r, DefValue(gEnv, gT)), Post>>, FALSE, <<>>)>> ELSE <<>>)
                    ELSE << r, TSeq("SEQ", <<Mand("r1", r)>>, FALSE, <<>>) >>
          IN \E i \in 1..Len(ws) : gT' = ws[i]
  /\ gDepth' = gDepth + 1
  /\ UNCHANGED gCar

CNext == CWrap \/ CRefer

cvars == <<gEnv, gT, gDepth, gCar>>
CSpec == CInit /\ [][CNext]_cvars

------------------------------------------------------------------------------
(* version 2 of a module: two extension additions on every extensible SEQUENCE *)

ExtraAdds == <<Add1(Mand("n1", I(B(0), B(255)))), Add1(Opt("n2", TOcts(Sz(0, 3, FALSE))))>>

RECURSIVE V2Of(_)
V2Of(T) ==
  CASE T.k = "SEQ" ->
         [T EXCEPT !.root = [i \in 1..Len(T.root) |-> [T.root[i] EXCEPT !.t = V2Of(T.root[i].t)]],
                   !.adds = [i \in 1..Len(T.adds) |-> IF T.adds[i].g THEN T.adds[i]
                                                      ELSE [T.adds[i] EXCEPT !.m.t = V2Of(T.adds[i].m.t)]]
                            \o (IF T.ext THEN ExtraAdds ELSE <<>>)]
    [] T.k = "CHOICE" -> [T EXCEPT !.root = [i \in 1..Len(T.root) |-> [T.root[i] EXCEPT !.t = V2Of(T.root[i].t)]]]
    [] T.k = "SEQOF" -> [T EXCEPT !.e = V2Of(T.e)]
    [] OTHER -> T

RECURSIVE HasExtSeq(_, _)
HasExtSeq(e, T) ==
  CASE T.k = "REF" -> HasExtSeq(e, e.types[T.name])
    [] T.k = "SEQ" -> T.ext \/ \E i \in 1..Len(AllMembers(T)) : HasExtSeq(e, AllMembers(T)[i].t)
    [] T.k = "CHOICE" -> \E i \in 1..Len(T.root) : HasExtSeq(e, T.root[i].t)
    [] T.k = "SEQOF" -> HasExtSeq(e, T.e)
    [] OTHER -> FALSE

EnvWithTop(e, t) ==
  [tagdef |-> e.tagdef, extimp |-> e.extimp,
   types |-> [x \in DOMAIN e.types \cup {"Top"} |-> IF x = "Top" THEN t ELSE e.types[x]]]

EnvV2(e) == [e EXCEPT !.types = [x \in DOMAIN e.types |-> V2Of(e.types[x])]]

------------------------------------------------------------------------------
(* emission                                                                  *)

CCase ==
  LET env == EnvWithTop(gEnv, gT)
      why == WhyOutside(gEnv, gT, Codec)
      vs == IF why = "" THEN CVals(gEnv, gT) ELSE <<>>
      paired == why = "" /\ Codec = "oer" /\ HasExtSeq(gEnv, gT)
      env2 == EnvV2(env)
      vs2 == IF paired THEN CVals(env2, env2.types["Top"]) ELSE <<>>
  IN [env |-> env, top |-> "Top", depth |-> gDepth, codec |-> Codec,
      modof |-> [x \in DOMAIN env.types |-> IF x = "Top" THEN "A" ELSE "B"],
      expect |-> IF why = "" THEN "accept" ELSE "reject", why |-> why,
      vals |-> vs,
      cs |-> [i \in 1..Len(vs) |-> CStruct(env, gT, vs[i], Codec)],
      paired |-> paired,
      env2 |-> IF paired THEN env2 ELSE env,
      vals2 |-> vs2,
      cs2 |-> [i \in 1..Len(vs2) |-> CStruct(env, gT, ProjectV(env, gT, env2, env2.types["Top"], vs2[i]), Codec)]]

CEmit ==
  Serialize(ToJson(CCase) \o "\n", IOEnv.OUT_FILE,
            [format |-> "TXT", charset |-> "UTF-8", openOptions |-> <<"WRITE", "CREATE", "APPEND">>]).exitValue = 0

------------------------------------------------------------------------------
(* model-level properties of the generator (checked by TLC on every state)   *)

\* every value of an in-subset state is admitted by its type
CValuesAdmitted ==
  CurIn => \A i \in 1..Len(CVals(gEnv, gT)) : Admits(gEnv, gT, CVals(gEnv, gT)[i])

\* every integer member of every struct image lies in the range its C type must hold
CStructInRange ==
  CurIn => \A i \in 1..Len(CVals(gEnv, gT)) :
             LET fs == CStruct(gEnv, gT, CVals(gEnv, gT)[i], Codec)
             IN \A j \in 1..Len(fs) : fs[j].k = "int" => (Leq(fs[j].lo, fs[j].v) /\ Leq(fs[j].v, fs[j].hi))

\* member paths of one struct image are pairwise different
CStructPathsDistinct ==
  CurIn => \A i \in 1..Len(CVals(gEnv, gT)) :
             LET fs == CStruct(gEnv, gT, CVals(gEnv, gT)[i], Codec)
             IN \A a, b \in 1..Len(fs) : a # b => fs[a].p # fs[b].p

\* wrapping never turns a refused type into an accepted one
COutsideStaysOutside ==
  (gDepth = 1 /\ gT.k \in {"SEQ", "SEQOF", "CHOICE"} /\ ~CurIn) => WhyOutside(gEnv, gT, Codec) # ""

\* a version-1 decoder sees exactly the version-1 members
CProjectionWellFormed ==
  (CurIn /\ Codec = "oer" /\ HasExtSeq(gEnv, gT)) =>
     LET env == EnvWithTop(gEnv, gT)
         env2 == EnvV2(env)
         vs2 == CVals(env2, env2.types["Top"])
     IN \A i \in 1..Len(vs2) :
          /\ Admits(env2, env2.types["Top"], vs2[i])
          /\ Admits(env, gT, ProjectV(env, gT, env2, env2.types["Top"], vs2[i]))

=============================================================================
