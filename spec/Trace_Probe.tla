----------------------------- MODULE Trace_Probe ----------------------------
(***************************************************************************)
(* Binding B of C15.  One recorded line per message (abstract: header      *)
(* octets emitted by LengthProbe + n zero contents octets; typed: the      *)
(* distinguished encoding of a TypeGen value), for codec in {ber, der} and *)
(* every tail:                                                             *)
(*   runs   what Specification.decode_length answered for EVERY prefix of  *)
(*          message + tail, as maximal runs {lo, hi, a, o} of identical    *)
(*          answers (a = the number, -1 = None = "not yet known");         *)
(*   dec    Specification.decode(type, message);                           *)
(*   dwl    Specification.decode_with_length(type, message + tail).        *)
(*                                                                         *)
(* PROBE  every run must carry the answer of LengthProbe!ProbeAt at its    *)
(*        two ends (by LengthProbe!ProbeShape / Monotone, model-checked,   *)
(*        the specified answer is a step function of the prefix length, so *)
(*        a run that is right at both ends is right inside), the runs must *)
(*        tile 0..Len(message + tail), and the answers TLC emitted with    *)
(*        the behaviour (exp) must be the recorded ones.                   *)
(* DWL    decode_with_length returns the value of decoding the message     *)
(*        alone (AbsEq) and exactly the message's length.                  *)
(*                                                                         *)
(* The variables of the LengthProbe transition system are not used here.   *)
(***************************************************************************)
EXTENDS LengthProbe, TLCExt

Tr == ndJsonDeserialize(IOEnv.TRACE_FILE)

VARIABLE i
vars == <<i, gM, gTail, gK>>

Has(r, f) == f \in DOMAIN r

ExcKey(phase, o) ==
  IF o.st = "exc" THEN phase \o "-exc:" \o o.cls \o "@" \o o.site
  ELSE IF o.st = "timeout" THEN phase \o "-timeout@" \o o.site
  ELSE phase \o "-bad:" \o o.msg

V(check, weight, verdict, detail) == [check |-> check, w |-> weight, verdict |-> verdict, detail |-> detail]

\* the message of a recorded line in the shape LengthProbe uses
MsgOf(L) ==
  [h |-> L.h, n |-> L.n,
   c |-> IF L.kind = "typed" THEN SubSeq(L.b, Len(L.h) + 1, Len(L.b)) ELSE <<>>,
   d |-> 0]

------------------------------------------------------------------------------
(* input classes of known findings (none so far): predicates over the       *)
(* message, e.g. "high tag number form", "long form with leading zero"      *)

PbClasses == <<"HighTagNumber", "NonMinimalLength">>

PbClassHolds(name, m) ==
  CASE name = "HighTagNumber" -> (m.h[1] % 32) = 31
    [] name = "NonMinimalLength" ->
         LET id == ParseIdentifier(m.h, 1, Len(m.h)) IN Len(m.h) - id.il # Len(LengthOctets(m.n))

PbApplicable(m) ==
  {PbClasses[j] : j \in {j \in 1..Len(PbClasses) : PbClassHolds(PbClasses[j], m)}}

------------------------------------------------------------------------------

Str(n) == ToString(n)

ProbeVerdict(L, m, t) ==
  LET tail == t.t
      slen == StreamLen(m, tail)
      rs == t.runs
      tiled == /\ Len(rs) >= 1
               /\ rs[1].lo = 0
               /\ rs[Len(rs)].hi = slen
               /\ \A j \in 1..(Len(rs) - 1) : rs[j + 1].lo = rs[j].hi + 1
               /\ \A j \in 1..Len(rs) : rs[j].lo <= rs[j].hi
      app == " applicable:" \o ToString(PbApplicable(m))
      \* first run that is wrong at one of its ends
      badAt(r) == IF r.o.st # "ok" THEN TRUE
                  ELSE r.a # ProbeAt(m, tail, r.lo) \/ r.a # ProbeAt(m, tail, r.hi)
      bad == SelectSeq(rs, badAt)
      exp == L.exp \o t.exp
      runOf(k) == SelectSeq(rs, LAMBDA r : r.lo <= k /\ k <= r.hi)
      expBad == SelectSeq(exp, LAMBDA e : LET r == runOf(e[1]) IN r = <<>> \/ r[1].o.st # "ok" \/ r[1].a # e[2])
  IN IF MsgLen(m) # L.total THEN V("PROBE", 1, "machinery", "recorded total differs from the header")
     ELSE IF ~tiled THEN V("PROBE", 1, "machinery", "runs do not tile 0.." \o Str(slen))
     ELSE IF bad # <<>>
     THEN LET r == bad[1] IN
          V("PROBE", slen + 1, "reject",
            (IF r.o.st # "ok" THEN ExcKey("decode_length", r.o) \o " for prefix lengths " \o Str(r.lo) \o ".." \o Str(r.hi)
             ELSE "decode_length = " \o Str(r.a) \o " for prefix lengths " \o Str(r.lo) \o ".." \o Str(r.hi)
                  \o " of a " \o Str(L.total) \o "-octet message with a " \o Str(Len(L.h)) \o "-octet header; X.690: "
                  \o Str(ProbeAt(m, tail, r.lo)) \o ".." \o Str(ProbeAt(m, tail, r.hi)))
            \o app)
     ELSE IF expBad # <<>>
     THEN V("PROBE", slen + 1, "reject", "answer for prefix length " \o Str(expBad[1][1]) \o " is not the " \o
            Str(expBad[1][2]) \o " LengthProbe emitted" \o app)
     ELSE V("PROBE", slen + 1, "ok", "")

DwlVerdict(L, o, m, t) ==
  LET app == " applicable:" \o ToString(PbApplicable(m)) IN
  IF o.dec.st # "ok" THEN V("DWL", 1, "skip", "the message alone does not decode (C01): " \o ExcKey("dec", o.dec))
  ELSE IF t.dwl.st # "ok" THEN V("DWL", 1, "reject", ExcKey("dwl", t.dwl) \o app)
  ELSE IF t.dwl.n # L.total
  THEN V("DWL", 1, "reject", "decode_with_length returned length " \o Str(t.dwl.n) \o ", message length " \o Str(L.total) \o app)
  ELSE IF L.kind = "typed"
  THEN (IF AbsEq(L.env, L.env.types[L.top], o.dec.v, t.dwl.v) THEN V("DWL", 1, "ok", "")
        ELSE V("DWL", 1, "reject", "decode_with_length value differs from decode of the message alone" \o app))
  ELSE (IF t.dwl.len = o.dec.len /\ t.dwl.zero = o.dec.zero /\ o.dec.len = L.n /\ o.dec.zero THEN V("DWL", 1, "ok", "")
        ELSE V("DWL", 1, "reject", "decode_with_length value differs from decode of the message alone" \o app))

ObsVerdicts(L, o) ==
  IF Has(o, "machinery") THEN <<V("ANY", 1, "machinery", o.machinery)>>
  ELSE IF Has(o, "compile") THEN <<V("ANY", 1, "skip", "not compilable: " \o ExcKey("compile", o.compile))>>
  ELSE LET m == MsgOf(L)
       IN Concat([j \in 1..Len(o.tails) |-> <<ProbeVerdict(L, m, o.tails[j]), DwlVerdict(L, o, m, o.tails[j])>>])

LineReport(L) ==
  LET per == [j \in 1..Len(L.obs) |->
                LET vs == ObsVerdicts(L, L.obs[j])
                IN [k \in 1..Len(vs) |-> [vi |-> L.obs[j].vi, codec |-> L.obs[j].codec, ne |-> L.obs[j].ne,
                                          check |-> vs[k].check, verdict |-> vs[k].verdict, detail |-> vs[k].detail,
                                          w |-> vs[k].w]]]
      all == Concat(per)
      weight(s) == FoldLeft(LAMBDA acc, r : acc + r.w, 0, s)
  IN [cid |-> L.cid, n |-> weight(all),
      ok |-> weight(SelectSeq(all, LAMBDA r : r.verdict = "ok")),
      other |-> SelectSeq(all, LAMBDA r : r.verdict # "ok")]

EmitReport(r) ==
  Serialize(ToJson(r) \o "\n", IOEnv.VERDICT_FILE,
            [format |-> "TXT", charset |-> "UTF-8", openOptions |-> <<"WRITE", "CREATE", "APPEND">>]).exitValue = 0

TraceInit == i = 1 /\ gM = 0 /\ gTail = 0 /\ gK = 0
TraceNext == /\ i <= Len(Tr)
             /\ EmitReport(LineReport(Tr[i]))
             /\ i' = i + 1
             /\ UNCHANGED <<gM, gTail, gK>>
TraceSpec == TraceInit /\ [][TraceNext]_vars

TraceAccepted == TLCGet("stats").diameter - 1 = Len(Tr)

=============================================================================
