-------------------------- MODULE Trace_Constraints --------------------------
(***************************************************************************)
(* Binding B for C11.  One recorded line per case (a type, its value table *)
(* and, per value and codec group, what the real library did with          *)
(* constraint checking enabled); one action consumes one line.             *)
(*                                                                         *)
(*   ENC   encode(v, check_constraints=True) raises the library's          *)
(*         ConstraintsError  <=>  ViolationPaths(env, T, v) # <<>> ;       *)
(*         bytes for a violated value = "reached the wire silently"        *)
(*   DEC   decode(e, check_constraints=True), e encoded with checks off:   *)
(*         raises ConstraintsError  <=>  the decoded value d (recorded     *)
(*         from the same bytes with checks off) violates a constraint      *)
(*                                                                         *)
(* An observation that the standard reading rejects but that is            *)
(* reproduced exactly by switching on a set of named deviations of         *)
(* Constraints.tla gets verdict "dev" with that set as detail.             *)
(***************************************************************************)
EXTENDS Constraints, TLC, TLCExt, Json, IOUtils

Tr == ndJsonDeserialize(IOEnv.TRACE_FILE)

VARIABLE i
vars == <<i>>

Has(r, f) == f \in DOMAIN r
InMro(o, name) == \E j \in 1..Len(o.mro) : o.mro[j] = name
IsConstraintsError(o) == o.st = "exc" /\ InMro(o, "asn1tools.errors.ConstraintsError")

ExcKey(phase, o) ==
  IF o.st = "exc" THEN phase \o "-exc:" \o o.cls \o "@" \o o.site
  ELSE IF o.st = "timeout" THEN phase \o "-timeout@" \o o.site
  ELSE IF o.st = "bad" THEN phase \o "-bad:" \o o.msg
  ELSE phase \o "-ok"

V(check, verdict, detail) == [check |-> check, verdict |-> verdict, detail |-> detail]

Where(vp) == ToString([j \in 1..Len(vp) |-> <<JoinDot(NamePath(vp[j].pos)), vp[j].why>>])

\* judge "raised ConstraintsError" against the specification for value x
Judge(check, phase, env, T, x, o) ==
  LET vp == ViolationPaths(env, T, x)
      should == vp # <<>>
      did == IsConstraintsError(o)
      expl == SelectSeq(ConDevSets, LAMBDA S : (ViolationPathsD(env, T, x, S, FALSE) # <<>>) = did)
  IN IF o.st = "timeout" THEN V(check, "reject", ExcKey(phase, o))
     ELSE IF should = did THEN V(check, "ok", "")
     ELSE IF expl # <<>> THEN V(check, "dev", ToString(expl[1]))
     ELSE IF should /\ o.st = "ok"
          THEN V(check, "reject", "out-of-constraint value passed silently (" \o phase \o "); violated: " \o Where(vp))
     ELSE IF should
          THEN V(check, "reject", ExcKey(phase, o) \o " instead of ConstraintsError; violated: " \o Where(vp))
     ELSE V(check, "reject", "admitted value rejected (" \o phase \o ") at " \o o.pfx)

EncVerdict(env, T, v, o) == Judge("ENC", "enc", env, T, v, o.enc)

DecVerdict(env, T, v, o) ==
  IF o.enc0.st # "ok" THEN V("DEC", "skip", "the codec does not encode this value with checks off")
  ELSE IF ~Has(o, "dec0") \/ ~Has(o, "dec1") THEN V("DEC", "skip", "no decode recorded")
  ELSE IF o.dec0.st # "ok" THEN V("DEC", "skip", "not decodable with checks off: " \o ExcKey("dec", o.dec0))
  ELSE LET d == IF o.dec0.same THEN v ELSE o.dec0.v
       IN Judge("DEC", "dec", env, T, d, o.dec1)

ObsVerdicts(L, o) ==
  IF Has(o, "machinery") THEN <<V("ANY", "machinery", o.machinery)>>
  ELSE IF Has(o, "compile") THEN <<V("ANY", "skip", "not compilable: " \o ExcKey("compile", o.compile))>>
  ELSE LET env == L.env
           T == env.types[L.top]
           v == L.vals[o.vi]
       IN <<EncVerdict(env, T, v, o), DecVerdict(env, T, v, o)>>

\* one verdict of a codec group counts once per codec in the group
LineReport(L) ==
  LET per == [j \in 1..Len(L.obs) |->
                LET vs == ObsVerdicts(L, L.obs[j])
                IN [k \in 1..Len(vs) |-> [vi |-> L.obs[j].vi, codec |-> L.obs[j].codec, ne |-> L.obs[j].ne,
                                          w |-> Len(L.obs[j].codecs),
                                          check |-> vs[k].check, verdict |-> vs[k].verdict, detail |-> vs[k].detail]]]
      all == Concat(per)
      weight(s) == FoldLeft(LAMBDA acc, r : acc + r.w, 0, s)
  IN [cid |-> L.cid, n |-> weight(all),
      ok |-> weight(SelectSeq(all, LAMBDA r : r.verdict = "ok")),
      other |-> SelectSeq(all, LAMBDA r : r.verdict # "ok")]

Emit(r) ==
  Serialize(ToJson(r) \o "\n", IOEnv.VERDICT_FILE,
            [format |-> "TXT", charset |-> "UTF-8", openOptions |-> <<"WRITE", "CREATE", "APPEND">>]).exitValue = 0

Init == i = 1
Next == /\ i <= Len(Tr)
        /\ Emit(LineReport(Tr[i]))
        /\ i' = i + 1
Spec == Init /\ [][Next]_vars

TraceAccepted == TLCGet("stats").diameter - 1 = Len(Tr)

=============================================================================
