SPECIFICATION Spec
CONSTANTS
  Threads = {t1, t2, t3}
  MaxCalls = 3
  Mech = "PerCall"
SYMMETRY Perms
INVARIANTS ReturnsSolo GraphUnchanged ArgsUnchanged NoAliasOfGraph
PROPERTIES ReqSpec NoGraphWrite
CHECK_DEADLOCK FALSE
