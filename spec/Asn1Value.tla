------------------------------ MODULE Asn1Value -----------------------------
(***************************************************************************)
(* Abstract values, value equality and constraint satisfaction.            *)
(*                                                                         *)
(* Value shapes (always accessed type-directed):                           *)
(*   BOOL   BOOLEAN              NULL  "NULL"                              *)
(*   INT    BigInt               ENUM  STRING (item name)                  *)
(*   BITS   [n : Nat, b : Seq(0..255)]   n bits, left-aligned in b,        *)
(*                                        unused bits of the last octet 0  *)
(*   OCTS   Seq(0..255)          STR   Seq(Nat) code points                *)
(*   OID    Seq(Nat)                                                       *)
(*   REAL   [c : "F"|"Z"|"NZ"|"PINF"|"NINF"|"NAN", s : 0|1,                *)
(*           m : Seq(0..255), e : Int]    (-1)^s * m * 2^e, m odd          *)
(*   SEQ / SET   [member name -> [p : BOOLEAN, v : value]]  (all members)  *)
(*   CHOICE      [a : STRING, v : value]                                   *)
(*   SEQOF/SETOF Seq(value)                                                *)
(***************************************************************************)
EXTENDS Asn1Type, FiniteSets

Absent == [p |-> FALSE, v |-> "NULL"]
Present(v) == [p |-> TRUE, v |-> v]

MemberIndex(ms, name) == CHOOSE i \in 1..Len(ms) : ms[i].n = name
HasMember(ms, name) == \E i \in 1..Len(ms) : ms[i].n = name

\* a BIT STRING value without its trailing zero bits (X.680 22.7)
TrimBits(v) ==
  LET bits == SubSeq(BytesToBits(v.b), 1, v.n)
      k == IF \E i \in 1..v.n : bits[i] = 1
           THEN CHOOSE i \in 1..v.n : bits[i] = 1 /\ \A j \in (i+1)..v.n : bits[j] = 0
           ELSE 0
  IN [n |-> k, b |-> BitsToBytes(SubSeq(bits, 1, k))]

BitsOf(v) == SubSeq(BytesToBits(v.b), 1, v.n)

RealEq(a, b) ==
  /\ a.c = b.c
  /\ a.c = "F" => (a.s = b.s /\ a.m = b.m /\ a.e = b.e)

------------------------------------------------------------------------------
(* AbsEq: equality of abstract values of type T (C01/C02 wording)           *)

RECURSIVE AbsEq(_, _, _, _)
AbsEq(env, T, a, b) ==
  CASE T.k = "REF" -> AbsEq(env, env.types[T.name], a, b)
    [] T.k \in {"BOOL", "NULL", "ENUM", "OCTS", "STR", "OID"} -> a = b
    [] T.k = "INT" -> Eq(a, b)
    [] T.k = "REAL" -> RealEq(a, b)
    [] T.k = "BITS" -> IF T.nb # <<>> THEN TrimBits(a) = TrimBits(b) ELSE a = b
    [] T.k \in {"SEQ", "SET"} ->
         LET ms == AllMembers(T)
             eff(x, m) == IF ~x[m.n].p /\ m.q = "D" THEN Present(m.d) ELSE x[m.n]
         IN \A i \in 1..Len(ms) :
              LET ea == eff(a, ms[i])  eb == eff(b, ms[i])
              IN /\ ea.p = eb.p
                 /\ ea.p => AbsEq(env, ms[i].t, ea.v, eb.v)
    [] T.k = "CHOICE" ->
         /\ a.a = b.a
         /\ LET alts == AllAlts(T) IN AbsEq(env, alts[MemberIndex(alts, a.a)].t, a.v, b.v)
    [] T.k = "SEQOF" ->
         /\ Len(a) = Len(b)
         /\ \A i \in 1..Len(a) : AbsEq(env, T.e, a[i], b[i])
    [] T.k = "SETOF" ->
         /\ Len(a) = Len(b)
         /\ \A i \in 1..Len(a) :
              Cardinality({j \in 1..Len(a) : AbsEq(env, T.e, a[i], a[j])}) =
              Cardinality({j \in 1..Len(b) : AbsEq(env, T.e, a[i], b[j])})

------------------------------------------------------------------------------
(* Admits: does the value satisfy every (non-extensible) constraint?  (C11)  *)

InIntCon(c, v) ==
  \/ c.f = "N"
  \/ c.ext
  \/ /\ (c.lbinf \/ Leq(c.lb, v))
     /\ (c.ubinf \/ Leq(v, c.ub))

InSize(c, n) ==
  \/ c.f = "N"
  \/ c.ext
  \/ /\ c.lb <= n
     /\ (c.ubinf \/ n <= c.ub)

InAlphabet(al, s) == ~al.has \/ \A i \in 1..Len(s) : \E j \in 1..Len(al.set) : al.set[j] = s[i]

\* characters every restricted string type admits by definition (X.680 41)
CharOk(st, ch) ==
  CASE st = "Numeric" -> ch = 32 \/ ch \in 48..57
    [] st = "Printable" -> ch \in 65..90 \/ ch \in 97..122 \/ ch \in 48..57
                           \/ ch \in {32, 39, 40, 41, 43, 44, 45, 46, 47, 58, 61, 63}
    [] st = "Visible" -> ch \in 32..126
    [] st = "IA5" -> ch \in 0..127
    [] st = "BMP" -> ch \in 0..65535
    [] OTHER -> TRUE

RECURSIVE Admits(_, _, _)
Admits(env, T, v) ==
  CASE T.k = "REF" -> Admits(env, env.types[T.name], v)
    [] T.k \in {"BOOL", "NULL", "OID", "REAL"} -> TRUE
    [] T.k = "ENUM" -> \E i \in 1..Len(AllAlts(T)) : AllAlts(T)[i].n = v
    [] T.k = "INT" -> InIntCon(T.con, v)
    [] T.k = "BITS" -> InSize(T.sz, v.n)
    [] T.k = "OCTS" -> InSize(T.sz, Len(v))
    [] T.k = "STR" -> /\ InSize(T.sz, Len(v))
                      /\ InAlphabet(T.al, v)
                      /\ \A i \in 1..Len(v) : CharOk(T.st, v[i])
    [] T.k \in {"SEQ", "SET"} ->
         LET ms == AllMembers(T)
         IN /\ \A i \in 1..Len(ms) :
                 /\ (ms[i].q = "M" /\ i <= Len(T.root)) => v[ms[i].n].p
                 /\ v[ms[i].n].p => Admits(env, ms[i].t, v[ms[i].n].v)
            \* an addition group is present or absent as a whole (X.680 25.x [[ ]])
            /\ \A a \in 1..Len(T.adds) :
                 T.adds[a].g =>
                   LET gm == T.adds[a].ms
                   IN (\E h \in 1..Len(gm) : v[gm[h].n].p) =>
                        \A h \in 1..Len(gm) : gm[h].q = "M" => v[gm[h].n].p
    [] T.k = "CHOICE" ->
         LET alts == AllAlts(T)
         IN /\ HasMember(alts, v.a)
            /\ Admits(env, alts[MemberIndex(alts, v.a)].t, v.v)
    [] T.k \in {"SEQOF", "SETOF"} ->
         /\ InSize(T.sz, Len(v))
         /\ \A i \in 1..Len(v) : Admits(env, T.e, v[i])

=============================================================================
