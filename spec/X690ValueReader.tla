-------------------------- MODULE X690ValueReader ---------------------------
(***************************************************************************)
(* ITU-T X.690 read side at the level of values: a type-directed reader of  *)
(* BER over a parsed TLV tree (X690!ParseTlv), written independently of the *)
(* encoder X690!DerTree.  It accepts everything BER allows a sender:        *)
(* constructed (segmented, nested) strings, SET components and DEFAULT-     *)
(* valued components in any order / present or absent, unknown extension    *)
(* additions (skipped), non-minimal and indefinite lengths (already handled *)
(* by ParseTlv).  Results  [ok, v]  or  [ok |-> FALSE, why]; REAL, OBJECT    *)
(* IDENTIFIER and character strings are returned as [raw |-> contents].     *)
(*                                                                         *)
(* Checked by TLC over TypeGen's universe (ModelProps!BerReaderInverts):    *)
(* reading the parse of DerEnc(T, v) gives v - "the output is accepted by   *)
(* any conforming BER/DER reader with the same meaning" (C03) on the model; *)
(* TlvRewrite!VariantReadsBack states the same for every re-serialisation   *)
(* (C04 on the model).                                                     *)
(***************************************************************************)
EXTENDS X690

BOk(v) == [ok |-> TRUE, v |-> v]
BFail(why) == [ok |-> FALSE, why |-> why]
BUnknownItem == "?unknown"

\* 8.7.3 / 8.23.6 / 8.6.4: the contents octets of a string node, segments concatenated (any nesting)
RECURSIVE VrSegContents(_, _)
VrSegContents(t, segNum) ==
  IF ~t.cons THEN [ok |-> TRUE, v |-> t.prim]
  ELSE FoldLeft(LAMBDA acc, j :
                  IF ~acc.ok THEN acc
                  ELSE IF ~(t.kids[j].cls = "U" /\ t.kids[j].num = segNum) THEN BFail("segment tag")
                  ELSE LET r == VrSegContents(t.kids[j], segNum) IN
                       IF ~r.ok THEN r ELSE BOk(acc.v \o r.v),
                BOk(<<>>), [j \in 1..Len(t.kids) |-> j])

\* BIT STRING segments: every segment starts with its unused-bits octet; only the last may be non-zero
RECURSIVE VrBitSegs(_)
VrBitSegs(t) ==       \* -> [ok, v = sequence of primitive segment contents]
  IF ~t.cons THEN BOk(<<t.prim>>)
  ELSE FoldLeft(LAMBDA acc, j :
                  IF ~acc.ok THEN acc
                  ELSE IF ~(t.kids[j].cls = "U" /\ t.kids[j].num = 3) THEN BFail("segment tag")
                  ELSE LET r == VrBitSegs(t.kids[j]) IN IF ~r.ok THEN r ELSE BOk(acc.v \o r.v),
                BOk(<<>>), [j \in 1..Len(t.kids) |-> j])

VrReadBitString(t) ==
  LET s == VrBitSegs(t) IN
  IF ~s.ok THEN s
  ELSE IF s.v = <<>> THEN BOk([n |-> 0, b |-> <<>>])
  ELSE IF \E j \in 1..Len(s.v) : s.v[j] = <<>> THEN BFail("bit string segment without unused-bits octet")
  ELSE IF \E j \in 1..(Len(s.v) - 1) : s.v[j][1] # 0 THEN BFail("unused bits in a segment that is not the last")
  ELSE LET last == s.v[Len(s.v)]
           body == Concat([j \in 1..Len(s.v) |-> Tail(s.v[j])])
       IN IF last[1] > 7 \/ (Len(body) = 0 /\ last[1] # 0) THEN BFail("unused bits")
          ELSE BOk([n |-> 8 * Len(body) - last[1], b |-> body])

RECURSIVE BerReadT(_, _, _, _), BerReadBase(_, _, _, _)

\* T with its notation tags; chk: the outermost tag of t is to be checked (FALSE below an IMPLICIT tag)
BerReadT(env, T, t, chk) ==
  IF T.tags = <<>> THEN BerReadBase(env, T, t, chk)
  ELSE LET tg == T.tags[1]
           rest == [T EXCEPT !.tags = Tail(T.tags)]
       IN IF chk /\ ~(t.cls = tg.cls /\ t.num = tg.num) THEN BFail("tag mismatch")
          ELSE IF TagIsExplicit(env, T, 1, {})
               THEN (IF ~t.cons \/ Len(t.kids) # 1 THEN BFail("explicit tag: not one inner encoding")
                     ELSE BerReadT(env, rest, t.kids[1], TRUE))
               ELSE BerReadT(env, rest, t, FALSE)

\* the component of T (index in AllMembers / AllAlts) whose outer tags contain the tag of t; 0 if none
CompOfTag(env, T, t, n) ==
  LET hit == {i \in 1..n : [cls |-> t.cls, num |-> t.num] \in OuterTags(env, ComponentType(env, T, i))}
  IN IF hit = {} THEN 0 ELSE CHOOSE i \in hit : \A j \in hit : i <= j

BerReadBase(env, T, t, chk) ==
  LET uni(num) == ~chk \/ (t.cls = "U" /\ t.num = num)
      prim(num) == uni(num) /\ ~t.cons
  IN
  CASE T.k = "REF" -> BerReadT(env, env.types[T.name], t, chk)
    [] T.k = "BOOL" -> IF prim(1) /\ Len(t.prim) = 1 THEN BOk(t.prim[1] # 0) ELSE BFail("boolean")
    [] T.k = "INT" -> IF prim(2) /\ t.prim # <<>> THEN BOk(FromTwos(t.prim)) ELSE BFail("integer")
    [] T.k = "ENUM" ->
         IF ~(prim(10) /\ t.prim # <<>>) THEN BFail("enumerated")
         ELSE LET x == FromTwos(t.prim)  items == AllAlts(T) IN
              IF FitsInt(x) /\ \E j \in 1..Len(items) : items[j].v = ToInt(x)
              THEN BOk(items[CHOOSE j \in 1..Len(items) : items[j].v = ToInt(x)].n)
              ELSE IF IsExt(env, T) THEN BOk(BUnknownItem) ELSE BFail("enumeration value")
    [] T.k = "BITS" -> IF uni(3) THEN VrReadBitString(t) ELSE BFail("bit string tag")
    [] T.k = "OCTS" -> IF uni(4) THEN VrSegContents(t, 4) ELSE BFail("octet string tag")
    [] T.k = "NULL" -> IF prim(5) /\ t.prim = <<>> THEN BOk("NULL") ELSE BFail("null")
    [] T.k \in {"OID", "REAL"} -> IF prim(UniversalNum(T)) THEN BOk([raw |-> t.prim]) ELSE BFail("oid / real")
    [] T.k = "STR" ->
         IF ~uni(UniversalNum(T)) THEN BFail("string tag")
         ELSE LET r == VrSegContents(t, 4) IN IF ~r.ok THEN r ELSE BOk([raw |-> r.v])
    [] T.k \in {"SEQ", "SET"} ->
         IF ~(uni(UniversalNum(T)) /\ t.cons) THEN BFail("sequence / set tag")
         ELSE LET ms == AllMembers(T)
                  nm == Len(ms)
                  nroot == Len(T.root)
                  ext == IsExt(env, T)
                  \* every child goes to the component its tag selects: for a SEQUENCE the first one at or after
                  \* the position reached (8.9), for a SET any one not yet seen (8.11)
                  step(acc, j) ==
                    IF ~acc.ok THEN acc
                    ELSE LET kid == t.kids[j]
                             cand == {i \in 1..nm : /\ [cls |-> kid.cls, num |-> kid.num] \in OuterTags(env, ComponentType(env, T, i))
                                                   /\ ~acc.seen[i]
                                                   /\ (T.k = "SET" \/ i >= acc.pos)}
                         IN IF cand = {} THEN (IF ext THEN acc ELSE BFail("unexpected component"))    \* unknown addition: skipped
                            ELSE LET i == CHOOSE i \in cand : \A h \in cand : i <= h
                                     \* a SEQUENCE may only step over components that can be absent
                                     skippedOk == T.k = "SET" \/ \A h \in acc.pos..(i - 1) : ms[h].q # "M" \/ h > nroot
                                     r == BerReadT(env, ComponentType(env, T, i), kid, TRUE)
                                 IN IF ~skippedOk THEN BFail("mandatory component missing")
                                    ELSE IF ~r.ok THEN BFail(ms[i].n \o ": " \o r.why)
                                    ELSE [ok |-> TRUE, seen |-> [acc.seen EXCEPT ![i] = TRUE], pos |-> i + 1,
                                          vals |-> [acc.vals EXCEPT ![i] = Present(r.v)]]
                  fin == FoldLeft(step, [ok |-> TRUE, seen |-> [i \in 1..nm |-> FALSE], pos |-> 1,
                                         vals |-> [i \in 1..nm |-> Absent]],
                                  [j \in 1..Len(t.kids) |-> j])
              IN IF ~fin.ok THEN fin
                 ELSE IF \E i \in 1..nroot : ms[i].q = "M" /\ ~fin.seen[i] THEN BFail("mandatory component missing")
                 ELSE BOk([n \in {ms[i].n : i \in 1..nm} |-> fin.vals[CHOOSE i \in 1..nm : ms[i].n = n]])
    [] T.k = "CHOICE" ->
         LET alts == AllAlts(T)
             i == CompOfTag(env, T, t, Len(alts))
         IN IF i = 0 THEN (IF IsExt(env, T) THEN BOk([a |-> BUnknownItem, v |-> "NULL"]) ELSE BFail("unknown alternative"))
            ELSE LET r == BerReadT(env, ComponentType(env, T, i), t, TRUE) IN
                 IF ~r.ok THEN BFail(alts[i].n \o ": " \o r.why) ELSE BOk([a |-> alts[i].n, v |-> r.v])
    [] T.k \in {"SEQOF", "SETOF"} ->
         IF ~(uni(UniversalNum(T)) /\ t.cons) THEN BFail("sequence-of / set-of tag")
         ELSE FoldLeft(LAMBDA acc, j :
                         IF ~acc.ok THEN acc
                         ELSE LET r == BerReadT(env, T.e, t.kids[j], TRUE) IN
                              IF ~r.ok THEN r ELSE BOk(Append(acc.v, r.v)),
                       BOk(<<>>), [j \in 1..Len(t.kids) |-> j])

\* a complete BER encoding of a value of type T
BerDecode(env, T, octs) ==
  LET p == ParseTlv(octs) IN IF ~p.ok THEN BFail("framing: " \o p.why) ELSE BerReadT(env, T, p.t, TRUE)

------------------------------------------------------------------------------
RECURSIVE BMatches(_, _, _, _)
\* SET OF: BER does not order the elements (DER does): compare as sequences after the same reordering is
\* impossible without the encodings, so the matcher takes a permutation-insensitive view for SET OF
BMatches(env, T, v, rv) ==
  CASE T.k = "REF" -> BMatches(env, env.types[T.name], v, rv)
    [] T.k = "REAL" -> rv.raw = RealContents(v)
    [] T.k = "OID" -> rv.raw = OidContents(v)
    [] T.k = "STR" -> rv.raw = StringContents(T.st, v)
    [] T.k = "BITS" -> IF T.nb # <<>> THEN TrimBits(rv) = TrimBits(v) ELSE rv = v
    [] T.k \in {"SEQ", "SET"} ->
         LET ms == AllMembers(T) IN
         \A j \in 1..Len(ms) :
            LET m == ms[j]  a == v[m.n]  b == rv[m.n] IN
            IF b.p THEN a.p /\ BMatches(env, m.t, a.v, b.v)
            ELSE ~a.p \/ (m.q = "D" /\ AbsEq(env, m.t, a.v, m.d))
    [] T.k = "CHOICE" ->
         LET alts == AllAlts(T) IN
         rv.a = v.a /\ BMatches(env, alts[MemberIndex(alts, v.a)].t, v.v, rv.v)
    [] T.k = "SEQOF" -> Len(rv) = Len(v) /\ \A j \in 1..Len(v) : BMatches(env, T.e, v[j], rv[j])
    [] T.k = "SETOF" ->
         /\ Len(rv) = Len(v)
         /\ \A j \in 1..Len(v) : \E h \in 1..Len(rv) : BMatches(env, T.e, v[j], rv[h])
         /\ \A h \in 1..Len(rv) : \E j \in 1..Len(v) : BMatches(env, T.e, v[j], rv[h])
    [] OTHER -> rv = v

=============================================================================
