-------------------------------- MODULE X691 --------------------------------
(***************************************************************************)
(* ITU-T X.691: Packed Encoding Rules, BASIC-PER, ALIGNED and UNALIGNED     *)
(* variants, one operator per clause (clause numbers of X.691 (2015)).      *)
(*                                                                         *)
(* An encoding is built as a *field list* (X.691 10.1): a sequence of      *)
(* items [a |-> BOOLEAN, b |-> bits]; an item with a = TRUE is an octet-    *)
(* alignment point (only produced in the ALIGNED variant).  Flat() turns   *)
(* the field list into the bit string, Complete() into the complete        *)
(* encoding (10.1.3: a multiple of eight bits, at least one octet).         *)
(*                                                                         *)
(* al = TRUE selects the ALIGNED variant.  S is the set of named           *)
(* deviations switched on (Profile.tla); S = {} is the standard.           *)
(***************************************************************************)
EXTENDS X690

Field(bits) == << [a |-> FALSE, b |-> bits] >>
AlignPoint == << [a |-> TRUE, b |-> <<>>] >>
Align(al) == IF al THEN AlignPoint ELSE <<>>

\* the bit string of a field list: the runs between alignment points are
\* concatenated (divide and conquer), padding is inserted at each alignment point
Flat(items) ==
  LET its == items \o <<>>
      n == Len(its)
      marks == SelectSeq([i \in 1..n |-> i], LAMBDA i : its[i].a)
      k == Len(marks)
      lo(j) == IF j = 1 THEN 1 ELSE marks[j - 1] + 1
      hi(j) == IF j = k + 1 THEN n ELSE marks[j] - 1
      run(j) == CatDC([i \in 1..Max2(0, hi(j) - lo(j) + 1) |-> its[lo(j) + i - 1].b] \o <<>>, 1, Max2(0, hi(j) - lo(j) + 1))
      pad(bits) == bits \o Zeros((8 - (Len(bits) % 8)) % 8)
  IN FoldLeft(LAMBDA acc, j : (IF j = 1 THEN acc ELSE pad(acc)) \o run(j), <<>>, [j \in 1..(k + 1) |-> j])

\* 10.1.3: the complete encoding of an outermost value / open type value
Complete(items) ==
  LET f == Flat(items) IN IF f = <<>> THEN <<0>> ELSE BitsToBytes(f)

NatField(n, w) == Field(NatToBits(n, w))
OctetsField(octs) == Field(BytesToBits(octs))

------------------------------------------------------------------------------
(* 10.5 constrained whole number  lb <= n <= ub  (BigInt arguments)          *)

ConstrainedWholeNumber(lb, ub, n, al) ==
  LET r1 == Sub(ub, lb)               \* range - 1
      off == Sub(n, lb)
  IN IF IsZero(r1) THEN <<>>                                                     \* 10.5.4 range 1: empty
     ELSE IF ~al THEN Field(MagToBits(off.mag, MagBitLen(r1.mag)))              \* 10.5.6 UNALIGNED: minimum bits
     ELSE IF Leq(r1, FromInt(254)) THEN Field(MagToBits(off.mag, MagBitLen(r1.mag)))  \* 10.5.7.1 bit-field
     ELSE IF Eq(r1, FromInt(255)) THEN AlignPoint \o Field(MagToBits(off.mag, 8))     \* 10.5.7.2 one octet
     ELSE IF Leq(r1, FromInt(65535)) THEN AlignPoint \o Field(MagToBits(off.mag, 16)) \* 10.5.7.3 two octets
     ELSE \* 10.5.7.4 indefinite length case + 12.2.6 a): length in (1..octets of range), value octet-aligned
          LET maxLen == Len(r1.mag)
              octs == UnsignedOctets(off)
          IN Field(NatToBits(Len(octs) - 1, NatBitLen(maxLen - 1))) \o AlignPoint \o OctetsField(octs)

------------------------------------------------------------------------------
(* 10.9 length determinants                                                 *)

\* 10.9.3.5 - 10.9.3.8: the unconstrained form, as a fragment plan: a sequence
\* of [h |-> header bits, f |-> first item, t |-> last item] (items 1..n)
RECURSIVE FragPlan(_, _)
FragPlan(n, off) ==
  IF n <= 127 THEN << [h |-> <<0>> \o NatToBits(n, 7), f |-> off + 1, t |-> off + n] >>
  ELSE IF n < 16384 THEN << [h |-> <<1, 0>> \o NatToBits(n, 14), f |-> off + 1, t |-> off + n] >>
  ELSE LET m == Min2(n \div 16384, 4)
       IN << [h |-> <<1, 1>> \o NatToBits(m, 6), f |-> off + 1, t |-> off + (m * 16384)] >>
          \o FragPlan(n - (m * 16384), off + (m * 16384))

\* n items with an unconstrained length determinant; content(f, t) is the field
\* list of items f..t; the determinant is octet-aligned in the ALIGNED variant
WithUnconstrainedLength(al, n, content(_, _)) ==
  LET plan == FragPlan(n, 0)
  IN Concat([i \in 1..Len(plan) |-> Align(al) \o Field(plan[i].h) \o content(plan[i].f, plan[i].t)])

\* 10.9.3.3 / 10.9.4.1: constrained length lb..ub with ub < 64K: a constrained
\* whole number;  otherwise the unconstrained form.  sz is a SizeCon (root only)
SizeIsConstrained(sz) == sz.f = "R" /\ ~sz.ubinf /\ sz.ub < 65536
SizeIsFixed(sz) == SizeIsConstrained(sz) /\ sz.lb = sz.ub

WithLength(al, sz, n, content(_, _)) ==
  IF SizeIsFixed(sz) THEN content(1, n)
  ELSE IF SizeIsConstrained(sz)
       THEN ConstrainedWholeNumber(FromInt(sz.lb), FromInt(sz.ub), FromInt(n), al) \o content(1, n)
  ELSE WithUnconstrainedLength(al, n, content)

\* 10.6 normally small non-negative whole number
\* Deviation DevPerNormallySmallNumberNoAlign (per.py append_normally_small_non_negative_whole_number):
\* for n >= 64 the ALIGNED variant does not octet-align the length and the value after the 1 bit
NormallySmall(n, al0, S) ==
  LET al == al0 /\ "DevPerNormallySmallNumberNoAlign" \notin S IN
  IF n <= 63 THEN Field(<<0>> \o NatToBits(n, 6))
  ELSE LET octs == NatToMinOctets(n)
       IN Field(<<1>>) \o WithUnconstrainedLength(al, Len(octs), LAMBDA f, t : Align(al) \o OctetsField(SubSeq(octs, f, t)))

\* 10.9.3.4 normally small length (n >= 1)
\* Deviation DevPerNormallySmallLengthNoAlign: the general length after the 1 bit is not octet-aligned
NormallySmallLength(n, al, S) ==
  IF n <= 64 THEN Field(<<0>> \o NatToBits(n - 1, 6))
  ELSE Field(<<1>>) \o (IF "DevPerNormallySmallLengthNoAlign" \in S THEN <<>> ELSE Align(al))
       \o Field(FragPlan(n, 0)[1].h)       \* n < 16K in every supported type

\* 10.7 semi-constrained, 10.8 unconstrained whole number: length + octets
SemiConstrained(lb, n, al) ==
  LET octs == UnsignedOctets(Sub(n, lb))
  IN WithUnconstrainedLength(al, Len(octs), LAMBDA f, t : Align(al) \o OctetsField(SubSeq(octs, f, t)))

Unconstrained(n, al) ==
  LET octs == TwosOctets(n)
  IN WithUnconstrainedLength(al, Len(octs), LAMBDA f, t : Align(al) \o OctetsField(SubSeq(octs, f, t)))

\* 10.2 open type: the complete encoding as an octet string with unconstrained length
\* Deviation DevPerEmptyOutermost (also here): an empty encoding stays empty (length 0)
OpenType(items, al, S) ==
  LET octs == IF "DevPerEmptyOutermost" \in S /\ Flat(items) = <<>> THEN <<>> ELSE Complete(items)
  IN WithUnconstrainedLength(al, Len(octs), LAMBDA f, t : Align(al) \o OctetsField(SubSeq(octs, f, t)))

------------------------------------------------------------------------------
(* 12 INTEGER                                                               *)

InRoot(c, v) == (c.lbinf \/ Leq(c.lb, v)) /\ (c.ubinf \/ Leq(v, c.ub))

EncIntegerRoot(c, v, al, S) ==
  IF c.f = "N" \/ (c.lbinf) THEN Unconstrained(v, al)                           \* 12.2.4 (no lower bound)
  ELSE IF c.ubinf
       THEN (IF "DevPerSemiConstrainedAsUnconstrained" \in S THEN Unconstrained(v, al)
             ELSE SemiConstrained(c.lb, v, al))                                  \* 12.2.3
  ELSE ConstrainedWholeNumber(c.lb, c.ub, v, al)                                 \* 12.2.2

EncInteger(T, v, al, S) ==
  LET c == T.con IN
  IF c.f = "R" /\ c.ext
  THEN (IF InRoot(c, v) THEN Field(<<0>>) \o EncIntegerRoot([c EXCEPT !.ext = FALSE], v, al, S)   \* 12.1
        ELSE Field(<<1>>) \o Unconstrained(v, al))
  ELSE EncIntegerRoot(c, v, al, S)

------------------------------------------------------------------------------
(* 13 ENUMERATED                                                            *)

SortedByValue(items) == InsSort(items, LAMBDA x, y : IF x.v < y.v THEN -1 ELSE IF x.v > y.v THEN 1 ELSE 0)

IndexOfName(items, name) == CHOOSE i \in 1..Len(items) : items[i].n = name

\* Deviation DevPerEnumIndexBitField (per.py Enumerated.encode): the ALIGNED variant writes the root
\* index of an ENUMERATED as a bit-field of the minimum number of bits even when there are more than
\* 255 root items (10.5.7.2, 10.5.7.3: one octet / two octets, octet-aligned); CHOICE is right
IndexField(n, idx, al, S) ==
  ConstrainedWholeNumber(Zero, FromInt(n - 1), FromInt(idx), al /\ "DevPerEnumIndexBitField" \notin S)

EncEnumerated(env, T, v, al, S) ==
  LET root == SortedByValue(T.root)
      ext == IsExt(env, T)
      inRoot == \E i \in 1..Len(root) : root[i].n = v
  IN IF inRoot
     THEN (IF ext THEN Field(<<0>>) ELSE <<>>)
          \o IndexField(Len(root), IndexOfName(root, v) - 1, al, S)                                          \* 13.2
     ELSE Field(<<1>>) \o NormallySmall(IndexOfName(T.adds, v) - 1, al, S)                                     \* 13.3

------------------------------------------------------------------------------
(* 15 BIT STRING, 16 OCTET STRING                                           *)

\* 15.2/15.3: with a NamedBitList trailing 0 bits are removed, then added back
\* up to the lower bound of the size constraint
NamedBitsNormal(T, v) ==
  LET t == TrimBits(v)
      lb == IF T.sz.f = "R" THEN T.sz.lb ELSE 0
  IN IF t.n >= lb THEN BitsOf(t) ELSE BitsOf(t) \o Zeros(lb - t.n)

SizeRoot(sz) == IF sz.f = "R" THEN [sz EXCEPT !.ext = FALSE] ELSE sz
SizeInRoot(sz, n) == sz.f = "N" \/ (n >= sz.lb /\ (sz.ubinf \/ n <= sz.ub))

EncBitString(T, v, al) ==
  LET bits == IF T.nb # <<>> THEN NamedBitsNormal(T, v) ELSE BitsOf(v)
      n == Len(bits)
      body(sz) ==
        IF SizeIsFixed(sz) /\ sz.ub = 0 THEN <<>>                                        \* 15.8
        ELSE IF SizeIsFixed(sz) /\ sz.ub <= 16 THEN Field(bits)                          \* 15.9
        ELSE IF SizeIsFixed(sz) THEN Align(al) \o Field(bits)                            \* 15.10
        ELSE WithLength(al, sz, n, LAMBDA f, t : Align(al) \o Field(SubSeq(bits, f, t))) \* 15.11
  IN IF T.sz.f = "R" /\ T.sz.ext
     THEN (IF SizeInRoot(T.sz, n) THEN Field(<<0>>) \o body(SizeRoot(T.sz))              \* 15.6
           ELSE Field(<<1>>) \o body([f |-> "N"]))
     ELSE body(T.sz)

EncOctetString(T, v, al) ==
  LET n == Len(v)
      body(sz) ==
        IF SizeIsFixed(sz) /\ sz.ub = 0 THEN <<>>                                        \* 16.5
        ELSE IF SizeIsFixed(sz) /\ sz.ub <= 2 THEN OctetsField(v)                        \* 16.6
        ELSE IF SizeIsFixed(sz) THEN Align(al) \o OctetsField(v)                         \* 16.7
        ELSE WithLength(al, sz, n, LAMBDA f, t : Align(al) \o OctetsField(SubSeq(v, f, t)))   \* 16.8
  IN IF T.sz.f = "R" /\ T.sz.ext
     THEN (IF SizeInRoot(T.sz, n) THEN Field(<<0>>) \o body(SizeRoot(T.sz))              \* 16.3
           ELSE Field(<<1>>) \o body([f |-> "N"]))
     ELSE body(T.sz)

------------------------------------------------------------------------------
(* 30 restricted character strings                                          *)

KnownMultiplier(st) == st \in {"Numeric", "Printable", "Visible", "IA5", "BMP", "Universal"}

PrintableAlphabet ==
  <<32, 39, 40, 41, 43, 44, 45, 46, 47>> \o [i \in 1..10 |-> 47 + i] \o <<58, 61, 63>>
  \o [i \in 1..26 |-> 64 + i] \o [i \in 1..26 |-> 96 + i]

\* [n |-> number of characters, max |-> largest code point, set |-> explicit
\*  sorted alphabet or <<>> when the alphabet is a full interval 0..max]
EffectiveAlphabet(T) ==
  IF T.al.has THEN [n |-> Len(T.al.set), max |-> T.al.set[Len(T.al.set)], set |-> T.al.set]
  ELSE CASE T.st = "Numeric" -> [n |-> 11, max |-> 57, set |-> <<32>> \o [i \in 1..10 |-> 47 + i]]
         [] T.st = "Printable" -> [n |-> 74, max |-> 122, set |-> PrintableAlphabet]
         [] T.st = "Visible" -> [n |-> 95, max |-> 126, set |-> [i \in 1..95 |-> 31 + i]]
         [] T.st = "IA5" -> [n |-> 128, max |-> 127, set |-> <<>>]
         [] T.st = "BMP" -> [n |-> 65536, max |-> 65535, set |-> <<>>]
         [] T.st = "Universal" -> [n |-> 0, max |-> 0, set |-> <<>>]      \* 2^32: handled by b = 32

PowerOfTwoAtLeast(b) == IF b <= 1 THEN b ELSE IF b <= 2 THEN 2 ELSE IF b <= 4 THEN 4 ELSE IF b <= 8 THEN 8
                        ELSE IF b <= 16 THEN 16 ELSE 32

\* 30.5: bits per character b (unaligned) / B (aligned), character values
\* Deviations (per.py KnownMultiplierStringType.encode):
\*  DevPerStringAlignIfMaxGt1: a variable-size string is octet-aligned when ub > 1 and it is
\*    not empty, instead of when aub * b >= 16
\*  DevPerUniversalStringSizeIgnored: the SIZE constraint of a UniversalString is not PER-visible
EncKnownMultiplier(T0, v, al, S) ==
  LET T == IF T0.st = "Universal" /\ "DevPerUniversalStringSizeIgnored" \in S THEN [T0 EXCEPT !.sz = [f |-> "N"]] ELSE T0
      A == EffectiveAlphabet(T)
      b0 == IF T.st = "Universal" /\ ~T.al.has THEN 32 ELSE NatBitLen(A.n - 1)
      b == IF al THEN PowerOfTwoAtLeast(b0) ELSE b0
      direct == (T.st = "Universal" /\ ~T.al.has) \/ A.max <= Pow2(Min2(b, 30)) - 1      \* 30.5.4
      code(ch) == IF direct THEN ch ELSE (CHOOSE i \in 1..Len(A.set) : A.set[i] = ch) - 1
      chars(f, t) == Concat([i \in 1..Max2(0, t - f + 1) |->
                        IF b = 32 THEN Zeros(2) \o NatToBits(code(v[f + i - 1]), 30) ELSE NatToBits(code(v[f + i - 1]), b)])
      n == Len(v)
      body(sz) ==
        LET aub == IF SizeIsConstrained(sz) THEN sz.ub ELSE 65536 IN
        IF SizeIsFixed(sz)
        THEN (IF sz.ub * b > 16 THEN Align(al) \o Field(chars(1, n)) ELSE Field(chars(1, n)))          \* 30.5.6
        ELSE WithLength(al, sz, n, LAMBDA f, t :
               IF "DevPerStringAlignIfMaxGt1" \in S /\ SizeIsConstrained(sz)
               THEN (IF sz.ub > 1 /\ n > 0 THEN Align(al) \o Field(chars(f, t)) ELSE Field(chars(f, t)))
               ELSE IF aub * b >= 16 THEN Align(al) \o Field(chars(f, t)) ELSE Field(chars(f, t)))      \* 30.5.7
  IN IF T.sz.f = "R" /\ T.sz.ext
     THEN (IF SizeInRoot(T.sz, n) THEN Field(<<0>>) \o body(SizeRoot(T.sz))                            \* 30.4
           ELSE Field(<<1>>) \o body([f |-> "N"]))
     ELSE body(T.sz)

\* 30.6 other restricted strings: octets of the BER contents, unconstrained length
EncOtherString(T, v, al) ==
  LET octs == StringContents(T.st, v)
  IN WithUnconstrainedLength(al, Len(octs), LAMBDA f, t : Align(al) \o OctetsField(SubSeq(octs, f, t)))

LengthPrefixedOctets(octs, al) ==
  WithUnconstrainedLength(al, Len(octs), LAMBDA f, t : Align(al) \o OctetsField(SubSeq(octs, f, t)))

------------------------------------------------------------------------------
(* constructed types                                                        *)

\* canonical order of SET root components / CHOICE root alternatives (X.680 8.6):
\* indices of T.root sorted by the smallest outer tag of each component
CanonicalOrder(env, T) ==
  LET n == Len(T.root)
      key(i) == MinTag(OuterTags(env, ComponentType(env, T, i)))
  IN InsSort([i \in 1..n |-> i], LAMBDA x, y : TagCmp(key(x), key(y)))

RECURSIVE PerEnc(_, _, _, _, _)

\* 19 SEQUENCE / 21 SET.  ms: the members to encode in order; the value v
MemberIsEncoded(env, m, v) ==
  /\ v[m.n].p
  /\ ~(m.q = "D" /\ AbsEq(env, m.t, v[m.n].v, m.d))        \* 19.5: DEFAULT value absent

EncMembers(env, ms, v, al, S) ==
  Concat([i \in 1..Len(ms) |->
     IF MemberIsEncoded(env, ms[i], v) THEN PerEnc(env, ms[i].t, v[ms[i].n].v, al, S) ELSE <<>>])

Preamble(env, ms, v) ==
  LET opt == SelectSeq(ms, LAMBDA m : m.q # "M")
  IN Field([i \in 1..Len(opt) |-> IF MemberIsEncoded(env, opt[i], v) THEN 1 ELSE 0])

\* Deviation DevDefaultNullEncoded: `x NULL DEFAULT NULL` is treated as a mandatory member
DevMember(env, m, S) ==
  IF "DevDefaultNullEncoded" \in S /\ m.q = "D" /\ Base(env, m.t).k = "NULL" THEN [m EXCEPT !.q = "M"] ELSE m

EncSequence(env, T, v, al, S) ==
  LET order == IF T.k = "SET" THEN CanonicalOrder(env, T) ELSE [i \in 1..Len(T.root) |-> i]
      root == [i \in 1..Len(order) |-> DevMember(env, T.root[order[i]], S)]
      ext == IsExt(env, T)
      \* an addition is a member or a group; present(a) per 19.7 / 19.9
      addPresent(a) == IF a.g THEN \E h \in 1..Len(a.ms) : v[a.ms[h].n].p ELSE v[a.m.n].p
      anyAdd == \E i \in 1..Len(T.adds) : addPresent(T.adds[i])
      addEnc(a) == IF a.g
                   THEN LET gms == [h \in 1..Len(a.ms) |-> DevMember(env, a.ms[h], S)]
                        IN OpenType(Preamble(env, gms, v) \o EncMembers(env, gms, v, al, S), al, S)    \* 19.9: group as a SEQUENCE
                   ELSE OpenType(PerEnc(env, a.m.t, v[a.m.n].v, al, S), al, S)
      additions ==
        IF ~anyAdd THEN <<>>
        ELSE NormallySmallLength(Len(T.adds), al, S)                                             \* 19.8
             \o Field([i \in 1..Len(T.adds) |-> IF addPresent(T.adds[i]) THEN 1 ELSE 0])
             \o Concat([i \in 1..Len(T.adds) |-> IF addPresent(T.adds[i]) THEN addEnc(T.adds[i]) ELSE <<>>])
  IN (IF ext THEN Field(<<IF anyAdd THEN 1 ELSE 0>>) ELSE <<>>)                                   \* 19.1
     \o Preamble(env, root, v)                                                                  \* 19.2
     \o EncMembers(env, root, v, al, S)                                                         \* 19.4
     \o additions

\* 20 SEQUENCE OF / 22 SET OF
EncSequenceOf(env, T, v, al, S) ==
  LET n == Len(v)
      elems(f, t) == Concat([i \in 1..Max2(0, t - f + 1) |-> PerEnc(env, T.e, v[f + i - 1], al, S)])
      body(sz) == WithLength(al, sz, n, elems)
  IN IF T.sz.f = "R" /\ T.sz.ext
     THEN (IF SizeInRoot(T.sz, n) THEN Field(<<0>>) \o body(SizeRoot(T.sz))                       \* 20.4
           ELSE Field(<<1>>) \o body([f |-> "N"]))
     ELSE body(T.sz)

\* 23 CHOICE
EncChoice(env, T, v, al, S) ==
  LET ext == IsExt(env, T)
      order == IF "DevPerChoiceIndexTextualOrder" \in S THEN [i \in 1..Len(T.root) |-> i] ELSE CanonicalOrder(env, T)
      inRoot == \E i \in 1..Len(T.root) : T.root[i].n = v.a
  IN IF inRoot
     THEN LET ri == CHOOSE i \in 1..Len(T.root) : T.root[i].n = v.a
              idx == CHOOSE j \in 1..Len(order) : order[j] = ri
          IN (IF ext THEN Field(<<0>>) ELSE <<>>)
             \o IndexField(Len(T.root), idx - 1, al, {})                                         \* 23.6
             \o PerEnc(env, T.root[ri].t, v.v, al, S)
     ELSE LET ai == CHOOSE i \in 1..Len(T.adds) : T.adds[i].n = v.a
          IN Field(<<1>>) \o NormallySmall(ai - 1, al, S)                                          \* 23.8
             \o OpenType(PerEnc(env, T.adds[ai].t, v.v, al, S), al, S)

PerEnc(env, T, v, al, S) ==
  CASE T.k = "REF" -> PerEnc(env, env.types[T.name], v, al, S)
    [] T.k = "BOOL" -> Field(<<IF v THEN 1 ELSE 0>>)                                              \* 12
    [] T.k = "NULL" -> <<>>                                                                      \* 24
    [] T.k = "INT" -> EncInteger(T, v, al, S)
    [] T.k = "ENUM" -> EncEnumerated(env, T, v, al, S)
    [] T.k = "REAL" -> LengthPrefixedOctets(RealContents(v), al)                                  \* 15
    [] T.k = "OID" -> LengthPrefixedOctets(OidContents(v), al)                                    \* 24
    [] T.k = "BITS" -> EncBitString(T, v, al)
    [] T.k = "OCTS" -> EncOctetString(T, v, al)
    [] T.k = "STR" -> IF KnownMultiplier(T.st) THEN EncKnownMultiplier(T, v, al, S) ELSE EncOtherString(T, v, al)
    [] T.k \in {"SEQ", "SET"} -> EncSequence(env, T, v, al, S)
    [] T.k \in {"SEQOF", "SETOF"} -> EncSequenceOf(env, T, v, al, S)
    [] T.k = "CHOICE" -> EncChoice(env, T, v, al, S)

\* the complete encoding of an outermost value (octets)
\* Deviation DevPerEmptyOutermost: an empty outermost encoding is returned as no
\* octets instead of the single zero octet of 10.1.3
PerEncode(env, T, v, al, S) ==
  LET items == PerEnc(env, T, v, al, S)
  IN IF "DevPerEmptyOutermost" \in S /\ Flat(items) = <<>> THEN <<>> ELSE Complete(items)

=============================================================================
