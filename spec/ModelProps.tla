------------------------------ MODULE ModelProps ----------------------------
(***************************************************************************)
(* Properties of the rules themselves, checked by TLC over TypeGen's       *)
(* universe (no implementation involved):                                  *)
(*                                                                         *)
(*  PrefixFreeTlv  (C16, BER/DER): no strict prefix of DerEnc(T, v) is a   *)
(*                 complete TLV - the framing reader (X690!ParseTlv, which *)
(*                 X690Reader proves equal to the step machine) rejects it *)
(*  DerCanonical   (C03): abstractly equal values have one DER encoding:   *)
(*                 SET OF element order, trailing zero bits of named-bit   *)
(*                 strings and DEFAULT-valued components written out do    *)
(*                 not change DerEnc                                       *)
(*  DerIsDer       (C03): the two formulations agree - IsDer holds of the  *)
(*                 parse of every DerEnc                                   *)
(*  PerOctetPadded (C05): a complete PER encoding is a whole number of      *)
(*                 octets, at least one                                    *)
(***************************************************************************)
EXTENDS TypeGen, Profile, X691Reader, X696Reader, X690ValueReader

Vals == Case.vals
TheEnv == Case.env

PrefixFreeTlv ==
  \A i \in 1..Len(Vals) :
     LET b == DerEnc(TheEnv, gT, Vals[i], {}) IN
     \A k \in 0..(Len(b) - 1) : ~ParseTlv(SubSeq(b, 1, k)).ok

\* abstractly equal variants of a value (type-directed)
RECURSIVE Variant(_, _, _)
Variant(e, T, v) ==
  CASE T.k = "REF" -> Variant(e, e.types[T.name], v)
    [] T.k = "SETOF" -> Reverse([i \in 1..Len(v) |-> Variant(e, T.e, v[i])])
    [] T.k = "SEQOF" -> [i \in 1..Len(v) |-> Variant(e, T.e, v[i])]
    [] T.k = "BITS" -> IF T.nb # <<>> /\ T.sz.f = "N"
                       THEN [n |-> v.n + 3, b |-> BitsToBytes(BitsOf(v) \o <<0, 0, 0>>)]     \* three more trailing zero bits
                       ELSE v
    [] T.k \in {"SEQ", "SET"} ->
         LET ms == AllMembers(T) IN
         [nm \in DOMAIN v |->
            LET m == ms[MemberIndex(ms, nm)] IN
            IF v[nm].p THEN Present(Variant(e, m.t, v[nm].v))
            ELSE IF m.q = "D" THEN Present(m.d)                     \* the default written out
            ELSE Absent]
    [] T.k = "CHOICE" ->
         LET alts == AllAlts(T) IN [a |-> v.a, v |-> Variant(e, alts[MemberIndex(alts, v.a)].t, v.v)]
    [] OTHER -> v

DerCanonical ==
  \A i \in 1..Len(Vals) :
     LET w == Variant(TheEnv, gT, Vals[i]) IN
     /\ AbsEq(TheEnv, gT, Vals[i], w)
     /\ DerEnc(TheEnv, gT, Vals[i], {}) = DerEnc(TheEnv, gT, w, {})

DerIsDer ==
  \A i \in 1..Len(Vals) :
     LET p == ParseTlv(DerEnc(TheEnv, gT, Vals[i], {})) IN p.ok /\ DerNodeViolation(p.t) = ""

\* (C05 / C16 on the model) the independently written reader X691Reader inverts the encoder X691 for
\* both variants and consumes exactly the encoding
PerReaderInverts ==
  \A i \in 1..Len(Vals) : \A al \in {TRUE, FALSE} :
     Admits(TheEnv, gT, Vals[i]) =>
       LET items == PerEnc(TheEnv, gT, Vals[i], al, {})
           r == PerDecode(TheEnv, gT, Complete(items), al)
       IN r.ok /\ RMatches(TheEnv, gT, Vals[i], r.v) /\ r.p = Len(Flat(items)) + 1

\* (C16 on the model, PER / UPER) no strict octet prefix of a non-empty complete encoding can be read
PrefixPoints(n) == IF n <= 48 THEN 0..(n - 1) ELSE {0, 1, 2, 3, n \div 2, n - 3, n - 2, n - 1}
PerPrefixFree ==
  \A i \in 1..Len(Vals) : \A al \in {TRUE, FALSE} :
     Admits(TheEnv, gT, Vals[i]) =>
       LET items == PerEnc(TheEnv, gT, Vals[i], al, {})
           octs == Complete(items)
       IN Flat(items) # <<>> =>
            \A k \in PrefixPoints(Len(octs)) : ~PerDecode(TheEnv, gT, SubSeq(octs, 1, k), al).ok

\* (C06 / C16 on the model) the independently written reader X696Reader inverts the OER encoder and consumes
\* exactly the encoding; no strict prefix of a non-empty encoding can be read
OerReaderInverts ==
  \A i \in 1..Len(Vals) :
     Admits(TheEnv, gT, Vals[i]) =>
       LET r == OerDecode(TheEnv, gT, OerEncode(TheEnv, gT, Vals[i], {})) IN
       r.ok /\ OMatches(TheEnv, gT, Vals[i], r.v)

OerPrefixFree ==
  \A i \in 1..Len(Vals) :
     Admits(TheEnv, gT, Vals[i]) =>
       LET octs == OerEncode(TheEnv, gT, Vals[i], {}) IN
       \A k \in PrefixPoints(Len(octs)) : k < Len(octs) => ~OerDecode(TheEnv, gT, SubSeq(octs, 1, k)).ok

\* (C03 on the model) "the output is accepted by any conforming BER/DER reader with the same meaning":
\* the independently written BER value reader reads DerEnc(T, v) back as v
BerReaderInverts ==
  \A i \in 1..Len(Vals) :
     Admits(TheEnv, gT, Vals[i]) =>
       LET r == BerDecode(TheEnv, gT, DerEnc(TheEnv, gT, Vals[i], {})) IN
       r.ok /\ BMatches(TheEnv, gT, Vals[i], r.v)

PerOctetPadded ==
  \A i \in 1..Len(Vals) :
     LET a == PerEncode(TheEnv, gT, Vals[i], TRUE, {})
         u == PerEncode(TheEnv, gT, Vals[i], FALSE, {})
     IN Len(a) >= 1 /\ Len(u) >= 1      \* (u is NOT always shorter: INTEGER (0..65536) value 0 is 2 octets aligned, 3 unaligned)
=============================================================================
