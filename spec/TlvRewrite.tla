------------------------------ MODULE TlvRewrite -----------------------------
(***************************************************************************)
(* C04: re-serialisation of an encoding into every other form X.690 BER    *)
(* allows, as a transition system.                                         *)
(*                                                                         *)
(* State: the TLV tree of the distinguished encoding of a value, every     *)
(* node annotated with the serialisation choices a BER sender has:         *)
(*                                                                         *)
(*   [cls, num, cons, prim, kids,            as in X690 (TPrim / TCons)    *)
(*    kind : "prim" | "octs" | "bits" | "chars"     primitive / string     *)
(*         | "wrap" (EXPLICIT tag) | "seq" | "set" | "seqof" | "setof",    *)
(*    lf   : "min" | "pad1" .. "pad4" | "indef"     form of the length     *)
(*    sd   : Nat     nesting depth of string segmentation above this node  *)
(*    ord  : Seq(Nat) current order of the children (original positions)   *)
(*    xa, na : the type declares extension additions / number of children  *)
(*             that are extension additions (input classes of findings)]   *)
(*                                                                         *)
(*   8.1.3.5  long form with k length octets, not necessarily minimal      *)
(*   8.1.3.6  indefinite form + end-of-contents, constructed encodings only*)
(*   8.6.4 / 8.7.3 / 8.23.6  a string may be constructed: its contents are *)
(*            complete encodings of segments with the UNIVERSAL tag 3 (BIT *)
(*            STRING: every segment but the last has 0 unused bits) or 4   *)
(*            (OCTET STRING and all character strings), recursively        *)
(*   8.11 / 8.12  SET components and SET OF elements in any order          *)
(*                                                                         *)
(* A string node that has been segmented is constructed and its segments   *)
(* are its children, themselves string nodes that can be segmented again   *)
(* (nesting <= MaxNest) or split into siblings.                            *)
(*                                                                         *)
(* The start states come from a file of cases written by TLC itself:       *)
(* either TypeGen cases (env, top, vals), or raw encodings {cid, raw: [octets]}*)
(* recorded from the repository's fixtures, which are parsed with ParseTlv  *)
(* and rewritten type-agnostically (kinds from universal tags only).        *)
(***************************************************************************)
EXTENDS X690ValueReader, TLC, Json, IOUtils

CONSTANTS MaxSteps,   \* R: rewrite steps applied to a start tree
          AllCuts,    \* TRUE: every cut point of a string; FALSE: boundary cut points
          MaxNest,    \* nesting depth of constructed strings (3)
          MaxVals,    \* values per case used as start states
          Mut         \* "" | name of a deliberately wrong serialiser (sensitivity)

Cases == ndJsonDeserialize(IOEnv.CASES_FILE)

VARIABLES gCase, gVi, gTree, gSteps,
          gRef     \* the reference tree of the start state (constant along a behaviour)
vars == <<gCase, gVi, gTree, gSteps, gRef>>

------------------------------------------------------------------------------
(* annotated trees                                                          *)

Ident(n) == Force([i \in 1..n |-> i])

BNode(cls, num, cons, prim, kids, kind) ==
  [cls |-> cls, num |-> num, cons |-> cons, prim |-> prim, kids |-> kids, kind |-> kind,
   lf |-> "min", sd |-> 0, ord |-> Ident(Len(kids)), xa |-> FALSE, na |-> 0]

StringKinds == {"octs", "bits", "chars"}
SetKinds == {"set", "setof"}
LenForms == {"pad1", "pad2", "pad3", "pad4", "indef"}

PadK(lf) == CASE lf = "pad1" -> 1 [] lf = "pad2" -> 2 [] lf = "pad3" -> 3 [] lf = "pad4" -> 4
Pow256(k) == CASE k = 1 -> 256 [] k = 2 -> 65536 [] k = 3 -> 16777216

\* 8.1.3: serialisation honouring the annotations.  ok = FALSE when an
\* annotation is not allowed by X.690 for this node (length does not fit the
\* chosen number of length octets; indefinite form on a primitive encoding).
RECURSIVE Ser2(_)
Ser2(t) ==
  LET ks == Force([i \in 1..Len(t.kids) |-> Ser2(t.kids[i])])
      kok == \A i \in 1..Len(ks) : ks[i].ok
      content == IF t.cons THEN Concat([i \in 1..Len(ks) |-> ks[i].b]) ELSE t.prim
      n == Len(content)
      id == IdentifierOctets(t.cls, t.num, t.cons)
  IN CASE t.lf = "min" -> [ok |-> kok, b |-> id \o LengthOctets(n) \o content]
       [] t.lf = "indef" ->
            [ok |-> kok /\ t.cons,
             b |-> id \o <<128>> \o content
                   \o (IF Mut = "NoEocOnWrap" /\ t.kind = "wrap" THEN <<>> ELSE <<0, 0>>)]
       [] OTHER ->
            LET k == PadK(t.lf)
                fits == k = 4 \/ n < Pow256(k)
            IN [ok |-> kok /\ fits,
                b |-> id \o <<128 + k>> \o (IF fits THEN NatToOctets(n, k) ELSE <<>>) \o content]

SerBer(t) == Ser2(t).b
WfBer(t) == Ser2(t).ok

\* the same well-formedness computed from lengths only (cheap guard of the actions)
RECURSIVE WfLen(_)
WfLen(t) ==
  LET ks == Force([i \in 1..Len(t.kids) |-> WfLen(t.kids[i])])
      kok == \A i \in 1..Len(ks) : ks[i].ok
      n == IF t.cons THEN FoldLeft(LAMBDA acc, x : acc + x.n, 0, ks) ELSE Len(t.prim)
      il == Len(IdentifierOctets(t.cls, t.num, t.cons))
  IN CASE t.lf = "min" -> [ok |-> kok, n |-> il + Len(LengthOctets(n)) + n]
       [] t.lf = "indef" -> [ok |-> kok /\ t.cons, n |-> il + 1 + n + 2]
       [] OTHER -> LET k == PadK(t.lf) IN [ok |-> kok /\ (k = 4 \/ n < Pow256(k)), n |-> il + 1 + k + n]

\* the tree without annotations (X690 TPrim / TCons)
RECURSIVE Strip(_)
Strip(t) == [cls |-> t.cls, num |-> t.num, cons |-> t.cons, prim |-> t.prim,
             kids |-> Force([i \in 1..Len(t.kids) |-> Strip(t.kids[i])])]

------------------------------------------------------------------------------
(* BerTree: the DER tree of v : T with the kind of every node               *)

RECURSIVE BerTree(_, _, _), BerBase(_, _, _)

BerTree(env, T, v) ==
  IF T.tags = <<>> THEN BerBase(env, T, v)
  ELSE LET inner == BerTree(env, [T EXCEPT !.tags = Tail(T.tags)], v)
           tg == T.tags[1]
       IN IF TagIsExplicit(env, T, 1, {})
          THEN BNode(tg.cls, tg.num, TRUE, <<>>, <<inner>>, "wrap")
          ELSE [inner EXCEPT !.cls = tg.cls, !.num = tg.num]

BerBase(env, T, v) ==
  CASE T.k = "REF" -> BerTree(env, env.types[T.name], v)
    [] T.k \in {"BOOL", "INT", "ENUM", "NULL", "OID", "REAL", "BITS", "OCTS", "STR"} ->
         LET d == DerBase(env, T, v, {})
         IN BNode(d.cls, d.num, FALSE, d.prim, <<>>,
                  CASE T.k = "BITS" -> "bits" [] T.k = "OCTS" -> "octs" [] T.k = "STR" -> "chars" [] OTHER -> "prim")
    [] T.k \in {"SEQ", "SET"} ->
         LET ms == AllMembers(T)
             present(i) == LET m == ms[i] IN
                           /\ v[m.n].p
                           /\ ~(m.q = "D" /\ AbsEq(env, m.t, v[m.n].v, m.d))
             one(i) == IF present(i) THEN <<BerTree(env, ComponentType(env, T, i), v[ms[i].n].v)>> ELSE <<>>
             kids == Concat([i \in 1..Len(ms) |-> one(i)])
             sorted == IF T.k = "SET" THEN InsSort(kids, LAMBDA a, b : TagCmp(TagOf(a), TagOf(b))) ELSE kids
             nadd == Cardinality({i \in (Len(T.root) + 1)..Len(ms) : present(i)})
         IN [BNode("U", UniversalNum(T), TRUE, <<>>, sorted, IF T.k = "SEQ" THEN "seq" ELSE "set")
               EXCEPT !.xa = Len(ms) > Len(T.root), !.na = nadd]
    [] T.k = "CHOICE" ->
         LET alts == AllAlts(T)
             i == MemberIndex(alts, v.a)
         IN BerTree(env, ComponentType(env, T, i), v.v)
    [] T.k \in {"SEQOF", "SETOF"} ->
         LET kids == Force([i \in 1..Len(v) |-> BerTree(env, T.e, v[i])])
             sorted == IF T.k = "SETOF" THEN InsSort(kids, LAMBDA a, b : SeqCmpPadded(SerBer(a), SerBer(b))) ELSE kids
         IN BNode("U", UniversalNum(T), TRUE, <<>>, sorted, IF T.k = "SEQOF" THEN "seqof" ELSE "setof")

------------------------------------------------------------------------------
(* type-agnostic annotation of a parsed encoding (fixtures, binding B):     *)
(* kinds from universal tags only (SET permutation only for universal 17)   *)

UniversalStringNums == {12, 18, 19, 20, 21, 22, 25, 26, 27, 28, 30}

RECURSIVE FromParsed(_, _)
FromParsed(p, sd) ==
  LET strkind == IF p.cls # "U" THEN "none"
                 ELSE IF p.num = 3 THEN "bits" ELSE IF p.num = 4 THEN "octs"
                 ELSE IF p.num \in UniversalStringNums THEN "chars" ELSE "none"
      kind == IF strkind # "none" THEN strkind
              ELSE IF ~p.cons THEN "prim"
              ELSE IF p.cls = "U" /\ p.num = 17 THEN "setof"
              ELSE "wrap"
      ksd == IF strkind # "none" /\ p.cons THEN sd + 1 ELSE 0
      kids == Force([i \in 1..Len(p.kids) |-> FromParsed(p.kids[i], ksd)])
  IN [BNode(p.cls, p.num, p.cons, p.prim, kids, kind) EXCEPT !.sd = sd]

------------------------------------------------------------------------------
(* the reader side of the model: parse (X690!ParseTlv), then normalise      *)
(* along the kinds: segments concatenated, SET / SET OF children sorted     *)

RECURSIVE SegContents(_, _)
\* contents octets of the string encoding p (8.6.4, 8.7.3); bits: BIT STRING
SegContents(p, bits) ==
  IF ~p.cons
  THEN [ok |-> ~bits \/ (Len(p.prim) >= 1 /\ p.prim[1] <= 7 /\ (Len(p.prim) = 1 => p.prim[1] = 0)),
        c |-> p.prim]
  ELSE LET ss == Force([i \in 1..Len(p.kids) |-> SegContents(p.kids[i], bits)])
           allok == \A i \in 1..Len(ss) :
                      /\ p.kids[i].cls = "U"
                      /\ p.kids[i].num = (IF bits THEN 3 ELSE 4)
                      /\ ss[i].ok
       IN IF ~allok THEN [ok |-> FALSE, c |-> <<>>]
          ELSE IF ~bits THEN [ok |-> TRUE, c |-> Concat([i \in 1..Len(ss) |-> ss[i].c])]
          ELSE IF Len(ss) = 0 THEN [ok |-> TRUE, c |-> <<0>>]
          ELSE [ok |-> \A i \in 1..(Len(ss) - 1) : ss[i].c[1] = 0,
                c |-> <<ss[Len(ss)].c[1]>> \o Concat([i \in 1..Len(ss) |-> Tail(ss[i].c)])]

RECURSIVE NormP(_, _)
\* p: parsed node, a: annotated node at the same position
NormP(p, a) ==
  IF p.cls # a.cls \/ p.num # a.num THEN [ok |-> FALSE, t |-> TPrim("U", 0, <<>>)]
  ELSE IF a.kind \in StringKinds
  THEN LET s == SegContents(p, a.kind = "bits") IN [ok |-> s.ok, t |-> TPrim(p.cls, p.num, s.c)]
  ELSE IF ~p.cons THEN [ok |-> ~a.cons, t |-> TPrim(p.cls, p.num, p.prim)]
  ELSE IF Len(p.kids) # Len(a.kids) THEN [ok |-> FALSE, t |-> TPrim("U", 0, <<>>)]
  ELSE LET ks == Force([i \in 1..Len(p.kids) |-> NormP(p.kids[i], a.kids[i])])
           ts == [i \in 1..Len(ks) |-> ks[i].t]
           sorted == CASE a.kind = "set" -> InsSort(ts, LAMBDA x, y : TagCmp(TagOf(x), TagOf(y)))
                       [] a.kind = "setof" -> InsSort(ts, LAMBDA x, y : SeqCmpPadded(Ser(x), Ser(y)))
                       [] OTHER -> Force(ts)
       IN [ok |-> \A i \in 1..Len(ks) : ks[i].ok, t |-> TCons(p.cls, p.num, sorted)]

\* the model's reading of a serialisation, given the kinds
ReadBack(bytes, a) ==
  LET p == ParseTlv(bytes)
  IN IF ~p.ok THEN [ok |-> FALSE, t |-> TPrim("U", 0, <<>>), why |-> p.why]
     ELSE LET n == NormP(p.t, a) IN [ok |-> n.ok, t |-> n.t, why |-> IF n.ok THEN "" ELSE "normalisation fails"]

------------------------------------------------------------------------------
(* paths                                                                    *)

RECURSIVE PathsOf(_)
PathsOf(t) ==
  << <<>> >> \o Concat([i \in 1..Len(t.kids) |->
                  LET ps == PathsOf(t.kids[i]) IN [j \in 1..Len(ps) |-> <<i>> \o ps[j]]])

RECURSIVE NodeAt(_, _)
NodeAt(t, p) == IF p = <<>> THEN t ELSE NodeAt(t.kids[Head(p)], Tail(p))

RECURSIVE Put(_, _, _)
Put(t, p, n) == IF p = <<>> THEN n ELSE [t EXCEPT !.kids[Head(p)] = Put(t.kids[Head(p)], Tail(p), n)]

------------------------------------------------------------------------------
(* start states                                                             *)

IsRaw(c) == "raw" \in DOMAIN Cases[c]

CaseEnv(c) == Cases[c].env
CaseType(c) == Cases[c].env.types[Cases[c].top]

\* The value a sender of the extension root alone would send: every extension
\* addition of every SEQUENCE / SET inside v absent.  (TypeGen's one-hot
\* values never make all additions absent at once.)
RECURSIVE StripAdds(_, _, _)
StripAdds(env, T, v) ==
  CASE T.k = "REF" -> StripAdds(env, env.types[T.name], v)
    [] T.k \in {"SEQ", "SET"} ->
         LET ms == AllMembers(T)
         IN [nm \in DOMAIN v |->
               LET j == MemberIndex(ms, nm)
               IN IF j > Len(T.root) THEN Absent
                  ELSE IF v[nm].p THEN Present(StripAdds(env, ms[j].t, v[nm].v))
                  ELSE v[nm]]
    [] T.k = "CHOICE" ->
         LET alts == AllAlts(T) IN [a |-> v.a, v |-> StripAdds(env, alts[MemberIndex(alts, v.a)].t, v.v)]
    [] T.k \in {"SEQOF", "SETOF"} -> Force([j \in 1..Len(v) |-> StripAdds(env, T.e, v[j])])
    [] OTHER -> v

\* is some extension addition of a SEQUENCE / SET present inside v ?
RECURSIVE HasAdds(_, _, _)
HasAdds(env, T, v) ==
  CASE T.k = "REF" -> HasAdds(env, env.types[T.name], v)
    [] T.k \in {"SEQ", "SET"} ->
         LET ms == AllMembers(T)
         IN \E j \in 1..Len(ms) : v[ms[j].n].p /\ (j > Len(T.root) \/ HasAdds(env, ms[j].t, v[ms[j].n].v))
    [] T.k = "CHOICE" ->
         LET alts == AllAlts(T) IN HasAdds(env, alts[MemberIndex(alts, v.a)].t, v.v)
    [] T.k \in {"SEQOF", "SETOF"} -> \E j \in 1..Len(v) : HasAdds(env, T.e, v[j])
    [] OTHER -> FALSE

\* derived start values of a typed case (numbered after the case's own values)
ExtraVals(c) ==
  LET v1 == Cases[c].vals[1]
  IN IF HasAdds(CaseEnv(c), CaseType(c), v1) THEN <<StripAdds(CaseEnv(c), CaseType(c), v1)>> ELSE <<>>

ValueOf(c, vi) ==
  IF vi <= Len(Cases[c].vals) THEN Cases[c].vals[vi] ELSE ExtraVals(c)[vi - Len(Cases[c].vals)]

ValueIndices(c) ==
  IF IsRaw(c) THEN {1}
  ELSE LET n == Len(Cases[c].vals)
       IN (1..Min2(MaxVals, n)) \cup ((n + 1)..(n + Len(ExtraVals(c))))

StartTree(c, vi) ==
  IF IsRaw(c) THEN FromParsed(ParseTlv(Cases[c].raw).t, 0)
  ELSE BerTree(CaseEnv(c), CaseType(c), ValueOf(c, vi))

\* what every variant must normalise to: the X.690 distinguished tree
\* (computed by X690!DerTree, not by BerTree), or for raw cases the
\* normal form of the recorded encoding itself
Reference(c, vi) ==
  IF IsRaw(c) THEN ReadBack(Cases[c].raw, StartTree(c, vi)).t
  ELSE DerTree(CaseEnv(c), CaseType(c), ValueOf(c, vi), {})

Init ==
  /\ gCase \in 1..Len(Cases)
  /\ gVi \in ValueIndices(gCase)
  /\ gTree = StartTree(gCase, gVi)
  /\ gSteps = 0
  /\ gRef = Reference(gCase, gVi)

------------------------------------------------------------------------------
(* the rewrite actions; p is a path, n the node at p                        *)

\* 8.1.3.5 / 8.1.3.6
SetLength(p, n, lf) ==
  /\ lf # n.lf
  /\ lf = "indef" => n.cons
  /\ gTree' = Put(gTree, p, [n EXCEPT !.lf = lf])

DataLen(n) == IF n.kind = "bits" THEN Len(n.prim) - 1 ELSE Len(n.prim)

\* cut points: number of data octets that go into the first segment.  A BIT
\* STRING segment that carries unused bits needs at least one data octet.
MaxCut(n) == IF n.kind = "bits" /\ n.prim[1] # 0 THEN DataLen(n) - 1 ELSE DataLen(n)
Cuts(n) ==
  LET m == MaxCut(n)
  IN IF AllCuts THEN 0..m ELSE {0, 1, m \div 2, m - 1, m} \cap 0..m

SegNode(n, prim, sd) ==
  [BNode("U", IF n.kind = "bits" THEN 3 ELSE 4, FALSE, prim, <<>>, IF n.kind = "bits" THEN "bits" ELSE "octs")
     EXCEPT !.sd = sd]

\* the two segments of the primitive string node n cut after c data octets;
\* 8.6.4.1: all segments but the last hold a multiple of 8 bits (0 unused)
TwoSegments(n, c, sd) ==
  LET firstUnused == IF Mut = "BitsUnusedOnFirst" THEN n.prim[1] ELSE 0
      lastUnused == IF Mut = "BitsUnusedOnFirst" THEN 0 ELSE n.prim[1]
  IN IF n.kind = "bits"
     THEN << SegNode(n, <<firstUnused>> \o SubSeq(n.prim, 2, c + 1), sd),
             SegNode(n, <<lastUnused>> \o SubSeq(n.prim, c + 2, Len(n.prim)), sd) >>
     ELSE << SegNode(n, SubSeq(n.prim, 1, c), sd), SegNode(n, SubSeq(n.prim, c + 1, Len(n.prim)), sd) >>

\* the primitive string at p becomes constructed with two segments
SegmentNest(p, n, c) ==
  /\ n.kind \in StringKinds /\ ~n.cons /\ n.sd < MaxNest
  /\ c \in Cuts(n)
  /\ gTree' = Put(gTree, p, [n EXCEPT !.cons = TRUE, !.prim = <<>>, !.kids = TwoSegments(n, c, n.sd + 1),
                                       !.ord = <<1, 2>>])

\* the primitive segment at p is replaced by two sibling segments
SegmentFlat(p, n, c) ==
  /\ p # <<>>
  /\ LET pp == Front(p)
         i == Last(p)
         par == NodeAt(gTree, pp)
     IN /\ par.kind \in StringKinds /\ par.cons
        /\ n.kind \in StringKinds /\ ~n.cons
        /\ c \in Cuts(n)
        /\ gTree' = Put(gTree, pp,
                        [par EXCEPT !.kids = SubSeq(par.kids, 1, i - 1) \o TwoSegments(n, c, n.sd)
                                             \o SubSeq(par.kids, i + 1, Len(par.kids)),
                                    !.ord = Ident(Len(par.kids) + 1)])

\* an empty string as a constructed encoding without any segment
SegmentNone(p, n) ==
  /\ n.kind \in StringKinds /\ ~n.cons /\ n.sd < MaxNest
  /\ DataLen(n) = 0
  /\ gTree' = Put(gTree, p, [n EXCEPT !.cons = TRUE, !.prim = <<>>])

Swap(s, i, j) == [s EXCEPT ![i] = s[j], ![j] = s[i]]

\* 8.11.3 / 8.12.3: the order of SET components / SET OF elements is the sender's option
PermuteSet(p, n, i, j) ==
  /\ n.kind \in SetKinds
  /\ i < j /\ j <= Len(n.kids)
  /\ gTree' = Put(gTree, p, [n EXCEPT !.kids = Swap(n.kids, i, j), !.ord = Swap(n.ord, i, j)])

Next ==
  /\ gSteps < MaxSteps
  /\ gSteps' = gSteps + 1
  /\ LET paths == PathsOf(gTree) IN
       \E h \in 1..Len(paths) :
         LET p == paths[h]
             n == NodeAt(gTree, p)
         IN \/ \E lf \in LenForms : SetLength(p, n, lf)
            \/ /\ n.kind \in StringKinds /\ ~n.cons
               /\ \/ \E c \in Cuts(n) : SegmentNest(p, n, c) \/ SegmentFlat(p, n, c)
                  \/ SegmentNone(p, n)
            \/ /\ n.kind \in SetKinds
               /\ \E i, j \in 1..Len(n.kids) : PermuteSet(p, n, i, j)
  /\ WfLen(gTree').ok
  /\ UNCHANGED <<gCase, gVi, gRef>>

Spec == Init /\ [][Next]_vars

------------------------------------------------------------------------------
(* M: every reachable variant reads back as the distinguished tree          *)

ModelOkFor(s) ==
  LET r == ReadBack(s.b, gTree)
  IN /\ s.ok
     /\ r.ok
     /\ r.t = gRef
     /\ Len(s.b) = WfLen(gTree).n

ModelOk == ModelOkFor(Ser2(gTree))

\* C04 on the model, at the level of values: the independently written BER value reader (X690ValueReader) reads
\* every reachable re-serialisation of a TypeGen value back as that value
VariantReadsBack ==
  ~IsRaw(gCase) =>
     LET c == Cases[gCase]
         s == Ser2(gTree)
         r == BerDecode(c.env, c.env.types[c.top], s.b)
     IN s.ok => (r.ok /\ BMatches(c.env, c.env.types[c.top], ValueOf(gCase, gVi), r.v))

\* BerTree and X690!DerTree are two formulations of the same tree
StartIsDer ==
  (gSteps = 0 /\ ~IsRaw(gCase)) =>
     /\ Strip(gTree) = gRef
     /\ SerBer(gTree) = Ser(gRef)

------------------------------------------------------------------------------
(* emission of behaviours: the variant's octets and the rewrite description *)

RECURSIVE DescOf(_, _)
\* one record per node that is not in its distinguished form
DescOf(t, p) ==
  LET segmented == t.kind \in StringKinds /\ t.cons
      permuted == t.ord # Ident(Len(t.kids))
      here == IF t.lf # "min" \/ segmented \/ permuted
              THEN << [p |-> p, k |-> t.kind, lf |-> t.lf, sg |-> IF segmented THEN Len(t.kids) ELSE -1,
                       sd |-> t.sd, ord |-> IF permuted THEN t.ord ELSE <<>>, xa |-> t.xa, na |-> t.na,
                       tag |-> <<t.cls, ToString(t.num)>>] >>
              ELSE <<>>
  IN here \o Concat([i \in 1..Len(t.kids) |-> DescOf(t.kids[i], Append(p, i))])

\* (a derived start value is emitted with the unrewritten variant: xv)
Variant(bytes) ==
  LET base == [cid |-> Cases[gCase].cid, vi |-> gVi, b |-> bytes, d |-> DescOf(gTree, <<>>)]
  IN IF ~IsRaw(gCase) /\ gVi > Len(Cases[gCase].vals) /\ gSteps = 0
     THEN [cid |-> base.cid, vi |-> base.vi, b |-> base.b, d |-> base.d, xv |-> ValueOf(gCase, gVi)]
     ELSE base

EmitFor(bytes) ==
  Serialize(ToJson(Variant(bytes)) \o "\n", IOEnv.OUT_FILE,
            [format |-> "TXT", charset |-> "UTF-8", openOptions |-> <<"WRITE", "CREATE", "APPEND">>]).exitValue = 0

Emit == EmitFor(SerBer(gTree))

\* both at once (one serialisation per state): the model-level check, then emission
CheckAndEmit == LET s == Ser2(gTree) IN ModelOkFor(s) /\ EmitFor(s.b)

=============================================================================
