-------------------------------- MODULE X690 --------------------------------
(***************************************************************************)
(* ITU-T X.690: Basic and Distinguished Encoding Rules, one operator per   *)
(* clause.  DerTree(env, T, v, S) is the TLV tree of the distinguished     *)
(* encoding of v : T;  S is the set of named deviations switched on        *)
(* (Profile.tla);  S = {} is the standard.  Ser serialises a tree with     *)
(* definite minimal lengths (DER 10.1).                                    *)
(***************************************************************************)
EXTENDS Asn1Value

------------------------------------------------------------------------------
(* TLV trees                                                                *)

TPrim(cls, num, octs) == [cls |-> cls, num |-> num, cons |-> FALSE, prim |-> octs, kids |-> <<>>]
TCons(cls, num, kids) == [cls |-> cls, num |-> num, cons |-> TRUE, prim |-> <<>>, kids |-> kids]

ClassBits(c) == CASE c = "U" -> 0 [] c = "A" -> 64 [] c = "C" -> 128 [] c = "P" -> 192

\* base-128, most significant group first, continuation bit on all but last
Base128(n) ==
  LET k == IF n = 0 THEN 1 ELSE (NatBitLen(n) + 6) \div 7
  IN [i \in 1..k |-> ((n \div (128 ^ (k - i))) % 128) + (IF i < k THEN 128 ELSE 0)]

\* 8.1.2 identifier octets (8.1.2.2 low tag numbers, 8.1.2.4 high tag numbers)
IdentifierOctets(cls, num, cons) ==
  LET lead == ClassBits(cls) + (IF cons THEN 32 ELSE 0)
  IN IF num < 31 THEN <<lead + num>> ELSE <<lead + 31>> \o Base128(num)

\* 8.1.3 length octets, definite form, minimal (10.1)
LengthOctets(n) ==
  IF n < 128 THEN <<n>>
  ELSE LET k == NatOctetLen(n) IN <<128 + k>> \o NatToOctets(n, k)

RECURSIVE Ser(_)
Ser(t) ==
  LET content == IF t.cons THEN Concat([i \in 1..Len(t.kids) |-> Ser(t.kids[i])]) ELSE t.prim
  IN IdentifierOctets(t.cls, t.num, t.cons) \o LengthOctets(Len(content)) \o content

------------------------------------------------------------------------------
(* contents octets of the primitive types                                   *)

BooleanContents(v) == IF v THEN <<255>> ELSE <<0>>            \* 8.2, DER 11.1
IntegerContents(v) == TwosOctets(v)                          \* 8.3

\* 8.6 + DER 11.2: primitive, leading unused-bits octet, unused bits zero,
\* named-bit strings with trailing zero bits removed (11.2.2)
BitStringContents(T, v, S) ==
  LET w == IF T.nb # <<>> /\ "DevDerNamedBitsNotTrimmed" \notin S THEN TrimBits(v) ELSE v
  IN <<(8 - (w.n % 8)) % 8>> \o w.b

\* 8.5 REAL: 8.5.2 zero, 8.5.9 specials, 8.5.7 binary with base 2;
\* DER 11.3.1: mantissa odd, minimal exponent
RealContents(v) ==
  CASE v.c = "Z" -> <<>>
    [] v.c = "NZ" -> <<67>>
    [] v.c = "PINF" -> <<64>>
    [] v.c = "NINF" -> <<65>>
    [] v.c = "NAN" -> <<66>>
    [] v.c = "F" ->
         LET ex == TwosOctets(FromInt(v.e))
             el == Len(ex)
         IN (IF el <= 3 THEN <<128 + 64 * v.s + (el - 1)>> ELSE <<128 + 64 * v.s + 3, el>>)
            \o ex \o v.m

\* 8.19 OBJECT IDENTIFIER: first two arcs as 40*a + b
OidContents(v) ==
  LET subs == <<40 * v[1] + v[2]>> \o SubSeq(v, 3, Len(v))
  IN Concat([i \in 1..Len(subs) |-> Base128(subs[i])])

Utf8(cp) ==
  IF cp < 128 THEN <<cp>>
  ELSE IF cp < 2048 THEN <<192 + (cp \div 64), 128 + (cp % 64)>>
  ELSE IF cp < 65536 THEN <<224 + (cp \div 4096), 128 + ((cp \div 64) % 64), 128 + (cp % 64)>>
  ELSE <<240 + (cp \div 262144), 128 + ((cp \div 4096) % 64), 128 + ((cp \div 64) % 64), 128 + (cp % 64)>>

\* 8.23 restricted character strings
StringContents(st, v) ==
  CASE st = "UTF8" -> Concat([i \in 1..Len(v) |-> Utf8(v[i])])
    [] st = "BMP" -> Concat([i \in 1..Len(v) |-> <<v[i] \div 256, v[i] % 256>>])
    [] st = "Universal" -> Concat([i \in 1..Len(v) |->
                              <<0, v[i] \div 65536, (v[i] \div 256) % 256, v[i] % 256>>])
    [] OTHER -> v

EnumNumber(T, name) == LET items == AllAlts(T) IN items[MemberIndex(items, name)].v

------------------------------------------------------------------------------
(* constructed types and tagging                                            *)

TagOf(t) == [cls |-> t.cls, num |-> t.num]

RECURSIVE DerTree(_, _, _, _), DerBase(_, _, _, _)

\* 8.14 tagged types: EXPLICIT wraps (8.14.2), IMPLICIT replaces class/number
DerTree(env, T, v, S) ==
  IF T.tags = <<>> THEN DerBase(env, T, v, S)
  ELSE LET inner == DerTree(env, [T EXCEPT !.tags = Tail(T.tags)], v, S)
           tg == T.tags[1]
       IN IF TagIsExplicit(env, T, 1, S)
          THEN TCons(tg.cls, tg.num, <<inner>>)
          ELSE [inner EXCEPT !.cls = tg.cls, !.num = tg.num]

DerBase(env, T, v, S) ==
  CASE T.k = "REF" -> DerTree(env, env.types[T.name], v, S)
    [] T.k = "BOOL" -> TPrim("U", 1, BooleanContents(v))
    [] T.k = "INT" -> TPrim("U", 2, IntegerContents(v))
    [] T.k = "ENUM" -> TPrim("U", 10, IntegerContents(FromInt(EnumNumber(T, v))))
    [] T.k = "BITS" -> TPrim("U", 3, BitStringContents(T, v, S))
    [] T.k = "OCTS" -> TPrim("U", 4, v)
    [] T.k = "NULL" -> TPrim("U", 5, <<>>)
    [] T.k = "OID" -> TPrim("U", 6, OidContents(v))
    [] T.k = "REAL" -> TPrim("U", 9, RealContents(v))
    [] T.k = "STR" -> TPrim("U", UniversalNum(T), StringContents(T.st, v))
    [] T.k \in {"SEQ", "SET"} ->
         LET ms == AllMembers(T)
             \* 8.9/8.10 + DER 11.5: a component equal to its DEFAULT is omitted
             one(i) == LET m == ms[i] IN
                       IF ~v[m.n].p THEN <<>>
                       ELSE IF m.q = "D" /\ AbsEq(env, m.t, v[m.n].v, m.d)
                               /\ ~("DevDefaultNullEncoded" \in S /\ Base(env, m.t).k = "NULL") THEN <<>>
                       ELSE <<DerTree(env, ComponentType(env, T, i), v[m.n].v, S)>>
             kids == Concat([i \in 1..Len(ms) |-> one(i)])
             \* DER 10.3: SET components in canonical tag order
             sorted == IF T.k = "SET" /\ "DevDerSetNotSorted" \notin S
                       THEN InsSort(kids, LAMBDA a, b : TagCmp(TagOf(a), TagOf(b)))
                       ELSE kids
         IN TCons("U", UniversalNum(T), sorted)
    [] T.k = "CHOICE" ->
         LET alts == AllAlts(T)
             i == MemberIndex(alts, v.a)
         IN DerTree(env, ComponentType(env, T, i), v.v, S)
    [] T.k \in {"SEQOF", "SETOF"} ->
         LET kids == [i \in 1..Len(v) |-> DerTree(env, T.e, v[i], S)]
             \* DER 11.6: SET OF elements in ascending order of their encodings
             sorted == IF T.k = "SETOF" /\ "DevDerSetOfNotSorted" \notin S
                       THEN InsSort(kids, LAMBDA a, b : SeqCmpPadded(Ser(a), Ser(b)))
                       ELSE kids
         IN TCons("U", UniversalNum(T), sorted)

DerEnc(env, T, v, S) == Ser(DerTree(env, T, v, S))

------------------------------------------------------------------------------
(* A type-independent TLV parser (8.1) for BER in general: definite and     *)
(* indefinite lengths, any length-of-length.  Parsed nodes also record the  *)
(* raw form: il = identifier octets, ll = length octets (0 = indefinite).   *)

PNode(cls, num, cons, prim, kids, il, ll) ==
  [cls |-> cls, num |-> num, cons |-> cons, prim |-> prim, kids |-> kids, il |-> il, ll |-> ll]

ClassOf(b) == CASE b \div 64 = 0 -> "U" [] b \div 64 = 1 -> "A" [] b \div 64 = 2 -> "C" [] OTHER -> "P"

ParseFail(why) == [ok |-> FALSE, why |-> why]

\* identifier octets starting at p (1-based), lim = last index
ParseIdentifier(bs, p, lim) ==
  IF p > lim THEN ParseFail("id: out of data")
  ELSE LET b == bs[p] IN
       IF (b % 32) < 31 THEN [ok |-> TRUE, cls |-> ClassOf(b), cons |-> ((b \div 32) % 2) = 1,
                            num |-> b % 32, nx |-> p + 1, il |-> 1, why |-> ""]
       ELSE \* high tag number form: up to 5 continuation groups
            IF ~\E q \in (p+1)..Min2(lim, p + 5) : bs[q] < 128 THEN ParseFail("id: unterminated high tag")
            ELSE LET q == CHOOSE q \in (p+1)..Min2(lim, p + 5) : bs[q] < 128 /\ \A r \in (p+1)..(q-1) : bs[r] >= 128
                     num == FoldLeft(LAMBDA acc, x : (acc * 128) + (x % 128), 0, SubSeq(bs, p + 1, q))
                 IN [ok |-> TRUE, cls |-> ClassOf(b), cons |-> ((b \div 32) % 2) = 1,
                     num |-> num, nx |-> q + 1, il |-> q - p + 1, why |-> ""]

\* length octets starting at p: result len = -1 for the indefinite form
ParseLength(bs, p, lim) ==
  IF p > lim THEN ParseFail("len: out of data")
  ELSE LET b == bs[p] IN
       IF b < 128 THEN [ok |-> TRUE, len |-> b, nx |-> p + 1, ll |-> 1, why |-> ""]
       ELSE IF b = 128 THEN [ok |-> TRUE, len |-> -1, nx |-> p + 1, ll |-> 0, why |-> ""]
       ELSE IF b = 255 THEN ParseFail("len: reserved 0xFF")
       ELSE LET k == b - 128 IN
            IF p + k > lim THEN ParseFail("len: out of data")
            ELSE IF k > 4 /\ \E i \in 1..(k - 4) : bs[p + i] # 0 THEN ParseFail("len: too large")
            ELSE [ok |-> TRUE, len |-> OctetsToNat(SubSeq(bs, p + 1, p + k)), nx |-> p + k + 1,
                  ll |-> k + 1, why |-> ""]

RECURSIVE ParseOne(_, _, _), ParseMany(_, _, _, _)

\* one TLV starting at p; lim = last index that may be used
ParseOne(bs, p, lim) ==
  LET id == ParseIdentifier(bs, p, lim) IN
  IF ~id.ok THEN id
  ELSE LET ln == ParseLength(bs, id.nx, lim) IN
  IF ~ln.ok THEN ln
  ELSE IF ln.len >= 0 THEN
         IF ln.nx + ln.len - 1 > lim THEN ParseFail("content: out of data")
         ELSE IF id.cons
              THEN LET ks == ParseMany(bs, ln.nx, ln.nx + ln.len - 1, FALSE) IN
                   IF ~ks.ok THEN ks
                   ELSE [ok |-> TRUE, why |-> "", nx |-> ln.nx + ln.len,
                         t |-> PNode(id.cls, id.num, TRUE, <<>>, ks.ts, id.il, ln.ll)]
              ELSE [ok |-> TRUE, why |-> "", nx |-> ln.nx + ln.len,
                    t |-> PNode(id.cls, id.num, FALSE, SubSeq(bs, ln.nx, ln.nx + ln.len - 1), <<>>, id.il, ln.ll)]
       ELSE \* indefinite form 8.1.3.6: only for constructed encodings
         IF ~id.cons THEN ParseFail("indefinite length on primitive")
         ELSE LET ks == ParseMany(bs, ln.nx, lim, TRUE) IN
              IF ~ks.ok THEN ks
              ELSE [ok |-> TRUE, why |-> "", nx |-> ks.nx,
                    t |-> PNode(id.cls, id.num, TRUE, <<>>, ks.ts, id.il, 0)]

\* a sequence of TLVs from p: up to lim (definite parent) or up to the
\* end-of-contents octets 00 00 (indefinite parent, eoc = TRUE)
ParseMany(bs, p, lim, eoc) ==
  IF ~eoc /\ p > lim THEN [ok |-> TRUE, why |-> "", ts |-> <<>>, nx |-> p]
  ELSE IF eoc /\ p + 1 <= lim /\ bs[p] = 0 /\ bs[p + 1] = 0
       THEN [ok |-> TRUE, why |-> "", ts |-> <<>>, nx |-> p + 2]
  ELSE IF eoc /\ p > lim THEN ParseFail("missing end-of-contents")
  ELSE LET one == ParseOne(bs, p, lim) IN
       IF ~one.ok THEN one
       ELSE LET rest == ParseMany(bs, one.nx, lim, eoc) IN
            IF ~rest.ok THEN rest
            ELSE [ok |-> TRUE, why |-> "", ts |-> <<one.t>> \o rest.ts, nx |-> rest.nx]

\* a complete encoding: exactly one TLV and nothing after it
ParseTlv(bs) ==
  LET r == ParseOne(bs, 1, Len(bs)) IN
  IF ~r.ok THEN r
  ELSE IF r.nx # Len(bs) + 1 THEN ParseFail("trailing octets")
  ELSE r

------------------------------------------------------------------------------
(* IsDer: the type-independent part of the DER restrictions, on a parsed    *)
(* tree (10.1, 10.2, 8.1.2.4.2, 11.1, 11.2.1, 8.3.2)                        *)

ContentLen(t) == IF t.cons THEN Len(Concat([i \in 1..Len(t.kids) |-> Ser(t.kids[i])])) ELSE Len(t.prim)

RECURSIVE DerNodeViolation(_)
DerNodeViolation(t) ==
  LET n == ContentLen(t) IN
  IF t.ll = 0 THEN "10.1 indefinite length"
  ELSE IF t.ll # Len(LengthOctets(n)) THEN "10.1 non-minimal length"
  ELSE IF t.il # Len(IdentifierOctets(t.cls, t.num, t.cons)) THEN "8.1.2.4 non-minimal tag"
  ELSE IF t.cls = "U" /\ t.num \in {3, 4, 12, 18, 19, 20, 21, 22, 25, 26, 27, 28, 30} /\ t.cons
       THEN "10.2 constructed string"
  ELSE IF t.cls = "U" /\ t.num = 1 /\ ~t.cons /\ (Len(t.prim) # 1 \/ t.prim[1] \notin {0, 255})
       THEN "11.1 boolean"
  ELSE IF t.cls = "U" /\ t.num \in {2, 10} /\ ~t.cons /\
          (Len(t.prim) = 0 \/ (Len(t.prim) > 1 /\ ((t.prim[1] = 0 /\ t.prim[2] < 128) \/ (t.prim[1] = 255 /\ t.prim[2] >= 128))))
       THEN "8.3.2 integer not minimal"
  ELSE IF t.cls = "U" /\ t.num = 3 /\ ~t.cons /\
          (Len(t.prim) = 0 \/ t.prim[1] > 7 \/ (Len(t.prim) = 1 /\ t.prim[1] # 0)
           \/ (Len(t.prim) > 1 /\ (t.prim[Len(t.prim)] % Pow2(t.prim[1])) # 0))
       THEN "11.2.1 unused bits"
  ELSE IF t.cls = "U" /\ t.num = 17 /\ t.cons /\ Len(t.kids) > 1 /\
          \* a universal SET / SET OF: children are either in strictly ascending tag
          \* order (SET, 10.3) or in ascending encoding order (SET OF, 11.6)
          ~(\/ \A i \in 1..(Len(t.kids) - 1) : TagCmp(TagOf(t.kids[i]), TagOf(t.kids[i + 1])) < 0
            \/ \A i \in 1..(Len(t.kids) - 1) : SeqCmpPadded(Ser(t.kids[i]), Ser(t.kids[i + 1])) <= 0)
       THEN "10.3/11.6 set order"
  ELSE IF t.cons /\ \E i \in 1..Len(t.kids) : DerNodeViolation(t.kids[i]) # ""
       THEN LET i == CHOOSE i \in 1..Len(t.kids) : DerNodeViolation(t.kids[i]) # ""
            IN DerNodeViolation(t.kids[i])
  ELSE ""

=============================================================================
