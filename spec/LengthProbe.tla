------------------------------ MODULE LengthProbe ----------------------------
(***************************************************************************)
(* C15: where does a definite-length BER/DER message end?                  *)
(*                                                                         *)
(* Probe(prefix) is what a framing helper may say about a prefix of a      *)
(* stream: the total length of the first message (identifier octets +      *)
(* length octets + contents length, X.690 8.1.2 / 8.1.3) as soon as the    *)
(* prefix contains the complete identifier and length octets, Unknown      *)
(* before.                                                                 *)
(*                                                                         *)
(* The transition system feeds a stream (message followed by a tail) one   *)
(* octet at a time: state <<gM, gTail, gK>>, gK = number of octets seen.   *)
(* Messages are a header plus contents; the probe never looks at contents  *)
(* octets, so the 65 535 / 65 536 / 70 000-octet contents are abstract      *)
(* (all zero) and the octet-by-octet walk jumps over the middle of long    *)
(* contents (the invariants are evaluated on concrete prefixes at every    *)
(* visited gK).                                                            *)
(*                                                                         *)
(*   Mode = "abs"    headers from the boundary tables x abstract contents  *)
(*   Mode = "typed"  distinguished encodings of TypeGen values (CASES_FILE)*)
(***************************************************************************)
EXTENDS X690, TLC, Json, IOUtils

CONSTANTS Mode,       \* "abs" | "typed"
          Classes,    \* tag classes of abstract messages, subset of {"A", "C", "P"}
          Seed,       \* seeds the random tail
          MaxLen,     \* abstract messages: contents lengths of the table up to this one
          Dense,      \* contents up to this length are walked octet by octet
          MaxVals     \* typed mode: values per case

VARIABLES gM, gTail, gK
pvars == <<gM, gTail, gK>>

Unknown == -1         \* "not yet known"
Indefinite == -2      \* outside C15: the first message has no definite length

------------------------------------------------------------------------------
(* the probe                                                                *)

Probe(prefix) ==
  LET id == ParseIdentifier(prefix, 1, Len(prefix))
  IN IF ~id.ok THEN Unknown
     ELSE LET ln == ParseLength(prefix, id.nx, Len(prefix))
          IN IF ~ln.ok THEN Unknown
             ELSE IF ln.len < 0 THEN Indefinite
             ELSE id.il + ln.ll + ln.len

------------------------------------------------------------------------------
(* messages: [h : header octets, n : contents length, c : contents octets   *)
(*            or <<>> for n abstract zero octets, d : descriptor]           *)

TagNums == <<0, 30, 31, 127, 128, 16383, 16384, 2097152, 268435456>>
LenForms == <<"short", "long1", "long2", "long3", "long4">>
ContentLens == <<0, 1, 127, 128, 255, 256, 65535, 65536, 70000>>

LongK(lf) == CASE lf = "long1" -> 1 [] lf = "long2" -> 2 [] lf = "long3" -> 3 [] lf = "long4" -> 4
Pow256(k) == CASE k = 1 -> 256 [] k = 2 -> 65536 [] k = 3 -> 16777216

\* 8.1.3.4 short form up to 127; 8.1.3.5 long form, any number of length octets that holds n
FormHolds(lf, n) == IF lf = "short" THEN n < 128 ELSE (LongK(lf) = 4 \/ n < Pow256(LongK(lf)))

LengthOctetsIn(lf, n) == IF lf = "short" THEN <<n>> ELSE <<128 + LongK(lf)>> \o NatToOctets(n, LongK(lf))

AbsMsg(cls, num, lf, n) ==
  [h |-> IdentifierOctets(cls, num, FALSE) \o LengthOctetsIn(lf, n), n |-> n, c |-> <<>>,
   d |-> [cls |-> cls, num |-> num, lf |-> lf, n |-> n]]

\* every (class, tag number, length form, contents length) whose length form holds the length
AbsDescs ==
  {q \in Classes \X (1..Len(TagNums)) \X (1..Len(LenForms)) \X (1..Len(ContentLens)) :
     /\ ContentLens[q[4]] <= MaxLen
     /\ FormHolds(LenForms[q[3]], ContentLens[q[4]])}

Cases == ndJsonDeserialize(IOEnv.CASES_FILE)

\* a typed message: the distinguished encoding of v : T; the header length
\* comes from the TLV tree (8.1.2, 8.1.3), not from the parser Probe uses
TypedMsg(c, vi) ==
  LET env == Cases[c].env
      T == env.types[Cases[c].top]
      t == DerTree(env, T, Cases[c].vals[vi], {})
      b == Ser(t)
      n == ContentLen(t)
      hl == Len(b) - n
  IN [h |-> SubSeq(b, 1, hl), n |-> n, c |-> SubSeq(b, hl + 1, Len(b)),
      d |-> [cid |-> Cases[c].cid, vi |-> vi]]

HLen(m) == Len(m.h)
MsgLen(m) == Len(m.h) + m.n
\* a constant tuple of zero octets (built once; SubSeq of it is an array copy, whereas
\* Zeros(n) would be re-evaluated element by element at every use)
ZeroPool == Force(Zeros(70000))
Contents(m, from, to) == IF m.c = <<>> THEN SubSeq(ZeroPool, from, to) ELSE SubSeq(m.c, from, to)

\* the first k octets of the stream  m \o tail
PrefixOf(m, tail, k) ==
  IF k <= HLen(m) THEN SubSeq(m.h, 1, k)
  ELSE IF k <= MsgLen(m) THEN m.h \o Contents(m, 1, k - HLen(m))
  ELSE m.h \o Contents(m, 1, m.n) \o SubSeq(tail, 1, k - MsgLen(m))

ProbeAt(m, tail, k) == Probe(PrefixOf(m, tail, k))

\* what C15 demands of a framing helper after k octets of the stream
Expected(m, k) == IF k < HLen(m) THEN Unknown ELSE MsgLen(m)

------------------------------------------------------------------------------
(* tails                                                                    *)

Rnd(j) == ((Seed % 9973) * 31 + j * j * 17 + j * 101 + 7) % 256
RandomTail == [j \in 1..(3 + (Seed % 4)) |-> Rnd(j)]
Tails == << <<>>, <<0>>, <<0, 0>>, <<48, 128>>, RandomTail >>

------------------------------------------------------------------------------
(* the octet-by-octet walk                                                  *)

StreamLen(m, tail) == MsgLen(m) + Len(tail)

\* next number of octets seen: +1, except over the middle of long abstract contents
NextK(m, k) ==
  LET hl == HLen(m)
  IN IF m.n > Dense /\ k >= hl + 2 /\ k < hl + m.n - 2
     THEN (IF k < hl + (m.n \div 2) THEN hl + (m.n \div 2) ELSE hl + m.n - 2)
     ELSE k + 1

Init ==
  /\ \/ /\ Mode = "abs"
        /\ \E q \in AbsDescs : gM = AbsMsg(q[1], TagNums[q[2]], LenForms[q[3]], ContentLens[q[4]])
     \/ /\ Mode = "typed"
        /\ \E c \in 1..Len(Cases) : \E vi \in 1..Min2(MaxVals, Len(Cases[c].vals)) : gM = TypedMsg(c, vi)
  /\ gTail = <<>>
  /\ gK = 0

\* the message octet by octet, then (the stream goes on) one of the tails
Next ==
  \/ /\ gK < MsgLen(gM)
     /\ gK' = NextK(gM, gK)
     /\ UNCHANGED <<gM, gTail>>
  \/ /\ gK = MsgLen(gM) /\ gTail = <<>>
     /\ \E j \in 2..Len(Tails) : gTail' = Tails[j]
     /\ gK' = gK + 1
     /\ UNCHANGED gM
  \/ /\ gK > MsgLen(gM) /\ gK < StreamLen(gM, gTail)
     /\ gK' = gK + 1
     /\ UNCHANGED <<gM, gTail>>

Spec == Init /\ [][Next]_pvars

\* every k the walk of (m, tail) visits
RECURSIVE WalkFrom(_, _, _)
WalkFrom(m, tail, k) == IF k >= StreamLen(m, tail) THEN <<k>> ELSE <<k>> \o WalkFrom(m, tail, NextK(m, k))

------------------------------------------------------------------------------
(* M: properties of the probe, checked by TLC on every visited state        *)

\* unknown until the header is complete, the message length from then on
ProbeShapeFor(a) == a = Expected(gM, gK)

\* contents and tail octets are irrelevant once the header is complete
HeaderOnlyFor(a) == gK >= HLen(gM) => a = Probe(gM.h)

\* the header is exactly the identifier and length octets: dropping its last octet loses the answer
HeaderMinimal == Probe(SubSeq(gM.h, 1, HLen(gM) - 1)) = Unknown

ProbeShape == ProbeShapeFor(ProbeAt(gM, gTail, gK))
HeaderOnly == HeaderOnlyFor(ProbeAt(gM, gTail, gK))

\* the three at once (the concrete prefix is built once per state)
ProbeOk == LET a == ProbeAt(gM, gTail, gK) IN ProbeShapeFor(a) /\ HeaderOnlyFor(a) /\ HeaderMinimal

\* monotone, never a wrong number: once known the answer does not change
Monotone ==
  [][LET a == ProbeAt(gM, gTail, gK) IN a # Unknown => ProbeAt(gM', gTail', gK') = a]_pvars

------------------------------------------------------------------------------
(* emission of behaviours (binding A): one line per message                 *)

Behaviour ==
  LET walk == WalkFrom(gM, <<>>, 0)
      total == MsgLen(gM)
  IN [kind |-> Mode, d |-> gM.d, h |-> gM.h, n |-> gM.n, total |-> total,
      b |-> IF Mode = "typed" THEN gM.h \o gM.c ELSE <<>>,
      pts |-> [j \in 1..Len(walk) |-> <<walk[j], ProbeAt(gM, <<>>, walk[j])>>],
      tails |-> [j \in 1..Len(Tails) |->
                   [t |-> Tails[j],
                    pts |-> [x \in 1..Len(Tails[j]) |-> <<total + x, ProbeAt(gM, Tails[j], total + x)>>]]]]

\* (emitted when the walk reaches the end of the message, so that the workers share the work)
Emit ==
  (gK = MsgLen(gM) /\ gTail = <<>>) =>
    Serialize(ToJson(Behaviour) \o "\n", IOEnv.OUT_FILE,
              [format |-> "TXT", charset |-> "UTF-8", openOptions |-> <<"WRITE", "CREATE", "APPEND">>]).exitValue = 0

=============================================================================
