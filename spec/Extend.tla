------------------------------- MODULE Extend -------------------------------
(***************************************************************************)
(* C07: extension additions keep versions interoperable.                   *)
(*                                                                         *)
(* A transition system over pairs (V1, V2): a seed type is grown with the  *)
(* productions of TypeGen (phase "gen"); Freeze fixes V1 = V2 = the seed   *)
(* (phase "ext"); every ExtendStep applies ONE legal extension step at ANY *)
(* extensible node of V2, at any nesting depth: a new OPTIONAL / DEFAULT / *)
(* mandatory component, a new [[ group ]], a new CHOICE alternative, a new *)
(* ENUMERATED item - also inside components that were themselves added by  *)
(* an earlier step.  Project(V1, V2, v2) is the version-1 view of a        *)
(* version-2 value.                                                        *)
(***************************************************************************)
EXTENDS TypeGen

CONSTANT MaxSteps

VARIABLES gPhase, gV1, gSteps
evars == <<gEnv, gT, gDepth, gPhase, gV1, gSteps>>

UnknownName == "?unknown"

------------------------------------------------------------------------------
(* one-step extensions                                                      *)

\* component types used for additions; k makes names and tags unique
NewTag(e, k) == IF e.tagdef = "A" THEN <<>> ELSE <<Tag("C", 40 + k, "D")>>
WithTags(t, tags) == [t EXCEPT !.tags = tags]
NewName(k) == "n" \o ToString(k)

SeqAdditions(e, k) ==
  << Add1(Opt(NewName(k), WithTags(TBool, NewTag(e, k)))),
     Add1(Mand(NewName(k), WithTags(TIntR(B(0), B(300), FALSE), NewTag(e, k)))),
     Add1(Def(NewName(k), WithTags(TIntN, NewTag(e, k)), B(7))),
     Add1(Opt(NewName(k), WithTags(TSeq("SEQ", <<Mand("in", TOcts(NoSz))>>, TRUE, <<>>), NewTag(e, k)))),
     \* a large addition (> 512 octets, many fields): skipping it needs the open-type length
     Add1(Opt(NewName(k), WithTags(TOf("SEQOF", TIntR(B(0), B(255), FALSE), Sz(600, 600, FALSE)), NewTag(e, k)))),
     AddG(<<Mand(NewName(k), WithTags(TStr("IA5", NoSz, NoAl), NewTag(e, k))),
            Opt(NewName(k) \o "b", WithTags(TNull, IF e.tagdef = "A" THEN <<>> ELSE <<Tag("C", 80 + k, "D")>>))>>) >>

ChoiceAdditions(e, k) ==
  << Alt(NewName(k), WithTags(TBool, <<Tag("C", 40 + k, "D")>>)),
     Alt(NewName(k), WithTags(TSeq("SEQ", <<Mand("in", TIntN)>>, TRUE, <<>>), <<Tag("C", 40 + k, "D")>>)) >>

\* under AUTOMATIC TAGS a CHOICE/SEQUENCE whose components carry no tags keeps automatic tagging
\* only if the new component is untagged as well
ChoiceAdditionsFor(e, T, k) ==
  IF AutoTagged(e, T) THEN [i \in 1..Len(ChoiceAdditions(e, k)) |-> [ChoiceAdditions(e, k)[i] EXCEPT !.t.tags = <<>>]]
  ELSE ChoiceAdditions(e, k)

SeqAdditionsFor(e, T, k) ==
  IF e.tagdef = "A" /\ ~AutoTagged(e, T)
  THEN \* members are tagged by hand: the addition needs a tag of its own
       LET e2 == [e EXCEPT !.tagdef = "I"] IN SeqAdditions(e2, k)
  ELSE SeqAdditions(e, k)

MaxEnumValue(T) == LET its == AllAlts(T) IN
  FoldLeft(LAMBDA acc, x : IF x.v > acc THEN x.v ELSE acc, its[1].v, its)

RECURSIVE AllExt(_, _, _)
\* every type obtained from T by one extension step somewhere inside it
AllExt(e, T, k) ==
  CASE T.k \in {"SEQ", "SET"} ->
         LET here == IF T.ext
                     THEN LET as == SeqAdditionsFor(e, T, k)
                          IN [i \in 1..Len(as) |-> [T EXCEPT !.adds = T.adds \o <<as[i]>>]]
                     ELSE <<>>
             inRoot == Concat([i \in 1..Len(T.root) |->
                          LET xs == AllExt(e, T.root[i].t, k)
                          IN [j \in 1..Len(xs) |-> [T EXCEPT !.root[i].t = xs[j]]]])
             inAdds == Concat([i \in 1..Len(T.adds) |->
                          IF T.adds[i].g THEN <<>>
                          ELSE LET xs == AllExt(e, T.adds[i].m.t, k)
                               IN [j \in 1..Len(xs) |-> [T EXCEPT !.adds[i].m.t = xs[j]]]])
         IN here \o inRoot \o inAdds
    [] T.k = "CHOICE" ->
         LET here == IF T.ext
                     THEN LET as == ChoiceAdditionsFor(e, T, k)
                          IN [i \in 1..Len(as) |-> [T EXCEPT !.adds = T.adds \o <<as[i]>>]]
                     ELSE <<>>
             inRoot == Concat([i \in 1..Len(T.root) |->
                          LET xs == AllExt(e, T.root[i].t, k)
                          IN [j \in 1..Len(xs) |-> [T EXCEPT !.root[i].t = xs[j]]]])
             inAdds == Concat([i \in 1..Len(T.adds) |->
                          LET xs == AllExt(e, T.adds[i].t, k)
                          IN [j \in 1..Len(xs) |-> [T EXCEPT !.adds[i].t = xs[j]]]])
         IN here \o inRoot \o inAdds
    [] T.k = "ENUM" ->
         IF T.ext THEN << [T EXCEPT !.adds = T.adds \o <<It(NewName(k), MaxEnumValue(T) + 1)>>] >> ELSE <<>>
    [] T.k \in {"SEQOF", "SETOF"} ->
         LET xs == AllExt(e, T.e, k) IN [j \in 1..Len(xs) |-> [T EXCEPT !.e = xs[j]]]
    [] OTHER -> <<>>

------------------------------------------------------------------------------
(* the version-1 projection of a version-2 value                            *)

RECURSIVE Project(_, _, _, _)
Project(e, T1, T2, v) ==
  CASE T1.k = "REF" -> Project(e, e.types[T1.name], e.types[T2.name], v)
    [] T1.k \in {"SEQ", "SET"} ->
         LET ms1 == AllMembers(T1)
             ms2 == AllMembers(T2)
         IN [nm \in {ms1[i].n : i \in 1..Len(ms1)} |->
               IF v[nm].p
               THEN Present(Project(e, ms1[MemberIndex(ms1, nm)].t, ms2[MemberIndex(ms2, nm)].t, v[nm].v))
               ELSE Absent]
    [] T1.k = "CHOICE" ->
         LET a1 == AllAlts(T1)
             a2 == AllAlts(T2)
         IN IF HasMember(a1, v.a)
            THEN [a |-> v.a, v |-> Project(e, a1[MemberIndex(a1, v.a)].t, a2[MemberIndex(a2, v.a)].t, v.v)]
            ELSE [a |-> UnknownName, v |-> "NULL"]
    [] T1.k = "ENUM" -> IF HasMember(AllAlts(T1), v) THEN v ELSE UnknownName
    [] T1.k \in {"SEQOF", "SETOF"} -> [i \in 1..Len(v) |-> Project(e, T1.e, T2.e, v[i])]
    [] OTHER -> v

\* equality with the projection: an unknown alternative / enumeration item is
\* "reported as absent" - the decoder's unknown marker, or (for an OPTIONAL or
\* DEFAULT component) the component left out
RECURSIVE ProjEq(_, _, _, _)
ProjEq(e, T, exp, dec) ==
  CASE T.k = "REF" -> ProjEq(e, e.types[T.name], exp, dec)
    [] T.k \in {"SEQ", "SET"} ->
         LET ms == AllMembers(T)
             isUnknown(m, x) == LET b == Base(e, m.t) IN
                                 \/ b.k = "CHOICE" /\ x.a = UnknownName
                                 \/ b.k = "ENUM" /\ x = UnknownName
             eff(x, m) == IF ~x[m.n].p /\ m.q = "D" THEN Present(m.d) ELSE x[m.n]
         IN \A i \in 1..Len(ms) :
              LET m == ms[i]  ee == eff(exp, m)  dd == dec[m.n] IN
              IF ee.p /\ isUnknown(m, ee.v)
              THEN ~dd.p \/ isUnknown(m, dd.v)
              ELSE LET de == eff(dec, m) IN
                   /\ ee.p = de.p
                   /\ ee.p => ProjEq(e, m.t, ee.v, de.v)
    [] T.k = "CHOICE" ->
         /\ exp.a = dec.a
         /\ exp.a # UnknownName =>
              LET alts == AllAlts(T) IN ProjEq(e, alts[MemberIndex(alts, exp.a)].t, exp.v, dec.v)
    [] T.k = "SEQOF" ->
         /\ Len(exp) = Len(dec)
         /\ \A i \in 1..Len(exp) : ProjEq(e, T.e, exp[i], dec[i])
    [] T.k = "SETOF" ->
         /\ Len(exp) = Len(dec)
         /\ \A i \in 1..Len(exp) : \E j \in 1..Len(dec) : ProjEq(e, T.e, exp[i], dec[j])
    [] OTHER -> AbsEq(e, T, exp, dec)

\* a version-1 value seen as a version-2 value: new components absent
RECURSIVE Lift(_, _, _, _)
Lift(e, T1, T2, v) ==
  CASE T1.k = "REF" -> Lift(e, e.types[T1.name], e.types[T2.name], v)
    [] T1.k \in {"SEQ", "SET"} ->
         LET ms1 == AllMembers(T1)
             ms2 == AllMembers(T2)
         IN [nm \in {ms2[i].n : i \in 1..Len(ms2)} |->
               IF HasMember(ms1, nm)
               THEN (IF v[nm].p THEN Present(Lift(e, ms1[MemberIndex(ms1, nm)].t, ms2[MemberIndex(ms2, nm)].t, v[nm].v))
                     ELSE Absent)
               ELSE Absent]
    [] T1.k = "CHOICE" ->
         LET a1 == AllAlts(T1)  a2 == AllAlts(T2)
         IN [a |-> v.a, v |-> Lift(e, a1[MemberIndex(a1, v.a)].t, a2[MemberIndex(a2, v.a)].t, v.v)]
    [] T1.k \in {"SEQOF", "SETOF"} -> [i \in 1..Len(v) |-> Lift(e, T1.e, T2.e, v[i])]
    [] OTHER -> v

------------------------------------------------------------------------------
(* the transition system                                                    *)

RECURSIVE HasExtensible(_, _)
HasExtensible(e, T) ==
  CASE T.k = "REF" -> FALSE
    [] T.k \in {"SEQ", "SET"} ->
         \/ T.ext
         \/ \E i \in 1..Len(AllMembers(T)) : HasExtensible(e, AllMembers(T)[i].t)
    [] T.k = "CHOICE" -> T.ext \/ \E i \in 1..Len(AllAlts(T)) : HasExtensible(e, AllAlts(T)[i].t)
    [] T.k = "ENUM" -> T.ext
    [] T.k \in {"SEQOF", "SETOF"} -> HasExtensible(e, T.e)
    [] OTHER -> FALSE

EInit == Init /\ gPhase = "gen" /\ gV1 = TNull /\ gSteps = 0

Grow == gPhase = "gen" /\ Next /\ UNCHANGED <<gPhase, gV1, gSteps>>

Freeze ==
  /\ gPhase = "gen"
  /\ HasExtensible(gEnv, gT)
  /\ gPhase' = "ext"
  /\ gV1' = gT
  /\ UNCHANGED <<gEnv, gT, gDepth, gSteps>>

ExtendStep ==
  /\ gPhase = "ext"
  /\ gSteps < MaxSteps
  /\ LET xs == AllExt(gEnv, gT, gSteps + 1) IN
       \E i \in 1..Len(xs) :
          /\ TagsLegal(gEnv, xs[i])
          /\ gT' = xs[i]
  /\ gSteps' = gSteps + 1
  /\ UNCHANGED <<gEnv, gDepth, gPhase, gV1>>

ENext == Grow \/ Freeze \/ ExtendStep
ESpec == EInit /\ [][ENext]_evars

------------------------------------------------------------------------------
(* model-level properties and emission                                      *)

EnvWith(top) == [tagdef |-> gEnv.tagdef, extimp |-> gEnv.extimp,
                 types |-> [x \in DOMAIN gEnv.types \cup {"Top"} |-> IF x = "Top" THEN top ELSE gEnv.types[x]]]

Vals2 == LET vs == Values(gEnv, gT, 3) IN SubSeq(vs, 1, Min2(Len(vs), 12))
Vals1 == LET vs == Values(gEnv, gV1, 3) IN SubSeq(vs, 1, Min2(Len(vs), 8))

\* the projection of every V2 value is a V1 value; lifting a V1 value gives a V2 value
\* whose projection is the V1 value again
ProjectionSound ==
  gPhase = "ext" =>
    /\ \A i \in 1..Len(Vals1) :
         LET l == Lift(gEnv, gV1, gT, Vals1[i]) IN
         /\ Admits(gEnv, gT, l)
         /\ AbsEq(gEnv, gV1, Project(gEnv, gV1, gT, l), Vals1[i])

ECase == [env1 |-> EnvWith(gV1), env2 |-> EnvWith(gT), top |-> "Top", steps |-> gSteps, depth |-> gDepth,
          vals2 |-> Vals2, vals1 |-> Vals1]

EEmit ==
  (gPhase = "ext" /\ gSteps >= 1) =>
    Serialize(ToJson(ECase) \o "\n", IOEnv.OUT_FILE,
              [format |-> "TXT", charset |-> "UTF-8", openOptions |-> <<"WRITE", "CREATE", "APPEND">>]).exitValue = 0

=============================================================================
