------------------------------ MODULE TextModel -----------------------------
(***************************************************************************)
(* C02 on the model: over the universe of TypeGen (every reachable type    *)
(* with its boundary values) the mappings of Jer.tla and Xer.tla are       *)
(* injective and their readers invert them:                                *)
(*                                                                         *)
(*     Read(T, Tree(T, v)) is AbsEq to v                                   *)
(*                                                                         *)
(* for the mapping itself (S = {}) and for the benign deviations the       *)
(* implementation takes; for both values of numeric_enums; for every value *)
(* whose characters are representable in the target syntax.  The same TLC  *)
(* run emits the cases that are replayed into the real codecs (binding A). *)
(* ModelDevs: extra deviation sets to check the invariant under (used by   *)
(* the sensitivity configurations, which must yield a counterexample).     *)
(***************************************************************************)
EXTENDS TypeGen, Jer, Xer

CONSTANT ModelDevs      \* set of deviation sets, normally {{}}

JerBack(env, T, v, ne, S) ==
  LET r == JerRead(env, T, JerTree(env, T, v, ne, S), ne, S) IN r.ok /\ AbsEq(env, T, r.v, v)

XerBack(env, top, v, S) ==
  LET r == XerReadDoc(env, top, XerDoc(env, top, v, S), S) IN r.ok /\ AbsEq(env, env.types[top], r.v, v)

TextRoundTripUnder(SJ, SX) ==
  LET c == Case
      env == c.env
      T == env.types[c.top]
  IN \A h \in 1..Len(c.vals) :
       LET v == c.vals[h] IN
       Admits(env, T, v) =>
         /\ JerRepresentable(env, T, v) => \A ne \in BOOLEAN : JerBack(env, T, v, ne, SJ)
         /\ XerRepresentable(env, T, v) => XerBack(env, c.top, v, SX)

TextRoundTrip ==
  /\ TextRoundTripUnder({}, {})
  /\ TextRoundTripUnder(JerBenign, XerBenign)
  /\ \A S \in ModelDevs : TextRoundTripUnder(S \cap {JerDevs[h] : h \in 1..Len(JerDevs)}, S \cap {XerDevs[h] : h \in 1..Len(XerDevs)})

=============================================================================
