------------------------------- MODULE ConGen -------------------------------
(***************************************************************************)
(* Generator for C11: the type grammar of TypeGen (same productions) over  *)
(* leaf types chosen for their constraints, and for every type a value     *)
(* table that holds, besides TypeGen's boundary values, the *neighbours    *)
(* of every bound* b - 1, b, b + 1 of every constraint, one leaf at a      *)
(* time, at every position of the value (through references, inside list   *)
(* elements and CHOICE alternatives), plus characters outside a permitted  *)
(* alphabet.  Each emitted behaviour carries what the specification        *)
(* expects for every value: admitted, or violated at which name paths.     *)
(*                                                                         *)
(* Checked on every emitted table (M):                                     *)
(*   ConTableComplete   the table is boundary complete (Constraints.tla)   *)
(*   ConVariantsLocal   a variant of an admitted value violates nothing    *)
(*                      but the mutated component                          *)
(*   ConAgreesWithAdmits  ViolationPaths = <<>>  <=>  Asn1Value!Admits on  *)
(*                      types without constraints on references            *)
(***************************************************************************)
EXTENDS TypeGen, Constraints

------------------------------------------------------------------------------
(* leaf types                                                               *)

HintLb(c, name) == [lbref |-> name] @@ c
HintUb(c, name) == [ubref |-> name] @@ c
NN(n, v) == [n |-> n, v |-> B(v)]

ConIntExtra ==
  << [TIntR(B(0), B(10), FALSE) EXCEPT !.nn = <<NN("ten", 10)>>, !.con = HintUb(@, "ten")],       \* INTEGER { ten(10) } (0..ten)
     [TIntR(B(-5), B(10), FALSE) EXCEPT !.nn = <<NN("low", -5), NN("ten", 10)>>,
                                        !.con = HintLb(HintUb(@, "ten"), "low")],                   \* (low..ten)
     [TIntR(B(0), B(10), FALSE) EXCEPT !.con = HintUb(@, "max")],                                   \* (0..max), max INTEGER ::= 10
     [TIntR(B(-5), B(300), FALSE) EXCEPT !.con = HintLb(HintUb(@, "hi"), "lo")],                    \* (lo..hi)
     [TIntR(B(0), Pred(P2(64)), FALSE) EXCEPT !.con = HintUb(@, "big")],                            \* (0..big), big ::= 2^64 - 1
     [TIntHi(B(10)) EXCEPT !.con = HintUb(@, "max")],                                               \* (MIN..max)
     [TIntLo(B(3)) EXCEPT !.con = HintLb(@, "lo")],                                                 \* (lo..MAX)
     TIntR(B(5), B(5), FALSE),                                                                      \* (5)
     TIntR(B(-1), B(-1), FALSE),
     [TIntR(B(10), B(10), FALSE) EXCEPT !.con = HintLb(HintUb(@, "max"), "max")],                   \* (max)
     [TIntR(B(10), B(10), FALSE) EXCEPT !.nn = <<NN("ten", 10)>>, !.con = HintLb(HintUb(@, "ten"), "ten")],   \* { ten(10) } (ten)
     [TIntR(B(0), B(10), TRUE) EXCEPT !.con = HintUb(@, "max")] >>                                  \* (0..max, ...)

SzRef(lb, ub, lbref, ubref) ==
  LET s0 == Sz(lb, ub, FALSE)
      s1 == IF lbref = "" THEN s0 ELSE HintLb(s0, lbref)
  IN IF ubref = "" THEN s1 ELSE HintUb(s1, ubref)

SizeCap == 300
SmallBounds(t) == t.sz.f = "N" \/ (t.sz.lb < SizeCap /\ (t.sz.ubinf \/ t.sz.ub < SizeCap))

ConSizeExtra ==
  << TOcts(SzRef(1, 10, "", "max")), TOcts(SzRef(10, 10, "max", "max")), TOcts(SzRef(2, 10, "lo", "max")),
     TBits(SzRef(2, 10, "", "max"), <<>>), TBits(SzRef(3, 3, "three", "three"), <<It("x", 0), It("y", 2)>>),
     TStr("IA5", SzRef(1, 10, "", "max"), Al(<<65, 66, 67>>)),
     TStr("Printable", Sz(1, 3, FALSE), Al(<<65, 66>>)),
     TStr("Visible", NoSz, Al(<<97, 98, 99, 100>>)),
     TStr("Numeric", SzRef(2, 4, "lo", ""), Al(<<48, 49, 50>>)),
     TStr("UTF8", Sz(0, 2, FALSE), Al(<<97, 228>>)),
     TStr("BMP", SzMin(2), Al(<<97, 8364>>)),
     TStr("General", Sz(1, 1, FALSE), NoAl), TStr("Teletex", Sz(0, 1, FALSE), NoAl), TStr("Graphic", Sz(2, 3, FALSE), NoAl),
     TStr("Universal", Sz(0, 1, FALSE), Al(<<128512>>)) >>

\* types referred to by the constrained references below
ConNamed ==
  [A0 |-> TIntR(B(0), B(255), FALSE), U0 |-> TIntN, E0 |-> TIntR(B(0), B(10), TRUE),
   O0 |-> TOcts(Sz(0, 4, FALSE)), L0 |-> TOf("SEQOF", TBool, NoSz), S0 |-> TStr("IA5", Sz(0, 4, FALSE), NoAl),
   B0 |-> TBits(Sz(0, 4, FALSE), <<>>), K0 |-> TOf("SETOF", TIntR(B(0), B(7), FALSE), Sz(0, 3, FALSE))]

RefCon(name, lb, ub) == [k |-> "REF", tags |-> <<>>, name |-> name, con |-> TIntR(B(lb), B(ub), FALSE).con]
RefSz(name, sz) == [k |-> "REF", tags |-> <<>>, name |-> name, sz |-> sz]
\* an *extensible* constraint written on a reference to a type with a non-extensible one: A0 (6..7, ...);
\* the constraint of A0 itself keeps holding (X.680 50.x: serial application)
RefConX(name, lb, ub) == [k |-> "REF", tags |-> <<>>, name |-> name, con |-> TIntR(B(lb), B(ub), TRUE).con]

ConRefTypes ==
  << RefCon("A0", 0, 10), RefCon("A0", 0, 300), RefCon("A0", -5, 100), RefCon("A0", 7, 7), RefCon("U0", 0, 5), RefCon("E0", 0, 5),
     RefSz("O0", Sz(1, 2, FALSE)), RefSz("O0", Sz(0, 6, FALSE)), RefSz("L0", Sz(1, 2, FALSE)), RefSz("S0", Sz(1, 6, FALSE)),
     RefSz("B0", Sz(0, 6, FALSE)), RefSz("K0", Sz(2, 2, FALSE)), RefSz("O0", SzRef(1, 10, "", "max")),
     RefConX("A0", 6, 7), RefSz("O0", Sz(2, 3, TRUE)), RefSz("K0", Sz(1, 2, TRUE)), RefSz("S0", Sz(1, 2, TRUE)) >>

\* the same referenced type used under the same component name (and as list element) with and without a range of
\* its own: the constraint of one use must not reach the other uses
PlainRef(name) == [k |-> "REF", tags |-> <<>>, name |-> name]
ConSharedRef ==
  TSeq("SEQ", <<Mand("p", TSeq("SEQ", <<Mand("v", RefCon("A0", 0, 10))>>, FALSE, <<>>)),
                Mand("q", TSeq("SEQ", <<Mand("v", PlainRef("A0"))>>, FALSE, <<>>)),
                Mand("r", TSeq("SEQ", <<Mand("v", RefCon("A0", 30, 40))>>, FALSE, <<>>)),
                Mand("l", TOf("SEQOF", RefCon("A0", 1, 5), NoSz)),
                Mand("m", TOf("SEQOF", PlainRef("A0"), NoSz))>>, FALSE, <<>>)

ConPrimTypes ==
  <<ConSharedRef>> \o IntTypes \o ConIntExtra \o SelectSeq(BitsTypes \o OctsTypes \o StrTypes, SmallBounds) \o ConSizeExtra \o ConRefTypes
  \o <<TBool, EnumTypes[2]>>

\* representatives wrapped at depth >= 1 when ~Rich
ConCarriers ==
  << TIntR(B(0), B(255), FALSE), TIntR(B(-129), B(127), FALSE), TIntR(B(0), B(10), TRUE), TIntLo(B(0)), TIntHi(B(127)),
     ConIntExtra[1], ConIntExtra[3], OctsTypes[7], ConSizeExtra[1], BitsTypes[8], StrTypes[14], ConSizeExtra[6],
     ConRefTypes[2], ConRefTypes[8], ConRefTypes[9], ConRefTypes[14], ConRefTypes[15] >>

IsConCarrier(t) == \E i \in 1..Len(ConCarriers) : ConCarriers[i] = t

\* list productions whose own SIZE is the constraint under test
ConWraps(e, t) ==
  Wraps(e, t) \o
  << TOf("SEQOF", t, SzRef(1, 3, "", "three")), TOf("SETOF", t, Sz(1, 2, FALSE)), TOf("SEQOF", t, Sz(0, 2, TRUE)),
     TOf("SEQOF", t, SzMin(1)) >>

------------------------------------------------------------------------------
(* neighbours of every bound, one component at a time                       *)

OutsideCands == <<90, 122, 57, 48, 32, 65, 97, 8364>>
HasOutsideChar(Bt) == \E i \in 1..Len(OutsideCands) : CharOk(Bt.st, OutsideCands[i]) /\ ~InAlphabet(Bt.al, <<OutsideCands[i]>>)
OutsideChar(Bt) ==
  OutsideCands[CHOOSE i \in 1..Len(OutsideCands) :
                 /\ CharOk(Bt.st, OutsideCands[i]) /\ ~InAlphabet(Bt.al, <<OutsideCands[i]>>)
                 /\ \A h \in 1..(i - 1) : ~(CharOk(Bt.st, OutsideCands[h]) /\ ~InAlphabet(Bt.al, <<OutsideCands[h]>>))]

\* the first boundary value of t that satisfies t's own constraints
FirstAdmitted(e, t) ==
  LET vs == Values(e, t, 2)
      ok == SelectSeq(vs, LAMBDA x : ConAdmits(e, t, x))
      \* constraints in series (a range on a reference inside the range of the type): TypeGen's table of the base type may
      \* hold no admitted value; the largest lower bound is one whenever the intersection is not empty
      ics == SelectSeq(IntCons(e, t), LAMBDA c : c.f = "R" /\ ~c.ext /\ ~c.lbinf)
      top == FoldLeft(LAMBDA acc, c : IF Leq(acc, c.lb) THEN c.lb ELSE acc, ics[1].lb, ics)
  IN IF ok # <<>> THEN ok[1]
     ELSE IF Base(e, t).k = "INT" /\ ics # <<>> /\ ConAdmits(e, t, top) THEN top
     ELSE vs[1]

\* the value v of base type Bt cut / extended to size n
ResizeLeaf(e, Bt, v, n) ==
  CASE Bt.k = "BITS" -> LET bits == BitsOf(v) IN MkBits([j \in 1..n |-> IF j <= v.n THEN bits[j] ELSE j % 2])
    [] Bt.k = "OCTS" -> [j \in 1..n |-> IF j <= Len(v) THEN v[j] ELSE (j * 37) % 256]
    [] Bt.k = "STR" -> LET cs == IF Len(v) > 0 THEN v ELSE SampleChars(Bt)
                       IN [j \in 1..n |-> IF j <= Len(v) THEN v[j] ELSE cs[((j - 1) % Len(cs)) + 1]]
    [] Bt.k \in {"SEQOF", "SETOF"} ->
         LET fill == IF Len(v) > 0 THEN v[1] ELSE FirstAdmitted(e, Bt.e)
         IN [j \in 1..n |-> IF j <= Len(v) THEN v[j] ELSE fill]

\* a value of T with a node at type position tp (first list element; every other component
\* takes its first admitted boundary value, OPTIONAL members present) -- so that every
\* constrained position of the type is reached by some value of the table whatever caps
\* TypeGen!Values applies
RECURSIVE ReachValue(_, _, _)
ReachValue(e, T, tp) ==
  IF tp = <<>> THEN FirstAdmitted(e, T)
  ELSE LET Bt == Base(e, T) IN
       CASE Bt.k \in {"SEQ", "SET"} ->
              LET ms == AllMembers(Bt)
              IN [nm \in {ms[j].n : j \in 1..Len(ms)} |->
                    LET m == ms[MemberIndex(ms, nm)]
                    IN IF nm = tp[1] THEN Present(ReachValue(e, m.t, Tail(tp))) ELSE Present(FirstAdmitted(e, m.t))]
         [] Bt.k = "CHOICE" ->
              [a |-> tp[1], v |-> ReachValue(e, AllAlts(Bt)[MemberIndex(AllAlts(Bt), tp[1])].t, Tail(tp))]
         [] Bt.k \in {"SEQOF", "SETOF"} ->
              LET scs == SelectSeq(SizeCons(e, T), LAMBDA c : c.f = "R" /\ ~c.ext)
                  n == FoldLeft(LAMBDA acc, c : Max2(acc, c.lb), 1, scs)
              IN [j \in 1..n |-> IF j = 1 THEN ReachValue(e, Bt.e, Tail(tp)) ELSE FirstAdmitted(e, Bt.e)]

RECURSIVE Variants(_, _, _)
\* sequence of [v : the value with one component replaced, pos : its position, nb : which neighbour]
Variants(e, T, v) ==
  LET Bt == Base(e, T)
      ics == IntCons(e, T)
      scs == SizeCons(e, T)
      mk(x, nb) == [v |-> x, pos |-> <<>>, nb |-> nb]
      intAt(b, tag) == [dd \in 1..3 |-> mk(Add(b, FromInt(dd - 2)), tag \o ToString(dd))]
      intV == IF Bt.k # "INT" THEN <<>>
              ELSE Concat([j \in 1..Len(ics) |->
                     IF ics[j].f = "N" THEN <<>>
                     ELSE (IF ics[j].lbinf THEN <<>> ELSE intAt(ics[j].lb, "int" \o ToString(j) \o "lb"))
                          \o (IF ics[j].ubinf THEN <<>> ELSE intAt(ics[j].ub, "int" \o ToString(j) \o "ub"))])
      sizeAt(b, tag) == Concat([dd \in 1..3 |-> IF b + dd - 2 < 0 THEN <<>>
                                               ELSE <<mk(ResizeLeaf(e, Bt, v, b + dd - 2), tag \o ToString(dd))>>])
      sizeV == IF Bt.k \notin {"BITS", "OCTS", "STR", "SEQOF", "SETOF"} THEN <<>>
               ELSE Concat([j \in 1..Len(scs) |->
                      IF scs[j].f = "N" THEN <<>>
                      ELSE sizeAt(scs[j].lb, "size" \o ToString(j) \o "lb")
                           \o (IF scs[j].ubinf THEN <<>> ELSE sizeAt(scs[j].ub, "size" \o ToString(j) \o "ub"))])
      alphaV == IF Bt.k = "STR" /\ Bt.al.has /\ Len(v) > 0 /\ HasOutsideChar(Bt)
                THEN <<mk([v EXCEPT ![1] = OutsideChar(Bt)], "alpha-first"),
                       mk([v EXCEPT ![Len(v)] = OutsideChar(Bt)], "alpha-last")>>
                ELSE <<>>
      kids ==
        CASE Bt.k \in {"SEQ", "SET"} ->
               LET ms == AllMembers(Bt)
               IN Concat([j \in 1..Len(ms) |->
                    IF ~v[ms[j].n].p THEN <<>>
                    ELSE LET sub == Variants(e, ms[j].t, v[ms[j].n].v)
                         IN [h \in 1..Len(sub) |-> [v |-> [v EXCEPT ![ms[j].n] = Present(sub[h].v)],
                                                    pos |-> <<MStep(ms[j].n)>> \o sub[h].pos, nb |-> sub[h].nb]]])
          [] Bt.k = "CHOICE" ->
               LET alts == AllAlts(Bt)
                   sub == Variants(e, alts[MemberIndex(alts, v.a)].t, v.v)
               IN [h \in 1..Len(sub) |-> [v |-> [a |-> v.a, v |-> sub[h].v],
                                          pos |-> <<AStep(v.a)>> \o sub[h].pos, nb |-> sub[h].nb]]
          [] Bt.k \in {"SEQOF", "SETOF"} ->
               LET idx == IF Len(v) = 0 THEN <<>> ELSE IF Len(v) = 1 THEN <<1>> ELSE <<1, Len(v)>>
               IN Concat([g \in 1..Len(idx) |->
                    LET sub == Variants(e, Bt.e, v[idx[g]])
                    IN [h \in 1..Len(sub) |-> [v |-> [v EXCEPT ![idx[g]] = sub[h].v],
                                               pos |-> <<IStep(idx[g])>> \o sub[h].pos, nb |-> sub[h].nb]]])
          [] OTHER -> <<>>
  IN intV \o sizeV \o alphaV \o kids

\* which (type position, neighbour) a variant realises; first / other list elements are told apart
PosKey(pos) ==
  JoinDot([j \in 1..Len(pos) |-> IF pos[j].s = "i" THEN (IF pos[j].i = 1 THEN "*1" ELSE "*n") ELSE pos[j].n])

FirstPerKey(xs) ==    \* xs : sequence of records with a string field key
  FoldLeft(LAMBDA acc, x : IF \E i \in 1..Len(acc) : acc[i].key = x.key THEN acc ELSE Append(acc, x), <<>>, xs)

------------------------------------------------------------------------------
(* the transition system: TypeGen's productions over the leaf types above   *)

ConEnvFor(td, t) ==
  [tagdef |-> td, extimp |-> FALSE,
   types |-> IF t.k = "REF" THEN (t.name :> ConNamed[t.name])
             ELSE IF t = ConSharedRef THEN ("A0" :> ConNamed["A0"])
             ELSE [x \in {} |-> 0]]

ConInit ==
  /\ gDepth = 0
  /\ \E td \in TagDefs : \E i \in 1..Len(ConPrimTypes) :
       /\ gT = ConPrimTypes[i]
       /\ gEnv = ConEnvFor(td, ConPrimTypes[i])

\* wrap the current type; at depth 0 of the reduced (quick) tables only the carriers cs
ConWrapFor(cs) ==
  /\ gDepth < MaxDepth
  /\ (gDepth = 0 /\ ~Rich) => \E h \in 1..Len(cs) : cs[h] = gT
  /\ gDepth = 0 => gT.k # "SEQ"          \* the composite leaf types (ConSharedRef, CorListOfChoice) are complete cases, not wrapped
  /\ LET ws == ConWraps(gEnv, gT) IN
       \E i \in 1..Len(ws) :
         /\ LegalWrap(gEnv, ws[i])
         /\ gT' = ws[i]
  /\ gDepth' = gDepth + 1
  /\ UNCHANGED gEnv

ConWrap == ConWrapFor(ConCarriers)

ConNext == ConWrap \/ NameAndRefer \/ CloseRecursion

ConSpec == ConInit /\ [][ConNext]_vars

------------------------------------------------------------------------------
(* emission                                                                 *)

MaxBase == 14
MaxVariants == 160

ConEnv == [tagdef |-> gEnv.tagdef, extimp |-> gEnv.extimp,
           types |-> [x \in DOMAIN gEnv.types \cup {"Top"} |-> IF x = "Top" THEN gT ELSE gEnv.types[x]]]

\* TypeGen's boundary values (capped) and one value reaching every constrained position
ConBase ==
  LET vs == Values(gEnv, gT, 3)
      sites == BoundSites(ConEnv, gT, <<>>, 2)
      tps == FoldLeft(LAMBDA acc, st : IF \E j \in 1..Len(acc) : acc[j] = st.tp THEN acc ELSE Append(acc, st.tp), <<>>, sites)
  IN SubSeq(vs, 1, Min2(Len(vs), MaxBase)) \o [j \in 1..Len(tps) |-> ReachValue(ConEnv, gT, tps[j])]

ConVariantsOf(base) ==
  LET all == Concat([i \in 1..Len(base) |->
                LET sub == Variants(gEnv, gT, base[i])
                IN [h \in 1..Len(sub) |-> [v |-> sub[h].v, pos |-> sub[h].pos, nb |-> sub[h].nb, from |-> i,
                                           key |-> PosKey(sub[h].pos) \o "#" \o sub[h].nb]]])
      uniq == FirstPerKey(all)
  IN SubSeq(uniq, 1, Min2(Len(uniq), MaxVariants))

ExpectOf(env, T, v) ==
  LET vp == ViolationPaths(env, T, v)
  IN [adm |-> vp = <<>>,
      paths |-> [j \in 1..Len(vp) |-> NamePath(vp[j].pos)],
      whys |-> [j \in 1..Len(vp) |-> vp[j].why]]

ConCaseOf(base, vrs) ==
  LET vals == base \o [i \in 1..Len(vrs) |-> vrs[i].v]
  IN [env |-> ConEnv, top |-> "Top", depth |-> gDepth, nbase |-> Len(base), vals |-> vals,
      exp |-> [i \in 1..Len(vals) |-> ExpectOf(ConEnv, gT, vals[i])]]

\* does the type use a constraint on a reference (where Asn1Value!Admits is silent)?
RECURSIVE UsesRefConstraint(_, _, _)
UsesRefConstraint(e, T, fuel) ==
  \/ T.k = "REF" /\ (HasField(T, "con") \/ HasField(T, "sz"))
  \/ fuel > 0 /\
     (CASE T.k = "REF" -> UsesRefConstraint(e, e.types[T.name], fuel - 1)
        [] T.k \in {"SEQ", "SET"} -> \E j \in 1..Len(AllMembers(T)) : UsesRefConstraint(e, AllMembers(T)[j].t, fuel)
        [] T.k = "CHOICE" -> \E j \in 1..Len(AllAlts(T)) : UsesRefConstraint(e, AllAlts(T)[j].t, fuel)
        [] T.k \in {"SEQOF", "SETOF"} -> UsesRefConstraint(e, T.e, fuel)
        [] OTHER -> FALSE)

ConTableComplete(c) ==
  LET miss == MissingNeighbours(c.env, gT, c.vals, 2)
  IN miss = <<>> \/ Assert(FALSE, <<"value table is not boundary complete", miss, gT>>)

ConVariantsLocal(base, vrs) ==
  \A h \in 1..Len(vrs) :
    ConAdmits(ConEnv, gT, base[vrs[h].from]) =>
      LET vp == ViolationPaths(ConEnv, gT, vrs[h].v)
      IN (\A j \in 1..Len(vp) : vp[j].pos = vrs[h].pos)
         \/ Assert(FALSE, <<"a variant violates a constraint away from the mutated component", vrs[h], vp>>)

ConAgreesWithAdmits(c) ==
  UsesRefConstraint(c.env, gT, 4) \/
  \A i \in 1..Len(c.vals) :
    (c.exp[i].adm = Admits(c.env, gT, c.vals[i]))
    \/ Assert(FALSE, <<"ViolationPaths and Admits disagree", gT, c.vals[i]>>)

ConWrite(c) ==
  Serialize(ToJson(c) \o "\n", IOEnv.OUT_FILE,
            [format |-> "TXT", charset |-> "UTF-8", openOptions |-> <<"WRITE", "CREATE", "APPEND">>]).exitValue = 0

ConEmit ==
  LET base == ConBase
      vrs == ConVariantsOf(base)
      c == ConCaseOf(base, vrs)
  IN /\ ConTableComplete(c)
     /\ ConVariantsLocal(base, vrs)
     /\ ConAgreesWithAdmits(c)
     /\ ConWrite(c)

=============================================================================
