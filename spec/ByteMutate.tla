------------------------------ MODULE ByteMutate ----------------------------
(***************************************************************************)
(* C08: the input space.  A mutation *script* is a sequence of byte-level  *)
(* operations with positions given in per-mille of the current length, so  *)
(* that one script applies to any seed encoding of any codec:              *)
(*   flip(p, bit)  trunc(p)  insert(p, b)  delete(p)  set(p, b)            *)
(*   splice(p, q, n)  (copy n octets from q over p)   dup(p, n, times)     *)
(*   sweep(b)      (the family: set every single position to b, in turn)   *)
(* Apply(script, bytes) is the semantics; TLC generates the scripts (BFS   *)
(* for one and two operations, simulation for long ones) and checks that   *)
(* Apply is total on every byte string (never an index out of range).      *)
(***************************************************************************)
EXTENDS Bits, TLC, Json, IOUtils

CONSTANTS MaxOps

VARIABLES gScript
mvars == <<gScript>>

\* bytes that matter to length / tag / fragment decoding
ByteTable == <<0, 1, 2, 48, 127, 128, 129, 130, 132, 192, 196, 255>>
Fractions == <<0, 1, 125, 250, 500, 750, 999, 1000>>

Pos(p, n) == IF n = 0 THEN 0 ELSE Min2(n - 1, (p * n) \div 1000)       \* index 0..n-1

Op(o, p, q, b, n) == [o |-> o, p |-> p, q |-> q, b |-> b, n |-> n]

AllOps ==
  Concat([i \in 1..Len(Fractions) |->
    LET p == Fractions[i] IN
      [j \in 1..8 |-> Op("flip", p, 0, j - 1, 0)]
      \o <<Op("trunc", p, 0, 0, 0), Op("delete", p, 0, 0, 1), Op("delete", p, 0, 0, 3)>>
      \o [j \in 1..Len(ByteTable) |-> Op("insert", p, 0, ByteTable[j], 0)]
      \o [j \in 1..Len(ByteTable) |-> Op("set", p, 0, ByteTable[j], 0)]
      \o <<Op("splice", p, 0, 0, 2), Op("splice", p, 500, 0, 4), Op("dup", p, 0, 0, 2), Op("dup", p, 0, 0, 16)>>])
  \o [j \in 1..Len(ByteTable) |-> Op("sweep", 0, 0, ByteTable[j], 0)]

FlipBit(x, k) == IF (x \div Pow2(7 - k)) % 2 = 1 THEN x - Pow2(7 - k) ELSE x + Pow2(7 - k)

\* one operation on a byte string (sweep is expanded by the driver into one input per position;
\* here it denotes the first member of the family)
ApplyOp(op, s) ==
  LET n == Len(s)
      i == Pos(op.p, n) + 1                 \* 1-based
  IN CASE op.o = "flip" -> IF n = 0 THEN s ELSE [s EXCEPT ![i] = FlipBit(s[i], op.b)]
       [] op.o = "trunc" -> SubSeq(s, 1, Pos(op.p, n + 1))
       [] op.o = "delete" -> IF n = 0 THEN s ELSE SubSeq(s, 1, i - 1) \o SubSeq(s, Min2(n + 1, i + op.n), n)
       [] op.o = "insert" -> SubSeq(s, 1, Pos(op.p, n + 1)) \o <<op.b>> \o SubSeq(s, Pos(op.p, n + 1) + 1, n)
       [] op.o = "set" -> IF n = 0 THEN s ELSE [s EXCEPT ![i] = op.b]
       [] op.o = "splice" -> IF n = 0 THEN s
                             ELSE LET j == Pos(op.q, n) + 1
                                      piece == SubSeq(s, j, Min2(n, j + op.n - 1))
                                  IN SubSeq(s, 1, i - 1) \o piece \o SubSeq(s, Min2(n + 1, i + Len(piece)), n)
       [] op.o = "dup" -> IF n = 0 THEN s
                          ELSE LET piece == SubSeq(s, i, Min2(n, i + 1))
                               IN SubSeq(s, 1, i - 1) \o Concat([k \in 1..op.n |-> piece]) \o SubSeq(s, i, n)
       [] op.o = "sweep" -> IF n = 0 THEN s ELSE [s EXCEPT ![1] = op.b]

Apply(script, s) == FoldLeft(LAMBDA acc, op : ApplyOp(op, acc), s, script)

MInit == gScript = <<>>
MNext == /\ Len(gScript) < MaxOps
         /\ \E i \in 1..Len(AllOps) : gScript' = Append(gScript, AllOps[i])
MSpec == MInit /\ [][MNext]_mvars

\* Apply is total and keeps octets octets, on probe strings of every small length
Probes == <<(<<>>), <<0>>, <<48, 0>>, <<48, 3, 2, 1, 5>>, [i \in 1..40 |-> (i * 7) % 256]>>
ApplyTotal ==
  \A i \in 1..Len(Probes) :
     LET r == Apply(gScript, Probes[i]) IN \A j \in 1..Len(r) : r[j] \in 0..255

MEmit ==
  gScript # <<>> =>
    Serialize(ToJson([script |-> gScript]) \o "\n", IOEnv.OUT_FILE,
              [format |-> "TXT", charset |-> "UTF-8", openOptions |-> <<"WRITE", "CREATE", "APPEND">>]).exitValue = 0
=============================================================================
