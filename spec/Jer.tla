--------------------------------- MODULE Jer --------------------------------
(***************************************************************************)
(* JSON Encoding Rules (ITU-T X.697) as asn1tools maps them                *)
(* (asn1tools/codecs/jer.py): the JSON *value tree* a (type, value) pair   *)
(* must be written as, and a type-directed reader of such trees.           *)
(*                                                                         *)
(* JSON tree nodes (the JSON form recorded by harness/drive_text.py is the *)
(* same record):                                                           *)
(*   [j |-> "obj", ks |-> Seq(STRING), vs |-> Seq(node)]   members in      *)
(*                                                          document order *)
(*   [j |-> "arr", vs |-> Seq(node)]                                       *)
(*   [j |-> "str", s |-> Seq(Nat)]            code points                  *)
(*   [j |-> "num", k |-> "i", int |-> BigInt, fl |-> NoFl]  integer token  *)
(*   [j |-> "num", k |-> "f", int |-> Zero,  fl |-> [c,s,m,e]]  any other  *)
(*        number token; fl = the IEEE-754 double an independent reader     *)
(*        (float()) gives for the token (decimal -> double is delegated)   *)
(*   [j |-> "bool", b |-> BOOLEAN]     [j |-> "null"]                      *)
(*                                                                         *)
(* JerTree(env, T, v, ne, S): ne = numeric_enums option of the compiler;   *)
(* S = named deviations switched on (S = {} is the mapping itself).        *)
(*                                                                         *)
(*   DevJerMinusZeroAsNumber   (jer.Real.encode)  X.697 writes REAL minus  *)
(*       zero as the JSON string "-0"; the implementation writes the JSON  *)
(*       number -0.0.  Harmless for C02: still JSON, still read back as    *)
(*       minus zero (JerBenign).                                           *)
(*   DevJerBitsExtSizeAsFixed  (jer.BitString.__init__)  a BIT STRING with *)
(*       SIZE (n, ...) is treated like SIZE (n): the length is not         *)
(*       written, so a value of another length cannot be read back.        *)
(***************************************************************************)
EXTENDS TextCommon

JStr(cps) == [j |-> "str", s |-> cps]
JNumI(a) == [j |-> "num", k |-> "i", int |-> a, fl |-> NoFl]
JNumF(x) == [j |-> "num", k |-> "f", int |-> Zero, fl |-> x]
JBool(b) == [j |-> "bool", b |-> b]
JNull == [j |-> "null"]
JObj(ks, vs) == [j |-> "obj", ks |-> ks, vs |-> vs]
JArr(vs) == [j |-> "arr", vs |-> vs]

JerDevs == <<"DevJerMinusZeroAsNumber", "DevJerBitsExtSizeAsFixed">>
JerBenign == {"DevJerMinusZeroAsNumber"}

JEnumNumber(T, name) == LET items == AllAlts(T) IN items[MemberIndex(items, name)].v

------------------------------------------------------------------------------
(* the mapping, one operator per type clause                                *)

\* BIT STRING: a type whose size constraint fixes one length and is not
\* extensible is written as the hexadecimal string alone; every other BIT
\* STRING as an object with the members "value" and "length"
JBitsFixed(T, S) ==
  /\ T.sz.f = "R" /\ ~T.sz.ubinf /\ T.sz.lb = T.sz.ub
  /\ (~T.sz.ext \/ "DevJerBitsExtSizeAsFixed" \in S)

JerBitString(T, v, S) ==
  IF JBitsFixed(T, S) THEN JStr(HexUpper(v.b))
  ELSE JObj(<<"value", "length">>, <<JStr(HexUpper(v.b)), JNumI(FromInt(v.n))>>)

\* OCTET STRING: hexadecimal string, two upper-case digits per octet
JerOctetString(v) == JStr(HexUpper(v))

\* REAL: special values as strings, every other value as a JSON number
JerReal(v, S) ==
  CASE v.c = "PINF" -> JStr(StrCps("INF"))
    [] v.c = "NINF" -> JStr(StrCps("-INF"))
    [] v.c = "NAN" -> JStr(StrCps("NaN"))
    [] v.c = "NZ" /\ "DevJerMinusZeroAsNumber" \notin S -> JStr(StrCps("-0"))
    [] OTHER -> JNumF(v)

\* ENUMERATED: the identifier as a string; its number under numeric_enums
JerEnumerated(T, v, ne) == IF ne THEN JNumI(FromInt(JEnumNumber(T, v))) ELSE JStr(StrCps(v))

RECURSIVE JerTree(_, _, _, _, _)
JerTree(env, T, v, ne, S) ==
  CASE T.k = "REF" -> JerTree(env, env.types[T.name], v, ne, S)
    [] T.k = "BOOL" -> JBool(v)
    [] T.k = "NULL" -> JNull
    [] T.k = "INT" -> JNumI(v)
    [] T.k = "ENUM" -> JerEnumerated(T, v, ne)
    [] T.k = "REAL" -> JerReal(v, S)
    [] T.k = "BITS" -> JerBitString(T, v, S)
    [] T.k = "OCTS" -> JerOctetString(v)
    [] T.k = "STR" -> JStr(v)
    [] T.k = "OID" -> JStr(OidText(v))
    \* SEQUENCE / SET: an object with one member per *present* component
    \* (a component that is present is written even if it equals its DEFAULT)
    [] T.k \in {"SEQ", "SET"} ->
         LET ms == AllMembers(T)
             pres == SelectSeq([i \in 1..Len(ms) |-> i], LAMBDA i : v[ms[i].n].p)
         IN JObj(Force([h \in 1..Len(pres) |-> ms[pres[h]].n]),
                 Force([h \in 1..Len(pres) |-> JerTree(env, ms[pres[h]].t, v[ms[pres[h]].n].v, ne, S)]))
    \* CHOICE: an object with the single member <alternative name>
    [] T.k = "CHOICE" ->
         LET alts == AllAlts(T)
         IN JObj(<<v.a>>, <<JerTree(env, alts[MemberIndex(alts, v.a)].t, v.v, ne, S)>>)
    \* SEQUENCE OF / SET OF: an array
    [] T.k \in {"SEQOF", "SETOF"} ->
         JArr(Force([i \in 1..Len(v) |-> JerTree(env, T.e, v[i], ne, S)]))

------------------------------------------------------------------------------
(* does a recorded tree r equal the tree e of the mapping?  Object members   *)
(* may come in any order (RFC 8259: an object is unordered); a number is     *)
(* compared by value: integers exactly, REAL by the recorded double          *)
(* (strict = FALSE leaves the double of a REAL leaf to JerRealPairs).        *)

JNumMatch(e, r, strict) ==
  IF e.k = "i" THEN r.k = "i" /\ Eq(e.int, r.int)
  ELSE ~strict \/ (IF r.k = "f" THEN RealEq(e.fl, r.fl) ELSE RealEq(e.fl, IntAsReal(r.int)))

RECURSIVE JerMatch(_, _, _)
JerMatch(e, r, strict) ==
  /\ e.j = r.j
  /\ CASE e.j = "obj" ->
            /\ Len(e.ks) = Len(r.ks)
            /\ \A i \in 1..Len(e.ks) : \E h \in 1..Len(r.ks) :
                  r.ks[h] = e.ks[i] /\ JerMatch(e.vs[i], r.vs[h], strict)
       [] e.j = "arr" ->
            /\ Len(e.vs) = Len(r.vs)
            /\ \A i \in 1..Len(e.vs) : JerMatch(e.vs[i], r.vs[i], strict)
       [] e.j = "str" -> e.s = r.s
       [] e.j = "bool" -> e.b = r.b
       [] e.j = "null" -> TRUE
       [] e.j = "num" -> JNumMatch(e, r, strict)

\* the REAL number leaves of a tree e with what was recorded in their place
\* (for trees with JerMatch(e, r, FALSE)): Seq(<<expected double, recorded node>>)
RECURSIVE JerRealPairs(_, _)
JerRealPairs(e, r) ==
  CASE e.j = "obj" ->
         Concat([i \in 1..Len(e.ks) |->
            LET h == CHOOSE h \in 1..Len(r.ks) : r.ks[h] = e.ks[i] /\ JerMatch(e.vs[i], r.vs[h], FALSE)
            IN JerRealPairs(e.vs[i], r.vs[h])])
    [] e.j = "arr" -> Concat([i \in 1..Len(e.vs) |-> JerRealPairs(e.vs[i], r.vs[i])])
    [] e.j = "num" /\ e.k = "f" -> << <<e.fl, r>> >>
    [] OTHER -> <<>>

JerRealLeafOk(pair) ==
  LET x == pair[1]  r == pair[2]
  IN IF r.k = "f" THEN RealEq(x, r.fl) ELSE RealEq(x, IntAsReal(r.int))

------------------------------------------------------------------------------
(* a type-directed reader of JSON trees: [ok, v, why]                       *)

JFail(why) == [ok |-> FALSE, v |-> "NULL", why |-> why]
JOk(v) == [ok |-> TRUE, v |-> v, why |-> ""]

JFirstWhy(rs) == rs[CHOOSE i \in 1..Len(rs) : ~rs[i].ok].why

JReadBits(T, n, S) ==
  IF JBitsFixed(T, S)
  THEN IF n.j # "str" THEN JFail("BIT STRING: expected a string")
       ELSE LET h == HexToOctets(n.s) IN
            IF h.ok /\ Len(h.v) = (T.sz.lb + 7) \div 8 THEN JOk([n |-> T.sz.lb, b |-> h.v])
            ELSE JFail("BIT STRING: bad hexadecimal string")
  ELSE IF n.j # "obj" \/ Len(n.ks) # 2 THEN JFail("BIT STRING: expected {value, length}")
  ELSE IF ~(\E a, b \in 1..2 : n.ks[a] = "value" /\ n.ks[b] = "length") THEN JFail("BIT STRING: expected {value, length}")
  ELSE LET val == n.vs[CHOOSE a \in 1..2 : n.ks[a] = "value"]
           len == n.vs[CHOOSE b \in 1..2 : n.ks[b] = "length"]
       IN IF val.j # "str" \/ len.j # "num" THEN JFail("BIT STRING: value/length of the wrong kind")
          ELSE IF len.k # "i" \/ len.int.neg \/ ~FitsInt(len.int) THEN JFail("BIT STRING: bad length")
          ELSE LET h == HexToOctets(val.s)  nb == ToInt(len.int) IN
               IF h.ok /\ Len(h.v) = (nb + 7) \div 8 THEN JOk([n |-> nb, b |-> h.v])
               ELSE JFail("BIT STRING: value does not have length bits")

JSpecialReal(c) == [c |-> c, s |-> 0, m |-> <<>>, e |-> 0]

JReadReal(n) ==
  IF n.j = "str"
  THEN (CASE n.s = StrCps("INF") -> JOk(JSpecialReal("PINF"))
          [] n.s = StrCps("-INF") -> JOk(JSpecialReal("NINF"))
          [] n.s = StrCps("NaN") -> JOk(JSpecialReal("NAN"))
          [] n.s = StrCps("-0") -> JOk(JSpecialReal("NZ"))
          [] OTHER -> JFail("REAL: unknown special value"))
  ELSE IF n.j = "num"
  THEN (IF n.k = "i" THEN JOk(IntAsReal(n.int))
        ELSE IF n.fl.c \in {"F", "Z", "NZ"} THEN JOk(n.fl)
        ELSE JFail("REAL: number is not a finite double"))
  ELSE JFail("REAL: expected a number or a string")

RECURSIVE JerRead(_, _, _, _, _)
JerRead(env, T, n, ne, S) ==
  CASE T.k = "REF" -> JerRead(env, env.types[T.name], n, ne, S)
    [] T.k = "BOOL" -> IF n.j = "bool" THEN JOk(n.b) ELSE JFail("BOOLEAN: expected true/false")
    [] T.k = "NULL" -> IF n.j = "null" THEN JOk("NULL") ELSE JFail("NULL: expected null")
    [] T.k = "INT" -> IF n.j = "num" /\ n.k = "i" THEN JOk(n.int) ELSE JFail("INTEGER: expected an integer number")
    [] T.k = "ENUM" ->
         LET items == AllAlts(T)
             hit == IF ne THEN SelectSeq(items, LAMBDA it : n.j = "num" /\ n.k = "i" /\ Eq(n.int, FromInt(it.v)))
                    ELSE SelectSeq(items, LAMBDA it : n.j = "str" /\ n.s = StrCps(it.n))
         IN IF hit # <<>> THEN JOk(hit[1].n) ELSE JFail("ENUMERATED: not an item of the type")
    [] T.k = "REAL" -> JReadReal(n)
    [] T.k = "BITS" -> JReadBits(T, n, S)
    [] T.k = "OCTS" ->
         IF n.j # "str" THEN JFail("OCTET STRING: expected a string")
         ELSE LET h == HexToOctets(n.s) IN IF h.ok THEN JOk(h.v) ELSE JFail("OCTET STRING: bad hexadecimal string")
    [] T.k = "STR" -> IF n.j = "str" THEN JOk(n.s) ELSE JFail("string: expected a string")
    [] T.k = "OID" ->
         IF n.j # "str" THEN JFail("OBJECT IDENTIFIER: expected a string")
         ELSE LET o == OidFromText(n.s) IN IF o.ok THEN JOk(o.v) ELSE JFail("OBJECT IDENTIFIER: bad form")
    [] T.k \in {"SEQ", "SET"} ->
         IF n.j # "obj" THEN JFail("SEQUENCE: expected an object")
         ELSE LET ms == AllMembers(T)
                  at(name) == SelectSeq([h \in 1..Len(n.ks) |-> h], LAMBDA h : n.ks[h] = name)
                  known == \A h \in 1..Len(n.ks) : HasMember(ms, n.ks[h])
                  uniq == \A i \in 1..Len(ms) : Len(at(ms[i].n)) <= 1
                  mand == \A i \in 1..Len(ms) : (ms[i].q = "M" /\ i <= Len(T.root)) => at(ms[i].n) # <<>>
                  rs == Force([i \in 1..Len(ms) |->
                          IF at(ms[i].n) = <<>> THEN JOk("NULL")
                          ELSE JerRead(env, ms[i].t, n.vs[at(ms[i].n)[1]], ne, S)])
              IN IF ~(known /\ uniq /\ mand) THEN JFail("SEQUENCE: unknown, repeated or missing member")
                 ELSE IF \E i \in 1..Len(rs) : ~rs[i].ok THEN JFail(JFirstWhy(rs))
                 ELSE JOk([nm \in {ms[i].n : i \in 1..Len(ms)} |->
                             LET i == MemberIndex(ms, nm)
                             IN IF at(nm) = <<>> THEN Absent ELSE Present(rs[i].v)])
    [] T.k = "CHOICE" ->
         LET alts == AllAlts(T) IN
         IF n.j # "obj" \/ Len(n.ks) # 1 THEN JFail("CHOICE: expected an object with one member")
         ELSE IF ~HasMember(alts, n.ks[1]) THEN JFail("CHOICE: unknown alternative")
         ELSE LET r == JerRead(env, alts[MemberIndex(alts, n.ks[1])].t, n.vs[1], ne, S)
              IN IF r.ok THEN JOk([a |-> n.ks[1], v |-> r.v]) ELSE r
    [] T.k \in {"SEQOF", "SETOF"} ->
         IF n.j # "arr" THEN JFail("SEQUENCE OF: expected an array")
         ELSE LET rs == Force([i \in 1..Len(n.vs) |-> JerRead(env, T.e, n.vs[i], ne, S)])
              IN IF \E i \in 1..Len(rs) : ~rs[i].ok THEN JFail(JFirstWhy(rs))
                 ELSE JOk([i \in 1..Len(rs) |-> rs[i].v])

\* every character of every string in v : T is a Unicode scalar value
JerRepresentable(env, T, v) ==
  ~TxAnyLeaf(env, T, v, LAMBDA t, x : t.k = "STR" /\ \E i \in 1..Len(x) : ~ScalarValue(x[i]))

=============================================================================
