-------------------------------- MODULE X696 --------------------------------
(***************************************************************************)
(* ITU-T X.696: Basic Octet Encoding Rules (OER), one operator per clause.  *)
(* OerEnc(env, T, v, S) is the octet string of v : T;  S = set of named     *)
(* deviations switched on (Profile.tla), S = {} is the standard.           *)
(* Where Basic-OER leaves the sender an option (non-minimal lengths,        *)
(* DEFAULT values present or absent) the canonical form is produced.        *)
(***************************************************************************)
EXTENDS X691

------------------------------------------------------------------------------
(* 8.6 length determinant; 8.7 tags                                         *)

OerLength(n) ==
  IF n < 128 THEN <<n>>
  ELSE LET k == NatOctetLen(n) IN <<128 + k>> \o NatToOctets(n, k)

WithOerLength(octs) == OerLength(Len(octs)) \o octs

\* 8.7: class in bits 8-7, number in bits 6-1 if < 63, else 63 and base-128 octets
OerTag(tg) ==
  LET lead == ClassBits(tg.cls)
  IN IF tg.num < 63 THEN <<lead + tg.num>> ELSE <<lead + 63>> \o Base128(tg.num)

------------------------------------------------------------------------------
(* 10 INTEGER                                                               *)

\* OER-visible effective value constraint: extensible constraints are not visible (8.2.4)
OerIntCon(c, S) ==
  IF c.f = "R" /\ c.ext /\ "DevOerExtensibleIntConstraintVisible" \notin S THEN [f |-> "N"] ELSE c

B8(k) == TwoTo(k)

EncOerInteger(T, v, S) ==
  LET c == OerIntCon(T.con, S) IN
  IF c.f = "N" \/ c.lbinf THEN WithOerLength(TwosOctets(v))                                   \* 10.4 b) signed, variable
  ELSE IF ~c.lb.neg                                                                          \* 10.2: lower bound >= 0
       THEN (IF c.ubinf THEN WithOerLength(UnsignedOctets(v))                                \* 10.3 b) unsigned, variable
             ELSE IF Leq(c.ub, FromInt(255)) THEN UnsignedFixed(v, 1)
             ELSE IF Leq(c.ub, FromInt(65535)) THEN UnsignedFixed(v, 2)
             ELSE IF Lt(c.ub, B8(32)) THEN UnsignedFixed(v, 4)
             ELSE IF Lt(c.ub, B8(64)) THEN UnsignedFixed(v, 8)
             ELSE WithOerLength(UnsignedOctets(v)))
  ELSE                                                                                       \* 10.4: negative lower bound
       (IF c.ubinf THEN WithOerLength(TwosOctets(v))
        ELSE IF Leq(FromInt(-128), c.lb) /\ Leq(c.ub, FromInt(127)) THEN TwosFixed(v, 1)
        ELSE IF Leq(FromInt(-32768), c.lb) /\ Leq(c.ub, FromInt(32767)) THEN TwosFixed(v, 2)
        ELSE IF Leq(Neg(B8(31)), c.lb) /\ Lt(c.ub, B8(31)) THEN TwosFixed(v, 4)
        ELSE IF Leq(Neg(B8(63)), c.lb) /\ Lt(c.ub, B8(63)) THEN TwosFixed(v, 8)
        ELSE WithOerLength(TwosOctets(v)))

------------------------------------------------------------------------------
(* 11 ENUMERATED                                                            *)

EncOerEnumerated(T, v) ==
  LET n == EnumNumber(T, v) IN
  IF n >= 0 /\ n <= 127 THEN <<n>>                                       \* 11.2 short form
  ELSE LET octs == TwosOctets(FromInt(n)) IN <<128 + Len(octs)>> \o octs  \* 11.3 long form

------------------------------------------------------------------------------
(* 13 BIT STRING, 14 OCTET STRING, 27 restricted character strings          *)

OerFixedSize(sz) == sz.f = "R" /\ ~sz.ext /\ ~sz.ubinf /\ sz.lb = sz.ub

\* OptOerNamedBitsAsGiven is an encoder's option of Basic-OER, not a deviation: a named-bit
\* string may be sent with the trailing 0 bits the application supplied
EncOerBitString(T, v, S) ==
  LET w == IF T.nb # <<>> /\ ~OerFixedSize(T.sz) /\ "OptOerNamedBitsAsGiven" \notin S THEN TrimBits(v) ELSE v      \* 13.3 + X.680 22.7
  IN IF OerFixedSize(T.sz) THEN w.b                                          \* 13.1
     ELSE WithOerLength(<<(8 - (w.n % 8)) % 8>> \o w.b)                       \* 13.2

EncOerOctetString(T, v) ==
  IF OerFixedSize(T.sz) THEN v ELSE WithOerLength(v)                         \* 14

OerCharWidth(st) ==
  CASE st \in {"Numeric", "Printable", "Visible", "IA5", "Teletex", "Graphic", "General"} -> 1
    [] st = "BMP" -> 2 [] st = "Universal" -> 4 [] OTHER -> 0            \* 0: no fixed multiplier (UTF8String)

EncOerString(T, v, S) ==
  LET octs == StringContents(T.st, v)
      fixed == /\ OerFixedSize(T.sz)
               \* DevOerFixedSizeByCharCount: UTF8String (SIZE (n)) is sent without a length (n counted
               \* in characters) while BMPString / UniversalString (SIZE (n)) get a length
               /\ IF "DevOerFixedSizeByCharCount" \in S THEN OerCharWidth(T.st) \in {0, 1}
                  ELSE OerCharWidth(T.st) > 0
  IN IF fixed THEN octs ELSE WithOerLength(octs)                            \* 27.2 / 27.3

------------------------------------------------------------------------------
(* 12 REAL (no WITH COMPONENTS restriction in the descriptor: 12.4)          *)

EncOerReal(v) == WithOerLength(RealContents(v))

------------------------------------------------------------------------------
(* constructed types                                                        *)

RECURSIVE OerEnc(_, _, _, _)

\* 16.2.x: in BASIC-OER it is the sender's option whether a component whose value equals its DEFAULT is
\* encoded (CANONICAL-OER: never).  OptOerDefaultEquivalentEncoded is that option taken for values that
\* are equal to the default as abstract values but not written like it (named bits with trailing 0 bits,
\* SET OF in another order ...); it is an encoder's option, not a deviation.
OerMemberIsEncoded(env, m, v, S) ==
  /\ v[m.n].p
  /\ ~(m.q = "D" /\ (IF "OptOerDefaultEquivalentEncoded" \in S THEN v[m.n].v = m.d
                                                                ELSE AbsEq(env, m.t, v[m.n].v, m.d)))

OerMembers(env, ms, v, S) ==
  Concat([i \in 1..Len(ms) |->
     IF OerMemberIsEncoded(env, ms[i], v, S) THEN OerEnc(env, ms[i].t, v[ms[i].n].v, S) ELSE <<>>])

\* 16.2 preamble: extension bit, one bit per OPTIONAL/DEFAULT root component, zero padded
OerPreambleBits(env, ms, v, S) ==
  LET opt == SelectSeq(ms, LAMBDA m : m.q # "M")
  IN [i \in 1..Len(opt) |-> IF OerMemberIsEncoded(env, opt[i], v, S) THEN 1 ELSE 0]

EncOerSequence(env, T, v, S) ==
  LET order == IF T.k = "SET" /\ "DevOerSetTextualOrder" \notin S THEN CanonicalOrder(env, T) ELSE [i \in 1..Len(T.root) |-> i]
      root == [i \in 1..Len(order) |-> DevMember(env, T.root[order[i]], S)]
      ext == IsExt(env, T)
      \* DevOerGroupsFlattened: every member of an addition group counts as an addition of its own
      adds == IF "DevOerGroupsFlattened" \in S
              THEN LET ms == AddMembers(T.adds) IN [i \in 1..Len(ms) |-> [g |-> FALSE, m |-> ms[i], ms |-> <<>>]]
              ELSE T.adds
      addPresent(a) == IF a.g THEN \E h \in 1..Len(a.ms) : v[a.ms[h].n].p ELSE v[a.m.n].p
      anyAdd == \E i \in 1..Len(adds) : addPresent(adds[i])
      addEnc(a) == IF a.g
                   THEN LET gms == [h \in 1..Len(a.ms) |-> DevMember(env, a.ms[h], S)]
                            pre == OerPreambleBits(env, gms, v, S)
                        IN WithOerLength((IF pre = <<>> THEN <<>> ELSE BitsToBytes(pre)) \o OerMembers(env, gms, v, S))
                   ELSE WithOerLength(OerEnc(env, a.m.t, v[a.m.n].v, S))
      bitmap == [i \in 1..Len(adds) |-> IF addPresent(adds[i]) THEN 1 ELSE 0]
      additions ==
        IF ~anyAdd THEN <<>>
        ELSE WithOerLength(<<(8 - (Len(bitmap) % 8)) % 8>> \o BitsToBytes(bitmap))           \* 16.4.3
             \o Concat([i \in 1..Len(adds) |-> IF addPresent(adds[i]) THEN addEnc(adds[i]) ELSE <<>>])
      pbits == (IF ext THEN <<IF anyAdd THEN 1 ELSE 0>> ELSE <<>>) \o OerPreambleBits(env, root, v, S)
  IN (IF pbits = <<>> THEN <<>> ELSE BitsToBytes(pbits))
     \o OerMembers(env, root, v, S)
     \o additions

\* 17 SEQUENCE OF / 19 SET OF: quantity (length-prefixed unsigned integer) then the elements
EncOerSequenceOf(env, T, v, S) ==
  WithOerLength(NatToMinOctets(Len(v))) \o Concat([i \in 1..Len(v) |-> OerEnc(env, T.e, v[i], S)])

\* 20 CHOICE: the outermost tag of the chosen alternative, then the value
\* (an extension alternative as an open type)
EncOerChoice(env, T, v, S) ==
  LET alts == AllAlts(T)
      i == MemberIndex(alts, v.a)
      tg == MinTag(OuterTags(env, ComponentType(env, T, i)))
      body == OerEnc(env, alts[i].t, v.v, S)
  IN OerTag(tg) \o (IF i > Len(T.root) THEN WithOerLength(body) ELSE body)

OerEnc(env, T, v, S) ==
  CASE T.k = "REF" -> OerEnc(env, env.types[T.name], v, S)
    [] T.k = "BOOL" -> <<IF v THEN 255 ELSE 0>>                        \* 9
    [] T.k = "NULL" -> <<>>                                            \* 15
    [] T.k = "INT" -> EncOerInteger(T, v, S)
    [] T.k = "ENUM" -> EncOerEnumerated(T, v)
    [] T.k = "REAL" -> EncOerReal(v)
    [] T.k = "OID" -> WithOerLength(OidContents(v))                     \* 21
    [] T.k = "BITS" -> EncOerBitString(T, v, S)
    [] T.k = "OCTS" -> EncOerOctetString(T, v)
    [] T.k = "STR" -> EncOerString(T, v, S)
    [] T.k \in {"SEQ", "SET"} -> EncOerSequence(env, T, v, S)
    [] T.k \in {"SEQOF", "SETOF"} -> EncOerSequenceOf(env, T, v, S)
    [] T.k = "CHOICE" -> EncOerChoice(env, T, v, S)

OerEncode(env, T, v, S) == OerEnc(env, T, v, S)

=============================================================================
