-------------------------------- MODULE Bits --------------------------------
(***************************************************************************)
(* Bit strings (Seq({0,1}), most significant bit first) and octet strings  *)
(* (Seq(0..255)).  Every per-element operator is a function constructor or *)
(* a Java-backed fold, never a recursive definition, so 70 000-octet       *)
(* payloads do not overflow TLC's evaluation stack.                        *)
(***************************************************************************)
EXTENDS Integers, Sequences, SequencesExt, BigInt

\* concatenation of a sequence of sequences, divide and conquer: O(n log n)
\* copying instead of the O(n^2) of a left fold (70 000-element lists)
RECURSIVE CatDC(_, _, _)
CatDC(ss, lo, hi) ==
  IF lo > hi THEN <<>>
  ELSE IF lo = hi THEN ss[lo]
  ELSE LET mid == (lo + hi) \div 2 IN CatDC(ss, lo, mid) \o CatDC(ss, mid + 1, hi)

Concat(seqs) == LET ss == seqs \o <<>> IN CatDC(ss, 1, Len(ss))

\* TLC evaluates [i \in S |-> e] lazily and re-evaluates e on every application;
\* Force turns it into an explicit tuple (evaluated once)
Force(f) == f \o <<>>

Rep(x, n) == [i \in 1..n |-> x]
Zeros(n) == Rep(0, n)

BytesToBits(bs) ==
  [i \in 1..(8 * Len(bs)) |-> (bs[(i - 1) \div 8 + 1] \div Pow2(7 - ((i - 1) % 8))) % 2]

\* pad with zero bits up to an octet boundary, then pack
BitsToBytes(bits) ==
  LET n  == Len(bits)
      nb == (n + 7) \div 8
      pb == bits \o Zeros(8 * nb - n)
  IN [j \in 1..nb |->
        pb[8*j-7] * 128 + pb[8*j-6] * 64 + pb[8*j-5] * 32 + pb[8*j-4] * 16 +
        pb[8*j-3] * 8 + pb[8*j-2] * 4 + pb[8*j-1] * 2 + pb[8*j]]

\* w-bit big-endian field of a small natural (0 <= n < 2^w, w <= 30)
NatToBits(n, w) == [i \in 1..w |-> (n \div Pow2(w - i)) % 2]

BitsToNat(bits) == FoldLeft(LAMBDA acc, b : acc * 2 + b, 0, bits)   \* Len <= 30

\* number of bits needed to write n (0 -> 0)
NatBitLen(n) == MagBitLen(MagFromNat(n))

\* minimal number of octets to hold the unsigned number n (0 -> 1)
NatOctetLen(n) == IF n = 0 THEN 1 ELSE (NatBitLen(n) + 7) \div 8

NatToOctets(n, k) == MagPad(MagFromNat(n), k)
NatToMinOctets(n) == NatToOctets(n, NatOctetLen(n))
OctetsToNat(os) == MagToNat(MagNorm(os))

PadBitsToOctet(bits) == bits \o Zeros((8 - (Len(bits) % 8)) % 8)

Take(s, n) == SubSeq(s, 1, n)
Drop(s, n) == SubSeq(s, n + 1, Len(s))

Max2(a, b) == IF a > b THEN a ELSE b
Min2(a, b) == IF a < b THEN a ELSE b

\* lexicographic comparison of octet strings, shorter-is-smaller on common prefix
SeqCmp(a, b) ==
  LET n == Min2(Len(a), Len(b))
  IN IF \A i \in 1..n : a[i] = b[i]
     THEN (IF Len(a) < Len(b) THEN -1 ELSE IF Len(a) > Len(b) THEN 1 ELSE 0)
     ELSE LET k == CHOOSE i \in 1..n : a[i] # b[i] /\ \A j \in 1..(i-1) : a[j] = b[j]
          IN IF a[k] < b[k] THEN -1 ELSE 1

\* X.690 11.6: compare as if the shorter were padded with trailing 0 octets
SeqCmpPadded(a, b) ==
  LET n == Max2(Len(a), Len(b))
      pa == a \o Zeros(n - Len(a))
      pb == b \o Zeros(n - Len(b))
  IN SeqCmp(pa, pb)

\* stable insertion sort of a sequence by a comparison returning -1/0/1
InsSort(s, cmp(_, _)) ==
  LET ins(acc, x) ==
        LET k == IF \E i \in 1..Len(acc) : cmp(acc[i], x) > 0     \* first element greater than x
                 THEN CHOOSE i \in 1..Len(acc) : cmp(acc[i], x) > 0 /\ \A j \in 1..(i-1) : cmp(acc[j], x) <= 0
                 ELSE Len(acc) + 1
        IN SubSeq(acc, 1, k - 1) \o <<x>> \o SubSeq(acc, k, Len(acc))
  IN FoldLeft(ins, <<>>, s)

=============================================================================
