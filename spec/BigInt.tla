------------------------------- MODULE BigInt -------------------------------
(***************************************************************************)
(* Arbitrary-precision integers under TLC's limits (TLC integers are 32    *)
(* bit, JsonDeserialize mangles numbers >= 2^31).                          *)
(*                                                                         *)
(* A BigInt is  [neg |-> BOOLEAN, mag |-> Seq(0..255)]  with the magnitude  *)
(* as big-endian base-256 limbs, no leading zero limb, zero = (FALSE,<<>>). *)
(* Every ASN.1 INTEGER value and bound in the specification is a BigInt,   *)
(* so 2^32, 2^63, 2^64 boundaries are ordinary values.                     *)
(***************************************************************************)
EXTENDS Integers, Sequences, SequencesExt, TLC

Pow2(n) == 2 ^ n        \* only used for n <= 30

------------------------------------------------------------------------------
(* magnitudes                                                               *)

MagNorm(m) ==
  IF \A i \in 1..Len(m) : m[i] = 0 THEN <<>>
  ELSE LET k == CHOOSE i \in 1..Len(m) : m[i] # 0 /\ \A j \in 1..(i-1) : m[j] = 0
       IN SubSeq(m, k, Len(m))

MagPad(m, n) == [i \in 1..(n - Len(m)) |-> 0] \o m        \* n >= Len(m)

MagCmp(a, b) ==                                          \* normalised inputs
  IF Len(a) # Len(b) THEN (IF Len(a) < Len(b) THEN -1 ELSE 1)
  ELSE IF a = b THEN 0
  ELSE LET k == CHOOSE i \in 1..Len(a) : a[i] # b[i] /\ \A j \in 1..(i-1) : a[j] = b[j]
       IN IF a[k] < b[k] THEN -1 ELSE 1

\* least-significant-limb-first fold with carry; state = <<result, carry>>
MagAdd(a, b) ==
  LET n  == (IF Len(a) > Len(b) THEN Len(a) ELSE Len(b)) + 1
      pa == MagPad(a, n)
      pb == MagPad(b, n)
      step(st, i) == LET s == pa[i] + pb[i] + st[2]
                     IN <<(<<s % 256>>) \o st[1], s \div 256>>
      r  == FoldLeft(step, <<(<<>>), 0>>, [j \in 1..n |-> n + 1 - j])
  IN MagNorm(r[1])

MagSub(a, b) ==                                          \* requires a >= b
  LET n  == Len(a)
      pb == MagPad(b, n)
      step(st, i) == LET d == a[i] - pb[i] - st[2]
                     IN IF d < 0 THEN <<(<<d + 256>>) \o st[1], 1>>
                                 ELSE <<(<<d>>) \o st[1], 0>>
      r  == FoldLeft(step, <<(<<>>), 0>>, [j \in 1..n |-> n + 1 - j])
  IN MagNorm(r[1])

MagFromNat(n) ==                                         \* 0 <= n < 2^31
  MagNorm(<<(n \div 16777216) % 256, (n \div 65536) % 256, (n \div 256) % 256, n % 256>>)

MagFitsNat(m) == Len(m) < 4 \/ (Len(m) = 4 /\ m[1] < 128)

MagToNat(m) == FoldLeft(LAMBDA acc, x : acc * 256 + x, 0, m)   \* requires MagFitsNat

BitLen8(x) == IF x >= 128 THEN 8 ELSE IF x >= 64 THEN 7 ELSE IF x >= 32 THEN 6
              ELSE IF x >= 16 THEN 5 ELSE IF x >= 8 THEN 4 ELSE IF x >= 4 THEN 3
              ELSE IF x >= 2 THEN 2 ELSE IF x >= 1 THEN 1 ELSE 0

MagBitLen(m) == IF m = <<>> THEN 0 ELSE 8 * (Len(m) - 1) + BitLen8(m[1])

\* big-endian bit string of exactly n bits (n >= MagBitLen(m))
MagToBits(m, n) ==
  LET L == 8 * Len(m)
      all == [i \in 1..L |-> (m[(i - 1) \div 8 + 1] \div Pow2(7 - ((i - 1) % 8))) % 2]
  IN IF n >= L THEN [i \in 1..(n - L) |-> 0] \o all
               ELSE SubSeq(all, L - n + 1, L)

MagFromBits(bits) ==
  LET n  == Len(bits)
      nb == (n + 7) \div 8
      pb == [i \in 1..(8 * nb - n) |-> 0] \o bits
  IN MagNorm([j \in 1..nb |->
        pb[8*j-7] * 128 + pb[8*j-6] * 64 + pb[8*j-5] * 32 + pb[8*j-4] * 16 +
        pb[8*j-3] * 8 + pb[8*j-2] * 4 + pb[8*j-1] * 2 + pb[8*j]])

\* 2^(8n) as a magnitude
MagPow256(n) == <<1>> \o [i \in 1..n |-> 0]

------------------------------------------------------------------------------
(* signed                                                                   *)

Zero == [neg |-> FALSE, mag |-> <<>>]
Mk(neg, mag) == IF mag = <<>> THEN Zero ELSE [neg |-> neg, mag |-> mag]
IsZero(a) == a.mag = <<>>
FromInt(n) == IF n < 0 THEN Mk(TRUE, MagFromNat(-n)) ELSE Mk(FALSE, MagFromNat(n))
FitsInt(a) == MagFitsNat(a.mag)
ToInt(a) == IF a.neg THEN -MagToNat(a.mag) ELSE MagToNat(a.mag)
Neg(a) == Mk(~a.neg, a.mag)

Cmp(a, b) ==
  IF a.neg /\ ~b.neg THEN -1
  ELSE IF ~a.neg /\ b.neg THEN 1
  ELSE IF a.neg THEN MagCmp(b.mag, a.mag) ELSE MagCmp(a.mag, b.mag)

Leq(a, b) == Cmp(a, b) <= 0
Lt(a, b)  == Cmp(a, b) < 0
Eq(a, b)  == Cmp(a, b) = 0

Add(a, b) ==
  IF a.neg = b.neg THEN Mk(a.neg, MagAdd(a.mag, b.mag))
  ELSE IF MagCmp(a.mag, b.mag) >= 0 THEN Mk(a.neg, MagSub(a.mag, b.mag))
  ELSE Mk(b.neg, MagSub(b.mag, a.mag))

Sub(a, b) == Add(a, Neg(b))
One == FromInt(1)
Succ(a) == Add(a, One)
Pred(a) == Sub(a, One)

IsBigInt(a) ==
  /\ DOMAIN a = {"neg", "mag"}
  /\ a.neg \in BOOLEAN
  /\ \A i \in 1..Len(a.mag) : a.mag[i] \in 0..255
  /\ (a.mag # <<>> => a.mag[1] # 0)
  /\ (a.mag = <<>> => ~a.neg)

------------------------------------------------------------------------------
(* two's complement                                                         *)

\* number of octets of the minimal two's-complement form (X.690 8.3.2)
TwosLen(a) ==
  IF IsZero(a) THEN 1
  ELSE IF ~a.neg THEN (IF a.mag[1] >= 128 THEN Len(a.mag) + 1 ELSE Len(a.mag))
  ELSE \* negative: need mag <= 2^(8n-1)
       LET n == Len(a.mag)
           half == <<128>> \o [i \in 1..(n - 1) |-> 0]          \* 2^(8n-1)
       IN IF MagCmp(a.mag, half) <= 0 THEN n ELSE n + 1

\* n-octet two's complement (n >= TwosLen(a))
TwosFixed(a, n) ==
  IF ~a.neg THEN MagPad(a.mag, n)
  ELSE MagPad(MagSub(MagPow256(n), a.mag), n)   \* 2^(8n) - mag has exactly n octets

TwosOctets(a) == TwosFixed(a, TwosLen(a))

FromTwos(octs) ==                                   \* Len(octs) >= 1
  IF octs[1] < 128 THEN Mk(FALSE, MagNorm(octs))
  ELSE Mk(TRUE, MagSub(MagPow256(Len(octs)), MagNorm(octs)))

\* unsigned big-endian octets, at least one octet
UnsignedOctets(a) == IF a.mag = <<>> THEN <<0>> ELSE a.mag
UnsignedFixed(a, n) == MagPad(a.mag, n)

\* 2^k as BigInt (k any natural)
TwoTo(k) == Mk(FALSE, MagFromBits(<<1>> \o [i \in 1..k |-> 0]))

=============================================================================
