----------------------------- MODULE ArrangeSem -----------------------------
(***************************************************************************)
(* What a specification text *means*, independently of how it is           *)
(* organised (X.680 clauses 13 (modules, IMPORTS), 16 (type assignment,    *)
(* references), 25.5 (COMPONENTS OF), 25.7-25.10 / 29 (automatic tagging), *)
(* 31 (tagged types)).                                                     *)
(*                                                                         *)
(* An arrangement is the abstract form of one or several module texts:     *)
(*   arr  = [mods : Seq(Module)]                 modules in textual order  *)
(*   Module = [name : STRING, td : "E"|"I"|"A",                            *)
(*             imp  : Seq([from : STRING, syms : Seq(STRING)]),            *)
(*             asg  : Seq([n : STRING, t : T])]   assignments in order     *)
(* T is a descriptor of Asn1Type.tla over the *local* names of its module, *)
(* plus one more member form:  [n |-> "-", q |-> "C", t |-> REF, d]  for    *)
(* `COMPONENTS OF Ref`.  The probe type is the assignment named "Top".     *)
(*                                                                         *)
(* Meaning(arr) is the probe type with every reference replaced by its     *)
(* definition, every tag given its concrete mode and every automatic tag   *)
(* written out: a finite tree (recursive types are unfolded down to        *)
(* CutDepth constructor levels).  Two texts that denote the same type have *)
(* the same Meaning, whatever the order of assignments and modules,        *)
(* wherever definitions live, whether a type is named or written inline.   *)
(* NFEnv(arr, S) is the same thing as an environment (recursive types stay *)
(* named) for the encoding rules of X690.tla.                              *)
(***************************************************************************)
EXTENDS Asn1Value, TLC

ProbeName == "Top"
CutDepth == 5

------------------------------------------------------------------------------
(* name resolution: own assignments first, then IMPORTS (X.680 13.15)       *)

ModIndex(arr, mname) == CHOOSE i \in 1..Len(arr.mods) : arr.mods[i].name = mname
HasMod(arr, mname) == \E i \in 1..Len(arr.mods) : arr.mods[i].name = mname
Defines(mod, n) == \E i \in 1..Len(mod.asg) : mod.asg[i].n = n
AsgIndex(mod, n) == CHOOSE i \in 1..Len(mod.asg) : mod.asg[i].n = n
InSeq(s, x) == \E h \in 1..Len(s) : s[h] = x
Imports(mod, n) == \E k \in 1..Len(mod.imp) : InSeq(mod.imp[k].syms, n)
ImportFrom(mod, n) == mod.imp[CHOOSE k \in 1..Len(mod.imp) : InSeq(mod.imp[k].syms, n)].from
Visible(mod, n) == Defines(mod, n) \/ Imports(mod, n)

\* index of the module whose assignment the name n denotes when written in module mi
Home(arr, mi, n) ==
  IF Defines(arr.mods[mi], n) THEN mi ELSE ModIndex(arr, ImportFrom(arr.mods[mi], n))

QN(mname, n) == mname \o "-" \o n
QName(arr, mi, n) == QN(arr.mods[Home(arr, mi, n)].name, n)

\* every reference a descriptor makes resolves (own module or a module that is present and defines it)
Resolvable(arr, mi, n) ==
  \/ Defines(arr.mods[mi], n)
  \/ /\ Imports(arr.mods[mi], n)
     /\ HasMod(arr, ImportFrom(arr.mods[mi], n))
     /\ Defines(arr.mods[ModIndex(arr, ImportFrom(arr.mods[mi], n))], n)

------------------------------------------------------------------------------
(* descriptor traversals (no references followed)                           *)

MapMembers(ms, f(_)) == [i \in 1..Len(ms) |-> [ms[i] EXCEPT !.t = f(ms[i].t)]]

RECURSIVE Qual(_, _, _)
\* the descriptor with every reference replaced by its module-qualified name
Qual(arr, mi, T) ==
  CASE T.k = "REF" -> [T EXCEPT !.name = QName(arr, mi, T.name)]
    [] T.k \in {"SEQ", "SET"} ->
         [T EXCEPT !.root = Force(MapMembers(T.root, LAMBDA t : Qual(arr, mi, t))),
                   !.adds = Force([a \in 1..Len(T.adds) |->
                              [T.adds[a] EXCEPT !.m = [T.adds[a].m EXCEPT !.t = Qual(arr, mi, T.adds[a].m.t)],
                                                !.ms = Force(MapMembers(T.adds[a].ms, LAMBDA t : Qual(arr, mi, t)))]])]
    [] T.k = "CHOICE" ->
         [T EXCEPT !.root = Force(MapMembers(T.root, LAMBDA t : Qual(arr, mi, t))),
                   !.adds = Force(MapMembers(T.adds, LAMBDA t : Qual(arr, mi, t)))]
    [] T.k \in {"SEQOF", "SETOF"} -> [T EXCEPT !.e = Qual(arr, mi, T.e)]
    [] OTHER -> T

RECURSIVE RefsOf(_)
\* names a descriptor refers to (including COMPONENTS OF sources)
RefsOf(T) ==
  CASE T.k = "REF" -> {T.name}
    [] T.k \in {"SEQ", "SET"} -> UNION {RefsOf(AllMembers(T)[i].t) : i \in 1..Len(AllMembers(T))}
    [] T.k = "CHOICE" -> UNION {RefsOf(AllAlts(T)[i].t) : i \in 1..Len(AllAlts(T))}
    [] T.k \in {"SEQOF", "SETOF"} -> RefsOf(T.e)
    [] OTHER -> {}

------------------------------------------------------------------------------
(* the global environment of an arrangement: qualified name -> definition  *)

AsgList(arr) ==
  Concat([i \in 1..Len(arr.mods) |->
     [j \in 1..Len(arr.mods[i].asg) |->
        [q |-> QN(arr.mods[i].name, arr.mods[i].asg[j].n), loc |-> arr.mods[i].asg[j].n,
         mi |-> i, mod |-> arr.mods[i].name, td |-> arr.mods[i].td,
         t |-> Qual(arr, i, arr.mods[i].asg[j].t)]]])

\* well-formed: distinct module names, distinct assignment names per module, every reference resolves
WfArr(arr) ==
  /\ \A i, j \in 1..Len(arr.mods) : i # j => arr.mods[i].name # arr.mods[j].name
  /\ \A i \in 1..Len(arr.mods) :
       LET m == arr.mods[i] IN
       /\ \A a, b \in 1..Len(m.asg) : a # b => m.asg[a].n # m.asg[b].n
       /\ \A a \in 1..Len(m.asg) : \A n \in RefsOf(m.asg[a].t) : Resolvable(arr, i, n)
       /\ \A k \in 1..Len(m.imp) : \A h \in 1..Len(m.imp[k].syms) : ~Defines(m, m.imp[k].syms[h])
  /\ Cardinality({i \in 1..Len(arr.mods) : Defines(arr.mods[i], ProbeName)}) = 1

\* G.types is an Asn1Type environment over qualified names; td, mi, loc, mod are per-name attributes
GEnv(arr) ==
  LET as == AsgList(arr)
      mk(f(_)) == FoldLeft(LAMBDA acc, x : (x.q :> f(x)) @@ acc, <<>>, as)
  IN [tagdef |-> "E", extimp |-> FALSE,
      types |-> mk(LAMBDA x : x.t), td |-> mk(LAMBDA x : x.td), mi |-> mk(LAMBDA x : x.mi),
      loc |-> mk(LAMBDA x : x.loc), mod |-> mk(LAMBDA x : x.mod)]

ProbeQ(arr) == QN(arr.mods[CHOOSE i \in 1..Len(arr.mods) : Defines(arr.mods[i], ProbeName)].name, ProbeName)

RECURSIVE ReachFrom(_, _, _)
ReachFrom(G, S, n) ==
  LET S2 == S \cup UNION {RefsOf(G.types[q]) : q \in S}
  IN IF n = 0 \/ S2 = S THEN S2 ELSE ReachFrom(G, S2, n - 1)

Reachable(G, q) == ReachFrom(G, RefsOf(G.types[q]), Cardinality(DOMAIN G.types))
\* names that lie on a reference cycle
RecNames(G) == {q \in DOMAIN G.types : q \in Reachable(G, q)}

RECURSIVE BaseName(_, _)
BaseName(G, q) == IF G.types[q].k = "REF" /\ G.types[q].tags = <<>> THEN BaseName(G, G.types[q].name) ELSE q

------------------------------------------------------------------------------
(* named deviations of the implementation that concern the organisation of *)
(* the text (the set S below; S = {} is X.680)                              *)
(*  DevTagOnTaggedChoiceRefExplicit  see Asn1Type!TagIsExplicit             *)
(*  DevComponentsOfInPlace   codecs/compiler.py pre_process: modules are    *)
(*     pre-processed one after the other, in place; COMPONENTS OF copies    *)
(*     the members of the source *in whatever state they are*: already      *)
(*     tagged (automatic numbers and modes of the source's module) when the *)
(*     source's module comes earlier in the text, raw (then read under the  *)
(*     using module's tag default) otherwise; and the decision to tag       *)
(*     automatically looks at the members after the copy.                   *)

\* DevRefSizeIgnored: a SIZE constraint written on a type reference,  Fl (SIZE (2..5)),  is dropped when the
\* reference is the element of a SEQUENCE OF / SET OF or denotes a BIT STRING or a list type (the base class
\* set_size_range of the codecs is empty; codecs/compiler.py compile_member is the only reader of 'size' on a
\* referencing descriptor) -- the same text with the definition written in place keeps the constraint
ArrDevs == <<"DevComponentsOfInPlace", "DevTagOnTaggedChoiceRefExplicit", "DevRefSizeIgnored">>

CutT == [k |-> "CUT", tags |-> <<>>]

\* the notation tags of T with their concrete modes, read under tag default env.tagdef
ConcreteTags(env, T, S) ==
  Force([j \in 1..Len(T.tags) |->
           [cls |-> T.tags[j].cls, num |-> T.tags[j].num,
            mode |-> IF TagIsExplicit(env, T, j, S) THEN "E" ELSE "I"]])

\* the automatic tag of component number i (1-based) whose type is t (X.680 25.10 / 29.5),
\* decided in the module of the SEQUENCE / SET / CHOICE (env.tagdef = "A")
AutoTag(env, i, t, S) ==
  LET probe == [t EXCEPT !.tags = <<[cls |-> "C", num |-> i - 1, mode |-> "D"]>> \o t.tags]
  IN [cls |-> "C", num |-> i - 1, mode |-> IF TagIsExplicit(env, probe, 1, S) THEN "E" ELSE "I"]

Ctx(td, mi) == [td |-> td, mi |-> mi]
CtxOf(G, q) == Ctx(G.td[q], G.mi[q])

RECURSIVE Tree(_, _, _, _, _, _), ExpandRoot(_, _, _, _, _)

\* X.680 25.5: the root components with every COMPONENTS OF replaced by the root components of
\* its source.  Result: Seq([m : member, ctx : the module context its text is read in]).
ExpandRoot(G, T, ctx, S, keep) ==
  Concat([i \in 1..Len(T.root) |->
    LET m == T.root[i] IN
    IF m.q # "C" THEN << [m |-> m, ctx |-> ctx] >>
    ELSE LET q == BaseName(G, m.t.name)
             src == G.types[q]
         IN IF "DevComponentsOfInPlace" \notin S
            THEN ExpandRoot(G, src, CtxOf(G, q), S, keep)          \* read in the source's module
            ELSE IF G.mi[q] < ctx.mi
                 THEN \* the source's module is already finished: its members arrive with their
                      \* tags written out (automatic numbers, modes of the source's module)
                      LET fin == Tree(G, src, CtxOf(G, q), S, DOMAIN G.types, 99)
                      IN [h \in 1..Len(fin.root) |-> [m |-> fin.root[h], ctx |-> Ctx("E", ctx.mi)]]
                 ELSE \* raw copy, read as if written in the using module
                      ExpandRoot(G, src, ctx, S, keep)])

\* Tree(G, T, ctx, S, keep, fuel): T (qualified names) as written in module context ctx.
\* References to names in `keep` stay references; `fuel` bounds the constructor depth.
Tree(G, T, ctx, S, keep, fuel) ==
  LET env == [G EXCEPT !.tagdef = ctx.td]
      ctags == ConcreteTags(env, T, S)
      body ==
        CASE T.k = "REF" ->
               IF T.name \in keep THEN [T EXCEPT !.tags = <<>>]
               ELSE LET inner == Tree(G, G.types[T.name], CtxOf(G, T.name), S, keep, fuel)
                    \* a SIZE constraint written on the reference,  Id (SIZE (4)),  of an otherwise unconstrained type
                    IN IF "sz" \in DOMAIN T /\ ~("DevRefSizeIgnored" \in S /\ inner.k \in {"BITS", "SEQOF", "SETOF"})
                       THEN [inner EXCEPT !.sz = T.sz] ELSE inner
          [] T.k \in {"SEQ", "SET"} ->
               IF fuel = 0 THEN CutT
               ELSE
               LET root == ExpandRoot(G, T, ctx, S, keep)
                   nr == Len(root)
                   addm == AddMembers(T.adds)
                   \* X.680 25.9: decided on the components as written (COMPONENTS OF is not a
                   \* tagged type); the deviation decides after the copy
                   auto == IF "DevComponentsOfInPlace" \in S
                           THEN /\ ctx.td = "A"
                                /\ \A i \in 1..nr : root[i].m.t.tags = <<>>
                                /\ \A i \in 1..Len(addm) : addm[i].t.tags = <<>>
                           ELSE AutoTagged(env, T)
                   sub(i, m, mctx) ==
                     LET inner == Tree(G, m.t, mctx, S, keep, fuel - 1)
                     IN [m EXCEPT !.t = IF auto THEN [inner EXCEPT !.tags = <<AutoTag(env, i, m.t, S)>> \o @]
                                        ELSE inner]
                   off == [a \in 1..Len(T.adds) |-> nr + Len(AddMembers(SubSeq(T.adds, 1, a - 1)))]
               IN [T EXCEPT !.tags = <<>>,
                            !.root = Force([i \in 1..nr |-> sub(i, root[i].m, root[i].ctx)]),
                            !.adds = Force([a \in 1..Len(T.adds) |->
                               [T.adds[a] EXCEPT !.m = IF T.adds[a].g THEN @ ELSE sub(off[a] + 1, @, ctx),
                                                 !.ms = Force([h \in 1..Len(T.adds[a].ms) |-> sub(off[a] + h, T.adds[a].ms[h], ctx)])]])]
          [] T.k = "CHOICE" ->
               IF fuel = 0 THEN CutT
               ELSE
               LET auto == AutoTagged(env, T)
                   nr == Len(T.root)
                   sub(i, a) ==
                     LET inner == Tree(G, a.t, ctx, S, keep, fuel - 1)
                     IN [a EXCEPT !.t = IF auto THEN [inner EXCEPT !.tags = <<AutoTag(env, i, a.t, S)>> \o @]
                                        ELSE inner]
               IN [T EXCEPT !.tags = <<>>,
                            !.root = Force([i \in 1..nr |-> sub(i, T.root[i])]),
                            !.adds = Force([i \in 1..Len(T.adds) |-> sub(nr + i, T.adds[i])])]
          [] T.k \in {"SEQOF", "SETOF"} ->
               IF fuel = 0 THEN CutT
               ELSE LET el == IF "DevRefSizeIgnored" \in S /\ T.e.k = "REF" /\ "sz" \in DOMAIN T.e
                              THEN [k |-> "REF", tags |-> T.e.tags, name |-> T.e.name] ELSE T.e
                    IN [T EXCEPT !.tags = <<>>, !.e = Tree(G, el, ctx, S, keep, fuel - 1)]
          [] OTHER -> [T EXCEPT !.tags = <<>>]
  IN [body EXCEPT !.tags = ctags \o @]

RECURSIVE TreeEq(_, _)
\* equality of meaning trees, kind first so that values of different sorts are never compared
TreeEq(a, b) ==
  /\ a.k = b.k
  /\ a.tags = b.tags
  /\ CASE a.k \in {"SEQ", "SET"} ->
            /\ a.ext = b.ext
            /\ Len(a.root) = Len(b.root)
            /\ Len(a.adds) = Len(b.adds)
            /\ LET ma == AllMembers(a)  mb == AllMembers(b) IN
               /\ Len(ma) = Len(mb)
               /\ \A i \in 1..Len(ma) :
                    /\ ma[i].n = mb[i].n /\ ma[i].q = mb[i].q
                    /\ TreeEq(ma[i].t, mb[i].t)
                    /\ ma[i].q = "D" => ma[i].d = mb[i].d
            /\ \A i \in 1..Len(a.adds) : a.adds[i].g = b.adds[i].g /\ Len(a.adds[i].ms) = Len(b.adds[i].ms)
       [] a.k = "CHOICE" ->
            /\ a.ext = b.ext
            /\ Len(a.root) = Len(b.root)
            /\ Len(a.adds) = Len(b.adds)
            /\ \A i \in 1..Len(AllAlts(a)) : AllAlts(a)[i].n = AllAlts(b)[i].n /\ TreeEq(AllAlts(a)[i].t, AllAlts(b)[i].t)
       [] a.k \in {"SEQOF", "SETOF"} -> a.sz = b.sz /\ TreeEq(a.e, b.e)
       [] OTHER -> a = b

------------------------------------------------------------------------------
(* Meaning and normal form                                                  *)

\* the meaning of the probe type under deviation set S, as a finite tree
MeaningS(arr, S) ==
  LET G == GEnv(arr)  q == ProbeQ(arr)
  IN Tree(G, G.types[q], CtxOf(G, q), S, {}, CutDepth)

Meaning(arr) == MeaningS(arr, {})

\* the same as an Asn1Type environment: only the types on reference cycles stay named
NFEnv(arr, S) ==
  LET G == GEnv(arr)
      q == ProbeQ(arr)
      rec == RecNames(G) \cap Reachable(G, q)
      def(x) == Tree(G, G.types[x], CtxOf(G, x), S, rec, 99)
  IN [tagdef |-> "E", extimp |-> FALSE, top |-> ProbeName,
      types |-> FoldLeft(LAMBDA acc, x : (x :> def(x)) @@ acc, ProbeName :> def(q), SetToSeq(rec))]

------------------------------------------------------------------------------
(* X.693 (XER): the element that carries an item of a SEQUENCE OF / SET OF is *)
(* named after the item type as written -- its type reference, else the       *)
(* built-in type.  XerNames(arr): those names over the unfolded probe type.   *)

RECURSIVE ElemNames(_, _, _, _)
ElemNames(G, T, ctx, fuel) ==
  CASE T.k = "REF" -> ElemNames(G, G.types[T.name], CtxOf(G, T.name), fuel)
    [] T.k \in {"SEQ", "SET"} ->
         IF fuel = 0 THEN <<>>
         ELSE LET root == ExpandRoot(G, T, ctx, {}, {})
                  ms == [i \in 1..Len(root) |-> root[i].m] \o AddMembers(T.adds)
              IN Concat([i \in 1..Len(ms) |-> ElemNames(G, ms[i].t, ctx, fuel - 1)])
    [] T.k = "CHOICE" ->
         IF fuel = 0 THEN <<>>
         ELSE Concat([i \in 1..Len(AllAlts(T)) |-> ElemNames(G, AllAlts(T)[i].t, ctx, fuel - 1)])
    [] T.k \in {"SEQOF", "SETOF"} ->
         IF fuel = 0 THEN <<>>
         ELSE << IF T.e.k = "REF" THEN G.loc[T.e.name] ELSE "" >> \o ElemNames(G, T.e, ctx, fuel - 1)
    [] OTHER -> <<>>

XerNames(arr) == LET G == GEnv(arr)  q == ProbeQ(arr) IN ElemNames(G, G.types[q], CtxOf(G, q), CutDepth)

------------------------------------------------------------------------------
(* input classes of known findings (predicates over arrangements / values)  *)

RECURSIVE HasCompOfBelow(_, _)
\* a COMPONENTS OF inside T; top = T is the right-hand side of an assignment
HasCompOfBelow(T, top) ==
  CASE T.k \in {"SEQ", "SET"} ->
         \/ ~top /\ \E i \in 1..Len(T.root) : T.root[i].q = "C"
         \/ \E i \in 1..Len(AllMembers(T)) : AllMembers(T)[i].q # "C" /\ HasCompOfBelow(AllMembers(T)[i].t, FALSE)
    [] T.k = "CHOICE" -> \E i \in 1..Len(AllAlts(T)) : HasCompOfBelow(AllAlts(T)[i].t, FALSE)
    [] T.k \in {"SEQOF", "SETOF"} -> HasCompOfBelow(T.e, FALSE)
    [] OTHER -> FALSE

\* NestedComponentsOf: COMPONENTS OF in a SEQUENCE / SET that is not itself the right-hand side
\* of a type assignment (codecs/compiler.py pre_process_components_of_type expands only those)
NestedComponentsOf(arr) ==
  \E i \in 1..Len(arr.mods) : \E a \in 1..Len(arr.mods[i].asg) : HasCompOfBelow(arr.mods[i].asg[a].t, TRUE)

RECURSIVE SourceRootRefs(_, _, _)
\* qualified names used by the (recursively expanded) root components of the source q
SourceRootRefs(G, q, fuel) ==
  LET src == G.types[BaseName(G, q)] IN
  UNION {IF src.root[i].q = "C"
         THEN (IF fuel = 0 THEN {} ELSE SourceRootRefs(G, src.root[i].t.name, fuel - 1))
         ELSE RefsOf(src.root[i].t) : i \in 1..Len(src.root)}

RECURSIVE CompOfSources(_)
\* the sources of all COMPONENTS OF written in T
CompOfSources(T) ==
  CASE T.k \in {"SEQ", "SET"} ->
         UNION {IF AllMembers(T)[i].q = "C" THEN {AllMembers(T)[i].t.name} ELSE CompOfSources(AllMembers(T)[i].t)
                : i \in 1..Len(AllMembers(T))}
    [] T.k = "CHOICE" -> UNION {CompOfSources(AllAlts(T)[i].t) : i \in 1..Len(AllAlts(T))}
    [] T.k \in {"SEQOF", "SETOF"} -> CompOfSources(T.e)
    [] OTHER -> {}

\* ComponentsOfForeignScope: a component copied by COMPONENTS OF refers to a name that does not
\* denote the same assignment in the using module (the copy is compiled in the using module)
ComponentsOfForeignScope(arr) ==
  LET G == GEnv(arr) IN
  \E i \in 1..Len(arr.mods) : \E a \in 1..Len(arr.mods[i].asg) :
     \E q \in CompOfSources(Qual(arr, i, arr.mods[i].asg[a].t)) :
        \E r \in SourceRootRefs(G, q, 5) :
           ~(Visible(arr.mods[i], G.loc[r]) /\ QName(arr, i, G.loc[r]) = r)

\* RecursionAcrossModules: a reference that closes a reference cycle is written in another
\* module than the one that defines the referenced type
RecursionAcrossModules(arr) ==
  LET G == GEnv(arr)  rec == RecNames(G) IN
  \E x \in DOMAIN G.types : \E q \in RefsOf(G.types[x]) \cap rec :
     /\ G.mi[q] # G.mi[x]
     /\ x \in Reachable(G, q)

ArrClasses == <<"NestedComponentsOf", "ComponentsOfForeignScope", "RecursionAcrossModules">>
ArrClassHolds(name, arr) ==
  CASE name = "NestedComponentsOf" -> NestedComponentsOf(arr)
    [] name = "ComponentsOfForeignScope" -> ComponentsOfForeignScope(arr)
    [] name = "RecursionAcrossModules" -> RecursionAcrossModules(arr)
ArrApplicable(arr) == {ArrClasses[j] : j \in {j \in 1..Len(ArrClasses) : ArrClassHolds(ArrClasses[j], arr)}}

RECURSIVE BoolDefaultHit(_, _, _, _)
\* BoolDefaultViaReference: the value passes a component `x Ref DEFAULT TRUE|FALSE` whose type is
\* written as a reference that denotes BOOLEAN, and the component is absent or equal to its
\* default (parser.py convert_value converts the value notation by the *written* type name)
BoolDefaultHit(G, T, ctx, v) ==
  CASE T.k = "REF" -> BoolDefaultHit(G, G.types[T.name], CtxOf(G, T.name), v)
    [] T.k \in {"SEQ", "SET"} ->
         LET root == ExpandRoot(G, T, ctx, {}, {})
             ms == [i \in 1..Len(root) |-> root[i].m] \o AddMembers(T.adds)
         IN \E i \in 1..Len(ms) :
              LET m == ms[i]  x == v[m.n] IN
              \/ /\ m.q = "D" /\ m.t.k = "REF" /\ Base(G, m.t).k = "BOOL"
                 /\ (~x.p \/ x.v = m.d)
              \/ x.p /\ BoolDefaultHit(G, m.t, ctx, x.v)
    [] T.k = "CHOICE" ->
         LET alts == AllAlts(T) IN BoolDefaultHit(G, alts[MemberIndex(alts, v.a)].t, ctx, v.v)
    [] T.k \in {"SEQOF", "SETOF"} -> \E i \in 1..Len(v) : BoolDefaultHit(G, T.e, ctx, v[i])
    [] OTHER -> FALSE

BoolDefaultViaReference(arr, v) ==
  LET G == GEnv(arr)  q == ProbeQ(arr) IN BoolDefaultHit(G, G.types[q], CtxOf(G, q), v)

=============================================================================
