---------------------------- MODULE TestComments ----------------------------
(* Regression examples for Comments.tla / Layout.tla (C14), ASSUME-based.   *)
EXTENDS Layout

B(s) == Implode(BlankOf(Explode(s), {}))
BD(s, D) == Implode(BlankOf(Explode(s), D))
FinalOf(s, D) == Final(ScanChars(Explode(s), D), D)
Holds(s, D) == RunInvariants(RunOfD(s, D))

(* X.680 12.6: the two comment forms, strings, nesting, line structure *)
ASSUME /\ B("a --c\nb") = "a    \nb"
       /\ B("a --c-- b") = "a       b"
       /\ B("a ---- b") = "a      b"
       /\ B("a --- b\nc") = "a      \nc"
       /\ B("a -----b") = "a     -b"
       /\ B("a /*x*/ b") = "a       b"
       /\ B("a /*x/*y*/z*/ b") = "a             b"
       /\ B("a /*x\ny*/ b") = "a    \n    b"
       /\ B("/* -- */ a") = "         a"
       /\ B("-- /* \nb */") = "      \nb */"
       /\ B("x \"a--b\" y") = "x \"a--b\" y"
       /\ B("x \"a/*b\" y /*c*/") = "x \"a/*b\" y      "
       /\ B("\"a\"\"--b\" --c") = "\"a\"\"--b\"    "
       /\ B("/* \"*/\" */") = "      \" */"
       /\ B("a*/*b*/c") = "a*     c"
       /\ B("--c") = "   "
ASSUME /\ FinalOf("a --c", {}).ok
       /\ ~FinalOf("a /*c", {}).ok /\ FinalOf("a /*c", {}).at = 3
       /\ ~FinalOf("/*/**/", {}).ok /\ FinalOf("/*/**/", {}).at = 1
       /\ ~FinalOf("a --c", {DevLineCommentAtEofRejected}).ok
ASSUME /\ RefMask(Explode("a--b--c/*d*/\"--\"")) = ScanChars(Explode("a--b--c/*d*/\"--\""), {}).kept
       /\ \A s \in {"", "-", "--", "\"--\"\n--\"", "/*/*-*/*/-", "a--\n--b--c", "-/*\n*/-", "\"\"--\"", "/**//**/"} : Holds(s, {})

(* the named deviations of the implementation *)
ASSUME /\ BD("x \"a--b\" y", {DevCommentMarkerInString}) = "x \"a      "
       /\ BD("a*/*b*/c", {DevStarSlashUnitInCode}) = "a*/*b*/c"
       /\ BD("a /*x\ny*/ b", {DevBlockCommentNewlinesBlanked}) = "a         b"

(* the invariants bite: each wrong rule violates one of them on a short string *)
ASSUME /\ ~InvStringsOpaque(RunOfD("\"--\"", {"MUT_NoStringMode"}))
       /\ ~InvOnlineEqualsLookahead(RunOfD("\"--\"", {"MUT_NoStringMode"}))
       /\ ~InvLineComment(RunOfD("--a--b\n", {"MUT_LineCommentOnlyToEol"}))
       /\ ~InvBlockNesting(RunOfD("/*/**/a*/", {"MUT_BlockNoNesting"}))
       /\ ~InvMaskShape(RunOfD("/*\n*/", {"MUT_BlockEatsNewline"}))
       /\ ~InvLinesPreserved(RunOfD("/*\n*/a", {"MUT_BlockEatsNewline"}))

(* lexical items *)
X(s) == XLex(Explode(s))
ASSUME /\ X("A ::= SEQUENCE{a INTEGER(0..7),b OCTET  STRING}") =
            <<"A", "::=", "SEQUENCE", "{", "a", "INTEGER", "(", "0", "..", "7", ")", ",", "b", "OCTET", "STRING", "}">>
       /\ X("a [[ b [0] C ]] , ... x-y -5 1.5 1..2 1.5e-3 &Type T.&id") =
            <<"a", "[[", "b", "[", "0", "]", "C", "]]", ",", "...", "x-y", "-5", "1.5", "1", "..", "2", "1.5e-3", "&Type", "T", ".", "&id">>
       /\ X("c \"say \"\"hi\"\" --no\" '01 10'B 'AF'H x") = <<"c", "\"say \"\"hi\"\" --no\"", "'01 10'B", "'AF'H", "x">>
       /\ X("OCTET--c--STRING /*x*/ , a") = <<"OCTET", "STRING", ",", "a">>
       /\ X("a:b {1,2} @x |^!<") = <<"a", ":", "b", "{", "1", ",", "2", "}", "@", "x", "|", "^", "!", "<">>
       /\ X("") = <<>> /\ X("  \n") = <<>> /\ X("7.") = <<"7", ".">>

(* what the implementation sees *)
ASSUME /\ ImplView(Explode("a OCTET STRING"), {DevMultiWordKeywordSingleSpace}) # ImplView(Explode("a OCTET  STRING"), {DevMultiWordKeywordSingleSpace})
       /\ ImplView(Explode("a OCTET STRING"), {DevMultiWordKeywordSingleSpace}) # ImplView(Explode("a OCTET--c--STRING"), {DevMultiWordKeywordSingleSpace})
       /\ ImplView(Explode("a OCTET STRING"), {DevMultiWordKeywordSingleSpace}) = ImplView(Explode("a\nOCTET STRING"), {DevMultiWordKeywordSingleSpace})
       /\ ImplView(Explode("a SEQUENCE OF B"), {DevMultiWordKeywordSingleSpace}) = ImplView(Explode("a SEQUENCE\nOF\tB"), {DevMultiWordKeywordSingleSpace})
       /\ ImplView(Explode("a OCTET STRING"), {}) = ImplView(Explode("a OCTET  STRING"), {})
       /\ ImplView(Explode("x \"a--b\" ,\ny"), {DevCommentMarkerInString}) # ImplView(Explode("x \"a--b\" , y"), {DevCommentMarkerInString})
       /\ ImplView(Explode("a T.&id (1)"), {DevClassFieldRefNoSpace}) # ImplView(Explode("a T .&id (1)"), {DevClassFieldRefNoSpace})
       /\ ImplView(Explode("a T.&id (1)"), {DevClassFieldRefNoSpace}) = ImplView(Explode("a  T.&id(1)"), {DevClassFieldRefNoSpace})
       /\ ImplView(Explode("A ::= ENUMERATED {a}"), {DevReservedWordNeedsSpace}) # ImplView(Explode("A ::= ENUMERATED{a}"), {DevReservedWordNeedsSpace})
       /\ ImplView(Explode("A ::= ENUMERATED {a}"), {DevReservedWordNeedsSpace}) = ImplView(Explode("A ::= ENUMERATED\n{ a}"), {DevReservedWordNeedsSpace})
       /\ ImplView(Explode("A ::= ENUMERATED {a}"), {DevMultiWordKeywordSingleSpace}) = ImplView(Explode("A ::= ENUMERATED{a}"), {DevMultiWordKeywordSingleSpace})
       /\ \A j \in 1..Len(AffectedKeywords) :
            LET ws == X(AffectedKeywords[j]) IN \A q \in 1..(Len(ws) - 1) : InAffectedKeyword(ws[q], ws[q + 1])

(* fillers: each is blank on its own; the guard of Change implies inertness *)
SampleToks == <<"A", "::=", "{", ")", ",", "STRING", "-5", "1", "..", "...", "[[", "]", "\"x--y\"", "'01'B", "&id", ".", ":", "|">>
ASSUME \A fi \in 2..Len(Fillers) : FillerOK[fi]
ASSUME \A a \in 1..Len(SampleToks), b \in 1..Len(SampleToks), fi \in 1..Len(Fillers) :
          MayPlace(SampleToks[a], fi, SampleToks[b]) => Inert(SampleToks[a], Fillers[fi], SampleToks[b])
ASSUME /\ MayPlace("SEQUENCE", 1, "{") /\ ~MayPlace("a", 1, "INTEGER") /\ ~MayPlace("[", 1, "[") /\ ~MayPlace(":", 1, ":=")
       /\ MayPlace("OCTET", 7, "STRING") /\ MayPlace("1", 1, "..") /\ ~MayPlace("1", 1, ".5")
       /\ Render(<<"a", "B", ",">>, <<" ", "--c\n">>) = "a B--c\n,"

(* positions of tokens; error lines *)
PFill == << <<" ">>, <<"/*c\n", "d*/ ">>, <<"\n", "\n">> >>
Pos == PositionsAfter(<<"-- head\n">>, <<"A", "::=", "?!", "END">>, PFill, {}, 4)
PosD == PositionsAfter(<<"-- head\n">>, <<"A", "::=", "?!", "END">>, PFill, {DevBlockCommentNewlinesBlanked}, 4)
ASSUME /\ Pos[1] = [line |-> 2, col |-> 1, cole |-> 1]
       /\ Pos[2] = [line |-> 2, col |-> 3, cole |-> 5]
       /\ Pos[3] = [line |-> 3, col |-> 5, cole |-> 6]
       /\ Pos[4].line = 5
       /\ PosD[3].line = 2 /\ PosD[3].col = 14 /\ PosD[4].line = 4
       /\ TokenAt(Pos, 3, 5) = 3 /\ TokenAt(Pos, 2, 6) = 2 /\ TokenAt(Pos, 9, 1) = 5 /\ TokenAt(Pos, 1, 1) = -1

Spec == ScannerIdle /\ LayoutIdle /\ [][ScannerStays /\ LayoutStays]_<<scanVars, layVars>>
=============================================================================
