----------------------------- MODULE X691Reader -----------------------------
(***************************************************************************)
(* ITU-T X.691 read side: a type-directed reader of BASIC-PER (ALIGNED and  *)
(* UNALIGNED) over (bits, position), written independently of the encoder  *)
(* X691!PerEnc, one operator per clause.  Every reader returns             *)
(*     [ok |-> TRUE,  v |-> what was read, p |-> next position]   or        *)
(*     [ok |-> FALSE, why |-> reason,      p |-> position of the failure]   *)
(* Positions are 1-based indices into the bit string of a complete         *)
(* encoding, so octet alignment is  (p - 1) % 8 = 0.                        *)
(*                                                                         *)
(* Values are returned in the shapes of Asn1Value, except that the         *)
(* contents of REAL, OBJECT IDENTIFIER and of the character string types    *)
(* that are not known-multiplier types are returned as [raw |-> octets]     *)
(* (their contents octets are those of X.690, specified in X690.tla);       *)
(* RMatches compares such a reading with an abstract value.                *)
(*                                                                         *)
(* Used for: (M) the two formulations of X.691 agree - PerRead inverts      *)
(* PerEnc and consumes exactly the encoding - and no strict octet prefix   *)
(* of a complete encoding can be read (C16 on the model); both are checked  *)
(* by TLC over TypeGen's universe (ModelProps!PerReaderInverts,             *)
(* ModelProps!PerPrefixFree).                                              *)
(***************************************************************************)
EXTENDS X691

ROk(v, p) == [ok |-> TRUE, v |-> v, p |-> p]
RFail(why, p) == [ok |-> FALSE, why |-> why, p |-> p]

\* the next n bits
RBits(bits, p, n) ==
  IF p + n - 1 > Len(bits) THEN RFail("out-of-data", p) ELSE ROk(SubSeq(bits, p, p + n - 1), p + n)

\* 10.1: skip to the next octet boundary (ALIGNED variant only)
AlignPos(p, al) == IF al THEN p + ((8 - ((p - 1) % 8)) % 8) ELSE p

BitsToMag(bits) == MagFromBits(bits)
NatOf(bits) == MagToNat(MagFromBits(bits))          \* at most 30 significant bits

------------------------------------------------------------------------------
(* 10.5 constrained whole number                                            *)

RConstrainedWholeNumber(bits, p, lb, ub, al) ==
  LET r1 == Sub(ub, lb) IN
  IF IsZero(r1) THEN ROk(lb, p)                                                       \* 10.5.4
  ELSE LET field(q, n) ==
             LET r == RBits(bits, q, n) IN
             IF ~r.ok THEN r
             ELSE LET x == Add(lb, Mk(FALSE, BitsToMag(r.v))) IN
                  IF Leq(x, ub) THEN ROk(x, r.p) ELSE RFail("whole number above the range", q)
       IN IF ~al \/ Leq(r1, FromInt(254)) THEN field(p, MagBitLen(r1.mag))              \* 10.5.6, 10.5.7.1
          ELSE IF Eq(r1, FromInt(255)) THEN field(AlignPos(p, TRUE), 8)                 \* 10.5.7.2
          ELSE IF Leq(r1, FromInt(65535)) THEN field(AlignPos(p, TRUE), 16)             \* 10.5.7.3
          ELSE LET lr == RBits(bits, p, NatBitLen(Len(r1.mag) - 1)) IN                  \* 10.5.7.4
               IF ~lr.ok THEN lr ELSE field(AlignPos(lr.p, TRUE), 8 * (NatOf(lr.v) + 1))

------------------------------------------------------------------------------
(* 10.9 length determinants                                                 *)

\* one unconstrained length determinant (10.9.3.5 - 10.9.3.8): [n, frag]
RLenHeader(bits, p, al) ==
  LET q == AlignPos(p, al)
      b1 == RBits(bits, q, 8)
  IN IF ~b1.ok THEN b1
     ELSE IF b1.v[1] = 0 THEN ROk([n |-> NatOf(SubSeq(b1.v, 2, 8)), frag |-> FALSE], b1.p)
     ELSE IF b1.v[2] = 0
          THEN LET b2 == RBits(bits, b1.p, 8) IN
               IF ~b2.ok THEN b2 ELSE ROk([n |-> NatOf(SubSeq(b1.v, 3, 8) \o b2.v), frag |-> FALSE], b2.p)
     ELSE LET m == NatOf(SubSeq(b1.v, 3, 8)) IN
          IF m \in 1..4 THEN ROk([n |-> m * 16384, frag |-> TRUE], b1.p) ELSE RFail("bad fragment count", q)

\* items of w bits each under an unconstrained length: all fragments, concatenated
RECURSIVE RFragFixed(_, _, _, _)
RFragFixed(bits, p, w, al) ==
  LET h == RLenHeader(bits, p, al) IN
  IF ~h.ok THEN h
  ELSE LET c == RBits(bits, AlignPos(h.p, al), h.v.n * w) IN
       IF ~c.ok THEN c
       ELSE IF ~h.v.frag THEN c
       ELSE LET rest == RFragFixed(bits, c.p, w, al) IN
            IF ~rest.ok THEN rest ELSE ROk(c.v \o rest.v, rest.p)

\* octets under an unconstrained length (10.2 open type, 10.7, 10.8, 30.6 ...)
ROctetsUnconstrained(bits, p, al) ==
  LET r == RFragFixed(bits, p, 8, al) IN IF ~r.ok THEN r ELSE ROk(BitsToBytes(r.v), r.p)

\* 10.6 normally small non-negative whole number
RNormallySmall(bits, p, al) ==
  LET b == RBits(bits, p, 1) IN
  IF ~b.ok THEN b
  ELSE IF b.v[1] = 0
       THEN LET r == RBits(bits, b.p, 6) IN IF ~r.ok THEN r ELSE ROk(NatOf(r.v), r.p)
       ELSE LET o == ROctetsUnconstrained(bits, b.p, al) IN
            IF ~o.ok THEN o
            ELSE IF o.v = <<>> \/ Len(MagNorm(o.v)) > 3 THEN RFail("normally small number", b.p)
            ELSE ROk(OctetsToNat(o.v), o.p)

\* 10.9.3.4 normally small length
RNormallySmallLength(bits, p, al) ==
  LET b == RBits(bits, p, 1) IN
  IF ~b.ok THEN b
  ELSE IF b.v[1] = 0
       THEN LET r == RBits(bits, b.p, 6) IN IF ~r.ok THEN r ELSE ROk(NatOf(r.v) + 1, r.p)
       ELSE LET h == RLenHeader(bits, b.p, al) IN
            IF ~h.ok THEN h ELSE IF h.v.frag THEN RFail("fragmented normally small length", b.p) ELSE ROk(h.v.n, h.p)

\* the length of 10.9.4.1 for an effective size constraint sz (root only): [n, frag]
RLength(bits, p, sz, al) ==
  IF SizeIsFixed(sz) THEN ROk([n |-> sz.ub, frag |-> FALSE], p)
  ELSE IF SizeIsConstrained(sz)
       THEN LET r == RConstrainedWholeNumber(bits, p, FromInt(sz.lb), FromInt(sz.ub), al) IN
            IF ~r.ok THEN r ELSE ROk([n |-> ToInt(r.v), frag |-> FALSE], r.p)
  ELSE RLenHeader(bits, p, al)

\* n items of w bits after their length: the items of this fragment, and the further fragments
RItemsFixed(bits, p, sz, w, al, alignItems) ==
  IF SizeIsFixed(sz) \/ SizeIsConstrained(sz)
  THEN LET l == RLength(bits, p, sz, al) IN
       IF ~l.ok THEN l ELSE RBits(bits, IF alignItems THEN AlignPos(l.p, al) ELSE l.p, l.v.n * w)
  ELSE RFragFixed(bits, p, w, al)

\* extension bit of an extensible size constraint (15.6, 16.3, 20.4, 30.4): the size constraint to read with
RSizeExt(bits, p, sz) ==
  IF sz.f = "R" /\ sz.ext
  THEN LET b == RBits(bits, p, 1) IN
       IF ~b.ok THEN b ELSE ROk(IF b.v[1] = 0 THEN SizeRoot(sz) ELSE [f |-> "N"], b.p)
  ELSE ROk(sz, p)

------------------------------------------------------------------------------
(* primitive types                                                          *)

\* 10.7 / 10.8
RSemiConstrained(bits, p, lb, al) ==
  LET o == ROctetsUnconstrained(bits, p, al) IN
  IF ~o.ok THEN o ELSE IF o.v = <<>> THEN RFail("empty integer", p) ELSE ROk(Add(lb, Mk(FALSE, MagNorm(o.v))), o.p)

RUnconstrained(bits, p, al) ==
  LET o == ROctetsUnconstrained(bits, p, al) IN
  IF ~o.ok THEN o ELSE IF o.v = <<>> THEN RFail("empty integer", p) ELSE ROk(FromTwos(o.v), o.p)

\* 12 INTEGER
RIntegerRoot(c, bits, p, al) ==
  IF c.f = "N" \/ c.lbinf THEN RUnconstrained(bits, p, al)
  ELSE IF c.ubinf THEN RSemiConstrained(bits, p, c.lb, al)
  ELSE RConstrainedWholeNumber(bits, p, c.lb, c.ub, al)

RInteger(T, bits, p, al) ==
  LET c == T.con IN
  IF c.f = "R" /\ c.ext
  THEN LET b == RBits(bits, p, 1) IN
       IF ~b.ok THEN b
       ELSE IF b.v[1] = 0 THEN RIntegerRoot(c, bits, b.p, al) ELSE RUnconstrained(bits, b.p, al)
  ELSE RIntegerRoot(c, bits, p, al)

UnknownItem == "?unknown"

\* 13 ENUMERATED
REnumerated(env, T, bits, p, al) ==
  LET root == SortedByValue(T.root)
      readRoot(q) ==
        LET r == RConstrainedWholeNumber(bits, q, Zero, FromInt(Len(root) - 1), al) IN
        IF ~r.ok THEN r ELSE ROk(root[ToInt(r.v) + 1].n, r.p)
  IN IF IsExt(env, T)
     THEN LET b == RBits(bits, p, 1) IN
          IF ~b.ok THEN b
          ELSE IF b.v[1] = 0 THEN readRoot(b.p)
          ELSE LET r == RNormallySmall(bits, b.p, al) IN
               IF ~r.ok THEN r
               ELSE ROk(IF r.v < Len(T.adds) THEN T.adds[r.v + 1].n ELSE UnknownItem, r.p)      \* 13.3, unknown item of a later version
     ELSE readRoot(p)

\* 15 BIT STRING
RBitString(T, bits, p, al) ==
  LET e == RSizeExt(bits, p, T.sz) IN
  IF ~e.ok THEN e
  ELSE LET sz == e.v
           r == IF SizeIsFixed(sz) /\ sz.ub = 0 THEN ROk(<<>>, e.p)                              \* 15.8
                ELSE IF SizeIsFixed(sz) /\ sz.ub <= 16 THEN RBits(bits, e.p, sz.ub)              \* 15.9
                ELSE IF SizeIsFixed(sz) THEN RBits(bits, AlignPos(e.p, al), sz.ub)               \* 15.10
                ELSE RItemsFixed(bits, e.p, sz, 1, al, TRUE)                                     \* 15.11
       IN IF ~r.ok THEN r ELSE ROk([n |-> Len(r.v), b |-> BitsToBytes(r.v)], r.p)

\* 16 OCTET STRING
ROctetString(T, bits, p, al) ==
  LET e == RSizeExt(bits, p, T.sz) IN
  IF ~e.ok THEN e
  ELSE LET sz == e.v
           r == IF SizeIsFixed(sz) /\ sz.ub = 0 THEN ROk(<<>>, e.p)                              \* 16.5
                ELSE IF SizeIsFixed(sz) /\ sz.ub <= 2 THEN RBits(bits, e.p, 8 * sz.ub)           \* 16.6
                ELSE IF SizeIsFixed(sz) THEN RBits(bits, AlignPos(e.p, al), 8 * sz.ub)           \* 16.7
                ELSE RItemsFixed(bits, e.p, sz, 8, al, TRUE)                                     \* 16.8
       IN IF ~r.ok THEN r ELSE ROk(BitsToBytes(r.v), r.p)

\* 30 known-multiplier character strings
RKnownMultiplier(T, bits, p, al) ==
  LET A == EffectiveAlphabet(T)
      b0 == IF T.st = "Universal" /\ ~T.al.has THEN 32 ELSE NatBitLen(A.n - 1)
      b == IF al THEN PowerOfTwoAtLeast(b0) ELSE b0
      direct == (T.st = "Universal" /\ ~T.al.has) \/ A.max <= Pow2(Min2(b, 30)) - 1              \* 30.5.4
      e == RSizeExt(bits, p, T.sz)
  IN IF ~e.ok THEN e
     ELSE LET sz == e.v
              aub == IF SizeIsConstrained(sz) THEN sz.ub ELSE 65536
              r == IF SizeIsFixed(sz)
                   THEN RBits(bits, IF sz.ub * b > 16 THEN AlignPos(e.p, al) ELSE e.p, sz.ub * b)  \* 30.5.6
                   ELSE RItemsFixed(bits, e.p, sz, b, al, aub * b >= 16)                         \* 30.5.7
          IN IF ~r.ok THEN r
             ELSE IF b = 0 THEN RFail("empty alphabet", p)
             ELSE LET n == Len(r.v) \div b
                      code(j) == NatOf(SubSeq(r.v, (j - 1) * b + 1, j * b))
                      bad == \E j \in 1..n : ~direct /\ code(j) >= Len(A.set)
                  IN IF bad THEN RFail("character outside the alphabet", p)
                     ELSE ROk([j \in 1..n |-> IF direct THEN code(j) ELSE A.set[code(j) + 1]], r.p)

------------------------------------------------------------------------------
(* constructed types                                                        *)

RECURSIVE PerRead(_, _, _, _, _), RElems(_, _, _, _, _, _), RFragElems(_, _, _, _, _), RMembers(_, _, _, _, _, _)

\* 10.2 open type: its octets hold a complete encoding of a value of type T
ROpenType(env, T, bits, p, al) ==
  LET o == ROctetsUnconstrained(bits, p, al) IN
  IF ~o.ok THEN o
  ELSE LET inner == PerRead(env, T, BytesToBits(o.v), 1, al) IN
       IF ~inner.ok THEN RFail("in open type: " \o inner.why, p) ELSE ROk(inner.v, o.p)

\* k elements, one after the other
RElems(env, E, bits, p, k, al) ==
  FoldLeft(LAMBDA acc, j :
             IF ~acc.ok THEN acc
             ELSE LET r == PerRead(env, E, bits, acc.p, al) IN
                  IF ~r.ok THEN r ELSE ROk(Append(acc.v, r.v), r.p),
           ROk(<<>>, p), [j \in 1..k |-> j])

RFragElems(env, E, bits, p, al) ==
  LET h == RLenHeader(bits, p, al) IN
  IF ~h.ok THEN h
  ELSE LET es == RElems(env, E, bits, h.p, h.v.n, al) IN
       IF ~es.ok THEN es
       ELSE IF ~h.v.frag THEN es
       ELSE LET rest == RFragElems(env, E, bits, es.p, al) IN
            IF ~rest.ok THEN rest ELSE ROk(es.v \o rest.v, rest.p)

\* 20 SEQUENCE OF / 22 SET OF
RSequenceOf(env, T, bits, p, al) ==
  LET e == RSizeExt(bits, p, T.sz) IN
  IF ~e.ok THEN e
  ELSE LET sz == e.v IN
       IF SizeIsFixed(sz) \/ SizeIsConstrained(sz)
       THEN LET l == RLength(bits, e.p, sz, al) IN
            IF ~l.ok THEN l ELSE RElems(env, T.e, bits, l.p, l.v.n, al)
       ELSE RFragElems(env, T.e, bits, e.p, al)

\* the members ms whose presence is given by pres (a sequence of booleans), in order:
\* result v = sequence of [n |-> name, pv |-> [p, v]]
RMembers(env, ms, pres, bits, p, al) ==
  FoldLeft(LAMBDA acc, j :
             IF ~acc.ok THEN acc
             ELSE IF ~pres[j] THEN ROk(Append(acc.v, [n |-> ms[j].n, pv |-> Absent]), acc.p)
             ELSE LET r == PerRead(env, ms[j].t, bits, acc.p, al) IN
                  IF ~r.ok THEN RFail(ms[j].n \o ": " \o r.why, r.p)
                  ELSE ROk(Append(acc.v, [n |-> ms[j].n, pv |-> Present(r.v)]), r.p),
           ROk(<<>>, p), [j \in 1..Len(ms) |-> j])

\* 19.2 preamble + 19.4 components of the member list ms
RPreambleAndMembers(env, ms, bits, p, al) ==
  LET optIdx == SelectSeq([j \in 1..Len(ms) |-> j], LAMBDA j : ms[j].q # "M")
      pre == RBits(bits, p, Len(optIdx))
  IN IF ~pre.ok THEN pre
     ELSE LET pres == [j \in 1..Len(ms) |->
                         IF ms[j].q = "M" THEN TRUE
                         ELSE pre.v[CHOOSE h \in 1..Len(optIdx) : optIdx[h] = j] = 1]
          IN RMembers(env, ms, pres, bits, pre.p, al)

AbsentMembers(ms) == [j \in 1..Len(ms) |-> [n |-> ms[j].n, pv |-> Absent]]

\* 19 SEQUENCE / 21 SET
RSequence(env, T, bits, p, al) ==
  LET order == IF T.k = "SET" THEN CanonicalOrder(env, T) ELSE [i \in 1..Len(T.root) |-> i]
      root == [i \in 1..Len(order) |-> T.root[order[i]]]
      ext == IsExt(env, T)
      eb == IF ext THEN RBits(bits, p, 1) ELSE ROk(<<0>>, p)
  IN IF ~eb.ok THEN eb
     ELSE LET rm == RPreambleAndMembers(env, root, bits, eb.p, al) IN
          IF ~rm.ok THEN rm
          ELSE LET toValue(pairs) == [nm \in {pairs[j].n : j \in 1..Len(pairs)} |->
                                        pairs[CHOOSE j \in 1..Len(pairs) : pairs[j].n = nm].pv]
                   noAdds == Concat([a \in 1..Len(T.adds) |->
                                IF T.adds[a].g THEN AbsentMembers(T.adds[a].ms) ELSE AbsentMembers(<<T.adds[a].m>>)])
               IN IF eb.v[1] = 0 THEN ROk(toValue(rm.v \o noAdds), rm.p)
                  ELSE \* 19.7 - 19.9: number of additions, presence bitmap, one open type per present addition
                       LET nl == RNormallySmallLength(bits, rm.p, al) IN
                       IF ~nl.ok THEN nl
                       ELSE LET bm == RBits(bits, nl.p, nl.v) IN
                            IF ~bm.ok THEN bm
                            ELSE LET step(acc, a) ==
                                       IF ~acc.ok THEN acc
                                       ELSE IF bm.v[a] = 0
                                            THEN (IF a > Len(T.adds) THEN acc
                                                  ELSE ROk(acc.v \o (IF T.adds[a].g THEN AbsentMembers(T.adds[a].ms)
                                                                     ELSE AbsentMembers(<<T.adds[a].m>>)), acc.p))
                                            ELSE LET o == ROctetsUnconstrained(bits, acc.p, al) IN
                                                 IF ~o.ok THEN o
                                                 ELSE IF a > Len(T.adds) THEN ROk(acc.v, o.p)          \* unknown addition: skipped
                                                 ELSE LET ib == BytesToBits(o.v)
                                                          inner == IF T.adds[a].g
                                                                   THEN RPreambleAndMembers(env, T.adds[a].ms, ib, 1, al)
                                                                   ELSE RMembers(env, <<T.adds[a].m>>, <<TRUE>>, ib, 1, al)
                                                      IN IF ~inner.ok THEN RFail("in addition: " \o inner.why, acc.p)
                                                         ELSE ROk(acc.v \o inner.v, o.p)
                                     ra == FoldLeft(step, ROk(<<>>, bm.p), [a \in 1..nl.v |-> a])
                                     missing == Concat([a \in 1..Len(T.adds) |->
                                                  IF a <= nl.v THEN <<>>
                                                  ELSE IF T.adds[a].g THEN AbsentMembers(T.adds[a].ms)
                                                  ELSE AbsentMembers(<<T.adds[a].m>>)])
                                 IN IF ~ra.ok THEN ra ELSE ROk(toValue(rm.v \o ra.v \o missing), ra.p)

\* 23 CHOICE
RChoice(env, T, bits, p, al) ==
  LET order == CanonicalOrder(env, T)
      readRoot(q) ==
        LET r == RConstrainedWholeNumber(bits, q, Zero, FromInt(Len(T.root) - 1), al) IN
        IF ~r.ok THEN r
        ELSE LET alt == T.root[order[ToInt(r.v) + 1]]
                 x == PerRead(env, alt.t, bits, r.p, al)
             IN IF ~x.ok THEN RFail(alt.n \o ": " \o x.why, x.p) ELSE ROk([a |-> alt.n, v |-> x.v], x.p)
  IN IF IsExt(env, T)
     THEN LET b == RBits(bits, p, 1) IN
          IF ~b.ok THEN b
          ELSE IF b.v[1] = 0 THEN readRoot(b.p)
          ELSE LET r == RNormallySmall(bits, b.p, al) IN
               IF ~r.ok THEN r
               ELSE IF r.v >= Len(T.adds)
                    THEN LET o == ROctetsUnconstrained(bits, r.p, al) IN                   \* unknown alternative: skipped
                         IF ~o.ok THEN o ELSE ROk([a |-> UnknownItem, v |-> "NULL"], o.p)
                    ELSE LET alt == T.adds[r.v + 1]
                             x == ROpenType(env, alt.t, bits, r.p, al)
                         IN IF ~x.ok THEN x ELSE ROk([a |-> alt.n, v |-> x.v], x.p)
     ELSE readRoot(p)

RRaw(bits, p, al) ==
  LET o == ROctetsUnconstrained(bits, p, al) IN IF ~o.ok THEN o ELSE ROk([raw |-> o.v], o.p)

PerRead(env, T, bits, p, al) ==
  CASE T.k = "REF" -> PerRead(env, env.types[T.name], bits, p, al)
    [] T.k = "BOOL" -> LET b == RBits(bits, p, 1) IN IF ~b.ok THEN b ELSE ROk(b.v[1] = 1, b.p)
    [] T.k = "NULL" -> ROk("NULL", p)
    [] T.k = "INT" -> RInteger(T, bits, p, al)
    [] T.k = "ENUM" -> REnumerated(env, T, bits, p, al)
    [] T.k \in {"REAL", "OID"} -> RRaw(bits, p, al)
    [] T.k = "BITS" -> RBitString(T, bits, p, al)
    [] T.k = "OCTS" -> ROctetString(T, bits, p, al)
    [] T.k = "STR" -> IF KnownMultiplier(T.st) THEN RKnownMultiplier(T, bits, p, al) ELSE RRaw(bits, p, al)
    [] T.k \in {"SEQ", "SET"} -> RSequence(env, T, bits, p, al)
    [] T.k \in {"SEQOF", "SETOF"} -> RSequenceOf(env, T, bits, p, al)
    [] T.k = "CHOICE" -> RChoice(env, T, bits, p, al)

\* a complete encoding (octets) of an outermost value: read it all; the rest is padding (10.1.3)
PerDecode(env, T, octs, al) ==
  LET bits == BytesToBits(octs)
      r == PerRead(env, T, bits, 1, al)
  IN IF ~r.ok THEN r
     ELSE IF Len(bits) - (r.p - 1) >= 8 /\ ~(r.p = 1 /\ octs = <<0>>)       \* (an empty encoding is the single octet 00)
          THEN RFail("octets left over", r.p)
     ELSE IF \E j \in r.p..Len(bits) : bits[j] = 1 THEN RFail("padding bits not zero", r.p)
     ELSE r

------------------------------------------------------------------------------
(* comparing a reading with an abstract value                               *)

RECURSIVE RMatches(_, _, _, _)
RMatches(env, T, v, rv) ==
  CASE T.k = "REF" -> RMatches(env, env.types[T.name], v, rv)
    [] T.k = "REAL" -> rv.raw = RealContents(v)
    [] T.k = "OID" -> rv.raw = OidContents(v)
    [] T.k = "STR" -> IF KnownMultiplier(T.st) THEN rv = v ELSE rv.raw = StringContents(T.st, v)
    [] T.k = "BITS" -> IF T.nb # <<>> THEN TrimBits(rv) = TrimBits(v) ELSE rv = v
    [] T.k \in {"SEQ", "SET"} ->
         LET ms == AllMembers(T) IN
         \A j \in 1..Len(ms) :
            LET m == ms[j]  a == v[m.n]  b == rv[m.n] IN
            IF b.p THEN a.p /\ RMatches(env, m.t, a.v, b.v)
            ELSE ~a.p \/ (m.q = "D" /\ AbsEq(env, m.t, a.v, m.d))
    [] T.k = "CHOICE" ->
         LET alts == AllAlts(T) IN
         rv.a = v.a /\ RMatches(env, alts[MemberIndex(alts, v.a)].t, v.v, rv.v)
    [] T.k \in {"SEQOF", "SETOF"} -> Len(rv) = Len(v) /\ \A j \in 1..Len(v) : RMatches(env, T.e, v[j], rv[j])
    [] OTHER -> rv = v

=============================================================================
