SPECIFICATION TSpec
CONSTANTS
  Codec = "uper"
  MaxDepth = 1
  Rich = TRUE
