SPECIFICATION TSpec
