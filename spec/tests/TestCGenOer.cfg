SPECIFICATION TSpec
CONSTANTS
  Codec = "oer"
  MaxDepth = 1
  Rich = TRUE
