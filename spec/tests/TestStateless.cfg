SPECIFICATION TestSpec
CONSTANTS
  Threads = {1, 2}
  MaxCalls = 2
  Mech = "PerCall"
