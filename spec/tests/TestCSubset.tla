---- MODULE TestCSubset ----
(* model regression for C09/C10: the subset predicate, the struct image, the V1/V2 projection,
   the generator's tables *)
EXTENDS CGen

E0 == [tagdef |-> "A", extimp |-> FALSE, types |-> [x \in {} |-> 0]]
EN == [tagdef |-> "A", extimp |-> FALSE,
       types |-> [x \in {"En", "Oc"} |-> IF x = "En" THEN TEnum(<<It("p", 0), It("q", 5)>>, FALSE, <<>>)
                                          ELSE TOcts(Sz(1, 4, FALSE))]]

\* every entry of the just-outside table is refused for the stated reason, wherever it is wrapped
ASSUME \A i \in 1..Len(COutside) :
         /\ WhyOutside(E0, COutside[i].t, Codec) = COutside[i].why
         /\ \A j \in 1..Len(CWrapsOut(COutside[i].t)) : ~InCSubset(E0, CWrapsOut(COutside[i].t)[j], Codec)
\* every primitive and shape of the subset tables is inside, and so is every production around it
ASSUME \A i \in 1..Len(CPrims) :
         /\ InCSubset(E0, CPrims[i], Codec)
         /\ \A j \in 1..Len(CWrapsIn(E0, CPrims[i])) : InCSubset(E0, CWrapsIn(E0, CPrims[i])[j], Codec)
ASSUME ~InCSubset(RecEnv, TRef("Rec"), Codec) /\ WhyOutside(RecEnv, TRef("Rec"), Codec) = "RECURSIVE"
ASSUME /\ WhyOutside(E0, CReal("B32"), "oer") = "" /\ WhyOutside(E0, CReal("B32"), "uper") = "REAL"
       /\ WhyOutside(E0, TReal, "oer") = "REAL-NOT-IEEE"
       /\ WhyOutside(E0, I(B(0), Pred(CP64)), "uper") = "" /\ WhyOutside(E0, I(B(0), CP64), "uper") = "INT-GT64"
       /\ WhyOutside(E0, I(B(-1), Pred(CP63)), "uper") = "" /\ WhyOutside(E0, I(B(-1), CP63), "uper") = "INT-GT64"
       /\ WhyOutside(E0, TBits(Sz(64, 64, FALSE), <<>>), "oer") = "" /\ WhyOutside(E0, TBits(Sz(65, 65, FALSE), <<>>), "oer") = "BITS-GT64"
       /\ WhyOutside(E0, TSeq("SEQ", <<Pre>>, TRUE, <<Add1(Mand("x", TBool))>>), "oer") = ""
       /\ WhyOutside(E0, TSeq("SEQ", <<Pre>>, TRUE, <<Add1(Mand("x", TBool))>>), "uper") = "SEQ-ADDITIONS"
       /\ WhyOutside(E0, TSeq("SEQ", <<Pre>>, TRUE, <<>>), "uper") = ""
       /\ WhyOutside(E0, TSeq("SEQ", <<Pre, Mand("s", TStr("IA5", NoSz, NoAl))>>, FALSE, <<>>), "oer") = "STRING"

\* the struct image of a value: every meaningful member, nothing else
T1 == TSeq("SEQ", <<Mand("a", TBool), Opt("b", I(B(0), B(256))), Def("c", TRef("Oc"), <<1, 2>>), Mand("d", TRef("En")),
                    Mand("f", TChoice(<<Alt("p", TNull), Alt("q", I(B(-1), B(0)))>>, FALSE, <<>>)),
                    Mand("g", TOf("SEQOF", I(B(0), B(7)), Sz(0, 3, FALSE))), Mand("h", TBits(Sz(9, 9, FALSE), <<>>)),
                    Opt("a-b", TNull), Mand("e", TEnum(<<It("x", 0), It("y", 1)>>, FALSE, <<>>))>>, FALSE, <<>>)
V1 == [a |-> Present(TRUE), b |-> Absent, c |-> Absent, d |-> Present("q"), f |-> Present([a |-> "q", v |-> B(-1)]),
       g |-> Present(<<B(7), B(0)>>), h |-> Present(MkBits(<<1, 0, 0, 0, 0, 0, 0, 0, 1>>)), e |-> Present("y")]
       @@ [x \in {"a-b"} |-> Present("NULL")]
ASSUME CStruct(EN, T1, V1, "uper") =
  << FBool("a", TRUE), FBool("is_b_present", FALSE),
     FInt("c.length", B(2), Zero, B(4)), FBytes("c.buf", <<1, 2>>),
     FEnum("d.value", "q", 5),
     FChoice("f.choice", "q"), FInt("f.value.q", B(-1), B(-1), B(0)),
     FInt("g.length", B(2), Zero, B(3)), FInt("g.elements[0]", B(7), Zero, B(7)), FInt("g.elements[1]", Zero, Zero, B(7)),
     FInt("h", B(257), Zero, B(511)),
     FBool("is_a_b_present", TRUE),
     FEnum("e", "y", 1) >>
\* OER keeps BIT STRING values left-aligned in whole octets
ASSUME CStruct(EN, T1, V1, "oer")[11] = FInt("h", B(32896), Zero, B(65535))
ASSUME /\ BitsAsNumber(MkBits(<<0, 1, 0, 1>>), "uper") = B(5) /\ BitsAsNumber(MkBits(<<0, 1, 0, 1>>), "oer") = B(80)
\* top level primitives live in `value`; OCTET STRING / SEQUENCE OF / CHOICE members directly
ASSUME /\ CStruct(E0, TBool, FALSE, "uper") = <<FBool("value", FALSE)>>
       /\ CStruct(E0, TNull, "NULL", "uper") = <<>>
       /\ CStruct(EN, TRef("En"), "p", "oer") = <<FEnum("value", "p", 0)>>
       /\ CStruct(E0, TOcts(Sz(2, 2, FALSE)), <<9, 8>>, "oer") = <<FBytes("buf", <<9, 8>>)>>
       /\ CStruct(E0, TOf("SEQOF", TOcts(Sz(0, 1, FALSE)), Sz(1, 1, FALSE)), <<(<<7>>)>>, "oer")
            = <<FInt("elements[0].length", B(1), Zero, B(1)), FBytes("elements[0].buf", <<7>>)>>
       /\ CStruct(E0, CReal("B32"), RF(0, <<5>>, -2), "oer") = <<FReal("value", RF(0, <<5>>, -2), 32)>>
\* extension additions carry their own presence flag
TA == TSeq("SEQ", <<Pre>>, TRUE, <<Add1(Mand("x", I(B(0), B(255)))), Add1(Opt("y", TBool))>>)
ASSUME CStruct(E0, TA, [pre |-> Present(TRUE), x |-> Present(B(3)), y |-> Absent], "oer")
         = <<FBool("pre", TRUE), FBool("is_x_addition_present", TRUE), FInt("x", B(3), Zero, B(255)), FBool("is_y_addition_present", FALSE)>>

\* C storage
ASSUME /\ CTypeHolds("uint8_t", Zero, B(255)) /\ ~CTypeHolds("uint8_t", Zero, B(256)) /\ ~CTypeHolds("int8_t", B(-1), B(255))
       /\ CTypeHolds("int16_t", B(-1), B(255)) /\ CTypeHolds("uint64_t", Zero, Pred(CP64)) /\ ~CTypeHolds("int64_t", Zero, CP63)
       /\ ~CTypeHolds("float", Zero, Zero)

\* version 2 and the projection back to version 1
TA2 == V2Of(TA)
ASSUME /\ Len(TA2.adds) = 4
       /\ ProjectV(E0, TA, E0, TA2, [pre |-> Present(FALSE), x |-> Present(B(1)), y |-> Absent, n1 |-> Present(B(9)), n2 |-> Present(<<1>>)])
            = [pre |-> Present(FALSE), x |-> Present(B(1)), y |-> Absent]
       /\ HasExtSeq(E0, TOf("SEQOF", TA, Sz(0, 2, FALSE))) /\ ~HasExtSeq(EN, T1)

\* values of the tables are admitted and hit the storage boundaries
ASSUME /\ \A i \in 1..Len(CIntTypesRich) : \A j \in 1..Len(CIntValues(CIntTypesRich[i].con)) :
              Admits(E0, CIntTypesRich[i], CIntValues(CIntTypesRich[i].con)[j])
       /\ \E j \in 1..Len(CIntValues(I(B(-1), B(255)).con)) : CIntValues(I(B(-1), B(255)).con)[j] = B(255)
       /\ \E j \in 1..Len(CIntValues(I(B(0), Pred(CP64)).con)) : CIntValues(I(B(0), Pred(CP64)).con)[j] = Pred(CP64)

TSpec == gEnv = E0 /\ gT = TBool /\ gDepth = 0 /\ gCar = FALSE /\ [][UNCHANGED cvars]_cvars
====
