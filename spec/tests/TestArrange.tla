---------------------------- MODULE TestArrange ----------------------------
(* Model regression for C19: ArrangeSem (Meaning, NFEnv, deviations, input  *)
(* classes) and Arrange (seeds, actions and their side conditions).         *)
EXTENDS Arrange

Tds == <<"E", "I", "A">>

\* every seed is legal ASN.1 and its value table is admitted
ASSUME \A k \in 1..NSeeds : \A t \in 1..3 : SeedLegal([k |-> k, td |-> Tds[t]])

------------------------------------------------------------------------------
\* Meaning: tags of an imported type follow the tag default of the module that defines it
M5 == Meaning(Seed(5, "E"))                 \* A: EXPLICIT TAGS, Bm: AUTOMATIC TAGS
ASSUME M5.root[1].n = "x" /\ M5.root[1].t.tags = <<>>
ASSUME M5.root[1].t.root[1].n = "a" /\ M5.root[1].t.root[1].t.k = "BOOL"    \* Aux of Bm, not the Aux of A
ASSUME M5.root[2].t.k = "INT"               \* Aux of A
ASSUME M5.root[1].t.root[1].t.tags = <<[cls |-> "C", num |-> 0, mode |-> "I"]>>
ASSUME M5.root[1].t.root[2].t.tags = <<[cls |-> "C", num |-> 1, mode |-> "E"]>>   \* untagged CHOICE: EXPLICIT
M5I == Meaning(Seed(5, "A"))                \* A: AUTOMATIC TAGS, Bm: IMPLICIT TAGS
ASSUME M5I.root[1].t.tags = <<[cls |-> "C", num |-> 0, mode |-> "I"]>>
ASSUME M5I.root[1].t.root[1].t.tags = <<>>

\* a tag on a reference to an untagged CHOICE is EXPLICIT; on a reference to a tagged CHOICE it is not
M3 == Meaning(Seed(3, "I"))
ASSUME M3.root[1].n = "c" /\ M3.root[1].t.tags = <<[cls |-> "C", num |-> 1, mode |-> "E"]>>
ASSUME M3.root[4].n = "d" /\ M3.root[4].t.tags = <<[cls |-> "C", num |-> 8, mode |-> "I"], [cls |-> "C", num |-> 7, mode |-> "E"]>>
ASSUME MeaningS(Seed(3, "I"), {"DevTagOnTaggedChoiceRefExplicit"}).root[4].t.tags[1].mode = "E"

\* recursion: the tree is cut, the normal form keeps the recursive types named
ASSUME DOMAIN NFEnv(Seed(4, "A"), {}).types = {"Top", "M-Rec", "M-Tr"}
ASSUME DOMAIN NFEnv(Seed(1, "A"), {}).types = {"Top"}

------------------------------------------------------------------------------
\* COMPONENTS OF across modules: X.680 and the in-place deviation, against bytes recorded
\* from asn1tools (ber, value {w 9, p 1, q TRUE, y 3})
CoA == Mod("A", "A", << Imp("Bm", <<"B">>) >>, << Asg("Top", TSeq(<< Mand("w", TInt), CompOf("B"), Opt("y", TInt) >>)) >>)
CoB == Mod("Bm", "A", <<>>, << Asg("B", TSeq(<< Mand("p", TInt), Opt("q", TBool) >>)) >>)
CoV == [w |-> Present(FromInt(9)), p |-> Present(FromInt(1)), q |-> Present(TRUE), y |-> Present(FromInt(3))]
Der(arr, S) == LET e == NFEnv(arr, S) IN DerEnc(e, e.types["Top"], CoV, {})
AB == [mods |-> <<CoA, CoB>>]
BA == [mods |-> <<CoB, CoA>>]
Std == <<48, 12, 128, 1, 9, 129, 1, 1, 130, 1, 255, 131, 1, 3>>       \* 300c8001098101018201ff830103
Swapped == <<48, 12, 2, 1, 9, 128, 1, 1, 129, 1, 255, 2, 1, 3>>       \* 300c0201098001018101ff020103
ASSUME Der(AB, {}) = Std /\ Der(BA, {}) = Std
ASSUME Der(AB, {"DevComponentsOfInPlace"}) = Std
ASSUME Der(BA, {"DevComponentsOfInPlace"}) = Swapped
ASSUME TreeEq(Meaning(AB), Meaning(BA))
ASSUME ~TreeEq(MeaningS(AB, {"DevComponentsOfInPlace"}), MeaningS(BA, {"DevComponentsOfInPlace"}))

------------------------------------------------------------------------------
\* side conditions are necessary: the forbidden step would change the meaning
S2 == Seed(2, "A")
TopIdx == AsgIndex(S2.mods[1], "Top")
InT == InlinePlan(S2, 1, TopIdx, << <<"r", 4>> >>)        \* t Tn OPTIONAL, Tn ::= [5] INTEGER, Top tagged automatically
ASSUME GetAt(S2.mods[1].asg[TopIdx].t, << <<"r", 4>> >>).name = "Tn"
ASSUME ~InlineOk(InT)
ASSUME ~TreeEq(Meaning(InlineOf(S2, 1, TopIdx, InT)), Meaning(S2))
InB == InlinePlan(S2, 1, TopIdx, << <<"r", 1>> >>)        \* b Bo DEFAULT FALSE: allowed, meaning kept
ASSUME InlineOk(InB) /\ TreeEq(Meaning(InlineOf(S2, 1, TopIdx, InB)), Meaning(S2))

S1 == Seed(1, "A")                                        \* all components of Top carry a tag
T1 == AsgIndex(S1.mods[1], "Top")
ExMv == ExtractPlan([mods |-> << [S1.mods[1] EXCEPT !.asg[T1].t.root = SubSeq(@, 6, 6) \o << Mand("k", Cx(TBool, 9)) >>] >>],
                    1, T1, << <<"r", 2>> >>, TRUE)       \* { z INTEGER, k [9] BOOLEAN }: moving [9] away switches automatic tagging on
ASSUME ~ExtractOk(ExMv)

\* a definition copied into a module with another tag default is written out
S5 == Seed(5, "E")
T5 == AsgIndex(S5.mods[1], "Top")
InC == InlinePlan(S5, 1, T5, << <<"r", 3>> >>)            \* c Cu, Cu defined under AUTOMATIC TAGS
ASSUME InlineOk(InC) /\ InC.U.root[1].t.tags = <<[cls |-> "C", num |-> 0, mode |-> "I"]>>
ASSUME TreeEq(Meaning(InlineOf(S5, 1, T5, InC)), Meaning(S5))
InX == InlinePlan(S5, 1, T5, << <<"r", 1>> >>)            \* x Bt: Bt uses Bm's Aux, A has its own Aux
ASSUME ~InX.namesOk

\* SplitModule adds and redirects IMPORTS
Sp == SplitOf(S5, 2, {1, 2})                              \* Aux and Bt of Bm move to a new module
ASSUME WfArr(Sp) /\ Len(Sp.mods) = 3 /\ TreeEq(Meaning(Sp), Meaning(S5))
ASSUME QName(Sp, 1, "Bt") = "N1-Bt" /\ QName(Sp, 1, "Cu") = "Bm-Cu"

------------------------------------------------------------------------------
\* input classes
ASSUME ~NestedComponentsOf(Seed(7, "E"))
S7 == Seed(7, "E")
In7 == InlinePlan(S7, 1, 4, << <<"r", 1>> >>)             \* s [0] Wr, Wr contains COMPONENTS OF
ASSUME NestedComponentsOf(InlineOf(S7, 1, 4, In7))
ASSUME XerNames(S7) = <<"Fl">> /\ XerNames(Seed(3, "E")) = <<"Ch", "Tn">>
ASSUME ~ComponentsOfForeignScope(S7) /\ ComponentsOfForeignScope(SplitOf(S7, 1, {3}))     \* Wr moves away from Fl, which the components of Ba use
ASSUME ~RecursionAcrossModules(Seed(4, "I")) /\ RecursionAcrossModules(SplitOf(Seed(4, "I"), 1, {3}))
ASSUME LET e == NFEnv(Seed(1, "E"), {}) v == SeedVals([k |-> 1, td |-> "E"])[1] IN BoolDefaultViaReference(Seed(1, "E"), v)
ASSUME LET v == SeedVals([k |-> 3, td |-> "E"])[1] IN ~BoolDefaultViaReference(Seed(3, "E"), v)

=============================================================================
