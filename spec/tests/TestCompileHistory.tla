---- MODULE TestCompileHistory ----
(* Model regression for CompilePasses / CompileHistory on a hand-written corpus:      *)
(*  - the cfg model-checks the four invariants for the history-independent mechanism  *)
(*    (Devs = {}) over all histories up to length 4 of the three test dictionaries;    *)
(*  - the ASSUMEs pin what the passes compute, show that every deviation of the real    *)
(*    mechanism produces its counterexample, and that the model mutants are caught.    *)
EXTENDS CompileHistory

N(name, type) ==
  [name |-> name, type |-> type, tag |-> NoTag, opt |-> FALSE, def |-> NoDef, hasItems |-> FALSE, items |-> <<>>,
   elem |-> <<>>, vals |-> <<>>, nbits |-> <<>>, hasParams |-> FALSE, params |-> <<>>, hasActuals |-> FALSE,
   actuals |-> <<>>, modname |-> "", rest |-> ""]
MI(n) == [it |-> "M", ns |-> <<n>>, ref |-> ""]
CI(ref) == [it |-> "C", ns |-> <<>>, ref |-> ref]
Cont(name, type, items) == [N(name, type) EXCEPT !.hasItems = TRUE, !.items = items]
Bin(bits) == [NoDef EXCEPT !.f = "bin", !.l = bits]
Hex(nibbles) == [NoDef EXCEPT !.f = "hex", !.l = nibbles]
Nm(s) == [NoDef EXCEPT !.f = "name", !.s = s]
D(n, d) == [n EXCEPT !.def = d]
Ty(name, node) == [name |-> name, node |-> node]
Val(n, v) == [n |-> n, v |-> v, x |-> FALSE]
Dots == [n |-> "", v |-> 0, x |-> TRUE]
Module(name, tags, extimp, imports, types) ==
  [name |-> name, tags |-> tags, extimp |-> extimp, imports |-> imports, types |-> types, rest |-> ""]

\* importer first, exporter second; sorted order is the other way round
D1 == << Module("Zed", "AUTOMATIC", FALSE, <<[from |-> "Alpha", names |-> <<"Base", "Col">>]>>,
           << Ty("Top", Cont("", "SEQUENCE", <<MI(N("a", "INTEGER")), CI("Base"), MI(D(N("c", "Col"), Nm("green")))>>)) >>),
         Module("Alpha", "AUTOMATIC", TRUE, <<>>,
           << Ty("Base", Cont("", "SEQUENCE", <<MI(N("b1", "BOOLEAN")), MI(D(N("b2", "BIT STRING"), Bin(<<1, 0, 1>>)))>>)),
              Ty("Col", [N("", "ENUMERATED") EXCEPT !.vals = <<Val("red", 0), Val("green", 1)>>]) >>) >>
O1 == <<"Alpha", "Base", "Col", "Top", "Zed">>

\* a parameterized type whose dummy-typed member has a BIT STRING default
D2 == << Module("Pm", "AUTOMATIC", FALSE, <<>>,
           << Ty("Pair", [Cont("", "SEQUENCE", <<MI(D(N("fst", "First"), Bin(<<1, 0, 1, 0>>))), MI(N("num", "INTEGER"))>>)
                            EXCEPT !.hasParams = TRUE, !.params = <<"First">>]),
              Ty("Bits", [N("", "Pair") EXCEPT !.hasActuals = TRUE, !.actuals = <<N("", "BIT STRING")>>]) >>) >>
O2 == <<"Bits", "Pair", "Pm">>

\* an extensible ENUMERATED with a DEFAULT, more defaults
D3 == << Module("Ex", "IMPLICIT", FALSE, <<>>,
           << Ty("EE", [N("", "ENUMERATED") EXCEPT !.vals = <<Val("a", 0), Val("b", 1), Dots, Val("c", 2)>>]),
              Ty("W", Cont("", "SET", << MI(D([N("h", "BIT STRING") EXCEPT !.tag = [NoTag EXCEPT !.has = TRUE, !.num = 4]], Hex(<<10, 0>>))),
                                          MI(D([N("nb", "BIT STRING") EXCEPT !.nbits = <<[n |-> "x", v |-> 0], [n |-> "y", v |-> 2]>>],
                                               [NoDef EXCEPT !.f = "names", !.ns = <<"y">>])),
                                          MI(D(N("o", "OCTET STRING"), Bin(<<1, 0, 1>>))),
                                          MI(D(N("e", "EE"), Nm("b"))) >>)) >>) >>
O3 == <<"EE", "Ex", "W">>

TestCorpus == << [name |-> "t1", d |-> [mods |-> D1, order |-> O1, alias |-> 0]],
                 [name |-> "t2", d |-> [mods |-> D2, order |-> O2, alias |-> 0]],
                 [name |-> "t3", d |-> [mods |-> D3, order |-> O3, alias |-> 0]] >>

Mech == {"DevEnumMarkerUnpack", "DevModuleMajorPasses", "DevCompileInPlace"}
Twice(M, ne1, ne2, S) == View(Compile(Compile(M, ne1, S).m, ne2, S))
Once(M, ne, S) == View(Compile(M, ne, S))
Member(M, mi, ti, j) == M[mi].types[ti].node.items[j].ns[1]

\* what the passes compute (importer first: the copied members are numbered with the importer's)
ASSUME LET c == Compile(D1, FALSE, AllDevs)
           top == c.m[1].types[1].node
       IN /\ c.err = ""
          /\ Len(top.items) = 4
          /\ [j \in 1..4 |-> top.items[j].ns[1].tag.num] = <<0, 1, 2, 3>>
          /\ \A j \in 1..4 : top.items[j].ns[1].tag.kind = "IMPLICIT"
          /\ top.items[3].ns[1].def = [f |-> "bits", s |-> "", l |-> <<160>>, n |-> 3, ns |-> <<>>]
          /\ top.items[4].ns[1].def = Nm("green")
          /\ Len(c.m[2].types[1].node.items) = 3 /\ c.m[2].types[1].node.items[3] = XItem      \* EXTENSIBILITY IMPLIED in Alpha only
          /\ c.v[1] = c.v[2] /\ c.v[2] = c.v[3]

ASSUME LET c == Compile(D3, FALSE, AllDevs)
           w == c.m[1].types[2].node
       IN /\ c.err = ""
          /\ w.items[1].ns[1].def = [f |-> "bits", s |-> "", l |-> <<160>>, n |-> 3, ns |-> <<>>]     \* 'A0'H: trailing zero bits dropped
          /\ w.items[1].ns[1].tag.kind = "IMPLICIT"
          /\ w.items[2].ns[1].def = [f |-> "bits", s |-> "", l |-> <<32>>, n |-> 3, ns |-> <<>>]
          /\ w.items[3].ns[1].def = [f |-> "octs", s |-> "", l |-> <<160>>, n |-> 0, ns |-> <<>>]
          /\ ~w.items[2].ns[1].tag.has

\* DevEnumDefaultInPlace: numeric_enums writes the number into the dictionary ...
ASSUME Member(Compile(D1, TRUE, AllDevs).m, 1, 1, 4).def = [NoDef EXCEPT !.f = "int", !.s = "1"]
ASSUME Member(Compile(D1, TRUE, Mech).m, 1, 1, 4).def = Nm("green")
\* ... and a later compile without numeric_enums reads it: the known counterexample
ASSUME Twice(D1, TRUE, FALSE, AllDevs) # Once(D1, FALSE, AllDevs)
ASSUME Twice(D1, TRUE, FALSE, Mech) = Once(D1, FALSE, Mech)
ASSUME Twice(D1, FALSE, TRUE, AllDevs) = Once(D1, TRUE, AllDevs)
ASSUME TypeDiffers(Compile(Compile(D1, TRUE, AllDevs).m, FALSE, AllDevs), Compile(D1, FALSE, AllDevs), "Top")
ASSUME ~TypeDiffers(Compile(Compile(D1, TRUE, AllDevs).m, FALSE, AllDevs), Compile(D1, FALSE, AllDevs), "Base")

\* DevEnumMarkerUnpack: the second pre_process of the same call meets the marker
ASSUME Compile(D3, TRUE, AllDevs).err = "TypeError"
ASSUME Member(Compile(D3, TRUE, AllDevs).m, 1, 2, 4).def = [NoDef EXCEPT !.f = "int", !.s = "1"]
ASSUME Compile(D3, TRUE, {"DevEnumDefaultInPlace"}).err = ""
ASSUME Compile(D3, TRUE, {"DevEnumMarkerUnpack"}).err = ""

\* DevPformatSortsDicts x DevModuleMajorPasses: serialising puts the exporter first
ASSUME [i \in 1..2 |-> PformatEval(D1, O1, AllDevs)[i].name] = <<"Alpha", "Zed">>
ASSUME PformatEval(D1, O1, {}) = D1
ASSUME Once(PformatEval(D1, O1, AllDevs), FALSE, AllDevs) # Once(D1, FALSE, AllDevs)
ASSUME LET top == Compile(PformatEval(D1, O1, AllDevs), FALSE, AllDevs).m[2].types[1].node
       IN ~top.items[1].ns[1].tag.has /\ top.items[2].ns[1].tag.num = 0          \* Base's own numbers, "a" untagged
ASSUME Once(PformatEval(D1, O1, AllDevs), FALSE, AllDevs \ {"DevModuleMajorPasses"}) = Once(D1, FALSE, AllDevs \ {"DevModuleMajorPasses"})
ASSUME Once(PformatEval(Compile(D1, FALSE, AllDevs).m, O1, AllDevs), FALSE, AllDevs) = Once(D1, FALSE, AllDevs)   \* harmless after a compile

\* DevDefaultsBeforeParameterization: the first pre_process leaves the instantiated default as text
ASSUME LET c == Compile(D2, FALSE, AllDevs)
       IN /\ c.err = "" /\ Len(c.m[1].types) = 1
          /\ Member(c.v[1], 1, 1, 1).def.f = "bin" /\ Member(c.v[2], 1, 1, 1).def.f = "bits"
          /\ Member(c.v[1], 1, 1, 1).type = "BIT STRING" /\ Member(c.v[1], 1, 1, 1).tag.kind = "EXPLICIT"
ASSUME Twice(D2, FALSE, FALSE, AllDevs) # Once(D2, FALSE, AllDevs)
ASSUME Twice(D2, FALSE, FALSE, Mech) = Once(D2, FALSE, Mech)
ASSUME Member(Compile(D2, FALSE, Mech).v[1], 1, 1, 1).def.f = "bits"

\* DevCompileInPlace off: the caller's dictionary is never touched
ASSUME CompileDict(D1, TRUE, {}).m = D1 /\ CompileDict(D1, TRUE, AllDevs).m # D1
ASSUME View(CompileDict(D1, TRUE, {})) = View(Compile(D1, TRUE, {}))

\* the model mutants break idempotence and the requirement
ASSUME PassEI(PassEI(D1, 2, {"MutMarkerEveryRun"}), 2, {"MutMarkerEveryRun"}) # PassEI(D1, 2, {"MutMarkerEveryRun"})
ASSUME Twice(D1, FALSE, FALSE, {"MutMarkerEveryRun"}) # Once(D1, FALSE, {"MutMarkerEveryRun"})
ASSUME PassTAGS(PassTAGS(D1, 2, {"MutTagsTwice"}), 2, {"MutTagsTwice"}) # PassTAGS(D1, 2, {"MutTagsTwice"})
ASSUME Twice(D1, FALSE, FALSE, {"MutTagsTwice"}) # Once(D1, FALSE, {"MutTagsTwice"})
ASSUME \A mi \in 1..2 : PassEI(PassEI(D1, mi, {}), mi, {}) = PassEI(D1, mi, {}) /\ PassTAGS(PassTAGS(D1, mi, {}), mi, {}) = PassTAGS(D1, mi, {})
====
