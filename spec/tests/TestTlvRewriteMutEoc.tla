---- MODULE TestTlvRewriteMutEoc ----
(* Sensitivity of TlvRewrite!ModelOk: with the deliberately wrong serialiser            *)
(* Mut = "NoEocOnWrap" (no end-of-contents octets after an indefinite-length EXPLICIT   *)
(* tag wrapper) the model-level check must fail -- and only where the mutation applies. *)
EXTENDS TlvRewrite
NoSz == [f |-> "N"]
TOcts == [k |-> "OCTS", tags |-> <<[cls |-> "A", num |-> 1, mode |-> "E"]>>, sz |-> NoSz]
Env == [tagdef |-> "E", extimp |-> FALSE, types |-> [T1 |-> TOcts]]
W0 == BerTree(Env, TOcts, <<170, 187>>)
With(t, p, lf) == Put(t, p, [NodeAt(t, p) EXCEPT !.lf = lf])
ASSUME Mut = "NoEocOnWrap"
ASSUME SerBer(With(W0, <<>>, "indef")) = <<97, 128, 4, 2, 170, 187>>
ASSUME ~ReadBack(SerBer(With(W0, <<>>, "indef")), With(W0, <<>>, "indef")).ok
ASSUME ReadBack(SerBer(With(W0, <<>>, "pad2")), With(W0, <<>>, "pad2")).ok
VARIABLE x
TSpec == (x = 0 /\ gCase = 0 /\ gVi = 0 /\ gTree = 0 /\ gSteps = 0 /\ gRef = 0) /\ [][UNCHANGED <<x, gCase, gVi, gTree, gSteps, gRef>>]_<<x, gCase, gVi, gTree, gSteps, gRef>>
====
