SPECIFICATION TSpec
CONSTANTS
  Mode = "abs"
  Classes = {}
  Seed = 1
  MaxLen = 0
  Dense = 300
  MaxVals = 0
