---- MODULE TestCGenOer ----
(* the generator's tables under Codec = "oer" *)
EXTENDS CGen

E0 == [tagdef |-> "A", extimp |-> FALSE, types |-> [x \in {} |-> 0]]

ASSUME \A i \in 1..Len(COutside) :
         /\ WhyOutside(E0, COutside[i].t, Codec) = COutside[i].why
         /\ \A j \in 1..Len(CWrapsOut(COutside[i].t)) : ~InCSubset(E0, CWrapsOut(COutside[i].t)[j], Codec)
ASSUME \A i \in 1..Len(CPrims) :
         /\ InCSubset(E0, CPrims[i], Codec)
         /\ \A j \in 1..Len(CWrapsIn(E0, CPrims[i])) : InCSubset(E0, CWrapsIn(E0, CPrims[i])[j], Codec)
\* REAL values of the binary32 table are exactly representable: at most 24 mantissa bits, exponent in range
ASSUME \A i \in 1..Len(CRealValues("B32")) :
         LET r == CRealValues("B32")[i] IN r.c = "F" => (MagBitLen(r.m) <= 24 /\ r.e >= -149 /\ r.e <= 104)
ASSUME \A i \in 1..Len(CRealValues("B64")) :
         LET r == CRealValues("B64")[i] IN r.c = "F" => (MagBitLen(r.m) <= 53 /\ r.e >= -1074 /\ r.e <= 971)
\* every paired case projects onto admitted version-1 values
TA == TSeq("SEQ", <<Pre, Opt("o", I(B(0), B(255)))>>, TRUE, <<Add1(Mand("w", TBool))>>)
ASSUME LET e2 == EnvV2(EnvWithTop(E0, TA))
           vs2 == CVals(e2, e2.types["Top"])
       IN /\ Len(vs2) > 3
          /\ \A i \in 1..Len(vs2) : Admits(EnvWithTop(E0, TA), TA, ProjectV(EnvWithTop(E0, TA), TA, e2, e2.types["Top"], vs2[i]))
          /\ \E i \in 1..Len(vs2) : vs2[i]["n1"].p /\ vs2[i]["n2"].p

TSpec == gEnv = E0 /\ gT = TBool /\ gDepth = 0 /\ gCar = FALSE /\ [][UNCHANGED cvars]_cvars
====
