SPECIFICATION Spec
