---- MODULE TestCorrupt ----
(* Model regression tests for CorruptRules.tla (C12): the accept table of the   *)
(* type checker, nodes, applicability, the expected path, the deviation path    *)
(* through recursive references, extension additions.                           *)
EXTENDS CorruptRules
B(n) == FromInt(n)
TIntN == [k |-> "INT", tags |-> <<>>, nn |-> <<>>, con |-> [f |-> "N"]]
TInt(lb, ub) == [k |-> "INT", tags |-> <<>>, nn |-> <<>>,
                 con |-> [f |-> "R", lbinf |-> FALSE, ubinf |-> FALSE, lb |-> B(lb), ub |-> B(ub), ext |-> FALSE]]
TBool == [k |-> "BOOL", tags |-> <<>>]
TEnum == [k |-> "ENUM", tags |-> <<>>, root |-> <<[n |-> "a", v |-> 0], [n |-> "b", v |-> 5]>>, ext |-> FALSE, adds |-> <<>>]
TOf(e) == [k |-> "SEQOF", tags |-> <<>>, e |-> e, sz |-> [f |-> "N"]]
TRef(n) == [k |-> "REF", tags |-> <<>>, name |-> n]
Mem(n, t, q) == [n |-> n, t |-> t, q |-> q, d |-> "NULL"]
TSeq(root, ext, adds) == [k |-> "SEQ", tags |-> <<>>, root |-> root, ext |-> ext, adds |-> adds]
TCh(root) == [k |-> "CHOICE", tags |-> <<>>, root |-> root, ext |-> FALSE, adds |-> <<>>]
Alt(n, t) == [n |-> n, t |-> t]
Add1(m) == [g |-> FALSE, m |-> m, ms |-> <<>>]

Rec == TSeq(<<Mem("v", TIntN, "M"), Mem("next", TRef("Rec"), "O")>>, FALSE, <<>>)
RC == TCh(<<Alt("leaf", TIntN), Alt("node", TOf(TRef("RC")))>>)
S == TSeq(<<Mem("a", TInt(0, 10), "M"), Mem("e", TEnum, "M"), Mem("c", TCh(<<Alt("p", TIntN), Alt("q", TBool)>>), "M"),
            Mem("l", TOf(TSeq(<<Mem("z", TBool, "M"), Mem("o", TBool, "O")>>, FALSE, <<>>)), "M")>>,
          TRUE, <<Add1(Mem("x", TSeq(<<Mem("m", TBool, "M")>>, FALSE, <<>>), "M"))>>)
Env == [tagdef |-> "A", extimp |-> FALSE, types |-> [Rec |-> Rec, RC |-> RC, S |-> S, Top |-> TRef("Rec")]]
Names == [Rec |-> "C1xRec", RC |-> "C1xRC", S |-> "C1xS", Top |-> "C1xTop"]
P(v) == [p |-> TRUE, v |-> v]
SV == [a |-> P(B(1)), e |-> P("a"), c |-> P([a |-> "p", v |-> B(7)]),
       l |-> P(<< [z |-> P(TRUE), o |-> Absent], [z |-> P(FALSE), o |-> P(TRUE)] >>), x |-> P([m |-> P(TRUE)])]
RV == [v |-> P(B(1)), next |-> P([v |-> P(B(2)), next |-> P([v |-> P(B(3)), next |-> Absent])])]
PosZ2 == <<MStep("l"), IStep(2), MStep("z")>>
C(kind, pos, tau, nes, member, num, v2) == Cor(kind, pos, tau, nes, member, num, v2, "")

\* the accept table is type_checker.py's: str passes for INTEGER, bool is an int, int passes for REAL
ASSUME /\ "str" \in Accepts("INT", FALSE) /\ "bool" \in Accepts("INT", FALSE) /\ "float" \notin Accepts("INT", FALSE)
       /\ RejectedUnder("INT", "None") = <<FALSE, TRUE>> /\ RejectedUnder("INT", "str") = <<>>
       /\ RejectedUnder("BOOL", "int") = <<FALSE, TRUE>> /\ RejectedUnder("OCTS", "str") = <<FALSE, TRUE>>
       /\ RejectedUnder("STR", "bytes") = <<FALSE, TRUE>> /\ RejectedUnder("SEQ", "list") = <<FALSE, TRUE>>
       /\ RejectedUnder("ENUM", "str") = <<TRUE>> /\ RejectedUnder("ENUM", "int") = <<FALSE>>
       /\ RejectedUnder("CHOICE", "tuple2s") = <<>> /\ RejectedUnder("CHOICE", "list") = <<FALSE, TRUE>>
       /\ RejectedUnder("BITS", "tuple2b") = <<>> /\ RejectedUnder("BITS", "bytes") = <<FALSE, TRUE>>
       /\ RejectedUnder("REAL", "int") = <<>> /\ RejectedUnder("NULL", "int") = <<FALSE, TRUE>>

\* nodes: every node of the value tree, pre-order; absent members have no node
ASSUME /\ Len(Nodes(Env, S, SV)) = 13
       /\ Nodes(Env, S, SV)[1].pos = <<>>
       /\ \E j \in 1..13 : Nodes(Env, S, SV)[j].pos = PosZ2
       /\ Len(Nodes(Env, TRef("Rec"), RV)) = 6
       /\ ReachesNode(Env, S, SV, PosZ2) /\ ~ReachesNode(Env, S, SV, <<MStep("l"), IStep(3), MStep("z")>>)
       /\ ~ReachesNode(Env, S, SV, <<MStep("l"), IStep(1), MStep("o")>>)
       /\ ~ReachesNode(Env, S, SV, <<MStep("c"), AStep("q")>>)
       /\ TypeAt(Env, S, PosZ2).k = "BOOL"

\* applicability and the expected error
ASSUME /\ Applicable(Env, S, SV, C("type", PosZ2, "int", <<FALSE, TRUE>>, "", 0, "NULL"))
       /\ ~Applicable(Env, S, SV, C("type", PosZ2, "bool", <<FALSE, TRUE>>, "", 0, "NULL"))
       /\ ~Applicable(Env, S, SV, C("type", <<MStep("a")>>, "str", <<FALSE, TRUE>>, "", 0, "NULL"))       \* str is accepted for INTEGER
       /\ Applicable(Env, S, SV, C("type", <<MStep("e")>>, "str", <<TRUE>>, "", 0, "NULL"))
       /\ ~Applicable(Env, S, SV, C("type", <<MStep("e")>>, "str", <<FALSE, TRUE>>, "", 0, "NULL"))
       /\ Applicable(Env, S, SV, C("enum", <<MStep("e")>>, "", BothNe, "", 6, "NULL"))
       /\ ~Applicable(Env, S, SV, C("enum", <<MStep("e")>>, "", BothNe, "", 5, "NULL"))                    \* 5 is item b
       /\ UnusedNumber(TEnum) = 6
       /\ Applicable(Env, S, SV, C("alt", <<MStep("c")>>, "", BothNe, "", 0, "NULL"))
       /\ Applicable(Env, S, SV, C("missing", <<MStep("l"), IStep(1)>>, "", BothNe, "z", 0, "NULL"))
       /\ ~Applicable(Env, S, SV, C("missing", <<MStep("l"), IStep(1)>>, "", BothNe, "o", 0, "NULL"))     \* o is OPTIONAL
       /\ ~Applicable(Env, S, SV, C("missing", <<>>, "", BothNe, "x", 0, "NULL"))                          \* x is an extension addition
       /\ Applicable(Env, S, SV, C("con", <<MStep("a")>>, "", BothNe, "", 0, [SV EXCEPT !.a = P(B(11))]))
       /\ ~Applicable(Env, S, SV, C("con", <<MStep("a")>>, "", BothNe, "", 0, SV))
       /\ Expected(Env, S, SV, C("type", PosZ2, "int", BothNe, "", 0, "NULL")) = [cls |-> "EncodeError", path |-> <<"l", "z">>]
       /\ Expected(Env, S, SV, C("missing", <<MStep("l"), IStep(1)>>, "", BothNe, "z", 0, "NULL")).path = <<"l">>
       /\ Expected(Env, S, SV, C("con", <<MStep("a")>>, "", BothNe, "", 0, SV)).cls = "ConstraintsError"
       /\ Expected(Env, S, SV, C("alt", <<MStep("c")>>, "", BothNe, "", 0, "NULL")).path = <<"c">>
       /\ KindName(C("type", <<>>, "None", BothNe, "", 0, "NULL")) = "WrongPyType(None)"
       /\ Len(NodeCorruptions(Env, [pos |-> <<>>, t |-> TIntN, x |-> B(1)], TauUniverse)) = 9
       /\ Len(NodeCorruptions(Env, [pos |-> <<>>, t |-> S, x |-> SV], TauUniverse)) = 11 + 4

\* the deviation path repeats the type name at recursive references, and only there
ASSUME /\ DevPath(Env, "Rec", <<MStep("next"), MStep("v")>>, Names) = <<"next", "C1xRec", "v">>
       /\ DevPath(Env, "Rec", <<MStep("next"), MStep("next"), MStep("v")>>, Names) = <<"next", "C1xRec", "next", "C1xRec", "v">>
       /\ DevPath(Env, "Rec", <<MStep("next")>>, Names) = <<"next", "C1xRec">>
       /\ DevPath(Env, "Rec", <<MStep("v")>>, Names) = <<"v">>
       /\ DevPath(Env, "Top", <<MStep("next"), MStep("v")>>, Names) = <<"next", "C1xRec", "v">>
       /\ DevPath(Env, "RC", <<AStep("node"), IStep(1), AStep("leaf")>>, Names) = <<"node", "C1xRC", "leaf">>
       /\ DevPath(Env, "S", PosZ2, Names) = NamePath(PosZ2)
       /\ InsideAddition(Env, S, <<MStep("x")>>) /\ InsideAddition(Env, S, <<MStep("x"), MStep("m")>>)
       /\ ~InsideAddition(Env, S, PosZ2) /\ ~InsideAddition(Env, S, <<>>)
VARIABLE x
Spec == x = 0 /\ [][UNCHANGED x]_x
====
