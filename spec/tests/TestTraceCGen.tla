---- MODULE TestTraceCGen ----
(* self-test of the trace specification: a recorded line that is a behaviour of the specification is
   accepted; each single corrupted fact (a flipped output byte, a too-small buffer that was not refused,
   a wrong member, a wrong presence flag, a sanitizer event, a non-fixed-point, an accepted REAL) is rejected *)
EXTENDS Trace_CGen

B(n) == FromInt(n)
TBool == [k |-> "BOOL", tags |-> <<>>]
TI == [k |-> "INT", tags |-> <<>>, nn |-> <<>>,
       con |-> [f |-> "R", lbinf |-> FALSE, ubinf |-> FALSE, lb |-> B(0), ub |-> B(300), ext |-> FALSE]]
TS == [k |-> "SEQ", tags |-> <<>>, ext |-> FALSE, adds |-> <<>>,
       root |-> << [n |-> "a", t |-> TBool, q |-> "O", d |-> "NULL"], [n |-> "b", t |-> TI, q |-> "M", d |-> "NULL"] >>]
Env == [tagdef |-> "A", extimp |-> FALSE, types |-> [x \in {"Top"} |-> TS]]
Val == [a |-> Present(TRUE), b |-> Present(B(258))]
Py == <<192, 129, 0>>      \* what the python codec is recorded to have produced (opaque to the specification)

FA == [p |-> "is_a_present", k |-> "bool", ct |-> "bool", v |-> TRUE]
FB == [p |-> "a", k |-> "bool", ct |-> "bool", v |-> TRUE]
FC == [p |-> "b", k |-> "int", ct |-> "uint16_t", v |-> B(258)]

Obs == [vi |-> 1, py |-> [st |-> "ok", b |-> Py], set |-> <<>>,
        enc |-> [rets |-> <<-12, -12, -12, 3, 3>>, b |-> Py, b1 |-> Py, big |-> [ret |-> 3, b |-> Py]],
        dec |-> [ret |-> 3, f |-> <<FA, FB, FC>>],
        re |-> [ret |-> 3, b |-> Py]]
AdvA == [in |-> <<1, 2>>, d1 |-> 2, i1 |-> "aa", e1 |-> 2, b1 |-> <<1, 0>>, d2 |-> 2, i2 |-> "aa", e2 |-> 2, b2 |-> <<1, 0>>]
Line == [cid |-> "t1", env |-> Env, top |-> "Top", codec |-> "uper", vals |-> <<Val>>, paired |-> FALSE,
         gen |-> [st |-> "ok"], cc |-> [gcc |-> [rc |-> 0, diags |-> <<>>], clang |-> [rc |-> 0, errs |-> <<>>]],
         obs |-> <<Obs>>, adv |-> [n |-> 3, rejected |-> 2, accepted |-> <<AdvA>>, accepted_more |-> 0],
         pairs |-> <<>>, crashes |-> <<>>]

Rejects(L, check) == \E j \in 1..Len(LineReport(L).other) : LineReport(L).other[j].check = check /\ LineReport(L).other[j].verdict = "reject"
WithObs(o) == [Line EXCEPT !.obs = <<o>>]

ASSUME LineReport(Line).other = <<>> /\ LineReport(Line).n = LineReport(Line).ok /\ LineReport(Line).n = 10
\* one flipped bit in the C output
ASSUME Rejects(WithObs([Obs EXCEPT !.enc.b = <<192, 129, 1>>]), "ENC")
ASSUME Rejects(WithObs([Obs EXCEPT !.enc.b1 = <<192, 129, 1>>]), "ENC")
ASSUME Rejects(WithObs([Obs EXCEPT !.enc.rets = <<-12, -12, -12, 2, 3>>]), "ENC")
\* a destination one octet too small that was not refused
ASSUME Rejects(WithObs([Obs EXCEPT !.enc.rets = <<-12, -12, 3, 3, 3>>]), "SMALL")
ASSUME ~Rejects(WithObs([Obs EXCEPT !.enc.rets = <<-12, -12, 3, 3, 3>>]), "ENC")
\* decoder: wrong consumed length, wrong member value, wrong presence flag, member missing, C type too small
ASSUME Rejects(WithObs([Obs EXCEPT !.dec.ret = 2]), "DEC")
ASSUME Rejects(WithObs([Obs EXCEPT !.dec.f = <<FA, FB, [FC EXCEPT !.v = B(257)]>>]), "DEC")
ASSUME Rejects(WithObs([Obs EXCEPT !.dec.f = <<[FA EXCEPT !.v = FALSE], FB, FC>>]), "DEC")
ASSUME Rejects(WithObs([Obs EXCEPT !.dec.f = <<FA, [p |-> "a", k |-> "missing"], FC>>]), "DEC")
ASSUME Rejects(WithObs([Obs EXCEPT !.dec.f = <<FA, FB, [FC EXCEPT !.ct = "uint8_t"]>>]), "DEC")
ASSUME Rejects(WithObs([Obs EXCEPT !.dec.f = <<FA, FB>>]), "DEC")
ASSUME Rejects(WithObs([Obs EXCEPT !.re.b = <<192, 129, 1>>]), "REENC")
ASSUME Rejects(WithObs([Obs EXCEPT !.set = <<[p |-> "b", err |-> "range", ct |-> "uint8_t"]>>]), "SET")
\* adversarial input that is accepted but is not a fixed point
ASSUME Rejects([Line EXCEPT !.adv.accepted = <<[AdvA EXCEPT !.i2 = "ab"]>>], "ADV")
ASSUME Rejects([Line EXCEPT !.adv.accepted = <<[AdvA EXCEPT !.e1 = -22]>>], "ADV")
ASSUME Rejects([Line EXCEPT !.adv.accepted = <<[AdvA EXCEPT !.d2 = 1]>>], "ADV")
ASSUME Rejects([Line EXCEPT !.adv.accepted = <<[AdvA EXCEPT !.b2 = <<1, 1>>]>>], "ADV")
\* no action of the specification produces a sanitizer report
ASSUME Rejects([Line EXCEPT !.crashes = <<[op |-> "A", vi |-> 0, kind |-> "asan:heap-buffer-overflow:read", frame |-> "decoder_read_bytes"]>>], "CRASH")
\* the source has to compile
ASSUME Rejects([Line EXCEPT !.cc.gcc = [rc |-> 1, diags |-> <<>>, first_error |-> "error: x"]], "CC")
\* a type of the subset must not be refused; a type outside must be refused with asn1tools.errors.Error
ASSUME Rejects([Line EXCEPT !.gen = [st |-> "exc", cls |-> "Error", mro |-> <<"asn1tools.errors.Error">>, msg |-> "m", site |-> "s"]], "GEN")
TR == [k |-> "REAL", tags |-> <<>>]
LineR == [cid |-> "t2", env |-> [Env EXCEPT !.types = [x \in {"Top"} |-> TR]], top |-> "Top", codec |-> "uper", vals |-> <<>>,
          paired |-> FALSE, gen |-> [st |-> "ok"], emitted |-> "struct { uint8_t dummy; }"]
ASSUME Rejects(LineR, "GEN")
ASSUME LineReport([LineR EXCEPT !.gen = [st |-> "exc", cls |-> "Error", mro |-> <<"asn1tools.errors.Error", "Exception">>, msg |-> "m", site |-> "s"]]).other = <<>>
ASSUME Rejects([LineR EXCEPT !.gen = [st |-> "exc", cls |-> "KeyError", mro |-> <<"KeyError", "Exception">>, msg |-> "m", site |-> "s"]], "GEN")
\* OER: version-2 bytes must be consumed completely by the version-1 decoder and give the projected value
TX == [k |-> "SEQ", tags |-> <<>>, ext |-> TRUE, adds |-> <<>>, root |-> << [n |-> "a", t |-> TBool, q |-> "M", d |-> "NULL"] >>]
TX2 == [TX EXCEPT !.adds = << [g |-> FALSE, ms |-> <<>>, m |-> [n |-> "n1", t |-> TI, q |-> "M", d |-> "NULL"]] >>]
LineP == [cid |-> "t3", env |-> [Env EXCEPT !.types = [x \in {"Top"} |-> TX]], top |-> "Top", codec |-> "oer", vals |-> <<>>,
          paired |-> TRUE, env2 |-> [Env EXCEPT !.types = [x \in {"Top"} |-> TX2]],
          vals2 |-> << [a |-> Present(TRUE), n1 |-> Present(B(7))] >>,
          gen |-> [st |-> "ok"], cc |-> [gcc |-> [rc |-> 0, diags |-> <<>>], clang |-> [rc |-> 0, errs |-> <<>>]],
          obs |-> <<>>, adv |-> [n |-> 0, rejected |-> 0, accepted |-> <<>>, accepted_more |-> 0], crashes |-> <<>>,
          pairs |-> << [vi |-> 1, py |-> [st |-> "ok", b |-> <<128, 255, 2, 7, 128, 2, 0, 7>>],
                        dec |-> [ret |-> 8, f |-> << [p |-> "a", k |-> "bool", ct |-> "bool", v |-> TRUE] >>]] >>]
ASSUME LineReport(LineP).other = <<>>
ASSUME Rejects([LineP EXCEPT !.pairs[1].dec.ret = 2], "V1V2")
ASSUME Rejects([LineP EXCEPT !.pairs[1].dec.f = << [p |-> "a", k |-> "bool", ct |-> "bool", v |-> FALSE] >>], "V1V2")
\* the input classes are what they say
ASSUME /\ IsSignedUpperHalf([TI EXCEPT !.con.lb = B(-1), !.con.ub = B(255)])
       /\ ~IsSignedUpperHalf([TI EXCEPT !.con.lb = B(-1), !.con.ub = B(127)])
       /\ IsSignedUpperHalf([TI EXCEPT !.con.lb = B(-128), !.con.ub = B(65407)])
       /\ ~IsSignedUpperHalf([TI EXCEPT !.con.lb = B(-129), !.con.ub = B(255)])
       /\ ~IsSignedUpperHalf(TI)
       /\ IsInt64Offset([TI EXCEPT !.con.lb = B(-1), !.con.ub = Pred(CP63)])
       /\ ~IsInt64Offset([TI EXCEPT !.con.lb = Neg(CP63), !.con.ub = Pred(CP63)])
       /\ ~IsInt64Offset([TI EXCEPT !.con.lb = B(-1), !.con.ub = B(255)])

TSpec == i = 1 /\ [][UNCHANGED i]_i
====
