#!/bin/sh
# run one unit-test module: tests/run.sh TestBase
cd /verif/spec && cp tests/$1.tla tests/$1.cfg . 2>/dev/null
md=$(mktemp -d /tmp/tlcmeta.XXXXXX)
tlc -metadir $md "$@" 2>&1 | grep -v -E "^ *$|^Parsing|^Semantic|^Linting" | cut -c1-${COLS:-600} | head -${LINES_MAX:-60}
rm -rf $md $1.tla $1.cfg
