SPECIFICATION Spec
