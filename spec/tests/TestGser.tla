---- MODULE TestGser ----
(* Model regression for Gser.tla: the literal outputs pinned by /repo/tests/test_gser.py are
   read by the reader (with the deviations they need), ill-formed texts are rejected naming the
   production, the generator round-trips, and every generator mutation is caught. *)
EXTENDS Gser

\* printable ASCII 32..126 in order, then LINE FEED
Ascii == " !\"#$%&'()*+,-./0123456789:;<=>?@ABCDEFGHIJKLMNOPQRSTUVWXYZ[\\]^_`abcdefghijklmnopqrstuvwxyz{|}~\n"
CodeOf(c) == LET k == CHOOSE k \in 1..96 : SubSeq(Ascii, k, k) = c IN IF k = 96 THEN 10 ELSE 31 + k
S(str) == Force([i \in 1..Len(str) |-> CodeOf(SubSeq(str, i, i))])

NC == [f |-> "N"]
NoAl == [has |-> FALSE, set |-> <<>>]
TInt == [k |-> "INT", tags |-> <<>>, con |-> NC, nn |-> <<>>]
TBool == [k |-> "BOOL", tags |-> <<>>]
TNull == [k |-> "NULL", tags |-> <<>>]
TReal == [k |-> "REAL", tags |-> <<>>]
TOid == [k |-> "OID", tags |-> <<>>]
TOcts == [k |-> "OCTS", tags |-> <<>>, sz |-> NC]
TBits == [k |-> "BITS", tags |-> <<>>, sz |-> NC, nb |-> <<>>]
TBitsN == [k |-> "BITS", tags |-> <<>>, sz |-> NC, nb |-> <<[n |-> "x", v |-> 0], [n |-> "y", v |-> 3]>>]
TStr(st) == [k |-> "STR", tags |-> <<>>, st |-> st, sz |-> NC, al |-> NoAl]
TEnum == [k |-> "ENUM", tags |-> <<>>, root |-> <<[n |-> "dBm-102", v |-> 0], [n |-> "p95", v |-> 1]>>, ext |-> FALSE, adds |-> <<>>]
M(n, t, q, d) == [n |-> n, t |-> t, q |-> q, d |-> d]
TSeqOf(k, e) == [k |-> k, tags |-> <<>>, e |-> e, sz |-> NC]
TSeqK(k, root) == [k |-> k, tags |-> <<>>, root |-> root, ext |-> FALSE, adds |-> <<>>]
TChoice(alts) == [k |-> "CHOICE", tags |-> <<>>, root |-> alts, ext |-> FALSE, adds |-> <<>>]
Alt(n, t) == [n |-> n, t |-> t]

Env(T) == [tagdef |-> "A", extimp |-> FALSE, types |-> [A |-> T]]
\* read text for type T: compact layout, deviations Sd, float table fl
Rd(T, str, Sd, fl) == GserRead(Env(T), "A", "A", S(str), FALSE, Sd, fl, GNoHint)
RdI(T, str, Sd) == GserRead(Env(T), "A", "A", S(str), TRUE, Sd, <<>>, GNoHint)
Reads(T, str, v) == LET r == Rd(T, str, {}, <<>>) IN r.ok /\ AbsEq(Env(T), T, v, r.v)
Rejects(T, str, prod) == LET r == Rd(T, str, {}, <<>>) IN ~r.ok /\ r.prod = prod
F(s, m, e) == [c |-> "F", s |-> s, m |-> m, e |-> e]
Sp(c) == [c |-> c, s |-> 0, m |-> <<>>, e |-> 0]

(* ---- /repo/tests/test_gser.py ---- *)
ASSUME Reads(TReal, "a A ::= 0", Sp("Z"))
ASSUME Reads(TReal, "a A ::= PLUS-INFINITY", Sp("PINF"))
ASSUME Reads(TReal, "a A ::= MINUS-INFINITY", Sp("NINF"))
ASSUME Reads(TReal, "a A ::= 1.0E0", F(0, <<1>>, 0))
ASSUME Reads(TReal, "a A ::= 8E0", F(0, <<1>>, 3))
ASSUME Reads(TReal, "a A ::= 0.625E0", F(0, <<5>>, -3))
\* 1.1 is not a dyadic rational: the reader needs the recorded float() result for the lexeme [9, 14)
D11 == F(0, <<8, 204, 204, 204, 204, 204, 205>>, -51)
ASSUME LET r == Rd(TReal, "a A ::= 1.1E0", {}, << [s |-> 9, pre |-> <<[e |-> 10, v |-> F(0, <<1>>, 0)], [e |-> 14, v |-> D11]>>] >>)
       IN r.ok /\ r.v = D11
ASSUME LET r == Rd(TReal, "a A ::= 1.1E0", {}, <<>>) IN ~r.ok /\ r.prod = "realnumber"
ASSUME Reads(TNull, "a A ::= NULL", "NULL")
ASSUME Reads(TOcts, "a A ::= '0123456789ABCDEF'H", <<1, 35, 69, 103, 137, 171, 205, 239>>)
ASSUME Reads(TOcts, "a A ::= ''H", <<>>)
SeqAB == TSeqK("SEQ", <<M("a", TBool, "M", "NULL"), M("b", TBool, "O", "NULL")>>)
SetAB == TSeqK("SET", <<M("a", TBool, "M", "NULL"), M("b", TBool, "O", "NULL")>>)
SeqDef == TSeqK("SEQ", <<M("a", TBool, "D", TRUE)>>)
ASSUME Reads(SeqAB, "a A ::= { a TRUE }", [a |-> Present(TRUE), b |-> Absent])
ASSUME Reads(SeqAB, "a A ::= { a FALSE, b TRUE }", [a |-> Present(FALSE), b |-> Present(TRUE)])
ASSUME Reads(SetAB, "a A ::= { a FALSE, b TRUE }", [a |-> Present(FALSE), b |-> Present(TRUE)])
ASSUME Reads(SetAB, "a A ::= { b TRUE, a FALSE }", [a |-> Present(FALSE), b |-> Present(TRUE)])
ASSUME Reads(SeqDef, "a A ::= { }", [a |-> Present(TRUE)])
ASSUME Reads(SeqDef, "a A ::= { }", [a |-> Absent])
ASSUME Reads(TSeqOf("SEQOF", TInt), "a A ::= { }", <<>>)
ASSUME Reads(TSeqOf("SEQOF", TInt), "a A ::= { 1 }", <<FromInt(1)>>)
ASSUME Reads(TSeqOf("SETOF", TInt), "a A ::= { 1, 3 }", <<FromInt(3), FromInt(1)>>)
ASSUME Reads(TStr("UTF8"), "a A ::= \"foo\"", <<102, 111, 111>>)
ASSUME Reads(TStr("Numeric"), "a A ::= \"01 23\"", <<48, 49, 32, 50, 51>>)
ASSUME LET r == GserRead(Env(TStr("BMP")), "A", "A", S("a A ::= \"") \o <<258, 34>>, FALSE, {}, <<>>, GNoHint) IN r.ok /\ r.v = <<258>>
Question == TSeqK("SEQ", <<M("id", TInt, "M", "NULL"), M("question", TStr("IA5"), "M", "NULL")>>)
QV == [id |-> Present(FromInt(1)), question |-> Present(S("Is 1+1=3?"))]
ASSUME Reads(Question, "a A ::= { id 1, question \"Is 1+1=3?\" }", QV)
ASSUME LET r == RdI(Question, "a A ::= {\n  id 1,\n  question \"Is 1+1=3?\"\n}", {}) IN r.ok /\ AbsEq(Env(Question), Question, QV, r.v)
\* the indented layout is not RFC 3641 text for the strict white-space class
ASSUME Rejects(Question, "a A ::= {\n  id 1,\n  question \"Is 1+1=3?\"\n}", "NamedValue")
\* RRC 8.6.0 excerpt: nested CHOICE written with ` : `, bit strings, hyphenated enumeration items
Rrc == TSeqK("SEQ", <<M("message", TChoice(<<Alt("c1", TChoice(<<Alt("systemInformation",
          TSeqK("SEQ", <<M("ac-BarringForSpecialAC", TBits, "M", "NULL"), M("power", TEnum, "M", "NULL"), M("p-b", TInt, "M", "NULL")>>))>>))>>), "M", "NULL")>>)
RrcText == "a A ::= {\n  message c1 : systemInformation : {\n    ac-BarringForSpecialAC '11110'B,\n    power dBm-102,\n    p-b -60\n  }\n}"
RrcV == [message |-> Present([a |-> "c1", v |-> [a |-> "systemInformation", v |->
           ("ac-BarringForSpecialAC" :> Present([n |-> 5, b |-> <<240>>])) @@ ("power" :> Present("dBm-102")) @@ ("p-b" :> Present(FromInt(-60)))]])]
ASSUME LET r == RdI(Rrc, RrcText, {"DevGserChoiceColonSpaces"}) IN r.ok /\ AbsEq(Env(Rrc), Rrc, RrcV, r.v)
ASSUME LET r == RdI(Rrc, RrcText, {}) IN ~r.ok /\ r.prod = "ChoiceValue" /\ r.at = 23

(* ---- productions: accepted forms ---- *)
ASSUME Reads(TBits, "a A ::= ''B", [n |-> 0, b |-> <<>>])
ASSUME Reads(TBits, "a A ::= 'A5'H", [n |-> 8, b |-> <<165>>])
ASSUME Reads(TBits, "a A ::= '101'B", [n |-> 3, b |-> <<160>>])
ASSUME Reads(TBitsN, "a A ::= { x, y }", [n |-> 4, b |-> <<144>>])
ASSUME Reads(TBitsN, "a A ::= {}", [n |-> 0, b |-> <<>>])
ASSUME Reads(TBitsN, "a A ::= '1001000'B", [n |-> 4, b |-> <<144>>])
ASSUME Reads(TStr("UTF8"), "a A ::= \"a\"\"b\"", <<97, 34, 98>>)
ASSUME Reads(TStr("UTF8"), "a A ::= \"\"\"\"", <<34>>)
ASSUME Reads(TStr("UTF8"), "a A ::= \"\"", <<>>)
ASSUME Reads(TStr("UTF8"), "a A ::= \", }\n{\"", <<44, 32, 125, 10, 123>>)
ASSUME Reads(TInt, "a A ::= -128", FromInt(-128))
ASSUME Reads(TInt, "a A ::= 18446744073709551616", TwoTo(64))
ASSUME Reads([TInt EXCEPT !.nn = <<[n |-> "one", v |-> FromInt(1)]>>], "a A ::= one", FromInt(1))
ASSUME Reads(TOid, "a A ::= 2.999.3", <<2, 999, 3>>)
ASSUME Reads(TEnum, "a A ::= dBm-102", "dBm-102")
ASSUME Reads(TReal, "a A ::= -2.5E0", F(1, <<5>>, -1))
ASSUME Reads(TReal, "a A ::= 125E-2", F(0, <<5>>, -2))
ASSUME Reads(TReal, "a A ::= 0.05E2", F(0, <<5>>, 0))
ASSUME Reads(TReal, "a A ::= 1E20", F(0, <<86, 188, 117, 226, 214, 49>>, 20))
ASSUME Reads(TReal, "a A ::= { mantissa 5, base 2, exponent -3 }", F(0, <<5>>, -3))
ASSUME Reads(TReal, "a A ::= { mantissa -20, base 2, exponent 0 }", F(1, <<5>>, 2))
ASSUME Reads(TReal, "a A ::= { mantissa 25, base 10, exponent -1 }", F(0, <<5>>, -1))
ASSUME Reads(TChoice(<<Alt("a", TChoice(<<Alt("b", TNull)>>))>>), "a A ::= a:b:NULL", [a |-> "a", v |-> [a |-> "b", v |-> "NULL"]])
ASSUME Reads(TSeqOf("SEQOF", TSeqOf("SEQOF", TInt)), "a A ::= {{1,2},{},  { 3 }}", <<(<<FromInt(1), FromInt(2)>>), (<<>>), (<<FromInt(3)>>)>>)
\* DevGserRealPythonExponent: python repr followed by E0
ASSUME LET r == Rd(TReal, "a A ::= 1e+20E0", {"DevGserRealPythonExponent"}, <<>>) IN r.ok /\ r.v = F(0, <<86, 188, 117, 226, 214, 49>>, 20)
ASSUME LET r == Rd(TReal, "a A ::= 1.5e-05E0", {"DevGserRealPythonExponent"}, <<>>) IN ~r.ok   \* not dyadic, no float() record
ASSUME Rejects(TReal, "a A ::= 1e+20E0", "realnumber")
\* DevGserNoQuoteDoubling reads against the known value only
ASSUME GserAccepts(Env(TStr("UTF8")), "A", "A", S("a A ::= \"a\"b\""), FALSE, {"DevGserNoQuoteDoubling"}, <<>>, <<97, 34, 98>>)
ASSUME ~GserAccepts(Env(TStr("UTF8")), "A", "A", S("a A ::= \"a\"b\""), FALSE, {"DevGserNoQuoteDoubling"}, <<>>, <<97, 98>>)
ASSUME ~GserAccepts(Env(TStr("UTF8")), "A", "A", S("a A ::= \"a\"b\""), FALSE, {}, <<>>, <<97, 34, 98>>)

(* ---- productions: rejected forms, the production is named ---- *)
ASSUME Rejects(TStr("UTF8"), "a A ::= \"a\"b\"", "ValueAssignment")            \* text after the value
ASSUME Rejects(TStr("UTF8"), "a A ::= \"abc", "StringValue")
ASSUME Rejects(TOcts, "a A ::= 'ab'H", "OctetStringValue")
ASSUME Rejects(TOcts, "a A ::= 'ABC'H", "OctetStringValue")
ASSUME Rejects(TOcts, "a A ::= '0101'B", "OctetStringValue")
ASSUME Rejects(TBits, "a A ::= '012'B", "BitStringValue")
ASSUME Rejects(TBits, "a A ::= { x }", "BitStringValue")
ASSUME Rejects(TBool, "a A ::= true", "BooleanValue")
ASSUME Rejects(TBool, "a A ::= TRUEX", "ValueAssignment")
ASSUME Rejects(TInt, "a A ::= -0", "IntegerValue")
ASSUME Rejects(TInt, "a A ::= 007", "IntegerValue")
ASSUME Rejects(TInt, "a A ::= +7", "IntegerValue")
ASSUME Rejects(TOid, "a A ::= 1", "ObjectIdentifierValue")
ASSUME Rejects(TEnum, "a A ::= p96", "EnumeratedValue")
ASSUME Rejects(TEnum, "a A ::= dBm-", "EnumeratedValue")
ASSUME Rejects(TReal, "a A ::= 1.0", "realnumber")
ASSUME Rejects(TReal, "a A ::= 0.0E0", "realnumber")
ASSUME Rejects(TReal, "a A ::= -0", "RealValue")
ASSUME Rejects(TReal, "a A ::= 1.0E+2", "realnumber")
ASSUME Rejects(TReal, "a A ::= NaN", "RealValue")
ASSUME Rejects(SeqAB, "a A ::= { b TRUE }", "SequenceValue")
ASSUME Rejects(SeqAB, "a A ::= { b TRUE, a TRUE }", "SequenceValue")
ASSUME Rejects(SetAB, "a A ::= { a TRUE, a TRUE }", "SetValue")
ASSUME Rejects(SeqAB, "a A ::= { a TRUE , b TRUE }", "ComponentList")         \* no sp before the comma
ASSUME Rejects(SeqAB, "a A ::= { a TRUE b TRUE }", "ComponentList")
ASSUME Rejects(SeqAB, "a A ::= { aTRUE }", "NamedValue")
ASSUME Rejects(SeqAB, "a A ::= { c TRUE }", "NamedValue")
ASSUME Rejects(SeqAB, "a A ::= { a TRUE", "ComponentList")
ASSUME Rejects(TSeqOf("SEQOF", TInt), "a A ::= { 1 3 }", "SequenceOfValue")
ASSUME Rejects(TSeqOf("SEQOF", TInt), "a A ::= { 1, }", "IntegerValue")
ASSUME Rejects(TChoice(<<Alt("a", TNull)>>), "a A ::= a : NULL", "ChoiceValue")
ASSUME Rejects(TChoice(<<Alt("a", TNull)>>), "a A ::= b:NULL", "ChoiceValue")
ASSUME Rejects(TNull, "a B ::= NULL", "ValueAssignment")
ASSUME Rejects(TNull, "A A ::= NULL", "valuereference")
ASSUME Rejects(TNull, "a A ::=NULL", "ValueAssignment")
ASSUME Rejects(TNull, "a A ::= NULL ", "ValueAssignment")

(* ---- generator: round trip and mutations ---- *)
Mixed == TSeqK("SEQ", <<M("s", TStr("UTF8"), "M", "NULL"), M("o", TOcts, "M", "NULL"), M("b", TBits, "M", "NULL"),
                        M("c", TChoice(<<Alt("in", TChoice(<<Alt("n", TNull)>>))>>), "M", "NULL"), M("l", TSeqOf("SEQOF", TInt), "M", "NULL")>>)
MV == [s |-> Present(<<97, 34, 98>>), o |-> Present(<<171, 1>>), b |-> Present([n |-> 3, b |-> <<160>>]),
       c |-> Present([a |-> "in", v |-> [a |-> "n", v |-> "NULL"]]), l |-> Present(<<FromInt(1), FromInt(-2)>>)]
RT(ind, Mt) == LET t == GserTextM(Env(Mixed), "A", MV, ind, Mt)
                   r == GserRead(Env(Mixed), "A", "A", t, ind >= 0, {}, <<>>, GNoHint)
               IN r.ok /\ AbsEq(Env(Mixed), Mixed, MV, r.v)
ASSUME \A ind \in {-1, 0, 2, 4} : RT(ind, {})
ASSUME GserText(Env(Mixed), "A", MV, -1) = S("a A ::= { s \"a\"\"b\", o 'AB01'H, b '101'B, c in:n:NULL, l { 1, -2 } }")
ASSUME GserText(Env(Mixed), "A", MV, 2) = S("a A ::= {\n  s \"a\"\"b\",\n  o 'AB01'H,\n  b '101'B,\n  c in:n:NULL,\n  l {\n    1,\n    -2\n  }\n}")
ASSUME ~RT(-1, {"MutNoQuoteDoubling"}) /\ ~RT(-1, {"MutHexLowerCase"}) /\ ~RT(-1, {"MutBitsPadToOctet"}) /\ ~RT(-1, {"MutNoColonInNestedChoice"})
ASSUME RT(-1, {"MutDropCommaWhenIndented"}) /\ ~RT(2, {"MutDropCommaWhenIndented"})
ASSUME GserText(Env(TReal), "A", F(0, <<5>>, -2), -1) = S("a A ::= 1.25E0")
ASSUME GserText(Env(TReal), "A", F(1, <<1>>, -20), -1) = S("a A ::= -9.5367431640625E-7")
ASSUME GserText(Env(TReal), "A", F(0, <<1>>, -1074), -1) = S("a A ::= { mantissa 1, base 2, exponent -1074 }")
ASSUME ~GRepresentable(Env(TReal), TReal, Sp("NZ")) /\ ~GRepresentable(Env(TReal), TReal, Sp("NAN")) /\ GRepresentable(Env(TReal), TReal, Sp("Z"))

VARIABLE x
Spec == x = 0 /\ [][UNCHANGED x]_x
====
