---- MODULE TestConstraints ----
(* Model regression tests for Constraints.tla (C11): ViolationPaths, the named  *)
(* deviations for constraints on references, boundary completeness (including  *)
(* a deliberately incomplete table that MUST be reported).                      *)
EXTENDS Constraints, TLC
B(n) == FromInt(n)
IntC(lb, ub, ext) == [f |-> "R", lbinf |-> FALSE, ubinf |-> FALSE, lb |-> B(lb), ub |-> B(ub), ext |-> ext]
TInt(lb, ub, ext) == [k |-> "INT", tags |-> <<>>, nn |-> <<>>, con |-> IntC(lb, ub, ext)]
TIntMax(lb) == [k |-> "INT", tags |-> <<>>, nn |-> <<>>,
                con |-> [f |-> "R", lbinf |-> FALSE, ubinf |-> TRUE, lb |-> B(lb), ub |-> Zero, ext |-> FALSE]]
Sz(lb, ub, ext) == [f |-> "R", lb |-> lb, ub |-> ub, ubinf |-> FALSE, ext |-> ext]
NoSz == [f |-> "N"]
TOcts(sz) == [k |-> "OCTS", tags |-> <<>>, sz |-> sz]
TStr(st, sz, al) == [k |-> "STR", tags |-> <<>>, st |-> st, sz |-> sz, al |-> al]
TOf(e, sz) == [k |-> "SEQOF", tags |-> <<>>, e |-> e, sz |-> sz]
TRef(n) == [k |-> "REF", tags |-> <<>>, name |-> n]
Mem(n, t, q) == [n |-> n, t |-> t, q |-> q, d |-> "NULL"]
TSeq(root) == [k |-> "SEQ", tags |-> <<>>, root |-> root, ext |-> FALSE, adds |-> <<>>]
TCh(root) == [k |-> "CHOICE", tags |-> <<>>, root |-> root, ext |-> FALSE, adds |-> <<>>]
Alt(n, t) == [n |-> n, t |-> t]

A0 == TInt(0, 255, FALSE)
O0 == TOcts(Sz(0, 4, FALSE))
L0 == TOf([k |-> "BOOL", tags |-> <<>>], NoSz)
F == TSeq(<<Mem("a", TInt(0, 10, FALSE), "M"),
            Mem("b", TOf(TInt(0, 10, FALSE), Sz(1, 2, FALSE)), "M"),
            Mem("c", TCh(<<Alt("x", TStr("IA5", Sz(1, 3, FALSE), [has |-> TRUE, set |-> <<65, 66, 67>>])),
                           Alt("y", TRef("A0"))>>), "M"),
            Mem("o", TInt(0, 10, TRUE), "O")>>)
Env == [tagdef |-> "A", extimp |-> FALSE,
        types |-> [A0 |-> A0, O0 |-> O0, L0 |-> L0, F |-> F,
                   T1 |-> [k |-> "REF", tags |-> <<>>, name |-> "A0", con |-> IntC(0, 300, FALSE)],
                   T2 |-> [k |-> "REF", tags |-> <<>>, name |-> "O0", sz |-> Sz(0, 6, FALSE)],
                   T3 |-> [k |-> "REF", tags |-> <<>>, name |-> "L0", sz |-> Sz(1, 2, FALSE)],
                   S1 |-> TSeq(<<Mem("x", [k |-> "REF", tags |-> <<>>, name |-> "O0", sz |-> Sz(0, 6, FALSE)], "M")>>)]]
P(v) == [p |-> TRUE, v |-> v]
FV(a, b, c, o) == [a |-> P(a), b |-> P(b), c |-> P(c), o |-> o]
Good == FV(B(10), <<B(0)>>, [a |-> "x", v |-> <<65>>], P(B(77)))     \* o is extensible: 77 admitted
Paths(env, T, v) == LET vp == ViolationPaths(env, T, v) IN [j \in 1..Len(vp) |-> <<JoinDot(NamePath(vp[j].pos)), vp[j].why>>]

ASSUME /\ ConAdmits(Env, F, Good)
       /\ Paths(Env, F, FV(B(11), <<B(0)>>, [a |-> "x", v |-> <<65>>], Absent)) = << <<"a", "range">> >>
       /\ Paths(Env, F, FV(B(-1), <<B(0)>>, [a |-> "x", v |-> <<65>>], Absent)) = << <<"a", "range">> >>
       /\ Paths(Env, F, FV(B(0), <<>>, [a |-> "x", v |-> <<65>>], Absent)) = << <<"b", "size">> >>
       /\ Paths(Env, F, FV(B(0), <<B(0), B(11)>>, [a |-> "x", v |-> <<65>>], Absent)) = << <<"b", "range">> >>      \* list index contributes nothing
       /\ Paths(Env, F, FV(B(0), <<B(0), B(1), B(11)>>, [a |-> "x", v |-> <<65>>], Absent)) = << <<"b", "size">>, <<"b", "range">> >>
       /\ Paths(Env, F, FV(B(0), <<B(0)>>, [a |-> "x", v |-> <<68>>], Absent)) = << <<"c.x", "alphabet">> >>
       /\ Paths(Env, F, FV(B(0), <<B(0)>>, [a |-> "x", v |-> <<65, 65, 65, 65>>], Absent)) = << <<"c.x", "size">> >>
       /\ Paths(Env, F, FV(B(0), <<B(0)>>, [a |-> "y", v |-> B(256)], Absent)) = << <<"c.y", "range">> >>           \* through a reference
       /\ ConAdmits(Env, F, FV(B(0), <<B(0)>>, [a |-> "y", v |-> B(255)], Absent))
       /\ ConAdmits(Env, TIntMax(3), B(1000000)) /\ ~ConAdmits(Env, TIntMax(3), B(2))
       /\ JoinDot(<<"T", "a", "b">>) = "T.a.b" /\ JoinDot(<<>>) = ""
       /\ NamePath(<<MStep("a"), IStep(3), AStep("x")>>) = <<"a", "x">>

\* constraints on references: the standard reading intersects, the deviations reproduce the tool
ASSUME /\ ~ConAdmits(Env, Env.types.T1, B(256)) /\ ~ConAdmits(Env, Env.types.T1, B(301)) /\ ConAdmits(Env, Env.types.T1, B(255))
       /\ ViolationPathsD(Env, Env.types.T1, B(256), {"DevRefRangeReplaces"}, FALSE) = <<>>
       /\ ViolationPathsD(Env, Env.types.T1, B(301), {"DevRefRangeReplaces"}, FALSE) # <<>>
       /\ ~ConAdmits(Env, Env.types.T2, <<1, 2, 3, 4, 5>>)
       /\ ~ConAdmits(Env, Env.types.T3, <<>>)
       /\ ViolationPathsD(Env, Env.types.T3, <<>>, {"DevRefSizeIgnoredOutsideMember"}, FALSE) = <<>>
       /\ ViolationPathsD(Env, Env.types.T3, <<>>, {"DevRefSizeReplacesAtMember"}, FALSE) # <<>>
       /\ ~ConAdmits(Env, Env.types.S1, [x |-> P(<<1, 2, 3, 4, 5>>)])
       /\ ViolationPathsD(Env, Env.types.S1, [x |-> P(<<1, 2, 3, 4, 5>>)], {"DevRefSizeReplacesAtMember"}, FALSE) = <<>>
       /\ ViolationPathsD(Env, Env.types.S1, [x |-> P(<<1, 2, 3, 4, 5, 6, 7>>)], {"DevRefSizeReplacesAtMember"}, FALSE) # <<>>
       /\ ViolationPathsD(Env, Env.types.S1, [x |-> P(<<1, 2, 3, 4, 5>>)], {"DevRefSizeIgnoredOutsideMember"}, FALSE) # <<>>

\* boundary completeness: a complete table passes, a table that lacks ub + 1 is reported
Complete == <<B(-1), B(0), B(1), B(9), B(10), B(11)>>
ASSUME /\ BoundaryComplete(Env, TInt(0, 10, FALSE), Complete, 2)
       /\ ~BoundaryComplete(Env, TInt(0, 10, FALSE), <<B(-1), B(0), B(1), B(9), B(10)>>, 2)
       /\ LET m == MissingNeighbours(Env, TInt(0, 10, FALSE), <<B(-1), B(0), B(1), B(9), B(10)>>, 2)
          IN Len(m) = 1 /\ m[1].side = "ub" /\ m[1].d = 1
       /\ ~BoundaryComplete(Env, F, <<Good>>, 2)
       /\ BoundaryComplete(Env, TOcts(Sz(0, 2, FALSE)), << <<>>, <<1>>, <<1, 2>>, <<1, 2, 3>> >>, 2)      \* size -1 does not exist
       /\ ~BoundaryComplete(Env, TOcts(Sz(0, 2, FALSE)), << <<>>, <<1>>, <<1, 2>> >>, 2)
       /\ Len(BoundSites(Env, F, <<>>, 2)) = 12
VARIABLE x
Spec == x = 0 /\ [][UNCHANGED x]_x
====
