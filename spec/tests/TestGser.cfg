SPECIFICATION Spec
