SPECIFICATION Spec
