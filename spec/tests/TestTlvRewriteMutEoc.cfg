SPECIFICATION TSpec
CONSTANTS
  MaxSteps = 0
  AllCuts = FALSE
  MaxNest = 3
  MaxVals = 1
  Mut = "NoEocOnWrap"
