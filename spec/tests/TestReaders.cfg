SPECIFICATION Spec
