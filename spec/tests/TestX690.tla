---- MODULE TestX690 ----
EXTENDS X690, TLC
NC == [f |-> "N"]
TInt == [k |-> "INT", tags |-> <<>>, con |-> NC, nn |-> <<>>]
TBool == [k |-> "BOOL", tags |-> <<>>]
M(n, t, q, d) == [n |-> n, t |-> t, q |-> q, d |-> d]
TSeq == [k |-> "SEQ", tags |-> <<>>, ext |-> FALSE, adds |-> <<>>,
         root |-> <<M("a", TInt, "M", "NULL"), M("b", TBool, "D", TRUE), M("c", [TInt EXCEPT !.tags = <<[cls |-> "C", num |-> 31, mode |-> "E"]>>], "O", "NULL")>>]
Env == [tagdef |-> "E", extimp |-> FALSE, types |-> [T1 |-> TSeq]]
V1 == [a |-> Present(FromInt(128)), b |-> Present(TRUE), c |-> Present(FromInt(-1))]
ASSUME PrintT(DerEnc(Env, TSeq, V1, {}))
ASSUME DerEnc(Env, TSeq, V1, {}) = <<48, 10, 2, 2, 0, 128, 191, 31, 3, 2, 1, 255>>
ASSUME LET r == ParseTlv(DerEnc(Env, TSeq, V1, {})) IN r.ok /\ Ser(r.t) = DerEnc(Env, TSeq, V1, {}) /\ DerNodeViolation(r.t) = ""
ASSUME LET r == ParseTlv(<<48, 128, 2, 1, 5, 0, 0>>) IN r.ok /\ PrintT(r) /\ DerNodeViolation(r.t) = "10.1 indefinite length"
ASSUME LET r == ParseTlv(<<48, 129, 3, 2, 1, 5>>) IN r.ok /\ DerNodeViolation(r.t) = "10.1 non-minimal length"
ASSUME ~ParseTlv(<<48, 3, 2, 1>>).ok
ASSUME DerEnc(Env, [k |-> "REAL", tags |-> <<>>], [c |-> "F", s |-> 0, m |-> <<1>>, e |-> 0], {}) = <<9, 3, 128, 0, 1>>
ASSUME DerEnc(Env, [k |-> "OID", tags |-> <<>>], <<2, 999, 3>>, {}) = <<6, 3, 136, 55, 3>>
ASSUME LengthOctets(70000) = <<131, 1, 17, 112>>
VARIABLE x
Spec == x = 0 /\ [][UNCHANGED x]_x
====
