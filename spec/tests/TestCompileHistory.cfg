SPECIFICATION Spec
CONSTANTS
  Corpus <- TestCorpus
  Devs = {}
  Codecs = {"ber", "uper"}
  MaxLen = 4
  EmitFrom = 99
INVARIANT HistoryIndependent
INVARIANT CompileReachesFixpoint
INVARIANT EachPassIdempotent
INVARIANT OptionsDoNotLeak
VIEW StateView
CHECK_DEADLOCK FALSE
