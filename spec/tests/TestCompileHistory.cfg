SPECIFICATION Spec
CONSTANTS
  Corpus <- TestCorpus
  Devs = {"DevCompileInPlace"}
  Codecs = {"ber", "uper"}
  MaxLen = 4
  EmitFrom = 99
INVARIANT HistoryIndependent
INVARIANT CompileReachesFixpoint
INVARIANT EachPassIdempotent
INVARIANT OptionsDoNotLeak
VIEW StateView
CHECK_DEADLOCK FALSE
