SPECIFICATION Spec0
CONSTANTS
  World = "split"
  Codecs = {"ber", "uper"}
  NumEnums = {"F", "T"}
  Adbcs = {0, 1}
  FileLists <- FL3
  Devs <- CodeDevs
  MaxSteps = 0
  Faults = {}
  Grain = "big"
  EditDuringCall = FALSE
  Focus = FALSE
  EmitWhen = "none"
