---- MODULE TestBase ----
EXTENDS Bits, TLC
B(n) == FromInt(n)
P32 == TwoTo(32)
P64 == TwoTo(64)
P63 == TwoTo(63)
ASSUME /\ MagNorm(<<0,0,1,0>>) = <<1,0>>
       /\ MagAdd(<<255,255>>, <<1>>) = <<1,0,0>>
       /\ MagSub(<<1,0,0>>, <<1>>) = <<255,255>>
       /\ MagFromNat(65536) = <<1,0,0>>
       /\ MagToNat(<<1,0,0>>) = 65536
       /\ MagBitLen(<<1,0>>) = 9
       /\ MagToBits(<<5>>, 4) = <<0,1,0,1>>
       /\ MagToBits(<<1,0>>, 9) = <<1,0,0,0,0,0,0,0,0>>
       /\ MagFromBits(<<1,0,0,0,0,0,0,0,0>>) = <<1,0>>
ASSUME /\ Add(B(5), B(-7)) = B(-2)
       /\ Sub(B(-5), B(-7)) = B(2)
       /\ Sub(B(5), B(5)) = Zero
       /\ Cmp(B(-1), B(0)) = -1 /\ Cmp(B(300), B(299)) = 1 /\ Cmp(B(-300), B(-299)) = -1
       /\ P32.mag = <<1,0,0,0,0>>
       /\ Pred(P64).mag = <<255,255,255,255,255,255,255,255>>
       /\ TwosOctets(B(0)) = <<0>>
       /\ TwosOctets(B(127)) = <<127>>
       /\ TwosOctets(B(128)) = <<0,128>>
       /\ TwosOctets(B(-128)) = <<128>>
       /\ TwosOctets(B(-129)) = <<255,127>>
       /\ TwosOctets(B(-1)) = <<255>>
       /\ TwosOctets(B(256)) = <<1,0>>
       /\ TwosOctets(Neg(P63)) = <<128,0,0,0,0,0,0,0>>
       /\ TwosOctets(Pred(Neg(P63))) = <<255,127,255,255,255,255,255,255,255>>
       /\ FromTwos(<<255,127>>) = B(-129)
       /\ FromTwos(<<0,128>>) = B(128)
       /\ FromTwos(<<128>>) = B(-128)
       /\ TwosFixed(B(-1), 4) = <<255,255,255,255>>
       /\ TwosFixed(B(1), 2) = <<0,1>>
ASSUME /\ BytesToBits(<<160>>) = <<1,0,1,0,0,0,0,0>>
       /\ BitsToBytes(<<1,0,1>>) = <<160>>
       /\ BitsToBytes(<<>>) = <<>>
       /\ NatToBits(5, 3) = <<1,0,1>>
       /\ NatToBits(0, 0) = <<>>
       /\ BitsToNat(<<1,0,1>>) = 5
       /\ NatBitLen(255) = 8 /\ NatBitLen(256) = 9 /\ NatBitLen(0) = 0
       /\ NatToMinOctets(0) = <<0>> /\ NatToMinOctets(256) = <<1,0>>
       /\ InsSort(<<3,1,2>>, LAMBDA a, b : IF a < b THEN -1 ELSE IF a > b THEN 1 ELSE 0) = <<1,2,3>>
       /\ Concat(<< <<1>>, <<>>, <<2,3>> >>) = <<1,2,3>>
       /\ SeqCmpPadded(<<1>>, <<1,0>>) = 0
       /\ Len(BytesToBits(Rep(255, 70000))) = 560000
       /\ Len(BitsToBytes(BytesToBits(Rep(255, 70000)))) = 70000
VARIABLE x
Spec == x = 0 /\ [][UNCHANGED x]_x
====
