---- MODULE TestCache ----
(* Model regression tests for Cache.tla / Trace_Cache.tla (run by ./check --setup). *)
EXTENDS Trace_Cache

cB  == [fl |-> <<"a">>, codec |-> "ber", ne |-> "F", adbc |-> 0]
cBT == [cB EXCEPT !.ne = "T"]
cB1 == [cB EXCEPT !.adbc = 1]
cU  == [cB EXCEPT !.codec = "uper"]
cAB == [cB EXCEPT !.fl = <<"a", "b">>]
t1 == << <<1>> >>
tL == << <<1>>, <<2, 3>> >>
tR == << <<1, 2>>, <<3>> >>

\* the key exactly as compiler.py:251-260 computes it: codec + concatenation, nothing else
ASSUME KeyOf(CodeDevs, cB, t1) = KeyOf(CodeDevs, cBT, t1)
ASSUME KeyOf(CodeDevs, cB, t1) = KeyOf(CodeDevs, cB1, t1)
ASSUME KeyOf(CodeDevs, cAB, tL) = KeyOf(CodeDevs, cAB, tR)
ASSUME KeyOf(CodeDevs, cB, t1) # KeyOf(CodeDevs, cU, t1)
ASSUME KeyOf(CodeDevs, cB, t1) # KeyOf(CodeDevs, cB, << <<2>> >>)
\* the key the property needs tells all of them apart
ASSUME KeyOf({}, cB, t1) # KeyOf({}, cBT, t1)
ASSUME KeyOf({}, cB, t1) # KeyOf({}, cB1, t1)
ASSUME KeyOf({}, cAB, tL) # KeyOf({}, cAB, tR)
\* mutant mechanisms
ASSUME KeyOf({"MutKeyOmitsCodec"}, cB, t1) = KeyOf({"MutKeyOmitsCodec"}, cU, t1)
ASSUME KeyOf({"MutKeyFirstFileOnly"}, cAB, << <<1>>, <<3>> >>) = KeyOf({"MutKeyFirstFileOnly"}, cAB, << <<1>>, <<4>> >>)

\* one call on an empty directory: 8 program steps (9 program counters), a committed entry, the fresh specification
f11 == [a |-> 1, b |-> 1]
s0 == [store |-> EmptyStore, db |-> FALSE, any |-> FALSE, w |-> Begin(cB)]
R0 == Reach(CodeDevs, f11, s0)
ASSUME Cardinality(R0) = 9
ASSUME \E t \in R0 : /\ t.w.pc = "done" /\ t.w.ret = SpecRet(Fresh(cB, t1))
                     /\ t.store[KeyOf(CodeDevs, cB, t1)] = Entry("complete", Fresh(cB, t1))
ASSUME \E t \in R0 : t.w.pc = "storing" /\ t.w.i = 1 /\ t.store[KeyOf(CodeDevs, cB, t1)].st = "partial"
ASSUME \A t \in R0 : t.w.pc \in {"called", "keyed", "missed", "parsed", "compiled"} => t.store = EmptyStore
\* a second call with other options hits the entry under the code's key, misses under the required key
sDone == CHOOSE t \in R0 : t.w.pc = "done"
ASSUME \E t \in Reach(CodeDevs, f11, [sDone EXCEPT !.w = Begin(cBT)]) :
          t.w.pc = "done" /\ Verdict(f11, cBT, t.w.ret, FALSE) = Wrong({"DevCacheKeyOmitsNumericEnums"})
sDoneReq == CHOOSE t \in Reach({}, f11, s0) : t.w.pc = "done"
ASSUME \A t \in Reach({}, f11, [sDoneReq EXCEPT !.w = Begin(cBT)]) :
          t.w.pc = "done" => Verdict(f11, cBT, t.w.ret, FALSE) = Ok("fresh")
\* a partial entry (value file without row) is a miss; a truncated one an error or a miss, never a value
ASSUME LookupOutcomes(CodeDevs, [s0 EXCEPT !.store = Put(EmptyStore, NoKey, Entry("partial", NoId))], NoKey) = {"miss"}
ASSUME LookupOutcomes(CodeDevs, [s0 EXCEPT !.store = Put(EmptyStore, NoKey, Entry("trunc", NoId))], NoKey) = {"err", "miss"}
ASSUME "garbled" \in LookupOutcomes(CodeDevs, [s0 EXCEPT !.store = Put(EmptyStore, NoKey, Entry("flip", NoId))], NoKey)
ASSUME "garbled" \notin LookupOutcomes({}, [s0 EXCEPT !.store = Put(EmptyStore, NoKey, Entry("flip", NoId))], NoKey)
ASSUME Verdict(f11, cB, CacheErr, FALSE).k = "wrong" /\ Verdict(f11, cB, CacheErr, TRUE) = Ok("error")
ASSUME Diff(Fresh(cAB, tL), Fresh(cAB, tR)) = {"DevCacheKeyConcatAmbiguity"}
ASSUME Diff(Fresh(cU, t1), Fresh(cB, t1)) = {"WrongCodec"}

\* ---- trace judgements on synthetic recorded histories (and on corrupted copies of them) ----
Ok1(m) == [st |-> "ok", map |-> m]
Exc(c) == [st |-> "exc", cls |-> c, mro |-> <<>>, msg |-> "", site |-> "x.y"]
Ev(t, c, ts, cached, fresh, wr) ==
  [t |-> t, fl |-> c.fl, codec |-> c.codec, ne |-> c.ne, adbc |-> c.adbc, texts |-> ts, cached |-> cached, fresh |-> fresh,
   wr |-> wr, last |-> "return", died |-> FALSE, exp |-> "-", why |-> <<>>]
G(kh, r) == [op |-> "get", kh |-> kh, r |-> r]
P(kh, r) == [op |-> "set", kh |-> kh, r |-> r]
Cor == [t |-> "corrupt", how |-> "flip", tgt |-> "db", changed |-> TRUE, file |-> "cache.db", size |-> 10, pos |-> 1]
Line(evs) == [cid |-> "t", ev |-> evs]
Verdicts(evs) == LET r == LineReport(Line(evs)) IN [j \in 1..Len(r.other) |-> <<r.other[j].vi, r.other[j].check, r.other[j].verdict>>]

e1 == Ev("call", cB, t1, Ok1("m1"), Ok1("m1"), <<G("k1", "miss"), P("k1", "ok")>>)
e2stale == Ev("call", cBT, t1, Ok1("m1"), Ok1("m2"), <<G("k1", "hit")>>)
e2good == Ev("call", cBT, t1, Ok1("m2"), Ok1("m2"), <<G("k2", "miss"), P("k2", "ok")>>)
\* the recorded defect: explained by the named deviation, in RET and in MECH
ASSUME LineReport(Line(<<e1, e2stale>>)).other =
         << [vi |-> 2, codec |-> "ber", ne |-> "T", check |-> "RET", verdict |-> "dev", detail |-> ToString({"DevCacheKeyOmitsNumericEnums"})],
            [vi |-> 2, codec |-> "ber", ne |-> "T", check |-> "MECH", verdict |-> "dev", detail |-> ToString({"DevCacheKeyOmitsNumericEnums"})] >>
\* a repaired key: nothing to report
ASSUME LineReport(Line(<<e1, e2good>>)).other = <<>> /\ LineReport(Line(<<e1, e2good>>)).n = 4
\* corrupted trace: the stale hit returns something that is neither fresh nor the stored entry
ASSUME Verdicts(<<e1, [e2stale EXCEPT !.cached = Ok1("m9")]>>)[1] = <<2, "RET", "reject">>
\* corrupted trace: a hit on a key that nobody stored
ASSUME <<2, "MECH", "reject">> \in {Verdicts(<<e1, [e2stale EXCEPT !.wr = <<G("k7", "hit")>>]>>)[j] : j \in 1..2}
\* the entry of another codec returned (key without codec): wrong codec, and no listed key mechanism fits
eU == Ev("call", cU, t1, Ok1("m1"), Ok1("m3"), <<G("k1", "hit")>>)
ASSUME Verdicts(<<e1, eU>>) = << <<2, "RET", "reject">>, <<2, "MECH", "reject">> >>
\* stale across a file edit (key from the first file only): wrong codec
eEd == Ev("call", cAB, << <<1>>, <<4>> >>, Ok1("m5"), Ok1("m6"), <<G("k5", "hit")>>)
e0Ed == Ev("call", cAB, << <<1>>, <<3>> >>, Ok1("m5"), Ok1("m5"), <<G("k5", "miss"), P("k5", "ok")>>)
ASSUME Verdicts(<<e0Ed, eEd>>) = << <<2, "RET", "reject">>, <<2, "MECH", "reject">> >>
\* an error: allowed after damage only
eErr == Ev("call", cB, t1, Exc("UnpicklingError"), Ok1("m1"), <<G("k1", "err")>>)
ASSUME Verdicts(<<e1, eErr>>) = << <<2, "RET", "reject">>, <<2, "MECH", "reject">> >>
ASSUME Verdicts(<<e1, Cor, eErr>>) = <<>>
\* a wrong specification after damage is the named deviation, not an allowed error
eBad == Ev("call", cB, t1, Ok1("m8"), Ok1("m1"), <<G("k1", "hit")>>)
ASSUME Verdicts(<<e1, Cor, eBad>>) = << <<3, "RET", "dev">> >>
ASSUME Verdicts(<<e1, eBad>>)[1] = <<2, "RET", "reject">>
\* damage swallowed and answered with a default compile (miss path returns something else than fresh)
eSw == Ev("call", cU, t1, Ok1("m1"), Ok1("m3"), <<G("k3", "err")>>)
ASSUME Verdicts(<<e1, Cor, eSw>>)[1] = <<3, "RET", "reject">>
\* killed during the store, then a hit: explained by the interrupted set; then a miss is fine as well
eK == [Ev("kill", cB, t1, [st |-> "died", sig |-> 9], Ok1("m1"), <<G("k1", "miss"), P("k1", "begun")>>) EXCEPT !.died = TRUE, !.last = "set_begin"]
eH == Ev("call", cB, t1, Ok1("m1"), Ok1("m1"), <<G("k1", "hit")>>)
ASSUME Verdicts(<<eK, eH>>) = <<>> /\ Verdicts(<<eK, e1>>) = <<>>
\* a committed entry that is gone without damage
ASSUME Verdicts(<<e1, e1>>) = << <<2, "MECH", "reject">> >>
\* a cached call that hangs, and one that raises where the uncached compile raises the same
ASSUME Verdicts(<<[e1 EXCEPT !.cached = [st |-> "timeout"]]>>)[1] = <<1, "RET", "reject">>
ASSUME Verdicts(<<Ev("call", cB, t1, Exc("ParseError"), Exc("ParseError"), <<G("k1", "miss")>>)>>) = <<>>

Spec0 == TInit /\ [][UNCHANGED <<vars, i>>]_<<vars, i>>
====
