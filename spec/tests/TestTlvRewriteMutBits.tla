---- MODULE TestTlvRewriteMutBits ----
(* Sensitivity of TlvRewrite!ModelOk: with Mut = "BitsUnusedOnFirst" (the unused-bits    *)
(* count is put on the first BIT STRING segment instead of the last, against 8.6.4.1)   *)
(* the reader side of the model must reject the variant.                                *)
EXTENDS TlvRewrite
NoSz == [f |-> "N"]
TBits == [k |-> "BITS", tags |-> <<>>, sz |-> NoSz, nb |-> <<>>]
Env == [tagdef |-> "E", extimp |-> FALSE, types |-> [T1 |-> TBits]]
B0 == BerTree(Env, TBits, [n |-> 12, b |-> <<15, 16>>])
Seg(t, p, c) == LET n == NodeAt(t, p) IN
  Put(t, p, [n EXCEPT !.cons = TRUE, !.prim = <<>>, !.kids = TwoSegments(n, c, n.sd + 1), !.ord = <<1, 2>>])
ASSUME Mut = "BitsUnusedOnFirst"
ASSUME SerBer(Seg(B0, <<>>, 1)) = <<35, 8, 3, 2, 4, 15, 3, 2, 0, 16>>
ASSUME ~ReadBack(SerBer(Seg(B0, <<>>, 1)), Seg(B0, <<>>, 1)).ok
VARIABLE x
TSpec == (x = 0 /\ gCase = 0 /\ gVi = 0 /\ gTree = 0 /\ gSteps = 0 /\ gRef = 0) /\ [][UNCHANGED <<x, gCase, gVi, gTree, gSteps, gRef>>]_<<x, gCase, gVi, gTree, gSteps, gRef>>
====
