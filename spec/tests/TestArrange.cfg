SPECIFICATION Spec
CONSTANTS
  MaxSteps = 0
  EmitBelow = 0
  SeedIds = {1}
  SeedTagDefs = {"E"}
  MaxMods = 3
  Mutation = ""
CHECK_DEADLOCK FALSE
