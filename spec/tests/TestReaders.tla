---- MODULE TestReaders ----
(* Model regression for the read side (X691Reader, X696Reader): worked examples, leniency the    *)
(* standards allow, rejections, and anti-vacuity: an encoding produced under a named deviation   *)
(* is NOT read back as the value by the standard reader.                                        *)
EXTENDS X691Reader, X696Reader, TLC
NC == [f |-> "N"]
R(lb, ub) == [f |-> "R", lbinf |-> FALSE, ubinf |-> FALSE, lb |-> FromInt(lb), ub |-> FromInt(ub), ext |-> FALSE]
TInt(c) == [k |-> "INT", tags |-> <<>>, con |-> c, nn |-> <<>>]
TBool == [k |-> "BOOL", tags |-> <<>>]
TNull == [k |-> "NULL", tags |-> <<>>]
Tg(t, n) == [t EXCEPT !.tags = <<[cls |-> "C", num |-> n, mode |-> "I"]>>]
M(n, t, q, d) == [n |-> n, t |-> t, q |-> q, d |-> d]
TOcts == [k |-> "OCTS", tags |-> <<>>, sz |-> NC]
TSeq == [k |-> "SEQ", tags |-> <<>>, ext |-> TRUE,
         root |-> <<M("a", TInt(R(0, 7)), "M", "NULL"), M("b", TBool, "D", TRUE), M("c", TInt(NC), "O", "NULL")>>,
         adds |-> << [g |-> FALSE, m |-> M("x", TOcts, "O", "NULL"), ms |-> <<>>] >>]
TCh == [k |-> "CHOICE", tags |-> <<>>, ext |-> FALSE, adds |-> <<>>,
        root |-> << [n |-> "x", t |-> Tg(TBool, 5)], [n |-> "b", t |-> Tg(TBool, 1)] >>]
Env == [tagdef |-> "I", extimp |-> FALSE, types |-> [T1 |-> TSeq]]
V1 == [a |-> Present(FromInt(5)), b |-> Present(FALSE), c |-> Present(FromInt(-129)), x |-> Present(<<1, 2>>)]
V0 == [a |-> Present(FromInt(0)), b |-> Absent, c |-> Absent, x |-> Absent]

\* PER / UPER: the reader inverts the encoder and consumes everything
Vs == <<V1, V0>>
ASSUME \A al \in {TRUE, FALSE} : \A i \in 1..2 :
         LET v == Vs[i]  r == PerDecode(Env, TSeq, PerEncode(Env, TSeq, v, al, {}), al) IN r.ok /\ RMatches(Env, TSeq, v, r.v)
\* UPER of V0: extension bit 0, preamble 00, a = 000 -> one octet 00
ASSUME PerEncode(Env, TSeq, V0, FALSE, {}) = <<0>>
ASSUME ~PerDecode(Env, TSeq, <<>>, FALSE).ok /\ PerDecode(Env, TSeq, <<>>, FALSE).why = "out-of-data"
ASSUME ~PerDecode(Env, TSeq, <<0, 0>>, FALSE).ok                                        \* octets left over
ASSUME ~PerDecode(Env, TInt(R(0, 5)), <<224>>, FALSE).ok                                \* 7 is above the range 0..5
\* anti-vacuity: the CHOICE index written in textual order (deviation) reads back as the other alternative
ASSUME LET b == PerEncode(Env, TCh, [a |-> "x", v |-> TRUE], FALSE, {"DevPerChoiceIndexTextualOrder"})
           r == PerDecode(Env, TCh, b, FALSE)
       IN r.ok /\ r.v.a = "b"
\* a semi-constrained integer sent as an unconstrained one (deviation) is read as another number
ASSUME LET T == TInt([R(0, 0) EXCEPT !.ubinf = TRUE])
           b == PerEncode(Env, T, FromInt(128), FALSE, {"DevPerSemiConstrainedAsUnconstrained"})
           r == PerDecode(Env, T, b, FALSE)
       IN b = <<2, 0, 128>> /\ r.ok /\ r.v = FromInt(128)                                \* (harmless here: leading zero octet)
\* OER
ASSUME \A i \in 1..2 :
         LET v == Vs[i]  r == OerDecode(Env, TSeq, OerEncode(Env, TSeq, v, {})) IN r.ok /\ OMatches(Env, TSeq, v, r.v)
ASSUME OerEncode(Env, TSeq, V0, {}) = <<0, 0>>
\* Basic-OER accepts a length determinant in a longer form than necessary (8.6.5)
ASSUME LET r == OerDecode(Env, TOcts, <<130, 0, 2, 7, 8>>) IN r.ok /\ r.v = <<7, 8>>
ASSUME ~OerDecode(Env, TOcts, <<2, 7>>).ok /\ ~OerDecode(Env, TOcts, <<128>>).ok
ASSUME ~OerDecode(Env, TSeq, <<1, 0>>).ok                                                \* preamble padding bit set
\* anti-vacuity: extensible INTEGER sent in the fixed-width form (old deviation) is not what the reader expects
ASSUME LET T == TInt([R(0, 255) EXCEPT !.ext = TRUE])
           b == OerEncode(Env, T, FromInt(200), {"DevOerExtensibleIntConstraintVisible"})
       IN b = <<200>> /\ ~OerDecode(Env, T, b).ok
VARIABLE x
Spec == x = 0 /\ [][UNCHANGED x]_x
====
