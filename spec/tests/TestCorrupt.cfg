SPECIFICATION Spec
