---- MODULE TestStateless ----
(* Model regression for C18: the oracle of the mechanism model, the pure requirement      *)
(* operators, and the trace judge on a synthetic execution and on corrupted copies of it   *)
(* (one flipped field each must be rejected by exactly the clause it violates).            *)
EXTENDS Trace_Stateless

\* ---- mechanism model, Mech = "PerCall" (cfg)
ASSUME MSolo[1] = [ok |-> TRUE, v |-> <<"a", "s">>]
ASSUME MSolo[2] = [ok |-> TRUE, v |-> <<"b", "s">>]
ASSUME MSolo[3] = [ok |-> FALSE, v |-> <<"EncodeError">>]
ASSUME MSolo[4] = [ok |-> TRUE, v |-> <<"s", "|">>]
ASSUME MSolo[5] = [ok |-> FALSE, v |-> <<"DecodeError">>]
ASSUME MSolo[6] = [ok |-> TRUE, v |-> <<"leaf">>]

St0(op) == [g |-> CompiledGraph, l |-> LocalInit, a |-> MOps[op].arg, c |-> NewCall(op)]
Run8(op) == FoldLeft(LAMBDA st, k : IF st.c.out.done THEN st ELSE Exec(st), St0(op), <<1, 2, 3, 4, 5, 6, 7, 8>>)
\* a per-call call leaves the graph, the argument and (but for the result object) its private objects as they were
ASSUME \A op \in 1..Len(MOps) : /\ Run8(op).g = CompiledGraph
                                /\ Run8(op).a = MOps[op].arg
                                /\ Run8(op).l.buf = <<>>
ASSUME Run8(4).c.dref = L("res")

\* ---- requirement operators
Th0 == [t \in 1..2 |-> ThreadInit("none")]
ASSUME CanInvoke(Th0, 1) /\ ~CanReturn(Th0, 1, 5)
ASSUME LET th == DoInvoke(Th0, 1, 5, "none") IN
         /\ ~CanInvoke(th, 1) /\ CanInvoke(th, 2)
         /\ CanReturn(th, 1, 5) /\ ~CanReturn(th, 1, 4) /\ ~CanReturn(th, 2, 5)
         /\ th[1].n = 1
         /\ DoReturn(th, 1, "r")[1] = [pc |-> "idle", op |-> 5, n |-> 1, ret |-> "r"]
ASSUME RetIsSolo(<<"x", "y">>, 2, "y") /\ ~RetIsSolo(<<"x", "y">>, 2, "x")

\* ---- the trace judge
E(t, s, ev, op, r) == [t |-> t, seq |-> s, ev |-> ev, op |-> op, r |-> r, obj |-> "", attr |-> ""]
W(t, s, op, obj, attr) == [t |-> t, seq |-> s, ev |-> "graph_write", op |-> op, r |-> "", obj |-> obj, attr |-> attr]
Ev0 == << E(1, 1, "inv", 1, ""), E(2, 1, "inv", 2, ""), E(1, 2, "ret", 1, "ok:3000"),
          E(2, 2, "ret", 2, "exc:E"), E(1, 3, "inv", 2, ""), E(1, 4, "ret", 2, "exc:E") >>
Ex0 == [cid |-> "t", codec |-> "ber", n |-> 2, hung |-> FALSE,
        ops |-> << [id |-> 7, kind |-> "encode", type |-> "A", cls |-> "valid"],
                   [id |-> 9, kind |-> "decode", type |-> "A", cls |-> "truncated"] >>,
        solo |-> <<"ok:3000", "exc:E">>,
        prog |-> << <<1, 2>>, <<2>> >>,
        events |-> Ev0, fp |-> <<>>, alias |-> <<>>, wires |-> [instances |-> 10]]
Al(pytype, stored, attr, effect) ==
  [op |-> 2, path |-> "r['items']", pytype |-> pytype, stored |-> stored, owner |-> "codecs.ber.SequenceOf",
   attr |-> attr, effect |-> effect, now |-> "ok:['#']"]

Checks(ex) == LET o == LineReport(ex).other IN [k \in 1..Len(o) |-> <<o[k].check, o[k].verdict>>]
Swap(s, a, b) == [k \in 1..Len(s) |-> IF k = a THEN s[b] ELSE IF k = b THEN s[a] ELSE s[k]]

ASSUME LineReport(Ex0) = [cid |-> "t", n |-> 8, ok |-> 8, other |-> <<>>]
\* a Return that is not Solo[op]
ASSUME Checks([Ex0 EXCEPT !.events[3].r = "ok:3001"]) = << <<"RET", "reject">> >>
ASSUME Checks([Ex0 EXCEPT !.solo[2] = "exc:F"]) = << <<"RET", "reject">>, <<"RET", "reject">> >>
\* per-thread order: sequence numbers, Return before Invoke, an operation that is not the next of the program
ASSUME Checks([Ex0 EXCEPT !.events[5].seq = 4]) = << <<"ORDER", "reject">>, <<"ORDER", "reject">> >>
ASSUME Checks([Ex0 EXCEPT !.events = Swap(Ev0, 1, 3)])[1] = <<"ORDER", "reject">>
ASSUME Checks([Ex0 EXCEPT !.prog[1] = <<2, 1>>])[1] = <<"ORDER", "reject">>
\* a thread that never returned
ASSUME Checks([Ex0 EXCEPT !.events = SubSeq(Ev0, 1, 5)]) = << <<"ORDER", "reject">> >>
ASSUME Checks([Ex0 EXCEPT !.hung = TRUE]) = << <<"ORDER", "reject">> >>
\* another interleaving of the same programs is accepted
ASSUME Checks([Ex0 EXCEPT !.events = Swap(Ev0, 3, 4)]) = <<>>
\* writes to the graph, arguments, fingerprint
ASSUME Checks([Ex0 EXCEPT !.events = SubSeq(Ev0, 1, 2) \o <<W(1, 2, 1, "codecs.per.Encoder", "value")>> \o
                                       << E(1, 3, "ret", 1, "ok:3000"), Ev0[4], E(1, 4, "inv", 2, ""), E(1, 5, "ret", 2, "exc:E") >>])
       = << <<"WRITE", "reject">> >>
ASSUME Checks([Ex0 EXCEPT !.events = SubSeq(Ev0, 1, 2) \o <<E(1, 2, "arg_mutated", 1, "{}")>> \o
                                       << E(1, 3, "ret", 1, "ok:3000"), Ev0[4], E(1, 4, "inv", 2, ""), E(1, 5, "ret", 2, "exc:E") >>])
       = << <<"ARG", "reject">> >>
ASSUME Checks([Ex0 EXCEPT !.fp = <<[path |-> "spec._types['A']._type.x", before |-> "int:1", after |-> "int:2"]>>])
       = << <<"GRAPH", "reject">> >>
\* aliasing: the one listed deviation is named, anything else is rejected
ASSUME LineReport([Ex0 EXCEPT !.alias = <<Al("list", TRUE, "default", TRUE)>>]).other[1].detail = "{\"DevDefaultListByReference\"}"
ASSUME Checks([Ex0 EXCEPT !.alias = <<Al("list", TRUE, "default", TRUE)>>]) = << <<"ALIAS", "dev">> >>
ASSUME Checks([Ex0 EXCEPT !.alias = <<Al("dict", TRUE, "last_values", TRUE)>>]) = << <<"ALIAS", "reject">> >>
ASSUME Checks([Ex0 EXCEPT !.alias = <<Al("list", TRUE, "cache", FALSE)>>]) = << <<"ALIAS", "reject">> >>
ASSUME Checks([Ex0 EXCEPT !.alias = <<Al("dict", FALSE, "", TRUE)>>]) = << <<"ALIAS", "reject">> >>
ASSUME Checks([Ex0 EXCEPT !.alias = <<Al("dict", FALSE, "", FALSE)>>]) = <<>>
\* no tripwires: the machinery, not the library
ASSUME Checks([Ex0 EXCEPT !.wires.instances = 0]) = << <<"ANY", "machinery">> >>

TestSpec == TInit /\ [][UNCHANGED <<i, vars>>]_<<i, vars>>
====
