SPECIFICATION Spec
