---- MODULE TestLengthProbe ----
(* Model regression of spec/LengthProbe.tla: hand-checked probe answers.               *)
EXTENDS LengthProbe
ASSUME Probe(<<>>) = Unknown
ASSUME Probe(<<48>>) = Unknown
ASSUME Probe(<<48, 14>>) = 16
ASSUME Probe(<<48, 14, 2, 1, 1>>) = 16
ASSUME Probe(<<48, 129>>) = Unknown /\ Probe(<<48, 129, 5>>) = 8
ASSUME Probe(<<48, 132, 0, 0, 0>>) = Unknown /\ Probe(<<48, 132, 0, 0, 0, 184>>) = 190
ASSUME Probe(<<159>>) = Unknown /\ Probe(<<159, 129>>) = Unknown /\ Probe(<<159, 129, 0>>) = Unknown
ASSUME Probe(<<159, 129, 0, 2>>) = 6 /\ Probe(<<159, 31, 0>>) = 3 /\ Probe(<<159, 128, 128, 1, 2, 255>>) = 7
ASSUME Probe(<<48, 128>>) = Indefinite
\* tag 2^28 needs five subsequent identifier octets; 70 000 contents octets in four length octets
ASSUME AbsMsg("C", 268435456, "long4", 70000).h = <<159, 129, 128, 128, 128, 0, 132, 0, 1, 17, 112>>
ASSUME LET m == AbsMsg("C", 268435456, "long4", 70000)
       IN /\ MsgLen(m) = 70011
          /\ \A k \in 0..10 : ProbeAt(m, <<>>, k) = Unknown
          /\ ProbeAt(m, <<>>, 11) = 70011 /\ ProbeAt(m, <<48, 128>>, 70013) = 70011
          /\ WalkFrom(m, <<>>, 0) = <<0, 1, 2, 3, 4, 5, 6, 7, 8, 9, 10, 11, 12, 13, 35011, 70009, 70010, 70011>>
ASSUME FormHolds("short", 127) /\ ~FormHolds("short", 128) /\ ~FormHolds("long1", 256) /\ FormHolds("long2", 65535)
       /\ ~FormHolds("long2", 65536)
ASSUME LengthOctetsIn("long3", 1) = <<131, 0, 0, 1>>
VARIABLE x
TSpec == (x = 0 /\ gM = 0 /\ gTail = 0 /\ gK = 0) /\ [][UNCHANGED <<x, gM, gTail, gK>>]_<<x, gM, gTail, gK>>
====
