---- MODULE TestTlvRewrite ----
(* Model regression of spec/TlvRewrite.tla: hand-checked serialisations of annotated   *)
(* trees, the reader side (ReadBack), and the deliberately wrong serialisers (Mut).    *)
EXTENDS TlvRewrite

NC == [f |-> "N"]
NoSz == [f |-> "N"]
TInt == [k |-> "INT", tags |-> <<>>, con |-> NC, nn |-> <<>>]
TBool == [k |-> "BOOL", tags |-> <<>>]
TBits == [k |-> "BITS", tags |-> <<>>, sz |-> NoSz, nb |-> <<>>]
TOcts == [k |-> "OCTS", tags |-> <<>>, sz |-> NoSz]
TUtf8 == [k |-> "STR", tags |-> <<[cls |-> "C", num |-> 5, mode |-> "I"]>>, st |-> "UTF8", sz |-> NoSz,
          al |-> [has |-> FALSE, set |-> <<>>]]
M(n, t, q, d) == [n |-> n, t |-> t, q |-> q, d |-> d]
Tg(t, c, n, m) == [t EXCEPT !.tags = <<[cls |-> c, num |-> n, mode |-> m]>>]
TSet == [k |-> "SET", tags |-> <<>>, ext |-> FALSE, adds |-> <<>>,
         root |-> <<M("p", Tg(TBool, "P", 2, "I"), "M", "NULL"), M("x", Tg(TOcts, "A", 1, "E"), "O", "NULL"),
                    M("q", Tg(TInt, "C", 0, "I"), "M", "NULL")>>]
TExt == [k |-> "SEQ", tags |-> <<>>, ext |-> TRUE, root |-> <<M("a", TBool, "M", "NULL")>>,
         adds |-> <<[g |-> FALSE, m |-> M("b", TInt, "O", "NULL"), ms |-> <<>>]>>]
Env == [tagdef |-> "E", extimp |-> FALSE, types |-> [T1 |-> TSet]]

VSet == [p |-> Present(TRUE), x |-> Present(<<170, 187, 204>>), q |-> Present(FromInt(5))]
Set0 == BerTree(Env, TSet, VSet)
Bits0 == BerTree(Env, TBits, [n |-> 12, b |-> <<15, 16>>])       \* 03 03 04 0f 10
Utf0 == BerTree(Env, TUtf8, <<228, 8364>>)                        \* 85 05 c3 a4 e2 82 ac
Ext0 == BerTree(Env, TExt, [a |-> Present(TRUE), b |-> Absent])

With(t, p, lf) == Put(t, p, [NodeAt(t, p) EXCEPT !.lf = lf])
Seg(t, p, c) == LET n == NodeAt(t, p) IN
  Put(t, p, [n EXCEPT !.cons = TRUE, !.prim = <<>>, !.kids = TwoSegments(n, c, n.sd + 1), !.ord = <<1, 2>>])
Back(t, ref) == LET r == ReadBack(SerBer(t), t) IN r.ok /\ r.t = ref

\* canonical order of the SET: [APPLICATION 1] < [0] < [PRIVATE 2]
ASSUME SerBer(Set0) = <<49, 13, 97, 5, 4, 3, 170, 187, 204, 128, 1, 5, 194, 1, 255>>
ASSUME Strip(Set0) = DerTree(Env, TSet, VSet, {})
\* 8.1.3.6 indefinite form on the EXPLICIT wrapper, 8.1.3.5 three length octets on the SET
ASSUME SerBer(With(With(Set0, <<1>>, "indef"), <<>>, "pad3")) =
         <<49, 131, 0, 0, 15, 97, 128, 4, 3, 170, 187, 204, 0, 0, 128, 1, 5, 194, 1, 255>>
ASSUME Back(With(With(Set0, <<1>>, "indef"), <<>>, "pad3"), Strip(Set0))
\* indefinite form only on constructed encodings; one length octet holds at most 255
ASSUME ~WfBer(With(Set0, <<2>>, "indef")) /\ ~WfLen(With(Set0, <<2>>, "indef")).ok
ASSUME WfBer(With(Set0, <<2>>, "pad1"))
\* 8.7.3: the OCTET STRING inside the wrapper as two segments, the second one segmented again
ASSUME SerBer(Seg(Seg(Set0, <<1, 1>>, 1), <<1, 1, 2>>, 2)) =
         <<49, 21, 97, 13, 36, 11, 4, 1, 170, 36, 6, 4, 2, 187, 204, 4, 0, 128, 1, 5, 194, 1, 255>>
ASSUME Back(Seg(Seg(Set0, <<1, 1>>, 1), <<1, 1, 2>>, 2), Strip(Set0))
\* 8.6.4: BIT STRING segments, only the last one carries the unused bits
ASSUME SerBer(Bits0) = <<3, 3, 4, 15, 16>>
ASSUME SerBer(Seg(Bits0, <<>>, 1)) = <<35, 8, 3, 2, 0, 15, 3, 2, 4, 16>>
ASSUME Back(Seg(Bits0, <<>>, 1), Strip(Bits0))
ASSUME Cuts(Bits0) = {0, 1}          \* the segment with unused bits keeps a data octet
\* 8.23.6: segments of a character string are OCTET STRINGs, also under an IMPLICIT tag, cut inside a character
ASSUME SerBer(Utf0) = <<133, 5, 195, 164, 226, 130, 172>>
ASSUME SerBer(With(Seg(Utf0, <<>>, 1), <<>>, "indef")) = <<165, 128, 4, 1, 195, 4, 4, 164, 226, 130, 172, 0, 0>>
ASSUME Back(With(Seg(Utf0, <<>>, 1), <<>>, "indef"), Strip(Utf0))
\* 8.11: SET components in any order
ASSUME LET t == [Set0 EXCEPT !.kids = Swap(Set0.kids, 1, 3), !.ord = <<3, 2, 1>>]
       IN SerBer(t) = <<49, 13, 194, 1, 255, 128, 1, 5, 97, 5, 4, 3, 170, 187, 204>> /\ Back(t, Strip(Set0))
\* input class of finding F-C04-indef-additions: extensible SEQUENCE without its additions
ASSUME Ext0.xa /\ Ext0.na = 0 /\ SerBer(With(Ext0, <<>>, "indef")) = <<48, 128, 1, 1, 255, 0, 0>>
ASSUME HasAdds(Env, TExt, [a |-> Present(TRUE), b |-> Present(FromInt(1))])
ASSUME StripAdds(Env, TExt, [a |-> Present(TRUE), b |-> Present(FromInt(1))]) = [a |-> Present(TRUE), b |-> Absent]
\* type-agnostic annotation of a parsed encoding
ASSUME LET t == FromParsed(ParseTlv(<<49, 8, 4, 1, 65, 36, 3, 4, 1, 66>>).t, 0)
       IN t.kind = "setof" /\ t.kids[1].kind = "octs" /\ t.kids[2].cons /\ t.kids[2].kids[1].sd = 1
          /\ SerBer(t) = <<49, 8, 4, 1, 65, 36, 3, 4, 1, 66>>
\* the reader side rejects what X.690 does not allow
ASSUME ~ReadBack(<<35, 8, 3, 2, 4, 15, 3, 2, 0, 16>>, Bits0).ok        \* unused bits on a segment that is not the last
ASSUME ~ReadBack(<<35, 8, 4, 2, 0, 15, 3, 2, 4, 16>>, Bits0).ok        \* BIT STRING segment with the OCTET STRING tag
ASSUME ~ReadBack(<<97, 128, 4, 3, 170, 187, 204>>, NodeAt(Set0, <<1>>)).ok   \* missing end-of-contents
VARIABLE x
TSpec == (x = 0 /\ gCase = 0 /\ gVi = 0 /\ gTree = 0 /\ gSteps = 0 /\ gRef = 0) /\ [][UNCHANGED <<x, gCase, gVi, gTree, gSteps, gRef>>]_<<x, gCase, gVi, gTree, gSteps, gRef>>
====
