---- MODULE TestJerXer ----
(* Model regression for Jer.tla / Xer.tla: the expected documents are taken from     *)
(* /repo/tests/test_jer.py and /repo/tests/test_xer.py (written here as trees), plus *)
(* the model-level demonstrations that the non-benign deviations break round trips.  *)
EXTENDS Jer, Xer, TLC

NoSz == [f |-> "N"]
SzFix(n, ext) == [f |-> "R", lb |-> n, ub |-> n, ubinf |-> FALSE, ext |-> ext]
TBool == [k |-> "BOOL", tags |-> <<>>]
TNull == [k |-> "NULL", tags |-> <<>>]
TOid == [k |-> "OID", tags |-> <<>>]
TReal == [k |-> "REAL", tags |-> <<>>]
TInt == [k |-> "INT", tags |-> <<>>, con |-> [f |-> "N"], nn |-> <<>>]
TEnum(items) == [k |-> "ENUM", tags |-> <<>>, root |-> items, ext |-> FALSE, adds |-> <<>>]
It(n, v) == [n |-> n, v |-> v]
TBits(sz) == [k |-> "BITS", tags |-> <<>>, sz |-> sz, nb |-> <<>>]
TOcts == [k |-> "OCTS", tags |-> <<>>, sz |-> NoSz]
TUtf8 == [k |-> "STR", tags |-> <<>>, st |-> "UTF8", sz |-> NoSz, al |-> [has |-> FALSE, set |-> <<>>]]
M(n, t, q, d) == [n |-> n, t |-> t, q |-> q, d |-> d]
TSeq(root) == [k |-> "SEQ", tags |-> <<>>, root |-> root, ext |-> FALSE, adds |-> <<>>]
TChoice(root) == [k |-> "CHOICE", tags |-> <<>>, root |-> root, ext |-> FALSE, adds |-> <<>>]
A(n, t) == [n |-> n, t |-> t]
TOf(k, e) == [k |-> k, tags |-> <<>>, e |-> e, sz |-> NoSz]
TRef(name) == [k |-> "REF", tags |-> <<>>, name |-> name]
I(n) == FromInt(n)
F(s, m, e) == [c |-> "F", s |-> s, m |-> m, e |-> e]
Sp(c) == [c |-> c, s |-> 0, m |-> <<>>, e |-> 0]
Cps(s) == StrCps(s)

\* recorded-document forms
RT(tag, s, fl) == [tag |-> tag, f |-> "t", kids |-> <<>>, text |-> Cps(s), fl |-> fl]   \* text leaf with its float()
Err == Sp("ERR")

Env == [tagdef |-> "A", extimp |-> FALSE, types |-> [
   A |-> TSeq(<<M("a", TOf("SEQOF", TRef("A")), "O", "NULL")>>),                 \* test_xer.test_sequence
   B |-> TSeq(<<M("a", TInt, "D", I(4))>>),
   L |-> TOf("SEQOF", TOf("SEQOF", TNull)),                                       \* test_sequence_of L
   LB |-> TOf("SEQOF", TRef("E")),                                                \* D ::= SEQUENCE OF E
   E |-> TBool,
   LC |-> TOf("SEQOF", TChoice(<<A("a", TBool), A("b", TInt)>>)),                  \* F
   LG |-> TOf("SEQOF", TEnum(<<It("one", 0)>>)),                                   \* G
   LH |-> TOf("SEQOF", TSeq(<<M("a", TInt, "M", "NULL")>>)),                        \* H
   LI |-> TOf("SEQOF", TInt),
   LLI |-> TOf("SEQOF", TRef("LI")),                                               \* B ::= SEQUENCE OF A
   SO |-> TOf("SETOF", TOf("SETOF", TNull)),                                       \* M
   Ch |-> TChoice(<<A("a", TBool), A("b", TInt), A("c", TChoice(<<A("a", TInt)>>))>>),
   I34A |-> TSeq(<<M("a", TRef("I34B"), "M", "NULL")>>),                           \* test_issue_34
   I34B |-> TChoice(<<A("b", TRef("I34A")), A("c", TNull)>>),
   En |-> TEnum(<<It("r", 5), It("t", 10)>>),
   Ind |-> TSeq(<<M("a", TSeq(<<M("b", TBool, "M", "NULL"), M("c", TInt, "M", "NULL")>>), "M", "NULL")>>),
   R |-> TReal, BS |-> TBits(NoSz), B6 |-> TBits(SzFix(6, FALSE)), B4x |-> TBits(SzFix(4, TRUE)), OS |-> TOcts, O |-> TOid, U |-> TUtf8,
   RecC |-> TChoice(<<A("leaf", TInt), A("node", TOf("SEQOF", TRef("RecC")))>>),
   LRecC |-> TOf("SEQOF", TRef("RecC")) ]]

Doc(top, v) == XerDoc(Env, top, v, {})
XSame(top, v, rec) == XerMatch(Doc(top, v), rec, TRUE)
XBack(top, v, S) == LET r == XerReadDoc(Env, top, XerDoc(Env, top, v, S), S) IN r.ok /\ AbsEq(Env, Env.types[top], r.v, v)
JDoc(top, v, ne) == JerTree(Env, Env.types[top], v, ne, {})
JBack(top, v, ne, S) == LET r == JerRead(Env, Env.types[top], JerTree(Env, Env.types[top], v, ne, S), ne, S) IN r.ok /\ AbsEq(Env, Env.types[top], r.v, v)

------------------------------------------------------------------------------
(* base operators *)
ASSUME IntToDec(I(0)) = <<48>> /\ IntToDec(I(-534)) = Cps("-534")
ASSUME IntToDec(TwoTo(64)) = Cps("18446744073709551616")
ASSUME DecToInt(Cps("18446744073709551616")).v = TwoTo(64) /\ DecToInt(Cps("-12")).v = I(-12) /\ ~DecToInt(Cps("1-2")).ok /\ ~DecToInt(<<>>).ok
ASSUME HexUpper(<<1, 171>>) = Cps("01AB") /\ HexToOctets(Cps("01ab")).v = <<1, 171>> /\ ~HexToOctets(Cps("123")).ok
ASSUME OidText(<<1, 2, 30>>) = Cps("1.2.30") /\ OidFromText(Cps("2.999.3")).v = <<2, 999, 3>> /\ ~OidFromText(Cps("1..2")).ok
ASSUME RealNumberText(Cps("1.0E0")) /\ RealNumberText(Cps("-9.99E0")) /\ RealNumberText(Cps("1e+22")) /\ RealNumberText(Cps("0")) /\ RealNumberText(Cps("5e-324"))
ASSUME ~RealNumberText(Cps("1e-300E0")) /\ ~RealNumberText(Cps("nanE0")) /\ ~RealNumberText(Cps("infE0")) /\ ~RealNumberText(Cps(".5")) /\ ~RealNumberText(<<>>) /\ ~RealNumberText(Cps("1 "))
ASSUME IntAsReal(I(10)) = F(0, <<5>>, 1) /\ IntAsReal(I(-1)) = F(1, <<1>>, 0) /\ IntAsReal(I(0)).c = "Z"
ASSUME RealAbsAtLeastTen(F(0, <<5>>, 1)) /\ ~RealAbsAtLeastTen(F(0, <<9>>, 0)) /\ RealAbsAtLeastTen(F(1, <<1>>, 128)) /\ ~RealAbsAtLeastTen(F(0, <<79>>, -3)) /\ RealAbsAtLeastTen(F(0, <<81>>, -3))
ASSUME RealAbsBelowTenToMinus4(F(0, <<1>>, -1074)) /\ RealAbsBelowTenToMinus4(F(0, <<1>>, -14)) /\ ~RealAbsBelowTenToMinus4(F(0, <<1>>, -13)) /\ ~RealAbsBelowTenToMinus4(F(0, <<1>>, 0))
ASSUME XmlChar(13) /\ XmlChar(9) /\ ~XmlChar(0) /\ ~XmlChar(31) /\ XmlChar(133) /\ ~XmlChar(65534) /\ ~XmlChar(55296) /\ XmlChar(128512) /\ ScalarValue(0) /\ ~ScalarValue(57343)

(* XER: documents of /repo/tests/test_xer.py *)
ASSUME XSame("R", F(0, <<1>>, 0), RT("R", "1.0E0", F(0, <<1>>, 0)))                       \* <A>1.0E0</A>
ASSUME XSame("R", F(1, <<5>>, 1), RT("R", "-1.0E1", F(1, <<5>>, 1)))                      \* <A>-1.0E1</A>
ASSUME ~XSame("R", F(0, <<1>>, 0), RT("R", "1.0E1", F(0, <<5>>, 1)))
ASSUME ~XSame("R", F(0, <<1>>, -1074), RT("R", "5e-324E0", Err))
ASSUME Doc("L", <<(<<"NULL">>), (<<>>)>>) = XE("L", <<XE("SEQUENCE_OF", <<XEmpty("NULL")>>), XEmpty("SEQUENCE_OF")>>)
ASSUME Doc("SO", <<(<<"NULL">>), (<<>>)>>) = XE("SO", <<XE("SET_OF", <<XEmpty("NULL")>>), XEmpty("SET_OF")>>)
ASSUME Doc("BS", [n |-> 9, b |-> <<64, 128>>]) = XT("BS", Cps("010000001")) /\ Doc("BS", [n |-> 0, b |-> <<>>]) = XEmpty("BS")
ASSUME Doc("OS", <<1, 35>>) = XT("OS", Cps("0123")) /\ Doc("OS", <<>>) = XEmpty("OS")
ASSUME Doc("O", <<1, 2, 3>>) = XT("O", Cps("1.2.3"))
ASSUME Doc("En", "r") = XE("En", <<XEmpty("r")>>)
ASSUME Doc("A", [a |-> Absent]) = XEmpty("A")
ASSUME Doc("A", [a |-> Present(<<[a |-> Present(<<>>)]>>)]) = XE("A", <<XE("a", <<XE("A", <<XEmpty("a")>>)>>)>>)      \* <A><a><A><a /></A></a></A>
ASSUME Doc("B", [a |-> Absent]) = XEmpty("B")
ASSUME LET r == XerReadDoc(Env, "B", XEmpty("B"), {}) IN r.ok /\ AbsEq(Env, Env.types["B"], r.v, [a |-> Present(I(4))])
ASSUME Doc("LI", <<I(1), I(4)>>) = XE("LI", <<XT("INTEGER", Cps("1")), XT("INTEGER", Cps("4"))>>) /\ Doc("LI", <<>>) = XEmpty("LI")
ASSUME Doc("LLI", <<(<<I(5)>>)>>) = XE("LLI", <<XE("LI", <<XT("INTEGER", Cps("5"))>>)>>)                                 \* <B><A><INTEGER>5</INTEGER></A></B>
ASSUME Doc("LB", <<TRUE, FALSE>>) = XE("LB", <<XEmpty("true"), XEmpty("false")>>)                                       \* through the reference E
ASSUME Doc("LC", <<[a |-> "a", v |-> TRUE], [a |-> "b", v |-> I(1)]>>) = XE("LC", <<XE("a", <<XEmpty("true")>>), XT("b", Cps("1"))>>)
ASSUME Doc("LG", <<"one">>) = XE("LG", <<XEmpty("one")>>)
ASSUME Doc("LH", <<[a |-> Present(I(1))]>>) = XE("LH", <<XE("SEQUENCE", <<XT("a", Cps("1"))>>)>>)
ASSUME Doc("Ch", [a |-> "c", v |-> [a |-> "a", v |-> I(534)]]) = XE("Ch", <<XE("c", <<XT("a", Cps("534"))>>)>>)
ASSUME Doc("U", Cps("bar")) = XT("U", Cps("bar")) /\ Doc("U", <<>>) = XEmpty("U") /\ Doc("U", <<97, 4112, 99>>) = XT("U", <<97, 4112, 99>>)
ASSUME Doc("I34A", [a |-> Present([a |-> "b", v |-> [a |-> Present([a |-> "c", v |-> "NULL"])]])])
         = XE("I34A", <<XE("a", <<XE("b", <<XE("a", <<XEmpty("c")>>)>>)>>)>>)                                       \* <A><a><b><a><c /></a></b></a></A>
ASSUME Doc("Ind", [a |-> Present([b |-> Present(TRUE), c |-> Present(I(5))])])
         = XE("Ind", <<XE("a", <<XE("b", <<XEmpty("true")>>), XT("c", Cps("5"))>>)>>)                                \* test_indent, white space dropped
\* recursive CHOICE inside a list: bare form in the mapping, delimited under the deviation (what xer.py writes)
ASSUME Doc("RecC", [a |-> "node", v |-> <<[a |-> "leaf", v |-> I(1)]>>]) = XE("RecC", <<XE("node", <<XT("leaf", Cps("1"))>>)>>)
ASSUME XerDoc(Env, "RecC", [a |-> "node", v |-> <<[a |-> "leaf", v |-> I(1)]>>], {"DevXerRecursiveItemDelimited"})
         = XE("RecC", <<XE("node", <<XE("RecC", <<XT("leaf", Cps("1"))>>)>>)>>)
ASSUME XerDoc(Env, "LRecC", <<[a |-> "node", v |-> <<[a |-> "leaf", v |-> I(1)]>>]>>, {"DevXerRecursiveItemDelimited"})
         = XE("LRecC", <<XE("node", <<XE("RecC", <<XT("leaf", Cps("1"))>>)>>)>>)                                    \* the outer list is not recursive: bare
ASSUME \A S \in {{}, XerBenign} :
         /\ XBack("RecC", [a |-> "node", v |-> <<[a |-> "leaf", v |-> I(1)], [a |-> "node", v |-> <<>>]>>], S)
         /\ XBack("LRecC", <<[a |-> "node", v |-> <<[a |-> "leaf", v |-> I(1)]>>]>>, S)
         /\ XBack("I34A", [a |-> Present([a |-> "b", v |-> [a |-> Present([a |-> "c", v |-> "NULL"])]])], S)
         /\ XBack("R", Sp("PINF"), S) /\ XBack("R", Sp("NAN"), S) /\ XBack("R", Sp("NZ"), S) /\ XBack("R", F(0, <<1>>, -1074), S)
         /\ XBack("U", <<97, 13, 10, 98, 13>>, S) /\ XBack("BS", [n |-> 9, b |-> <<64, 128>>], S)
\* the strict reader rejects what is not the mapping
ASSUME ~XerReadDoc(Env, "LB", XE("LB", <<XE("BOOLEAN", <<XEmpty("true")>>)>>), {}).ok
ASSUME ~XerReadDoc(Env, "LI", XE("LI", <<XT("INT", Cps("1"))>>), {}).ok
ASSUME ~XerReadDoc(Env, "Ind", XE("Ind", <<XE("a", <<XT("c", Cps("5")), XE("b", <<XEmpty("true")>>)>>)>>), {}).ok      \* order
\* non-benign deviations break the round trip on the model (sensitivity of the invariant)
ASSUME ~XBack("U", <<97, 13, 98>>, {"DevXerCrUnescaped"}) /\ XBack("U", <<97, 10, 98>>, {"DevXerCrUnescaped"})
ASSUME ~XBack("R", Sp("NAN"), {"DevXerNanAsText"})

(* JER: documents of /repo/tests/test_jer.py *)
ASSUME JDoc("R", F(0, <<1>>, 0), FALSE) = JNumF(F(0, <<1>>, 0)) /\ JDoc("R", Sp("PINF"), FALSE) = JStr(Cps("INF"))
       /\ JDoc("R", Sp("NINF"), FALSE) = JStr(Cps("-INF")) /\ JDoc("R", Sp("NAN"), FALSE) = JStr(Cps("NaN"))
ASSUME JDoc("R", Sp("NZ"), FALSE) = JStr(Cps("-0")) /\ JerTree(Env, TReal, Sp("NZ"), FALSE, JerBenign) = JNumF(Sp("NZ"))
ASSUME JerMatch(JDoc("R", F(1, <<1>>, 1), FALSE), JNumI(I(-2)), TRUE)         \* -2 written as an integer token still denotes -2.0
ASSUME JDoc("BS", [n |-> 4, b |-> <<64>>], FALSE) = JObj(<<"value", "length">>, <<JStr(Cps("40")), JNumI(I(4))>>)
ASSUME JDoc("B6", [n |-> 6, b |-> <<172>>], FALSE) = JStr(Cps("AC"))
ASSUME JDoc("B4x", [n |-> 4, b |-> <<160>>], FALSE) = JObj(<<"value", "length">>, <<JStr(Cps("A0")), JNumI(I(4))>>)
       /\ JerTree(Env, Env.types["B4x"], [n |-> 5, b |-> <<168>>], FALSE, {"DevJerBitsExtSizeAsFixed"}) = JStr(Cps("A8"))
ASSUME JDoc("OS", <<1, 35, 69, 103, 137, 171, 205, 239>>, FALSE) = JStr(Cps("0123456789ABCDEF"))
ASSUME JDoc("O", <<1, 2, 3>>, FALSE) = JStr(Cps("1.2.3"))
ASSUME JDoc("En", "t", FALSE) = JStr(Cps("t")) /\ JDoc("En", "t", TRUE) = JNumI(I(10))
ASSUME JDoc("A", [a |-> Absent], FALSE) = JObj(<<>>, <<>>)
ASSUME JDoc("A", [a |-> Present(<<[a |-> Present(<<>>)]>>)], FALSE) = JObj(<<"a">>, <<JArr(<<JObj(<<"a">>, <<JArr(<<>>)>>)>>)>>)   \* {"a": [{"a": []}]}
ASSUME LET r == JerRead(Env, Env.types["B"], JObj(<<>>, <<>>), FALSE, {}) IN r.ok /\ AbsEq(Env, Env.types["B"], r.v, [a |-> Present(I(4))])
ASSUME JDoc("LI", <<I(1), I(3)>>, FALSE) = JArr(<<JNumI(I(1)), JNumI(I(3))>>)
ASSUME JDoc("Ch", [a |-> "a", v |-> TRUE], FALSE) = JObj(<<"a">>, <<JBool(TRUE)>>)
ASSUME JerMatch(JDoc("Ind", [a |-> Present([b |-> Present(TRUE), c |-> Present(I(5))])], FALSE),
                JObj(<<"a">>, <<JObj(<<"c", "b">>, <<JNumI(I(5)), JBool(TRUE)>>)>>), TRUE)        \* member order is free
ASSUME ~JerMatch(JDoc("LI", <<I(1), I(3)>>, FALSE), JArr(<<JNumI(I(3)), JNumI(I(1))>>), TRUE)
ASSUME \A ne \in BOOLEAN : \A S \in {{}, JerBenign} :
         /\ JBack("R", Sp("NZ"), ne, S) /\ JBack("R", Sp("NAN"), ne, S) /\ JBack("R", F(0, <<1>>, -1074), ne, S)
         /\ JBack("B4x", [n |-> 5, b |-> <<168>>], ne, S) /\ JBack("B6", [n |-> 6, b |-> <<172>>], ne, S)
         /\ JBack("En", "t", ne, S) /\ JBack("LC", <<[a |-> "a", v |-> TRUE], [a |-> "b", v |-> I(1)]>>, ne, S)
         /\ JBack("U", <<0, 13, 8232, 128512>>, ne, S)
ASSUME ~JBack("B4x", [n |-> 5, b |-> <<168>>], FALSE, {"DevJerBitsExtSizeAsFixed"}) /\ JBack("B4x", [n |-> 4, b |-> <<160>>], FALSE, {"DevJerBitsExtSizeAsFixed"})
ASSUME ~JerRead(Env, TInt, JNumF(F(0, <<1>>, 0)), FALSE, {}).ok /\ ~JerRead(Env, Env.types["En"], JStr(Cps("x")), FALSE, {}).ok

VARIABLE x
Spec == x = 0 /\ [][UNCHANGED x]_x
====
