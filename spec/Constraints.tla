----------------------------- MODULE Constraints ----------------------------
(***************************************************************************)
(* The value side of C11 / C12: which components of a value violate a      *)
(* declared constraint, and where.                                         *)
(*                                                                         *)
(* Constraint forms (the ones the property names): a single value or a     *)
(* single range on INTEGER, SIZE on BIT STRING / OCTET STRING / restricted *)
(* strings / SEQUENCE OF / SET OF, FROM on restricted strings; bounds may  *)
(* be MIN / MAX; an extensible constraint admits everything (X.680 G.4:    *)
(* values outside the root are legal abstract values of the type).         *)
(*                                                                         *)
(* Additive descriptor fields (optional; absent in TypeGen's descriptors): *)
(*   IntCon / SizeCon :  lbref, ubref : STRING   *rendering hints*: the    *)
(*        bound is written as this name (a named number of the type when   *)
(*        the name is in T.nn, otherwise a value assignment  name INTEGER  *)
(*        ::= bound).  The abstract bound stays lb / ub.                   *)
(*   k = "REF" :  con : IntCon  and/or  sz : SizeCon   a constraint        *)
(*        written on the reference ( A (0..5),  B (SIZE (2)) ).  X.680     *)
(*        50.x: constraints applied in series all hold (intersection).     *)
(*                                                                         *)
(* Positions.  A position is a sequence of steps from the root of a value  *)
(* tree:  [s |-> "m", n |-> member] | [s |-> "a", n |-> alternative] |     *)
(* [s |-> "i", i |-> index].  Its *name path* keeps the member and         *)
(* alternative names only (list indices contribute nothing).               *)
(***************************************************************************)
EXTENDS Asn1Value

HasField(r, f) == f \in DOMAIN r

MStep(n) == [s |-> "m", n |-> n, i |-> 0]
AStep(n) == [s |-> "a", n |-> n, i |-> 0]
IStep(j) == [s |-> "i", n |-> "", i |-> j]

NamePath(pos) ==
  LET named == SelectSeq(pos, LAMBDA st : st.s # "i")
  IN [j \in 1..Len(named) |-> named[j].n]

JoinDot(names) ==
  IF names = <<>> THEN ""
  ELSE FoldLeft(LAMBDA acc, x : acc \o "." \o x, names[1], Tail(names))

------------------------------------------------------------------------------
(* constraints carried by one node: its own and those of every reference   *)
(* on the way to the base type (serial application)                        *)

RECURSIVE IntCons(_, _)
IntCons(env, T) ==     \* sequence of IntCon, outermost first
  IF T.k = "REF"
  THEN (IF HasField(T, "con") THEN <<T.con>> ELSE <<>>) \o IntCons(env, env.types[T.name])
  ELSE IF T.k = "INT" THEN <<T.con>> ELSE <<>>

RECURSIVE SizeCons(_, _)
SizeCons(env, T) ==
  IF T.k = "REF"
  THEN (IF HasField(T, "sz") THEN <<T.sz>> ELSE <<>>) \o SizeCons(env, env.types[T.name])
  ELSE IF T.k \in {"BITS", "OCTS", "STR", "SEQOF", "SETOF"} THEN <<T.sz>> ELSE <<>>

\* the quantity a SIZE constraint measures
SizeOf(B, v) == IF B.k = "BITS" THEN v.n ELSE Len(v)

(* Named deviations of this clause (what codecs/compiler.py + constraints_checker.py *)
(* do with a constraint written on a type reference), switched on by S:             *)
(*   DevRefRangeReplaces            A (lb..ub) *replaces* the value range of the    *)
(*        referenced INTEGER type instead of intersecting it (compile_type:         *)
(*        set_compiled_restricted_to overwrites minimum/maximum)                    *)
(*   DevRefSizeReplacesAtMember     m A (SIZE (..)) as SEQUENCE / SET / CHOICE      *)
(*        component *replaces* the size constraint of A (compile_member:            *)
(*        set_size_range)                                                           *)
(*   DevRefSizeIgnoredOutsideMember  A (SIZE (..)) in a type assignment, as list    *)
(*        element or behind a further reference is *ignored* (only compile_member   *)
(*        looks at 'size' of a referencing descriptor)                              *)
ConDevs == <<"DevRefRangeReplaces", "DevRefSizeReplacesAtMember", "DevRefSizeIgnoredOutsideMember">>

ActiveInt(cs) == SelectSeq(cs, LAMBDA c : c.f = "R" /\ ~c.ext)

EffIntCons(env, T, S) ==
  LET cs == IntCons(env, T)
      act == ActiveInt(cs)
  IN IF "DevRefRangeReplaces" \in S /\ Len(act) > 1 THEN <<act[1]>> ELSE cs

OuterSizeAtMember(T, isMem) ==
  isMem /\ T.k = "REF" /\ HasField(T, "sz") /\ T.sz.f = "R" /\ ~T.sz.ext

EffSizeCons(env, T, S, isMem) ==
  LET cs == SizeCons(env, T)
  IN IF Len(cs) <= 1 THEN cs
     ELSE IF OuterSizeAtMember(T, isMem)
     THEN (IF "DevRefSizeReplacesAtMember" \in S THEN <<T.sz>> ELSE cs)
     ELSE (IF "DevRefSizeIgnoredOutsideMember" \in S THEN <<cs[Len(cs)]>> ELSE cs)

\* violations of the node itself (not of its components): sequence of reasons
OwnViolations(env, T, v, S, isMem) ==
  LET B == Base(env, T)
      ics == EffIntCons(env, T, S)
      scs == EffSizeCons(env, T, S, isMem)
  IN (IF B.k = "INT" /\ \E j \in 1..Len(ics) : ~InIntCon(ics[j], v) THEN <<"range">> ELSE <<>>)
     \o (IF B.k \in {"BITS", "OCTS", "STR", "SEQOF", "SETOF"}
            /\ \E j \in 1..Len(scs) : ~InSize(scs[j], SizeOf(B, v)) THEN <<"size">> ELSE <<>>)
     \o (IF B.k = "STR" /\ ~InAlphabet(B.al, v) THEN <<"alphabet">> ELSE <<>>)

\* every violated component: sequence of [pos, why], pre-order
RECURSIVE ViolationPathsD(_, _, _, _, _)
ViolationPathsD(env, T, v, S, isMem) ==
  LET B == Base(env, T)
      own == OwnViolations(env, T, v, S, isMem)
      here == [j \in 1..Len(own) |-> [pos |-> <<>>, why |-> own[j]]]
      under(st, sub) == [j \in 1..Len(sub) |-> [pos |-> <<st>> \o sub[j].pos, why |-> sub[j].why]]
      kids ==
        CASE B.k \in {"SEQ", "SET"} ->
               LET ms == AllMembers(B)
               IN Concat([j \in 1..Len(ms) |->
                     IF v[ms[j].n].p THEN under(MStep(ms[j].n), ViolationPathsD(env, ms[j].t, v[ms[j].n].v, S, TRUE))
                     ELSE <<>>])
          [] B.k = "CHOICE" ->
               LET alts == AllAlts(B)
               IN IF HasMember(alts, v.a)
                  THEN under(AStep(v.a), ViolationPathsD(env, alts[MemberIndex(alts, v.a)].t, v.v, S, TRUE))
                  ELSE <<>>
          [] B.k \in {"SEQOF", "SETOF"} ->
               Concat([j \in 1..Len(v) |-> under(IStep(j), ViolationPathsD(env, B.e, v[j], S, FALSE))])
          [] OTHER -> <<>>
  IN here \o kids

\* the standard reading: constraints applied in series all hold
ViolationPaths(env, T, v) == ViolationPathsD(env, T, v, {}, FALSE)

\* C11: the declared constraints admit the value
ConAdmits(env, T, v) == ViolationPaths(env, T, v) = <<>>

\* candidate deviation sets, smallest first
ConDevSets ==
  LET n == Len(ConDevs)
  IN [j \in 1..n |-> {ConDevs[j]}]
     \o Concat([a \in 1..n |-> [b \in 1..(n - a) |-> {ConDevs[a], ConDevs[a + b]}]])
     \o <<{ConDevs[j] : j \in 1..n}>>

------------------------------------------------------------------------------
(* type positions and bounds (for boundary completeness of value tables)   *)

\* A type position is the name path extended by "*" for a list element.  The set of
\* positions of a type is infinite for recursive types: the sites claimed are those within
\* the *first unfolding* of every recursive type (seen = the named types on the way) and at
\* most `fuel` reference crossings deep -- the positions TypeGen!Values fills with full
\* boundary tables.
RECURSIVE BoundSitesR(_, _, _, _, _)
\* sequence of [tp : type position, q : "int" | "size", b : BigInt, side : "lb" | "ub", ext : BOOLEAN]
BoundSitesR(env, T, tp, fuel, seen) ==
  LET B == Base(env, T)
      ics == IntCons(env, T)
      scs == SizeCons(env, T)
      intSites == IF B.k # "INT" THEN <<>> ELSE
        Concat([j \in 1..Len(ics) |->
           IF ics[j].f = "N" THEN <<>>
           ELSE (IF ics[j].lbinf THEN <<>> ELSE <<[tp |-> tp, q |-> "int", b |-> ics[j].lb, side |-> "lb", ext |-> ics[j].ext]>>)
                \o (IF ics[j].ubinf THEN <<>> ELSE <<[tp |-> tp, q |-> "int", b |-> ics[j].ub, side |-> "ub", ext |-> ics[j].ext]>>)])
      sizeSites ==
        Concat([j \in 1..Len(scs) |->
           IF scs[j].f = "N" THEN <<>>
           ELSE <<[tp |-> tp, q |-> "size", b |-> FromInt(scs[j].lb), side |-> "lb", ext |-> scs[j].ext]>>
                \o (IF scs[j].ubinf THEN <<>> ELSE <<[tp |-> tp, q |-> "size", b |-> FromInt(scs[j].ub), side |-> "ub", ext |-> scs[j].ext]>>)])
      isRef == T.k = "REF"
      recursive == isRef /\ \E j \in 1..Len(seen) : seen[j] = T.name
      f2 == IF isRef THEN fuel - 1 ELSE fuel
      seen2 == IF isRef THEN Append(seen, T.name) ELSE seen
      kids ==
        CASE B.k \in {"SEQ", "SET"} ->
               LET ms == AllMembers(B)
               IN Concat([j \in 1..Len(ms) |-> BoundSitesR(env, ms[j].t, Append(tp, ms[j].n), f2, seen2)])
          [] B.k = "CHOICE" ->
               LET alts == AllAlts(B)
               IN Concat([j \in 1..Len(alts) |-> BoundSitesR(env, alts[j].t, Append(tp, alts[j].n), f2, seen2)])
          [] B.k \in {"SEQOF", "SETOF"} -> BoundSitesR(env, B.e, Append(tp, "*"), f2, seen2)
          [] OTHER -> <<>>
  IN IF f2 < 0 \/ recursive THEN <<>> ELSE intSites \o sizeSites \o kids

BoundSites(env, T, tp, fuel) == BoundSitesR(env, T, tp, fuel, <<>>)

TypePos(pos) == [j \in 1..Len(pos) |-> IF pos[j].s = "i" THEN "*" ELSE pos[j].n]

\* the measured quantities (INTEGER value / size as BigInt) of all nodes of v
\* that sit at type position tp
RECURSIVE MeasuresAt(_, _, _, _)
MeasuresAt(env, T, v, tp) ==
  LET B == Base(env, T)
  IN IF tp = <<>>
     THEN (CASE B.k = "INT" -> <<v>>
             [] B.k \in {"BITS", "OCTS", "STR", "SEQOF", "SETOF"} -> <<FromInt(SizeOf(B, v))>>
             [] OTHER -> <<>>)
     ELSE CASE B.k \in {"SEQ", "SET"} ->
                 LET ms == AllMembers(B)
                 IN IF HasMember(ms, tp[1]) /\ v[tp[1]].p
                    THEN MeasuresAt(env, ms[MemberIndex(ms, tp[1])].t, v[tp[1]].v, Tail(tp))
                    ELSE <<>>
            [] B.k = "CHOICE" ->
                 LET alts == AllAlts(B)
                 IN IF v.a = tp[1] /\ HasMember(alts, tp[1])
                    THEN MeasuresAt(env, alts[MemberIndex(alts, tp[1])].t, v.v, Tail(tp))
                    ELSE <<>>
            [] B.k \in {"SEQOF", "SETOF"} ->
                 IF tp[1] = "*"
                 THEN Concat([j \in 1..Len(v) |-> MeasuresAt(env, B.e, v[j], Tail(tp))])
                 ELSE <<>>
            [] OTHER -> <<>>

\* Is the neighbour b + d of a bound a possible measure at all?  (sizes are >= 0)
NeighbourExists(site, d) ==
  site.q = "int" \/ ~Add(site.b, FromInt(d)).neg

\* The table vals of type T is boundary complete: for every bound b of every
\* constraint in T (extensible ones included) it holds b - 1, b and b + 1 at the
\* constrained position.
MissingNeighbours(env, T, vals, fuel) ==
  LET sites == BoundSites(env, T, <<>>, fuel)
      found(site, d) ==
        LET want == Add(site.b, FromInt(d))
        IN \E h \in 1..Len(vals) :
             LET ms == MeasuresAt(env, T, vals[h], site.tp)
             IN \E g \in 1..Len(ms) : Eq(ms[g], want)
  IN Concat([j \in 1..Len(sites) |->
        Concat([dd \in 1..3 |->
           LET d == dd - 2
           IN IF NeighbourExists(sites[j], d) /\ ~found(sites[j], d)
              THEN <<[tp |-> sites[j].tp, q |-> sites[j].q, side |-> sites[j].side, d |-> d]>>
              ELSE <<>>])])

BoundaryComplete(env, T, vals, fuel) == MissingNeighbours(env, T, vals, fuel) = <<>>

=============================================================================
