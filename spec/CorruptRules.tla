----------------------------- MODULE CorruptRules ----------------------------
(***************************************************************************)
(* C12, the state-free part: what the type checker is specified to accept, *)
(* the nodes of a value tree, the corruption kinds applicable at a node,   *)
(* the expected error (class and path), and the named deviation of the     *)
(* path rule.  Used by the transition system Corrupt.tla (generator, model *)
(* checking) and by Trace_Corrupt.tla (judging recorded executions).       *)
(***************************************************************************)
EXTENDS Constraints, TLC

------------------------------------------------------------------------------
(* what the type checker is specified to accept / reject                    *)

\* Python objects the driver can put in place of a component
TauUniverse == <<"None", "bool", "int", "float", "str", "bytes", "list", "dict",
                 "tuple0", "tuple3", "tuple2s", "tuple2b">>
   \* tuple2s = ("zz", 1): the (str, object) shape of a CHOICE;  tuple2b = (b"\x00", 1): the BIT STRING shape

\* codecs/type_checker.py, one line per class (isinstance tables; bool is an int in Python)
Accepts(kind, ne) ==
  CASE kind = "BOOL" -> {"bool"}
    [] kind = "INT" -> {"int", "bool", "str"}
    [] kind = "REAL" -> {"float", "int", "bool"}
    [] kind = "NULL" -> {"None"}
    [] kind = "BITS" -> {"tuple2b"}
    [] kind = "OCTS" -> {"bytes"}
    [] kind \in {"STR", "OID"} -> {"str"}
    [] kind = "ENUM" -> IF ne THEN {"int", "bool"} ELSE {"str"}
    [] kind \in {"SEQ", "SET"} -> {"dict"}
    [] kind \in {"SEQOF", "SETOF"} -> {"list"}
    [] kind = "CHOICE" -> {"tuple2s"}

\* numeric_enums settings under which tau is rejected for this kind
RejectedUnder(kind, tau) == SelectSeq(<<FALSE, TRUE>>, LAMBDA ne : tau \notin Accepts(kind, ne))

------------------------------------------------------------------------------
(* nodes of a value tree                                                    *)

RECURSIVE Nodes(_, _, _)
\* pre-order sequence of [pos, t : the (unresolved) type of the node, x : its value]
Nodes(e, T, v) ==
  LET Bt == Base(e, T)
      under(st, sub) == [j \in 1..Len(sub) |-> [pos |-> <<st>> \o sub[j].pos, t |-> sub[j].t, x |-> sub[j].x]]
      kids ==
        CASE Bt.k \in {"SEQ", "SET"} ->
               LET ms == AllMembers(Bt)
               IN Concat([j \in 1..Len(ms) |->
                    IF v[ms[j].n].p THEN under(MStep(ms[j].n), Nodes(e, ms[j].t, v[ms[j].n].v)) ELSE <<>>])
          [] Bt.k = "CHOICE" ->
               LET alts == AllAlts(Bt)
               IN under(AStep(v.a), Nodes(e, alts[MemberIndex(alts, v.a)].t, v.v))
          [] Bt.k \in {"SEQOF", "SETOF"} ->
               Concat([j \in 1..Len(v) |-> under(IStep(j), Nodes(e, Bt.e, v[j]))])
          [] OTHER -> <<>>
  IN <<[pos |-> <<>>, t |-> T, x |-> v]>> \o kids

RECURSIVE TypeAt(_, _, _)
\* the type of the node at pos (positions are type-directed: no value needed)
TypeAt(e, T, pos) ==
  IF pos = <<>> THEN T
  ELSE LET Bt == Base(e, T)
       IN CASE pos[1].s = "m" -> TypeAt(e, AllMembers(Bt)[MemberIndex(AllMembers(Bt), pos[1].n)].t, Tail(pos))
            [] pos[1].s = "a" -> TypeAt(e, AllAlts(Bt)[MemberIndex(AllAlts(Bt), pos[1].n)].t, Tail(pos))
            [] pos[1].s = "i" -> TypeAt(e, Bt.e, Tail(pos))

\* does pos lead to a node of v : T ?
RECURSIVE ReachesNode(_, _, _, _)
ReachesNode(e, T, v, pos) ==
  pos = <<>> \/
  LET Bt == Base(e, T)
  IN CASE pos[1].s = "m" ->
            /\ Bt.k \in {"SEQ", "SET"} /\ HasMember(AllMembers(Bt), pos[1].n) /\ v[pos[1].n].p
            /\ ReachesNode(e, AllMembers(Bt)[MemberIndex(AllMembers(Bt), pos[1].n)].t, v[pos[1].n].v, Tail(pos))
       [] pos[1].s = "a" ->
            /\ Bt.k = "CHOICE" /\ v.a = pos[1].n /\ HasMember(AllAlts(Bt), pos[1].n)
            /\ ReachesNode(e, AllAlts(Bt)[MemberIndex(AllAlts(Bt), pos[1].n)].t, v.v, Tail(pos))
       [] pos[1].s = "i" ->
            /\ Bt.k \in {"SEQOF", "SETOF"} /\ pos[1].i \in 1..Len(v)
            /\ ReachesNode(e, Bt.e, v[pos[1].i], Tail(pos))

------------------------------------------------------------------------------
(* corruptions                                                              *)

NoValue == "NULL"
Cor(kind, pos, tau, nes, member, num, v2, nb) ==
  [kind |-> kind, pos |-> pos, tau |-> tau, nes |-> nes, member |-> member, num |-> num, v2 |-> v2, nb |-> nb]

BothNe == <<FALSE, TRUE>>

\* a number no item of the ENUMERATED type has
UnusedNumber(Bt) ==
  LET items == AllAlts(Bt)
  IN 1 + FoldLeft(LAMBDA acc, it : IF it.v > acc THEN it.v ELSE acc, 0, items)

\* every corruption applicable at one node; taus = the Python type tags to try (a subsequence
\* of TauUniverse)
NodeCorruptions(e, node, taus) ==
  LET Bt == Base(e, node.t)
      wrong == Concat([j \in 1..Len(taus) |->
                 LET nes == RejectedUnder(Bt.k, taus[j])
                 IN IF nes = <<>> THEN <<>>
                    ELSE <<Cor("type", node.pos, taus[j], nes, "", 0, NoValue, "")>>])
      special ==
        CASE Bt.k = "CHOICE" -> <<Cor("alt", node.pos, "", BothNe, "", 0, NoValue, "")>>
          [] Bt.k = "ENUM" -> <<Cor("enum", node.pos, "", BothNe, "", UnusedNumber(Bt), NoValue, "")>>
          [] Bt.k \in {"SEQ", "SET"} ->
               Concat([j \in 1..Len(Bt.root) |->
                  IF Bt.root[j].q = "M" THEN <<Cor("missing", node.pos, "", BothNe, Bt.root[j].n, 0, NoValue, "")>>
                  ELSE <<>>])
          [] OTHER -> <<>>
  IN wrong \o special

KindName(c) ==
  CASE c.kind = "type" -> "WrongPyType(" \o c.tau \o ")"
    [] c.kind = "alt" -> "UnknownAlternative"
    [] c.kind = "enum" -> "UnknownEnumName"
    [] c.kind = "missing" -> "MissingMandatory"
    [] c.kind = "con" -> "ConstraintViolation"

\* Is c a corruption the property quantifies over, for v : T ?  (used by the trace
\* specification on recorded patches, and as an invariant of the generator)
Applicable(e, T, v, c) ==
  /\ ReachesNode(e, T, v, c.pos)
  /\ LET Bt == Base(e, TypeAt(e, T, c.pos))
     IN CASE c.kind = "type" -> /\ c.nes # <<>>
                                /\ \E j \in 1..Len(TauUniverse) : TauUniverse[j] = c.tau
                                /\ \A j \in 1..Len(c.nes) : c.tau \notin Accepts(Bt.k, c.nes[j])
          [] c.kind = "alt" -> Bt.k = "CHOICE"
          [] c.kind = "enum" -> Bt.k = "ENUM" /\ \A j \in 1..Len(AllAlts(Bt)) : AllAlts(Bt)[j].v # c.num
          [] c.kind = "missing" -> /\ Bt.k \in {"SEQ", "SET"}
                                   /\ \E j \in 1..Len(Bt.root) : Bt.root[j].n = c.member /\ Bt.root[j].q = "M"
          [] c.kind = "con" -> LET vp == ViolationPaths(e, T, c.v2)
                               IN vp # <<>> /\ \A j \in 1..Len(vp) : vp[j].pos = c.pos

\* what the specification expects from encode(check_types=True, check_constraints=True)
Expected(e, T, v, c) ==
  [cls |-> IF c.kind = "con" THEN "ConstraintsError" ELSE "EncodeError",
   path |-> NamePath(c.pos)]

(* Named deviation of the path rule.  DevPathRecursiveTypeName: where the   *)
(* position crosses a reference to a type that is being expanded (a         *)
(* recursive reference), the name of the referenced type is inserted after  *)
(* the member name (type_checker.Recursive.encode adds its inner type as a  *)
(* location; the codecs' Recursive classes do the same).                    *)
RECURSIVE PathRec(_, _, _, _, _)
PathRec(e, T, pos, bt, names) ==
  IF T.k = "REF"
  THEN IF \E j \in 1..Len(bt) : bt[j] = T.name
       THEN <<names[T.name]>> \o PathRec(e, e.types[T.name], pos, bt, names)
       ELSE PathRec(e, e.types[T.name], pos, Append(bt, T.name), names)
  ELSE IF pos = <<>> THEN <<>>
  ELSE CASE pos[1].s = "m" ->
              <<pos[1].n>> \o PathRec(e, AllMembers(T)[MemberIndex(AllMembers(T), pos[1].n)].t, Tail(pos), bt, names)
         [] pos[1].s = "a" ->
              <<pos[1].n>> \o PathRec(e, AllAlts(T)[MemberIndex(AllAlts(T), pos[1].n)].t, Tail(pos), bt, names)
         [] pos[1].s = "i" -> PathRec(e, T.e, Tail(pos), bt, names)

(* Named deviation of "never bytes".  DevAdditionErrorsSwallowed: the BER / DER /  *)
(* PER / UPER / OER encoders of SEQUENCE and SET wrap the encoding of all          *)
(* extension additions in  try: ... except EncodeError: pass  (meant for an        *)
(* absent addition), so an error that only the codec detects -- a missing          *)
(* mandatory member, an unknown ENUMERATED name -- inside an extension addition    *)
(* is swallowed and bytes are returned without that addition.                      *)
RECURSIVE InsideAddition(_, _, _)
InsideAddition(e, T, pos) ==
  pos # <<>> /\
  LET Bt == Base(e, T)
  IN CASE pos[1].s = "m" ->
            LET ms == AllMembers(Bt)
                j == MemberIndex(ms, pos[1].n)
            IN j > Len(Bt.root) \/ InsideAddition(e, ms[j].t, Tail(pos))
       [] pos[1].s = "a" -> InsideAddition(e, AllAlts(Bt)[MemberIndex(AllAlts(Bt), pos[1].n)].t, Tail(pos))
       [] pos[1].s = "i" -> InsideAddition(e, Bt.e, Tail(pos))

SwallowingCodecs == {"ber", "ber/ne", "der", "der/ne", "per", "per/ne", "uper", "uper/ne", "oer", "oer/ne"}

\* names : abstract type name -> the name the type was compiled under
DevPath(e, top, pos, names) == PathRec(e, e.types[top], pos, <<top>>, names)

=============================================================================
