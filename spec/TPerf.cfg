SPECIFICATION Spec
CONSTANTS
  MaxSteps = 0
  EmitBelow = 0
  SeedIds = {1}
  SeedTagDefs = {"A"}
  MaxMods = 3
  Mutation = ""
