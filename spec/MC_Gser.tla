------------------------------- MODULE MC_Gser ------------------------------
(***************************************************************************)
(* C20 on the model.  The universe is TypeGen's (types x boundary values)  *)
(* plus the GSER-specific table below (strings with quotes / commas /      *)
(* braces / line feeds / outer spaces, BIT STRINGs of 0..17 bits, named    *)
(* bits, empty OCTET STRING, CHOICE in CHOICE, lists of lists, empty       *)
(* lists, REAL specials).  For every case, value and layout TLC checks     *)
(*                                                                         *)
(*    RoundTrip:  GserRead(GserText(v, ind)) succeeds, consumes the text   *)
(*                completely and returns a value AbsEq to v                *)
(*                (compact layout read with the strict RFC 3641 sp class)  *)
(*    Injective:  two values of a case that are not AbsEq have different   *)
(*                texts (a consequence of RoundTrip, checked separately)   *)
(*                                                                         *)
(* and emits the case (Emit) for the driver, so that exactly the universe  *)
(* that was model-checked is replayed into the implementation.             *)
(* Mut # {} switches on a deliberately wrong production of the generator:  *)
(* the invariant must then fail (anti-vacuity, ./check --setup style).     *)
(***************************************************************************)
EXTENDS TypeGen, Gser

CONSTANTS Indents,     \* subset of {-1, 0, 2, 4}; -1 is the compact layout (indent=None)
          Mut,         \* generator mutations, {} normally
          Extras       \* TRUE: the GSER table is part of the universe

------------------------------------------------------------------------------
(* the GSER table                                                           *)

XC(t, vals) == [t |-> t, vals |-> vals]
XUtf8 == TStr("UTF8", NoSz, NoAl)
XIa5 == TStr("IA5", NoSz, NoAl)
XF(s, m, e) == [c |-> "F", s |-> s, m |-> m, e |-> e]
XSpecial(c) == [c |-> c, s |-> 0, m |-> <<>>, e |-> 0]
XBitsNamed == TBits(NoSz, <<It("first", 0), It("b-3", 3), It("last", 9)>>)
XInner == TChoice(<<Alt("leaf", TIntN), Alt("txt", XUtf8), Alt("none", TNull)>>, FALSE, <<>>)
XMid == TChoice(<<Alt("in", XInner), Alt("flag", TBool)>>, FALSE, <<>>)
XOuter == TChoice(<<Alt("mid", XMid), Alt("list", TOf("SEQOF", XMid, NoSz))>>, TRUE, <<Alt("later", XInner)>>)
XStrSeq == TSeq("SEQ", <<Mand("s", XUtf8), Opt("t", XIa5)>>, FALSE, <<>>)
XStrSet == TSeq("SET", <<Mand("t", XIa5), Mand("s", XUtf8), Def("n", TIntN, B(7))>>, FALSE, <<>>)
XNest == TSeq("SEQ", <<Mand("e", TSeq("SEQ", <<>>, FALSE, <<>>)), Mand("l", TOf("SEQOF", TOf("SEQOF", TIntN, NoSz), NoSz)),
                      Mand("c", XOuter), Opt("o", TOf("SETOF", XUtf8, NoSz))>>, TRUE, <<Add1(Mand("x", TBool))>>)
XIntNamed == [TIntN EXCEPT !.nn = <<It("zero", B(0)), It("minus-one", B(-1))>>]
XEnumHyphen == TEnum(<<It("dBm-102", 0), It("a-b-c", 1), It("z9", 2)>>, TRUE, <<It("later-1", 3)>>)

\* 34 ", 44 , 123 { 125 } 10 LF 32 SP 58 : 39 '
GserTable ==
  << XC(XUtf8, << <<97, 34, 98>>, <<97, 34, 34, 98>>, <<34>>, <<34, 34>>, <<>>, <<97, 44, 98>>, <<125>>, <<123, 32, 120, 32, 49, 32, 125>>,
                  <<97, 10, 98>>, <<32, 108, 101, 97, 100>>, <<116, 114, 97, 105, 108, 32>>, <<34, 44, 32, 34>>, <<39, 65, 39, 72>>,
                  <<228, 8364, 128512, 34>> >>),
     XC(TOf("SEQOF", XUtf8, NoSz), << <<(<<97>>), (<<98>>)>>, <<(<<97, 34, 44, 32, 34, 98>>)>>, <<>>, <<(<<>>)>>, <<(<<>>), (<<>>)>>,
                                     <<(<<34>>), (<<34, 34>>)>>, <<(<<97, 125>>), (<<123, 98>>)>> >>),
     XC(XStrSeq, << [s |-> Present(<<120>>), t |-> Present(<<121>>)],
                    [s |-> Present(<<120, 34, 44, 32, 116, 32, 34, 121>>), t |-> Absent],
                    [s |-> Present(<<>>), t |-> Present(<<>>)],
                    [s |-> Present(<<120>>), t |-> Present(<<108, 10, 32, 109>>)],
                    [s |-> Present(<<34>>), t |-> Present(<<34, 34>>)] >>),
     XC(XStrSet, << [t |-> Present(<<72, 105>>), s |-> Present(<<125, 44>>), n |-> Absent],
                    [t |-> Present(<<>>), s |-> Present(<<10, 32, 32>>), n |-> Present(B(7))],
                    [t |-> Present(<<34>>), s |-> Present(<<>>), n |-> Present(B(-1))] >>),
     XC(TBits(NoSz, <<>>), [n \in 1..18 |-> MkBits(BitPattern(n - 1, 0))] \o <<MkBits(BitPattern(8, 2)), MkBits(BitPattern(16, 1)), MkBits(BitPattern(17, 2))>>),
     XC(XBitsNamed, << MkBits(<<>>), MkBits(<<1>>), MkBits(<<1, 0, 0, 1>>), MkBits(<<1, 0, 0, 1, 0, 0, 0, 0, 0, 1>>), MkBits(<<0, 0, 0, 0>>),
                       MkBits(<<1, 0, 0, 0, 0, 0, 0, 0, 0, 0, 0, 0>>) >>),
     XC(TBits(Sz(0, 0, FALSE), <<>>), << MkBits(<<>>) >>),
     XC(TOcts(NoSz), << <<>>, <<0>>, <<171, 205, 239>>, <<1, 35, 69, 103, 137>>, <<255, 10>> >>),
     XC(TOf("SEQOF", TOcts(NoSz), NoSz), << <<>>, <<(<<>>)>>, <<(<<>>), (<<222, 173>>), (<<>>)>> >>),
     XC(XOuter, << [a |-> "mid", v |-> [a |-> "in", v |-> [a |-> "leaf", v |-> B(-5)]]],
                   [a |-> "mid", v |-> [a |-> "in", v |-> [a |-> "txt", v |-> <<58, 34, 58>>]]],
                   [a |-> "mid", v |-> [a |-> "in", v |-> [a |-> "none", v |-> "NULL"]]],
                   [a |-> "mid", v |-> [a |-> "flag", v |-> FALSE]],
                   [a |-> "list", v |-> <<>>],
                   [a |-> "list", v |-> << [a |-> "flag", v |-> TRUE], [a |-> "in", v |-> [a |-> "leaf", v |-> B(0)]], [a |-> "in", v |-> [a |-> "none", v |-> "NULL"]] >>],
                   [a |-> "later", v |-> [a |-> "txt", v |-> <<>>]] >>),
     XC(XNest, << [e |-> Present([x \in {} |-> 0]), l |-> Present(<<>>), c |-> Present([a |-> "list", v |-> <<>>]), o |-> Absent, x |-> Present(TRUE)],
                  [e |-> Present([x \in {} |-> 0]), l |-> Present(<<(<<>>), (<<B(1), B(-2)>>), (<<>>), (<<B(300)>>)>>),
                   c |-> Present([a |-> "mid", v |-> [a |-> "flag", v |-> TRUE]]), o |-> Present(<<>>), x |-> Present(FALSE)],
                  [e |-> Present([x \in {} |-> 0]), l |-> Present(<<(<<>>)>>), c |-> Present([a |-> "later", v |-> [a |-> "leaf", v |-> P2(64)]]),
                   o |-> Present(<<(<<34>>), (<<>>), (<<44, 32>>)>>), x |-> Absent] >>),
     XC(TOf("SEQOF", TOf("SETOF", TOf("SEQOF", TBool, NoSz), NoSz), NoSz),
        << <<>>, <<(<<>>)>>, <<(<<(<<>>)>>)>>, <<(<<(<<TRUE>>), (<<>>)>>), (<<>>), (<<(<<FALSE, TRUE>>)>>)>> >>),
     XC(TReal, << XSpecial("Z"), XSpecial("NZ"), XSpecial("PINF"), XSpecial("NINF"), XSpecial("NAN"),
                  XF(0, <<1>>, 0), XF(1, <<1>>, -1), XF(0, <<5>>, 1), XF(0, <<25>>, 2), XF(1, <<5>>, -2), XF(0, <<1>>, -20), XF(0, <<1>>, 64),
                  XF(0, <<35, 134, 242, 111, 193>>, 16),                                  \* 1e16 = 5^16 * 2^16
                  XF(0, <<86, 188, 117, 226, 214, 49>>, 20),                               \* 1e20 = 5^20 * 2^20
                  XF(0, <<12, 204, 204, 204, 204, 204, 205>>, -55),                        \* 0.1 (the double)
                  XF(1, <<1>>, -1074), XF(0, <<31, 255, 255, 255, 255, 255, 255>>, 971) >>),
     XC(TOf("SEQOF", TReal, NoSz), << <<XSpecial("Z"), XF(1, <<3>>, -1), XSpecial("PINF"), XF(0, <<1>>, 100)>>, <<XSpecial("NINF")>> >>),
     XC(XIntNamed, << B(0), B(-1), B(5), Neg(P2(64)) >>),
     XC(XEnumHyphen, << "dBm-102", "a-b-c", "z9", "later-1" >>),
     XC(TOid, << <<0, 0>>, <<2, 999, 3>>, <<1, 2, 840, 113549, 1, 1, 11>> >>),
     XC(TSeq("SEQ", <<Def("x", TNull, "NULL"), Def("s", XIa5, <<97>>), Def("b", TBool, TRUE)>>, FALSE, <<>>),
        << [x |-> Present("NULL"), s |-> Present(<<97>>), b |-> Present(TRUE)], [x |-> Absent, s |-> Absent, b |-> Absent],
           [x |-> Present("NULL"), s |-> Absent, b |-> Present(FALSE)] >>) >>

IndentsAll == {-1, 0, 2, 4}      \* cfg files cannot write -1: CONSTANT Indents <- IndentsAll
IndentsCompact == {-1}
IndentsTwo == {-1, 2}

XMark == 1000     \* gDepth >= XMark marks the i-th table entry (i = gDepth - XMark)

XInit ==
  /\ Extras
  /\ gEnv = [tagdef |-> "A", extimp |-> FALSE, types |-> [x \in {} |-> 0]]
  /\ \E i \in 1..Len(GserTable) : gT = GserTable[i].t /\ gDepth = XMark + i

MInit == Init \/ XInit
MSpec == MInit /\ [][Next]_vars

MCase == IF gDepth > XMark THEN [Case EXCEPT !.vals = GserTable[gDepth - XMark].vals] ELSE Case

MEmit ==
  Serialize(ToJson(MCase) \o "\n", IOEnv.OUT_FILE,
            [format |-> "TXT", charset |-> "UTF-8", openOptions |-> <<"WRITE", "CREATE", "APPEND">>]).exitValue = 0

------------------------------------------------------------------------------
(* the invariants                                                           *)

RoundTripOne(env, v, ind) ==
  LET txt == GserTextM(env, "Top", v, ind, Mut)
      r == GserRead(env, "Top", "Top", txt, ind >= 0, {}, <<>>, GNoHint)
  IN IF r.ok /\ AbsEq(env, env.types["Top"], v, r.v) THEN TRUE
     ELSE PrintT(<<"ROUNDTRIP FAILS", ind, v, txt, r>>) /\ FALSE

RoundTrip ==
  LET c == MCase IN
  \A i \in 1..Len(c.vals) :
     GRepresentable(c.env, c.env.types["Top"], c.vals[i]) => \A ind \in Indents : RoundTripOne(c.env, c.vals[i], ind)

Injective ==
  LET c == MCase
      T == c.env.types["Top"]
      ok == Force([i \in 1..Len(c.vals) |-> GRepresentable(c.env, T, c.vals[i])])
  IN \A ind \in Indents :
       LET txt == Force([i \in 1..Len(c.vals) |-> IF ok[i] THEN GserTextM(c.env, "Top", c.vals[i], ind, Mut) ELSE <<>>])
       IN \A i, j \in 1..Len(c.vals) :
            (i < j /\ ok[i] /\ ok[j] /\ txt[i] = txt[j]) =>
               (IF AbsEq(c.env, T, c.vals[i], c.vals[j]) THEN TRUE
                ELSE PrintT(<<"SAME TEXT FOR DIFFERENT VALUES", ind, c.vals[i], c.vals[j]>>) /\ FALSE)

=============================================================================
