---- MODULE TPerf ----
EXTENDS Arrange
A == Seed(3, "A")
G == GEnv(A)
ASSUME PrintT(<<"t0", JavaTime>>)
ASSUME \A i \in 1..1000 : Len(AsgList(Seed(3, "A"))) = 4
ASSUME PrintT(<<"asglist x1000", JavaTime>>)
ASSUME \A i \in 1..1000 : Qual(A, 1, A.mods[1].asg[4].t).k = "SEQ"
ASSUME PrintT(<<"qual top x1000", JavaTime>>)
ASSUME \A i \in 1..1000 : QName(A, 1, "Ch") = "M-Ch"
ASSUME PrintT(<<"qname x1000", JavaTime>>)
ASSUME \A i \in 1..1000 : Tree(G, G.types["M-Top"], CtxOf(G, "M-Top"), {}, {}, 5).k = "SEQ"
ASSUME PrintT(<<"tree x1000", JavaTime>>)
ASSUME \A i \in 1..1000 : Tree(G, G.types["M-Ch"], CtxOf(G, "M-Ch"), {}, {}, 5).k = "CHOICE"
ASSUME PrintT(<<"tree Ch x1000", JavaTime>>)
ASSUME \A i \in 1..1000 : Tree(G, G.types["M-Tn"], CtxOf(G, "M-Tn"), {}, {}, 5).k = "INT"
ASSUME PrintT(<<"tree Tn x1000", JavaTime>>)
====
