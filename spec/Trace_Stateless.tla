--------------------------- MODULE Trace_Stateless ---------------------------
(***************************************************************************)
(* Binding B for C18.  One recorded line = one execution of one schedule   *)
(* (sequentially or on n real threads) on ONE compiled specification of    *)
(* the real library, as recorded by harness/drive_stateless.py:            *)
(*    n, prog     thread count and the program (operation indices) of      *)
(*                every thread -- the schedule TLC generated               *)
(*    ops, solo   the operations used and Solo[op], measured alone on a    *)
(*                freshly compiled specification                           *)
(*    events      inv / ret / graph_write / arg_mutated in one global      *)
(*                order, each with thread and per-thread sequence number   *)
(*    fp          paths of the compiled graph whose fingerprint changed    *)
(*    alias       mutable objects shared by two decode results or by a     *)
(*                result and the graph, with the effect of changing them   *)
(* The line is accepted iff it is a behaviour of Stateless.tla: the events *)
(* replayed with CanInvoke/DoInvoke/CanReturn/RetIsSolo/DoReturn are a     *)
(* legal interleaving of the threads' programs, every Return carries       *)
(* Solo[op], nothing wrote the graph, no argument changed, and nothing     *)
(* the caller was handed is an object of the graph.  One report per line;  *)
(* a rejected line never stops the run.                                    *)
(***************************************************************************)
EXTENDS Stateless, TLCExt

Tr == ndJsonDeserialize(IOEnv.TRACE_FILE)

VARIABLE i

V(check, verdict, detail, vi) == [check |-> check, verdict |-> verdict, detail |-> detail, vi |-> vi]

Clip(s) == s          \* strings are atomic in TLC; the driver clips what it records

OpText(ex, op) ==
  IF op \in 1..Len(ex.ops) THEN ex.ops[op].kind \o " " \o ex.ops[op].type \o " (" \o ex.ops[op].cls \o " input)"
  ELSE "operation " \o ToString(op)

------------------------------------------------------------------------------
(* replay of the events of one execution                                    *)

ReplayStep(ex, s, e) ==
  LET t == e.t
      known == t \in 1..ex.n
      seqOk == ~known \/ e.seq = s.sq[t] + 1
      s1 == IF seqOk THEN s
            ELSE [s EXCEPT !.bad = Append(@, V("ORDER", "reject",
                     "thread " \o ToString(t) \o ": sequence number " \o ToString(e.seq) \o " follows "
                     \o ToString(s.sq[t]), e.op))]
      s2 == IF known THEN [s1 EXCEPT !.sq[t] = e.seq] ELSE s1
  IN
  IF e.ev = "graph_write"
  THEN [s2 EXCEPT !.bad = Append(@, V("WRITE", "reject",
            "graph_write:" \o e.obj \o "." \o e.attr \o " during " \o OpText(ex, e.op), e.op))]
  ELSE IF ~known
  THEN [s2 EXCEPT !.bad = Append(@, V("ORDER", "reject", "event of unknown thread " \o ToString(t), e.op))]
  ELSE IF e.ev = "inv"
  THEN LET legal == /\ CanInvoke(s2.th, t)
                    /\ s2.th[t].n < Len(ex.prog[t])
                    /\ ex.prog[t][s2.th[t].n + 1] = e.op
           s3 == [s2 EXCEPT !.th = DoInvoke(s2.th, t, e.op, "none")]
       IN IF legal THEN s3
          ELSE [s3 EXCEPT !.bad = Append(@, V("ORDER", "reject",
                    "thread " \o ToString(t) \o ": Invoke of " \o OpText(ex, e.op) \o
                    " is not the next step of its program", e.op))]
  ELSE IF e.ev = "ret"
  THEN IF ~CanReturn(s2.th, t, e.op)
       THEN [s2 EXCEPT !.th[t].pc = "idle",
                       !.bad = Append(@, V("ORDER", "reject",
                           "thread " \o ToString(t) \o ": Return of " \o OpText(ex, e.op) \o " without its Invoke", e.op))]
       ELSE LET s3 == [s2 EXCEPT !.th = DoReturn(s2.th, t, e.r)]
            IN IF RetIsSolo(ex.solo, e.op, e.r)
               THEN [s3 EXCEPT !.ok = @ + 1]
               ELSE [s3 EXCEPT !.bad = Append(@, V("RET", "reject",
                         OpText(ex, e.op) \o " returned " \o Clip(e.r) \o " but alone on a fresh compile " \o
                         Clip(ex.solo[e.op]), e.op))]
  ELSE IF e.ev = "arg_mutated"
  THEN [s2 EXCEPT !.bad = Append(@, V("ARG", "reject",
            "arg_mutated:" \o OpText(ex, e.op) \o " changed its argument to " \o Clip(e.r), e.op))]
  ELSE [s2 EXCEPT !.bad = Append(@, V("ORDER", "reject", "unknown event " \o e.ev, e.op))]

Replay(ex) ==
  LET s0 == [th |-> [t \in 1..ex.n |-> ThreadInit("none")], sq |-> [t \in 1..ex.n |-> 0], bad |-> <<>>, ok |-> 0]
      sN == FoldLeft(LAMBDA s, e : ReplayStep(ex, s, e), s0, ex.events)
      undone == SelectSeq([t \in 1..ex.n |-> t],
                          LAMBDA t : ~(sN.th[t].pc = "idle" /\ sN.th[t].n = Len(ex.prog[t])))
  IN IF undone = <<>> /\ ~ex.hung THEN sN
     ELSE [sN EXCEPT !.bad = Append(@, V("ORDER", "reject",
               "threads " \o ToString(undone) \o " did not complete their programs (hang or lost events)", 0))]

------------------------------------------------------------------------------
(* line-level observations                                                  *)

\* the one named deviation of the clause "what a caller is handed is not an object of the
\* graph": the stored DEFAULT value of a SEQUENCE OF / SET OF component (DEFAULT {}), a
\* Python list, is returned itself by decode
DevDefaultListByReference(a) == a.stored /\ a.pytype = "list" /\ a.attr = "default"

AliasVerdicts(ex) ==
  LET hit == SelectSeq(ex.alias, LAMBDA a : a.effect \/ a.stored)
  IN ForceSeq([k \in 1..Len(hit) |->
        LET a == hit[k] IN
        IF DevDefaultListByReference(a)
        THEN V("ALIAS", "dev", ToString({"DevDefaultListByReference"}), a.op)
        ELSE V("ALIAS", "reject",
               "default_aliased:" \o a.pytype \o " at " \o a.path \o " of the result of " \o OpText(ex, a.op) \o
               (IF a.stored THEN " is the graph object " \o a.owner \o "." \o a.attr
                ELSE " is shared with the result of the same call made again") \o
               (IF a.effect THEN "; after the caller changed it the same call returns " \o Clip(a.now) ELSE ""),
               a.op)])

GraphVerdicts(ex) ==
  IF ex.fp = <<>> THEN <<>>
  ELSE <<V("GRAPH", "reject",
           "graph_changed:" \o ex.fp[1].path \o " was " \o ex.fp[1].before \o " is " \o ex.fp[1].after \o
           " (" \o ToString(Len(ex.fp)) \o " paths differ)", 0)>>

WireVerdicts(ex) ==
  IF ex.wires.instances = 0 THEN <<V("ANY", "machinery", "no tripwire could be installed on the compiled graph", 0)>> ELSE <<>>

Has(seq, check) == \E k \in 1..Len(seq) : seq[k].check = check

LineReport(ex) ==
  LET rp == Replay(ex)
      other == rp.bad \o GraphVerdicts(ex) \o AliasVerdicts(ex) \o WireVerdicts(ex)
      lineOk == Len(SelectSeq(<<"ORDER", "WRITE", "ARG", "GRAPH", "ALIAS">>, LAMBDA c : ~Has(other, c)))
  IN [cid |-> ex.cid, n |-> rp.ok + lineOk + Len(other), ok |-> rp.ok + lineOk,
      other |-> ForceSeq([k \in 1..Len(other) |->
                   [vi |-> other[k].vi, codec |-> ex.codec, ne |-> FALSE, check |-> other[k].check,
                    verdict |-> other[k].verdict, detail |-> other[k].detail]])]

Report(r) ==
  Serialize(ToJson(r) \o "\n", IOEnv.VERDICT_FILE,
            [format |-> "TXT", charset |-> "UTF-8", openOptions |-> <<"WRITE", "CREATE", "APPEND">>]).exitValue = 0

TInit == i = 1 /\ Init
TNext == /\ i <= Len(Tr)
         /\ Report(LineReport(Tr[i]))
         /\ i' = i + 1
         /\ UNCHANGED vars
TSpec == TInit /\ [][TNext]_<<i, vars>>

TraceAccepted == TLCGet("stats").diameter - 1 = Len(Tr)

=============================================================================
