SPECIFICATION TSpec
CONSTANTS
  Threads = {1}
  MaxCalls = 0
  Mech = "Trace"
POSTCONDITION TraceAccepted
CHECK_DEADLOCK FALSE
