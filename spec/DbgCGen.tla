---- MODULE DbgCGen ----
EXTENDS CGen
T0 == OptBools(7, TRUE)
E0 == [tagdef |-> "A", extimp |-> FALSE, types |-> [x \in {} |-> 0]]
ASSUME PrintT(CVals(E0, T0))
ASSUME PrintT(Serialize("abc\n", "/verif/.work/cgen-dev/dbg.txt", [format |-> "TXT", charset |-> "UTF-8", openOptions |-> <<"WRITE", "CREATE", "APPEND">>]))
====
