--------------------------------- MODULE Xer --------------------------------
(***************************************************************************)
(* BASIC-XER (ITU-T X.693, XML value notation of X.680) as asn1tools maps  *)
(* it (asn1tools/codecs/xer.py): the XML *element tree* a (type, value)    *)
(* pair must be written as, and a type-directed reader of such trees.      *)
(*                                                                         *)
(* Element nodes (the JSON form recorded by harness/drive_text.py is the   *)
(* same record):  [tag |-> STRING, f, kids |-> Seq(node), text |-> Seq(Nat),*)
(*                 fl |-> [c, s, m, e]]                                    *)
(*   f = "e"  element content: kids (possibly none), no character data     *)
(*            (white space between child elements is not content: an XML   *)
(*            reader of element-only content is entitled to drop it);      *)
(*            the empty element is f = "e" with kids = <<>>                *)
(*   f = "t"  non-empty character data, no child elements; text = the      *)
(*            characters after entity / line-end processing; for recorded  *)
(*            documents fl = the double float() gives for the text (c =    *)
(*            "ERR" when it gives none) -- decimal -> double is delegated  *)
(*   f = "r"  only in trees of the mapping: "a realnumber that denotes the *)
(*            double fl" (the digits are the encoder's choice)             *)
(*   f = "m"  only in recorded documents: mixed content / attributes       *)
(*                                                                         *)
(* XerDoc(env, top, v, S): the document of value v of the named type top.  *)
(* The tree does not depend on numeric_enums (identifiers are written).    *)
(* S = named deviations switched on (S = {} is the mapping itself):        *)
(*                                                                         *)
(*   DevXerRecursiveItemDelimited (xer.Recursive has no encode_of/decode_of)*)
(*       inside SEQUENCE OF / SET OF a BOOLEAN, ENUMERATED or CHOICE value *)
(*       is written in the bare form (X.680 26.5 XMLValueList); when the   *)
(*       element type is a *recursive* reference the implementation writes *)
(*       the delimited form <TypeName>..</TypeName>.  Harmless for C02:    *)
(*       well-formed and read back by the same rule (XerBenign).           *)
(*   DevXerCrUnescaped (xml.etree serialiser used by xer.CompiledType.encode)*)
(*       U+000D in character data must be written as a character reference *)
(*       (XML 1.0 2.11: a literal CR, CR LF is normalised to LF by every   *)
(*       XML processor); the implementation writes it literally, so the    *)
(*       document carries LF where the value has CR / CR LF.               *)
(*   DevXerNanAsText (xer.Real.encode) NOT-A-NUMBER is written as the      *)
(*       character data "nanE0" instead of <NOT-A-NUMBER/>.                *)
(***************************************************************************)
EXTENDS TextCommon

XE(tag, kids) == [tag |-> tag, f |-> "e", kids |-> kids, text |-> <<>>, fl |-> NoFl]
XT(tag, text) == [tag |-> tag, f |-> "t", kids |-> <<>>, text |-> text, fl |-> NoFl]
XR(tag, x) == [tag |-> tag, f |-> "r", kids |-> <<>>, text |-> <<>>, fl |-> x]
XEmpty(tag) == XE(tag, <<>>)

XerDevs == <<"DevXerRecursiveItemDelimited", "DevXerCrUnescaped", "DevXerNanAsText">>
XerBenign == {"DevXerRecursiveItemDelimited"}

------------------------------------------------------------------------------
(* names                                                                    *)

\* X.680 Table 5 / X.693 8.x: the element name of an unnamed value of a
\* built-in type (white space in the type name replaced by "_"), of a
\* referenced type its type reference name
XerTypeName(T) ==
  CASE T.k = "REF" -> T.name
    [] T.k = "BOOL" -> "BOOLEAN" [] T.k = "NULL" -> "NULL" [] T.k = "INT" -> "INTEGER"
    [] T.k = "ENUM" -> "ENUMERATED" [] T.k = "REAL" -> "REAL" [] T.k = "BITS" -> "BIT_STRING"
    [] T.k = "OCTS" -> "OCTET_STRING" [] T.k = "OID" -> "OBJECT_IDENTIFIER"
    [] T.k = "SEQ" -> "SEQUENCE" [] T.k = "SET" -> "SET" [] T.k = "CHOICE" -> "CHOICE"
    [] T.k = "SEQOF" -> "SEQUENCE_OF" [] T.k = "SETOF" -> "SET_OF"
    [] T.k = "STR" ->
         (CASE T.st = "IA5" -> "IA5String" [] T.st = "Visible" -> "VisibleString"
            [] T.st = "Numeric" -> "NumericString" [] T.st = "Printable" -> "PrintableString"
            [] T.st = "UTF8" -> "UTF8String" [] T.st = "BMP" -> "BMPString"
            [] T.st = "Universal" -> "UniversalString" [] T.st = "General" -> "GeneralString"
            [] T.st = "Graphic" -> "GraphicString" [] T.st = "Teletex" -> "TeletexString"
            [] T.st = "ObjectDescriptor" -> "ObjectDescriptor")

XInBt(name, bt) == \E i \in 1..Len(bt) : bt[i] = name

\* Follow the references from T.  bt is the backtrace: the type names that are
\* being expanded (outermost first); a reference to a name on the backtrace is a
\* *recursive* reference.  Result: t = the type behind the references, bt =
\* the backtrace for its components, rec = a recursive reference was crossed.
\* (The implementation resolves a recursive reference to the type as compiled on
\* its own, i.e. with the backtrace <<that name>>.)
RECURSIVE XChaseFrom(_, _, _, _)
XChaseFrom(env, T, bt, rec) ==
  IF T.k # "REF" THEN [t |-> T, bt |-> bt, rec |-> rec]
  ELSE IF XInBt(T.name, bt) THEN XChaseFrom(env, env.types[T.name], <<T.name>>, TRUE)
  ELSE XChaseFrom(env, env.types[T.name], Append(bt, T.name), rec)

XChase(env, T, bt) == XChaseFrom(env, T, bt, FALSE)

------------------------------------------------------------------------------
(* character data                                                           *)

\* what an XML processor reads back from the character data written for the
\* string v: v itself (markup characters escaped, CR as a character
\* reference); under DevXerCrUnescaped the line-end normalised string
XerChars(v, S) ==
  IF "DevXerCrUnescaped" \notin S THEN v
  ELSE LET keep == SelectSeq([i \in 1..Len(v) |-> i],
                             LAMBDA i : ~(v[i] = 13 /\ i < Len(v) /\ v[i + 1] = 10))
       IN [h \in 1..Len(keep) |-> IF v[keep[h]] = 13 THEN 10 ELSE v[keep[h]]]

\* X.693 / X.680 21: REAL.  PLUS-INFINITY, MINUS-INFINITY, NOT-A-NUMBER are
\* empty elements; every other value (zero and minus zero included) is a
\* realnumber, optionally signed, denoting exactly that value
XerReal(nm, v, S) ==
  CASE v.c = "PINF" -> XE(nm, <<XEmpty("PLUS-INFINITY")>>)
    [] v.c = "NINF" -> XE(nm, <<XEmpty("MINUS-INFINITY")>>)
    [] v.c = "NAN" -> IF "DevXerNanAsText" \in S THEN XT(nm, StrCps("nanE0"))
                      ELSE XE(nm, <<XEmpty("NOT-A-NUMBER")>>)
    [] OTHER -> XR(nm, v)

------------------------------------------------------------------------------
(* the mapping                                                              *)

RECURSIVE XerElem(_, _, _, _, _, _), XerItem(_, _, _, _, _)

\* the element named nm holding v : T
XerElem(env, T, v, nm, bt, S) ==
  LET c == XChase(env, T, bt)
      ty == c.t
  IN
  CASE ty.k = "BOOL" -> XE(nm, <<XEmpty(IF v THEN "true" ELSE "false")>>)      \* <true/> | <false/>
    [] ty.k = "NULL" -> XEmpty(nm)
    [] ty.k = "INT" -> XT(nm, IntToDec(v))
    [] ty.k = "ENUM" -> XE(nm, <<XEmpty(v)>>)                                   \* <identifier/>
    [] ty.k = "REAL" -> XerReal(nm, v, S)
    [] ty.k = "BITS" -> IF v.n = 0 THEN XEmpty(nm) ELSE XT(nm, BitsText(v))       \* "0101"
    [] ty.k = "OCTS" -> IF v = <<>> THEN XEmpty(nm) ELSE XT(nm, HexUpper(v))
    [] ty.k = "STR" -> IF v = <<>> THEN XEmpty(nm) ELSE XT(nm, XerChars(v, S))
    [] ty.k = "OID" -> XT(nm, OidText(v))
    \* SEQUENCE / SET: one child element per present component, named by its identifier
    [] ty.k \in {"SEQ", "SET"} ->
         LET ms == AllMembers(ty)
             pres == SelectSeq([i \in 1..Len(ms) |-> i], LAMBDA i : v[ms[i].n].p)
         IN XE(nm, Force([h \in 1..Len(pres) |->
                  XerElem(env, ms[pres[h]].t, v[ms[pres[h]].n].v, ms[pres[h]].n, c.bt, S)]))
    \* CHOICE: the chosen alternative as the single child, named by its identifier
    [] ty.k = "CHOICE" ->
         LET alts == AllAlts(ty)
         IN XE(nm, <<XerElem(env, alts[MemberIndex(alts, v.a)].t, v.v, v.a, c.bt, S)>>)
    \* SEQUENCE OF / SET OF: one item per element
    [] ty.k \in {"SEQOF", "SETOF"} ->
         XE(nm, Force([i \in 1..Len(v) |-> XerItem(env, ty.e, v[i], c.bt, S)]))

\* is the item of a list of Te written in the bare form (X.680 26.5)?
XerBareItem(c, S) ==
  /\ c.t.k \in {"BOOL", "ENUM", "CHOICE"}
  /\ ~(c.rec /\ "DevXerRecursiveItemDelimited" \in S)

\* an item x of SEQUENCE OF / SET OF Te: BOOLEAN as <true/> / <false/>,
\* ENUMERATED as <identifier/>, CHOICE as the element of the chosen
\* alternative; every other type delimited by its type name (NULL: <NULL/>)
XerItem(env, Te, x, bt, S) ==
  LET c == XChase(env, Te, bt)
      ty == c.t
  IN IF ~XerBareItem(c, S) THEN XerElem(env, Te, x, XerTypeName(Te), bt, S)
     ELSE CASE ty.k = "BOOL" -> XEmpty(IF x THEN "true" ELSE "false")
            [] ty.k = "ENUM" -> XEmpty(x)
            [] ty.k = "CHOICE" ->
                 LET alts == AllAlts(ty)
                 IN XerElem(env, alts[MemberIndex(alts, x.a)].t, x.v, x.a, c.bt, S)

\* the document: the root element is named by the type reference
XerDoc(env, top, v, S) == XerElem(env, env.types[top], v, top, <<top>>, S)

------------------------------------------------------------------------------
(* does a recorded element r equal the element e of the mapping?            *)
(* strict = FALSE leaves the digits of a REAL leaf to XerRealPairs.         *)

RECURSIVE XerMatch(_, _, _)
XerMatch(e, r, strict) ==
  /\ e.tag = r.tag
  /\ IF e.f = "r"
     THEN r.f = "t" /\ (strict => (RealNumberText(r.text) /\ RealEq(e.fl, r.fl)))
     ELSE /\ e.f = r.f
          /\ e.text = r.text
          /\ Len(e.kids) = Len(r.kids)
          /\ \A i \in 1..Len(e.kids) : XerMatch(e.kids[i], r.kids[i], strict)

\* the REAL leaves of e with what was recorded in their place (for trees with
\* XerMatch(e, r, FALSE)): Seq(<<expected double, recorded node>>)
RECURSIVE XerRealPairs(_, _)
XerRealPairs(e, r) ==
  IF e.f = "r" THEN << <<e.fl, r>> >>
  ELSE Concat([i \in 1..Len(e.kids) |-> XerRealPairs(e.kids[i], r.kids[i])])

XerRealLeafOk(pair) == RealNumberText(pair[2].text) /\ RealEq(pair[1], pair[2].fl)

------------------------------------------------------------------------------
(* a type-directed reader of element trees: [ok, v, why]                    *)

XFail(why) == [ok |-> FALSE, v |-> "NULL", why |-> why]
XOk(v) == [ok |-> TRUE, v |-> v, why |-> ""]
XFirstWhy(rs) == rs[CHOOSE i \in 1..Len(rs) : ~rs[i].ok].why

XIsEmpty(n) == n.f = "e" /\ Len(n.kids) = 0
XOneEmptyKid(n) == n.f = "e" /\ Len(n.kids) = 1 /\ XIsEmpty(n.kids[1])
XSpecialReal(c) == [c |-> c, s |-> 0, m |-> <<>>, e |-> 0]

XReadReal(n) ==
  IF n.f = "r" THEN XOk(n.fl)
  ELSE IF n.f = "t"
  THEN (IF RealNumberText(n.text) /\ n.fl.c \in {"F", "Z", "NZ"} THEN XOk(n.fl)
        ELSE XFail("REAL: not a realnumber denoting a double"))
  ELSE IF XOneEmptyKid(n) /\ n.kids[1].tag = "PLUS-INFINITY" THEN XOk(XSpecialReal("PINF"))
  ELSE IF XOneEmptyKid(n) /\ n.kids[1].tag = "MINUS-INFINITY" THEN XOk(XSpecialReal("NINF"))
  ELSE IF XOneEmptyKid(n) /\ n.kids[1].tag = "NOT-A-NUMBER" THEN XOk(XSpecialReal("NAN"))
  ELSE XFail("REAL: unknown form")

RECURSIVE XerRead(_, _, _, _, _, _), XerReadItem(_, _, _, _, _)

XerRead(env, T, n, nm, bt, S) ==
  LET c == XChase(env, T, bt)
      ty == c.t
  IN
  IF n.tag # nm THEN XFail("element name")
  ELSE IF n.f \notin {"e", "t", "r"} THEN XFail("mixed content")
  ELSE
  CASE ty.k = "BOOL" ->
         IF XOneEmptyKid(n) /\ n.kids[1].tag \in {"true", "false"} THEN XOk(n.kids[1].tag = "true")
         ELSE XFail("BOOLEAN: expected <true/> or <false/>")
    [] ty.k = "NULL" -> IF XIsEmpty(n) THEN XOk("NULL") ELSE XFail("NULL: expected an empty element")
    [] ty.k = "INT" ->
         IF n.f # "t" THEN XFail("INTEGER: expected digits")
         ELSE LET d == DecToInt(n.text) IN IF d.ok THEN XOk(d.v) ELSE XFail("INTEGER: expected digits")
    [] ty.k = "ENUM" ->
         IF XOneEmptyKid(n) /\ HasMember(AllAlts(ty), n.kids[1].tag) THEN XOk(n.kids[1].tag)
         ELSE XFail("ENUMERATED: expected <identifier/>")
    [] ty.k = "REAL" -> XReadReal(n)
    [] ty.k = "BITS" ->
         IF XIsEmpty(n) THEN XOk([n |-> 0, b |-> <<>>])
         ELSE IF n.f # "t" THEN XFail("BIT STRING: expected binary digits")
         ELSE LET b == BitsFromText(n.text) IN IF b.ok THEN XOk(b.v) ELSE XFail("BIT STRING: expected binary digits")
    [] ty.k = "OCTS" ->
         IF XIsEmpty(n) THEN XOk(<<>>)
         ELSE IF n.f # "t" THEN XFail("OCTET STRING: expected hexadecimal digits")
         ELSE LET h == HexToOctets(n.text) IN IF h.ok THEN XOk(h.v) ELSE XFail("OCTET STRING: expected hexadecimal digits")
    [] ty.k = "STR" ->
         IF XIsEmpty(n) THEN XOk(<<>>) ELSE IF n.f = "t" THEN XOk(n.text) ELSE XFail("string: expected character data")
    [] ty.k = "OID" ->
         IF n.f # "t" THEN XFail("OBJECT IDENTIFIER: expected character data")
         ELSE LET o == OidFromText(n.text) IN IF o.ok THEN XOk(o.v) ELSE XFail("OBJECT IDENTIFIER: bad form")
    [] ty.k \in {"SEQ", "SET"} ->
         IF n.f # "e" THEN XFail("SEQUENCE: expected element content")
         ELSE LET ms == AllMembers(ty)
                  at(name) == SelectSeq([h \in 1..Len(n.kids) |-> h], LAMBDA h : n.kids[h].tag = name)
                  known == \A h \in 1..Len(n.kids) : HasMember(ms, n.kids[h].tag)
                  uniq == \A i \in 1..Len(ms) : Len(at(ms[i].n)) <= 1
                  \* SEQUENCE: components in the order of the definition
                  order == ty.k = "SET" \/ \A g, h \in 1..Len(n.kids) :
                             g < h => MemberIndex(ms, n.kids[g].tag) < MemberIndex(ms, n.kids[h].tag)
                  mand == \A i \in 1..Len(ms) : (ms[i].q = "M" /\ i <= Len(ty.root)) => at(ms[i].n) # <<>>
                  rs == Force([i \in 1..Len(ms) |->
                          IF at(ms[i].n) = <<>> THEN XOk("NULL")
                          ELSE XerRead(env, ms[i].t, n.kids[at(ms[i].n)[1]], ms[i].n, c.bt, S)])
              IN IF ~known THEN XFail("SEQUENCE: unknown component")
                 ELSE IF ~(uniq /\ order /\ mand) THEN XFail("SEQUENCE: repeated, misplaced or missing component")
                 ELSE IF \E i \in 1..Len(rs) : ~rs[i].ok THEN XFail(XFirstWhy(rs))
                 ELSE XOk([name \in {ms[i].n : i \in 1..Len(ms)} |->
                             LET i == MemberIndex(ms, name)
                             IN IF at(name) = <<>> THEN Absent ELSE Present(rs[i].v)])
    [] ty.k = "CHOICE" ->
         LET alts == AllAlts(ty) IN
         IF n.f # "e" \/ Len(n.kids) # 1 THEN XFail("CHOICE: expected one child element")
         ELSE IF ~HasMember(alts, n.kids[1].tag) THEN XFail("CHOICE: unknown alternative")
         ELSE LET r == XerRead(env, alts[MemberIndex(alts, n.kids[1].tag)].t, n.kids[1], n.kids[1].tag, c.bt, S)
              IN IF r.ok THEN XOk([a |-> n.kids[1].tag, v |-> r.v]) ELSE r
    [] ty.k \in {"SEQOF", "SETOF"} ->
         IF n.f # "e" THEN XFail("SEQUENCE OF: expected element content")
         ELSE LET rs == Force([i \in 1..Len(n.kids) |-> XerReadItem(env, ty.e, n.kids[i], c.bt, S)])
              IN IF \E i \in 1..Len(rs) : ~rs[i].ok THEN XFail(XFirstWhy(rs))
                 ELSE XOk([i \in 1..Len(rs) |-> rs[i].v])

XerReadItem(env, Te, n, bt, S) ==
  LET c == XChase(env, Te, bt)
      ty == c.t
  IN IF ~XerBareItem(c, S) THEN XerRead(env, Te, n, XerTypeName(Te), bt, S)
     ELSE CASE ty.k = "BOOL" ->
                 IF XIsEmpty(n) /\ n.tag \in {"true", "false"} THEN XOk(n.tag = "true")
                 ELSE XFail("BOOLEAN item: expected <true/> or <false/>")
            [] ty.k = "ENUM" ->
                 IF XIsEmpty(n) /\ HasMember(AllAlts(ty), n.tag) THEN XOk(n.tag)
                 ELSE XFail("ENUMERATED item: expected <identifier/>")
            [] ty.k = "CHOICE" ->
                 LET alts == AllAlts(ty) IN
                 IF ~HasMember(alts, n.tag) THEN XFail("CHOICE item: unknown alternative")
                 ELSE LET r == XerRead(env, alts[MemberIndex(alts, n.tag)].t, n, n.tag, c.bt, S)
                      IN IF r.ok THEN XOk([a |-> n.tag, v |-> r.v]) ELSE r

XerReadDoc(env, top, n, S) == XerRead(env, env.types[top], n, top, <<top>>, S)

\* every character of every string in v : T is an XML 1.0 Char
XerRepresentable(env, T, v) ==
  ~TxAnyLeaf(env, T, v, LAMBDA t, x : t.k = "STR" /\ \E i \in 1..Len(x) : ~XmlChar(x[i]))

=============================================================================
