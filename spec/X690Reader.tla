------------------------------ MODULE X690Reader ----------------------------
(***************************************************************************)
(* The BER framing reader as an explicit transition system (C08, C16):     *)
(* state <<rBuf, rPos, rStack, rStatus, rSteps>>, one action per primitive  *)
(* read.  rStack holds one frame per open constructed encoding: the index   *)
(* of its last content octet, or -1 for the indefinite form.               *)
(*                                                                         *)
(* Checked by TLC for ALL octet strings up to MaxLen over Alphabet:        *)
(*   Progress  - every action strictly decreases the variant               *)
(*               2 * (remaining octets) + (open frames)                    *)
(*   StepBound - hence rSteps <= 2 * Len(rBuf) + 2                         *)
(*   Agreement - the machine accepts exactly the strings the recursive     *)
(*               parser X690!ParseTlv accepts (two formulations of 8.1)    *)
(***************************************************************************)
EXTENDS X690, TLC, Json, IOUtils

CONSTANTS Alphabet,   \* sequence of octet values
          MaxLen

\* tag / length / end-of-contents / fragment octets (cfg: Alphabet <- Alpha8)
Alpha8 == <<0, 1, 2, 48, 128, 129, 196, 255>>

VARIABLES rBuf, rPos, rStack, rStatus, rSteps, rTop
rvars == <<rBuf, rPos, rStack, rStatus, rSteps, rTop>>

RECURSIVE StringsOfLen(_)
StringsOfLen(n) == IF n = 0 THEN {<<>>} ELSE {Append(s, Alphabet[i]) : s \in StringsOfLen(n - 1), i \in 1..Len(Alphabet)}

RInit ==
  /\ \E n \in 0..MaxLen : rBuf \in StringsOfLen(n)
  /\ rPos = 1 /\ rStack = <<>> /\ rStatus = "run" /\ rSteps = 0 /\ rTop = 0

Limit == IF rStack = <<>> THEN Len(rBuf)
         ELSE IF rStack[Len(rStack)] = -1
              THEN \* nearest enclosing definite frame bounds an indefinite one
                   LET defs == SelectSeq(rStack, LAMBDA e : e # -1)
                   IN IF defs = <<>> THEN Len(rBuf) ELSE defs[Len(defs)]
              ELSE rStack[Len(rStack)]

Step(status) == /\ rStatus' = status /\ rSteps' = rSteps + 1

Finish ==
  /\ rStatus = "run" /\ rStack = <<>> /\ rPos = Len(rBuf) + 1 /\ rTop = 1
  /\ Step("done") /\ UNCHANGED <<rBuf, rPos, rStack, rTop>>

PopDefinite ==
  /\ rStatus = "run" /\ rStack # <<>> /\ rStack[Len(rStack)] # -1 /\ rPos = rStack[Len(rStack)] + 1
  /\ rStack' = SubSeq(rStack, 1, Len(rStack) - 1)
  /\ Step("run") /\ UNCHANGED <<rBuf, rPos, rTop>>

AtEOC == rPos + 1 <= Limit /\ rBuf[rPos] = 0 /\ rBuf[rPos + 1] = 0

MatchEOC ==
  /\ rStatus = "run" /\ rStack # <<>> /\ rStack[Len(rStack)] = -1 /\ AtEOC
  /\ rPos' = rPos + 2
  /\ rStack' = SubSeq(rStack, 1, Len(rStack) - 1)
  /\ Step("run") /\ UNCHANGED <<rBuf, rTop>>

CanRead ==
  /\ rStatus = "run"
  /\ ~(rStack # <<>> /\ rStack[Len(rStack)] # -1 /\ rPos = rStack[Len(rStack)] + 1)
  /\ ~(rStack # <<>> /\ rStack[Len(rStack)] = -1 /\ AtEOC)
  /\ ~(rStack = <<>> /\ rTop = 1)

ReadHeader ==
  /\ CanRead
  /\ LET id == ParseIdentifier(rBuf, rPos, Limit) IN
     IF ~id.ok THEN Step("fail") /\ UNCHANGED <<rBuf, rPos, rStack, rTop>>
     ELSE LET ln == ParseLength(rBuf, id.nx, Limit) IN
     IF ~ln.ok THEN Step("fail") /\ UNCHANGED <<rBuf, rPos, rStack, rTop>>
     ELSE IF ln.len >= 0 /\ ln.nx + ln.len - 1 > Limit THEN Step("fail") /\ UNCHANGED <<rBuf, rPos, rStack, rTop>>
     ELSE IF ln.len < 0 /\ ~id.cons THEN Step("fail") /\ UNCHANGED <<rBuf, rPos, rStack, rTop>>
     ELSE /\ Step("run")
          /\ rTop' = IF rStack = <<>> THEN 1 ELSE rTop
          /\ UNCHANGED rBuf
          /\ IF ~id.cons THEN rPos' = ln.nx + ln.len /\ UNCHANGED rStack                    \* ReadPrimitive
             ELSE IF ln.len >= 0 THEN rPos' = ln.nx /\ rStack' = Append(rStack, ln.nx + ln.len - 1)   \* EnterConstructed
             ELSE rPos' = ln.nx /\ rStack' = Append(rStack, -1)                              \* EnterIndefinite

\* trailing octets after the outermost TLV
FailTrailing ==
  /\ rStatus = "run" /\ rStack = <<>> /\ rTop = 1 /\ rPos <= Len(rBuf)
  /\ Step("fail") /\ UNCHANGED <<rBuf, rPos, rStack, rTop>>

RNext == Finish \/ PopDefinite \/ MatchEOC \/ ReadHeader \/ FailTrailing
RSpec == RInit /\ [][RNext]_rvars

Variant == (2 * (Len(rBuf) + 1 - rPos)) + Len(rStack) + (IF rStatus = "run" THEN 1 ELSE 0)

Progress == [][Variant' < Variant]_rvars
StepBound == rSteps <= (2 * Len(rBuf)) + 2
Agreement == (rStatus # "run") => ((rStatus = "done") <=> ParseTlv(rBuf).ok)
NoStuck == (rStatus = "run") => ENABLED RNext

REmit ==
  (rSteps = 0) =>
    Serialize(ToJson([bytes |-> rBuf]) \o "\n", IOEnv.OUT_FILE,
              [format |-> "TXT", charset |-> "UTF-8", openOptions |-> <<"WRITE", "CREATE", "APPEND">>]).exitValue = 0
=============================================================================
